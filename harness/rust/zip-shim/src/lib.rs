//! Minimal stand-in for the `zip` 0.6 crate (API subset used by sc62015-core/src/snapshot.rs).
//! Writes/reads ordinary PKZIP archives (stored or deflate), interoperable with Python's zipfile.
use std::io::{self, Cursor, Read, Seek, SeekFrom, Write};

#[derive(Clone, Copy, Debug, PartialEq, Eq)]
pub enum CompressionMethod {
    Stored,
    Deflated,
}

pub mod result {
    use std::fmt;
    use std::io;
    #[derive(Debug)]
    pub enum ZipError {
        Io(io::Error),
        InvalidArchive(&'static str),
        UnsupportedArchive(&'static str),
        FileNotFound,
    }
    impl fmt::Display for ZipError {
        fn fmt(&self, f: &mut fmt::Formatter<'_>) -> fmt::Result {
            match self {
                ZipError::Io(e) => write!(f, "{e}"),
                ZipError::InvalidArchive(s) => write!(f, "invalid Zip archive: {s}"),
                ZipError::UnsupportedArchive(s) => write!(f, "unsupported Zip archive: {s}"),
                ZipError::FileNotFound => write!(f, "specified file not found in archive"),
            }
        }
    }
    impl std::error::Error for ZipError {}
    impl From<io::Error> for ZipError {
        fn from(e: io::Error) -> Self {
            ZipError::Io(e)
        }
    }
    pub type ZipResult<T> = Result<T, ZipError>;
}
use result::{ZipError, ZipResult};

pub mod write {
    use super::CompressionMethod;
    #[derive(Clone, Copy, Debug)]
    pub struct FileOptions {
        pub(crate) method: CompressionMethod,
    }
    impl Default for FileOptions {
        fn default() -> Self {
            FileOptions { method: CompressionMethod::Deflated }
        }
    }
    impl FileOptions {
        pub fn compression_method(mut self, m: CompressionMethod) -> Self {
            self.method = m;
            self
        }
    }
    pub use super::ZipWriter;
}

struct Entry {
    name: String,
    method: u16,
    crc: u32,
    csize: u32,
    usize_: u32,
    offset: u32,
}

pub struct ZipWriter<W: Write + Seek> {
    inner: Option<W>,
    entries: Vec<Entry>,
    cur: Option<(String, CompressionMethod, Vec<u8>)>,
    pos: u32,
}

impl<W: Write + Seek> ZipWriter<W> {
    pub fn new(inner: W) -> Self {
        ZipWriter { inner: Some(inner), entries: Vec::new(), cur: None, pos: 0 }
    }

    fn flush_current(&mut self) -> ZipResult<()> {
        if let Some((name, method, data)) = self.cur.take() {
            let crc = crc32fast::hash(&data);
            let (mcode, payload) = match method {
                CompressionMethod::Stored => (0u16, data.clone()),
                CompressionMethod::Deflated => (8u16, miniz_oxide::deflate::compress_to_vec(&data, 6)),
            };
            let w = self.inner.as_mut().ok_or(ZipError::InvalidArchive("writer finished"))?;
            let offset = self.pos;
            let mut hdr = Vec::with_capacity(30 + name.len());
            hdr.extend_from_slice(&0x04034b50u32.to_le_bytes());
            hdr.extend_from_slice(&20u16.to_le_bytes());
            hdr.extend_from_slice(&0u16.to_le_bytes());
            hdr.extend_from_slice(&mcode.to_le_bytes());
            hdr.extend_from_slice(&0u16.to_le_bytes()); // time
            hdr.extend_from_slice(&0x21u16.to_le_bytes()); // date 1980-01-01
            hdr.extend_from_slice(&crc.to_le_bytes());
            hdr.extend_from_slice(&(payload.len() as u32).to_le_bytes());
            hdr.extend_from_slice(&(data.len() as u32).to_le_bytes());
            hdr.extend_from_slice(&(name.len() as u16).to_le_bytes());
            hdr.extend_from_slice(&0u16.to_le_bytes());
            hdr.extend_from_slice(name.as_bytes());
            w.write_all(&hdr)?;
            w.write_all(&payload)?;
            self.pos += (hdr.len() + payload.len()) as u32;
            self.entries.push(Entry {
                name,
                method: mcode,
                crc,
                csize: payload.len() as u32,
                usize_: data.len() as u32,
                offset,
            });
        }
        Ok(())
    }

    pub fn start_file<S: Into<String>>(&mut self, name: S, options: write::FileOptions) -> ZipResult<()> {
        self.flush_current()?;
        self.cur = Some((name.into(), options.method, Vec::new()));
        Ok(())
    }

    pub fn finish(&mut self) -> ZipResult<W> {
        self.flush_current()?;
        let cd_start = self.pos;
        let mut cd = Vec::new();
        for e in &self.entries {
            cd.extend_from_slice(&0x02014b50u32.to_le_bytes());
            cd.extend_from_slice(&20u16.to_le_bytes()); // version made by
            cd.extend_from_slice(&20u16.to_le_bytes()); // version needed
            cd.extend_from_slice(&0u16.to_le_bytes());
            cd.extend_from_slice(&e.method.to_le_bytes());
            cd.extend_from_slice(&0u16.to_le_bytes());
            cd.extend_from_slice(&0x21u16.to_le_bytes());
            cd.extend_from_slice(&e.crc.to_le_bytes());
            cd.extend_from_slice(&e.csize.to_le_bytes());
            cd.extend_from_slice(&e.usize_.to_le_bytes());
            cd.extend_from_slice(&(e.name.len() as u16).to_le_bytes());
            cd.extend_from_slice(&0u16.to_le_bytes()); // extra
            cd.extend_from_slice(&0u16.to_le_bytes()); // comment
            cd.extend_from_slice(&0u16.to_le_bytes()); // disk
            cd.extend_from_slice(&0u16.to_le_bytes()); // int attrs
            cd.extend_from_slice(&0u32.to_le_bytes()); // ext attrs
            cd.extend_from_slice(&e.offset.to_le_bytes());
            cd.extend_from_slice(e.name.as_bytes());
        }
        let n = self.entries.len() as u16;
        let mut eocd = Vec::new();
        eocd.extend_from_slice(&0x06054b50u32.to_le_bytes());
        eocd.extend_from_slice(&0u16.to_le_bytes());
        eocd.extend_from_slice(&0u16.to_le_bytes());
        eocd.extend_from_slice(&n.to_le_bytes());
        eocd.extend_from_slice(&n.to_le_bytes());
        eocd.extend_from_slice(&(cd.len() as u32).to_le_bytes());
        eocd.extend_from_slice(&cd_start.to_le_bytes());
        eocd.extend_from_slice(&0u16.to_le_bytes());
        let mut w = self.inner.take().ok_or(ZipError::InvalidArchive("writer finished"))?;
        w.write_all(&cd)?;
        w.write_all(&eocd)?;
        w.flush()?;
        Ok(w)
    }
}

impl<W: Write + Seek> Write for ZipWriter<W> {
    fn write(&mut self, buf: &[u8]) -> io::Result<usize> {
        match self.cur.as_mut() {
            Some((_, _, data)) => {
                data.extend_from_slice(buf);
                Ok(buf.len())
            }
            None => Err(io::Error::new(io::ErrorKind::Other, "No file has been started")),
        }
    }
    fn flush(&mut self) -> io::Result<()> {
        Ok(())
    }
}

pub mod read {
    pub use super::{ZipArchive, ZipFile};
}

struct CdEntry {
    name: String,
    method: u16,
    csize: usize,
    usize_: usize,
    offset: usize,
    crc: u32,
}

pub struct ZipArchive<R> {
    _reader: R,
    data: Vec<u8>,
    entries: Vec<CdEntry>,
}

pub struct ZipFile<'a> {
    cur: Cursor<Vec<u8>>,
    _marker: std::marker::PhantomData<&'a ()>,
}

impl<'a> Read for ZipFile<'a> {
    fn read(&mut self, buf: &mut [u8]) -> io::Result<usize> {
        self.cur.read(buf)
    }
}

impl<'a> ZipFile<'a> {
    pub fn size(&self) -> u64 {
        self.cur.get_ref().len() as u64
    }
}

fn u16_at(d: &[u8], o: usize) -> usize {
    u16::from_le_bytes([d[o], d[o + 1]]) as usize
}
fn u32_at(d: &[u8], o: usize) -> usize {
    u32::from_le_bytes([d[o], d[o + 1], d[o + 2], d[o + 3]]) as usize
}

impl<R: Read + Seek> ZipArchive<R> {
    pub fn new(mut reader: R) -> ZipResult<Self> {
        let mut data = Vec::new();
        reader.seek(SeekFrom::Start(0))?;
        reader.read_to_end(&mut data)?;
        if data.len() < 22 {
            return Err(ZipError::InvalidArchive("Invalid zip header"));
        }
        let mut eocd = None;
        let mut i = data.len() - 22;
        loop {
            if &data[i..i + 4] == b"PK\x05\x06" {
                eocd = Some(i);
                break;
            }
            if i == 0 {
                break;
            }
            i -= 1;
        }
        let eocd = eocd.ok_or(ZipError::InvalidArchive("Could not find central directory end"))?;
        let n = u16_at(&data, eocd + 10);
        let cd_off = u32_at(&data, eocd + 16);
        let mut entries = Vec::new();
        let mut p = cd_off;
        for _ in 0..n {
            if p + 46 > data.len() || &data[p..p + 4] != b"PK\x01\x02" {
                return Err(ZipError::InvalidArchive("Invalid Central Directory header"));
            }
            let method = u16_at(&data, p + 10) as u16;
            let crc = u32_at(&data, p + 16) as u32;
            let csize = u32_at(&data, p + 20);
            let usize_ = u32_at(&data, p + 24);
            let nlen = u16_at(&data, p + 28);
            let elen = u16_at(&data, p + 30);
            let clen = u16_at(&data, p + 32);
            let offset = u32_at(&data, p + 42);
            if p + 46 + nlen > data.len() {
                return Err(ZipError::InvalidArchive("Truncated central directory"));
            }
            let name = String::from_utf8_lossy(&data[p + 46..p + 46 + nlen]).to_string();
            entries.push(CdEntry { name, method, csize, usize_, offset, crc });
            p += 46 + nlen + elen + clen;
        }
        Ok(ZipArchive { _reader: reader, data, entries })
    }

    pub fn len(&self) -> usize {
        self.entries.len()
    }

    pub fn is_empty(&self) -> bool {
        self.entries.is_empty()
    }

    pub fn by_name(&mut self, name: &str) -> ZipResult<ZipFile<'_>> {
        let e = self.entries.iter().find(|e| e.name == name).ok_or(ZipError::FileNotFound)?;
        let d = &self.data;
        let o = e.offset;
        if o + 30 > d.len() || &d[o..o + 4] != b"PK\x03\x04" {
            return Err(ZipError::InvalidArchive("Invalid local file header"));
        }
        let nlen = u16_at(d, o + 26);
        let elen = u16_at(d, o + 28);
        let start = o + 30 + nlen + elen;
        if start + e.csize > d.len() {
            return Err(ZipError::InvalidArchive("Truncated file data"));
        }
        let raw = &d[start..start + e.csize];
        let out = match e.method {
            0 => raw.to_vec(),
            8 => miniz_oxide::inflate::decompress_to_vec(raw)
                .map_err(|_| ZipError::InvalidArchive("deflate stream corrupt"))?,
            _ => return Err(ZipError::UnsupportedArchive("Compression method not supported")),
        };
        if out.len() != e.usize_ || crc32fast::hash(&out) != e.crc {
            return Err(ZipError::InvalidArchive("Invalid checksum"));
        }
        Ok(ZipFile { cur: Cursor::new(out), _marker: std::marker::PhantomData })
    }
}
