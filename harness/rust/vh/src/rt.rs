//! CoreRuntime objects by name: program loading, register/IMEM pokes, events, stepping, full projection.
use sc62015_core::llama::opcodes::RegName;
use sc62015_core::timer::TimerContext;
use sc62015_core::{collect_registers, CoreRuntime};
use serde_json::{json, Value};
use std::collections::HashMap;

#[derive(Default)]
pub struct RtCtx {
    pub rts: HashMap<String, CoreRuntime>,
}

pub fn bytes_of(v: &Value) -> Result<Vec<u8>, String> {
    Ok(v.as_array().ok_or("bytes")?.iter().map(|x| x.as_u64().unwrap_or(0) as u8).collect())
}

pub fn fnv(data: &[u8]) -> u64 {
    let mut h: u64 = 0xcbf29ce484222325;
    for b in data {
        h ^= *b as u64;
        h = h.wrapping_mul(0x100000001b3);
    }
    h
}

/// Full observable projection of a CoreRuntime.
pub fn dump(rt: &CoreRuntime, ranges: &[(u32, u32)]) -> Value {
    let regs = collect_registers(&rt.state);
    let mut r = serde_json::Map::new();
    let mut keys: Vec<_> = regs.keys().cloned().collect();
    keys.sort();
    for k in keys {
        if !k.starts_with("TEMP") {
            r.insert(k.clone(), json!(regs[&k]));
        }
    }
    r.insert("IMR_reg".to_string(), json!(rt.state.get_reg(RegName::IMR)));
    let imem: Vec<u8> = rt.memory.internal_slice().to_vec();
    let ext = rt.memory.external_slice();
    let mut mem = serde_json::Map::new();
    for (start, len) in ranges {
        let s = *start as usize;
        let e = (s + *len as usize).min(ext.len());
        if s < e {
            mem.insert(format!("{start}"), json!(ext[s..e].to_vec()));
        }
    }
    let lcd_hash = rt.lcd.as_ref().map(|l| {
        let (_, payload) = l.export_snapshot();
        fnv(&payload)
    });
    let t: &TimerContext = &rt.timer;
    json!({
        "regs": Value::Object(r),
        "imem": imem,
        "power": format!("{:?}", rt.state.power_state()),
        "halted": rt.state.is_halted(),
        "off": rt.state.is_off(),
        "instr": rt.instruction_count(),
        "cycles": rt.cycle_count(),
        "ext_hash": format!("{:016x}", fnv(ext)),
        "mem": Value::Object(mem),
        "lcd_hash": lcd_hash.map(|h| format!("{h:016x}")),
        "timer": {
            "enabled": t.enabled, "pm": t.mti_period, "ps": t.sti_period, "next_mti": t.next_mti, "next_sti": t.next_sti,
            "irq_pending": t.irq_pending, "irq_source": t.irq_source, "in_interrupt": t.in_interrupt,
            "key_irq_latched": t.key_irq_latched, "irq_total": t.irq_total, "irq_key": t.irq_key, "irq_mti": t.irq_mti,
            "irq_sti": t.irq_sti, "delivered_masks": t.delivered_masks, "kb_irq_enabled": t.kb_irq_enabled,
            "interrupt_stack": t.interrupt_stack,
        },
        "kb_fifo": rt.keyboard.as_ref().map(|k| k.fifo_len()),
        "call_depth": rt.state.call_depth(),
    })
}

pub fn obs(rt: &CoreRuntime) -> Value {
    let t: &TimerContext = &rt.timer;
    let live_m = t.enabled && t.mti_period > 0;
    let live_s = t.enabled && t.sti_period > 0;
    let pw = if rt.state.is_off() { "off" } else if rt.state.is_halted() { "halt" } else { "run" };
    json!({
        "pc": rt.state.get_reg(RegName::PC), "s": rt.state.get_reg(RegName::S), "f": rt.state.get_reg(RegName::F),
        "ba": rt.state.get_reg(RegName::BA), "i": rt.state.get_reg(RegName::I),
        "imr": rt.memory.read_internal_byte_silent(0xFB).unwrap_or(0), "isr": rt.memory.read_internal_byte_silent(0xFC).unwrap_or(0),
        "pw": pw, "inint": if t.in_interrupt { 1 } else { 0 }, "pend": if t.irq_pending { 1 } else { 0 },
        "tot": t.irq_total, "instr": rt.instruction_count(), "cyc": rt.cycle_count(),
        "src": match t.last_irq_src.as_deref() { Some("MTI") => 0, Some("STI") => 1, Some("KEY") => 2, Some("ONK") => 3, _ => -1 },
        "nm": if live_m { t.next_mti } else { 0 }, "ns": if live_s { t.next_sti } else { 0 },
        // the keyboard as the firmware sees it (MachineKbd.tla): queued event bytes, oldest first, and the key-interrupt latch
        "kf": rt.keyboard.as_ref().map(|k| k.fifo_snapshot()).unwrap_or_default(), "kl": if t.key_irq_latched { 1 } else { 0 },
    })
}

pub fn ranges_of(req: &Value) -> Vec<(u32, u32)> {
    req.get("ranges")
        .and_then(|r| r.as_array())
        .map(|a| {
            a.iter()
                .filter_map(|p| Some((p.get(0)?.as_u64()? as u32, p.get(1)?.as_u64()? as u32)))
                .collect()
        })
        .unwrap_or_default()
}

/// Apply a JSON configuration to a fresh runtime: {"loads":[[addr,[bytes]]], "regs":{..}, "imem":[[off,val]],
/// "timer":{"enabled","pm","ps"}, "rom_overlays":[[start,[bytes]]]}
pub fn configure(rt: &mut CoreRuntime, cfg: &Value) -> Result<(), String> {
    if let Some(loads) = cfg.get("loads").and_then(|l| l.as_array()) {
        for l in loads {
            let addr = l[0].as_u64().ok_or("load addr")? as usize;
            let bytes = bytes_of(&l[1])?;
            rt.load_rom(&bytes, addr);
        }
    }
    if let Some(ovs) = cfg.get("rom_overlays").and_then(|l| l.as_array()) {
        for (i, l) in ovs.iter().enumerate() {
            let addr = l[0].as_u64().ok_or("overlay addr")? as u32;
            let bytes = bytes_of(&l[1])?;
            rt.add_rom_overlay(addr, &bytes, &format!("rom{i}"));
        }
    }
    if let Some(t) = cfg.get("timer") {
        let en = t["enabled"].as_bool().unwrap_or(false);
        let pm = t["pm"].as_i64().unwrap_or(0) as i32;
        let ps = t["ps"].as_i64().unwrap_or(0) as i32;
        *rt.timer = TimerContext::new(en, pm, ps);
        rt.timer.reset(rt.cycle_count());
        if let Some(k) = t.get("kb_irq_enabled").and_then(|k| k.as_bool()) {
            rt.timer.set_keyboard_irq_enabled(k);
        }
    }
    if let Some(im) = cfg.get("imem").and_then(|l| l.as_array()) {
        for p in im {
            rt.memory.write_internal_byte(p[0].as_u64().ok_or("imem off")? as u32, p[1].as_u64().ok_or("imem val")? as u8);
        }
    }
    if let Some(regs) = cfg.get("regs").and_then(|r| r.as_object()) {
        for (k, v) in regs {
            let val = v.as_u64().ok_or("reg val")? as u32;
            match k.as_str() {
                "FC" | "FZ" => rt.set_flag(k, val as u8),
                _ => rt.set_reg(k, val),
            }
        }
    }
    Ok(())
}

pub fn handle(ctx: &mut RtCtx, cmd: &str, req: &Value) -> Result<Value, String> {
    let name = req.get("name").and_then(|n| n.as_str()).unwrap_or("main").to_string();
    match cmd {
        "rt.new" => {
            let mut rt = CoreRuntime::new();
            if let Some(cfg) = req.get("cfg") {
                configure(&mut rt, cfg)?;
            }
            ctx.rts.insert(name, rt);
            Ok(json!({}))
        }
        "rt.configure" => {
            let rt = ctx.rts.get_mut(&name).ok_or("no rt")?;
            configure(rt, req.get("cfg").ok_or("cfg")?)?;
            Ok(json!({}))
        }
        "rt.step" => {
            let rt = ctx.rts.get_mut(&name).ok_or("no rt")?;
            let n = req["n"].as_u64().unwrap_or(1) as usize;
            let r = rt.step(n);
            Ok(json!({"err": r.err().map(|e| e.to_string())}))
        }
        "rt.dump" => {
            let rt = ctx.rts.get(&name).ok_or("no rt")?;
            Ok(dump(rt, &ranges_of(req)))
        }
        "rt.press_on" => {
            ctx.rts.get_mut(&name).ok_or("no rt")?.press_on_key();
            Ok(json!({}))
        }
        "rt.release_on" => {
            ctx.rts.get_mut(&name).ok_or("no rt")?.release_on_key();
            Ok(json!({}))
        }
        // non-default debounce threshold of the runtime's matrix (the only threshold the Rust matrix lets a caller set)
        "rt.kbd_cfg" => {
            let rt = ctx.rts.get_mut(&name).ok_or("no rt")?;
            if let (Some(kb), Some(p)) = (rt.keyboard.as_mut(), req["press_th"].as_u64()) {
                kb.set_press_threshold(p as u8);
            }
            Ok(json!({}))
        }
        "rt.key" => {
            let rt = ctx.rts.get_mut(&name).ok_or("no rt")?;
            let code = req["code"].as_u64().ok_or("code")? as u8;
            let press = req["press"].as_bool().unwrap_or(true);
            if let Some(kb) = rt.keyboard.as_mut() {
                if press {
                    kb.press_matrix_code(code, &mut rt.memory);
                } else {
                    kb.release_matrix_code(code, &mut rt.memory);
                }
            }
            Ok(json!({}))
        }
        "rt.store" => {
            let rt = ctx.rts.get_mut(&name).ok_or("no rt")?;
            let addr = req["addr"].as_u64().ok_or("addr")? as u32;
            let bits = req["bits"].as_u64().unwrap_or(8) as u8;
            let value = req["value"].as_u64().ok_or("value")? as u32;
            Ok(json!({"ok": rt.memory.store(addr, bits, value).is_some()}))
        }
        "rt.load" => {
            let rt = ctx.rts.get(&name).ok_or("no rt")?;
            let addr = req["addr"].as_u64().ok_or("addr")? as u32;
            let bits = req["bits"].as_u64().unwrap_or(8) as u8;
            Ok(json!({"value": rt.memory.load(addr, bits)}))
        }
        // compact per-step observation for the machine traces (C12/C13/C16)
        "rt.obs" => {
            let rt = ctx.rts.get(&name).ok_or("no rt")?;
            Ok(obs(rt))
        }
        "rt.poke" => {
            let rt = ctx.rts.get_mut(&name).ok_or("no rt")?;
            let addr = req["addr"].as_u64().ok_or("addr")? as usize;
            let bytes = bytes_of(&req["bytes"])?;
            rt.load_rom(&bytes, addr);
            Ok(json!({}))
        }
        "rt.imem" => {
            let rt = ctx.rts.get_mut(&name).ok_or("no rt")?;
            let off = req["off"].as_u64().ok_or("off")? as u32;
            let v = req["v"].as_u64().ok_or("v")? as u8;
            rt.memory.write_internal_byte(off, v);
            Ok(json!({}))
        }
        // make timer `which` (0 = MTI, 1 = STI) expire at the next cycle
        "rt.fire" => {
            let rt = ctx.rts.get_mut(&name).ok_or("no rt")?;
            let which = req["which"].as_u64().unwrap_or(0);
            let c = rt.cycle_count();
            rt.timer.enabled = true;
            if which == 0 {
                if rt.timer.mti_period == 0 { rt.timer.mti_period = 1 << 30; }
                rt.timer.next_mti = c + 1;
            } else {
                if rt.timer.sti_period == 0 { rt.timer.sti_period = 1 << 30; }
                rt.timer.next_sti = c + 1;
            }
            Ok(json!({}))
        }
        // step once and return (pre, post, frame bytes at the new stack pointer)
        "rt.step_obs" => {
            let rt = ctx.rts.get_mut(&name).ok_or("no rt")?;
            let pre = obs(rt);
            let r = rt.step(1);
            let post = obs(rt);
            let s = rt.state.get_reg(RegName::S);
            let frame: Vec<u32> = (0..5).map(|i| rt.memory.load(s + i, 8).unwrap_or(0) & 0xFF).collect();
            Ok(json!({"pre": pre, "post": post, "frame": frame, "err": r.err().map(|e| e.to_string())}))
        }
        // C16: snapshot bundle of a runtime -> file, and file -> an existing (freshly configured) runtime
        "rt.save" => {
            let rt = ctx.rts.get(&name).ok_or("no rt")?;
            let path = req["path"].as_str().ok_or("path")?;
            let r = rt.save_snapshot(std::path::Path::new(path));
            Ok(json!({"err": r.err().map(|e| e.to_string())}))
        }
        "rt.load_snapshot" => {
            let rt = ctx.rts.get_mut(&name).ok_or("no rt")?;
            let path = req["path"].as_str().ok_or("path")?;
            let r = rt.load_snapshot(std::path::Path::new(path));
            Ok(json!({"err": r.err().map(|e| e.to_string())}))
        }
        "rt.drop" => {
            ctx.rts.remove(&name);
            Ok(json!({}))
        }
        // step once and return the compact observation plus the full projection (C16)
        "rt.step_dump" => {
            let rt = ctx.rts.get_mut(&name).ok_or("no rt")?;
            let r = rt.step(1);
            let d = dump(rt, &ranges_of(req));
            Ok(json!({"err": r.err().map(|e| e.to_string()), "dump": d, "obs": obs(rt)}))
        }
        _ => Err(format!("unknown rt cmd {cmd}")),
    }
}
