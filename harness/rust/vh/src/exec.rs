//! LlamaExecutor on a sparse recording bus: one instruction from a given architectural state (C03/C04/C05/C06/C07/C17).
use sc62015_core::llama::eval::{power_on_reset, LlamaBus, LlamaExecutor};
use sc62015_core::llama::opcodes::RegName;
use sc62015_core::llama::state::LlamaState;
use serde_json::{json, Value};
use std::collections::HashMap;

pub fn hash_byte(a: u32) -> u8 {
    ((a.wrapping_mul(73)) ^ (a >> 7) ^ 0x5A) as u8
}

/// Canonical bus address used by BOTH harness buses (see harness/py/exec_harness.py::canon).
pub fn canon(a: u32) -> u32 {
    let a = a & 0x00FF_FFFF;
    if (0x10_0000..0x10_0200).contains(&a) { 0x10_0000 + (a & 0xFF) } else { a & 0x000F_FFFF }
}

pub struct SparseBus {
    pub mem: HashMap<u32, u8>,
    pub default: u8,
    pub hashed: bool,
    pub reads: Vec<(u32, u8)>,
    pub writes: Vec<(u32, u8)>,
}

impl LlamaBus for SparseBus {
    fn load(&mut self, addr: u32, bits: u8) -> u32 {
        let bytes = bits.div_ceil(8).max(1) as u32;
        let mut out = 0u32;
        for i in 0..bytes {
            let a = canon(addr.wrapping_add(i));
            let b = match self.mem.get(&a) {
                Some(v) => *v,
                None => if self.hashed { hash_byte(a) } else { self.default },
            };
            self.reads.push((a, b));
            out |= (b as u32) << (8 * i);
        }
        out
    }
    fn store(&mut self, addr: u32, bits: u8, value: u32) {
        let bytes = bits.div_ceil(8).max(1) as u32;
        for i in 0..bytes {
            let a = canon(addr.wrapping_add(i));
            let b = ((value >> (8 * i)) & 0xFF) as u8;
            self.mem.insert(a, b);
            self.writes.push((a, b));
        }
    }
}

pub struct ExecCtx {
    pub exec: LlamaExecutor,
    pub state: LlamaState,
    pub bus: SparseBus,
}

impl Default for ExecCtx {
    fn default() -> Self {
        ExecCtx {
            exec: LlamaExecutor::new(),
            state: LlamaState::new(),
            bus: SparseBus { mem: HashMap::new(), default: 0, hashed: false, reads: Vec::new(), writes: Vec::new() },
        }
    }
}

const NAMES: [(&str, RegName); 8] = [
    ("BA", RegName::BA),
    ("I", RegName::I),
    ("X", RegName::X),
    ("Y", RegName::Y),
    ("U", RegName::U),
    ("S", RegName::S),
    ("PC", RegName::PC),
    ("F", RegName::F),
];

fn regs_out(st: &LlamaState) -> Value {
    let mut m = serde_json::Map::new();
    for (n, r) in NAMES.iter() {
        m.insert((*n).to_string(), json!(st.get_reg(*r)));
    }
    Value::Object(m)
}

fn apply_setup(ctx: &mut ExecCtx, req: &Value, fresh: bool) -> Result<(), String> {
    if fresh {
        ctx.state = LlamaState::new();
        ctx.bus.mem.clear();
    }
    // keep the executor and the (hidden) state of the core, but replace the whole memory image (C07 histories)
    if req.get("clear_mem").and_then(|c| c.as_bool()).unwrap_or(false) {
        ctx.bus.mem.clear();
    }
    ctx.bus.reads.clear();
    ctx.bus.writes.clear();
    if let Some(d) = req.get("default").and_then(|d| d.as_u64()) {
        ctx.bus.default = d as u8;
    }
    if let Some(h) = req.get("hashed").and_then(|d| d.as_bool()) {
        ctx.bus.hashed = h;
    }
    if let Some(regs) = req.get("regs").and_then(|r| r.as_object()) {
        for (k, v) in regs {
            let reg = crate::regs::reg_by_name(k).ok_or(format!("bad reg {k}"))?;
            ctx.state.set_reg(reg, v.as_u64().ok_or("reg value")? as u32);
        }
    }
    // the same flags once more, written one by one (architecturally the same state, reached through the FC / FZ aliases)
    if req.get("flagwise").and_then(|c| c.as_bool()).unwrap_or(false)
        || req.get("hidden").and_then(|h| h.get("flagwise")).and_then(|c| c.as_bool()).unwrap_or(false)
    {
        let f = ctx.state.get_reg(RegName::F);
        ctx.state.set_reg(RegName::FC, f & 1);
        ctx.state.set_reg(RegName::FZ, (f >> 1) & 1);
    }
    if let Some(mem) = req.get("mem").and_then(|m| m.as_array()) {
        for p in mem {
            ctx.bus.mem.insert(p[0].as_u64().ok_or("mem addr")? as u32, p[1].as_u64().ok_or("mem val")? as u8);
        }
    }
    if let Some(p) = req.get("power").and_then(|p| p.as_str()) {
        match p {
            "halt" => ctx.state.halt(),
            "off" => ctx.state.power_off(),
            _ => ctx.state.set_halted(false),
        }
    }
    Ok(())
}

fn step_once(ctx: &mut ExecCtx) -> Value {
    let pc = ctx.state.pc();
    ctx.bus.reads.clear();
    ctx.bus.writes.clear();
    let opcode = match ctx.bus.mem.get(&pc) {
        Some(v) => *v,
        None => if ctx.bus.hashed { hash_byte(pc) } else { ctx.bus.default },
    };
    let r = ctx.exec.execute(opcode, &mut ctx.state, &mut ctx.bus);
    let (len, err) = match r {
        Ok(l) => (l as i64, Value::Null),
        Err(e) => (-1, json!(e)),
    };
    json!({
        "len": len, "err": err, "regs": regs_out(&ctx.state),
        "power": format!("{:?}", ctx.state.power_state()).to_lowercase(),
        "writes": ctx.bus.writes.iter().map(|(a, b)| json!([a, b])).collect::<Vec<_>>(),
        "reads": ctx.bus.reads.iter().map(|(a, b)| json!([a, b])).collect::<Vec<_>>(),
        "call_depth": ctx.state.call_depth(),
    })
}

pub fn handle(ctx: &mut ExecCtx, cmd: &str, req: &Value) -> Result<Value, String> {
    match cmd {
        // fresh state + memory, then execute `n` instructions (default 1), reporting each
        "exec.run" => {
            apply_setup(ctx, req, true)?;
            // adversarial hidden state (C07): TEMP registers and call bookkeeping
            if let Some(h) = req.get("hidden") {
                if let Some(t) = h.get("temps").and_then(|t| t.as_array()) {
                    for (i, v) in t.iter().enumerate() {
                        ctx.state.set_reg(RegName::Temp(i as u8), v.as_u64().unwrap_or(0) as u32);
                    }
                }
                if let Some(p) = h.get("call_pages").and_then(|t| t.as_array()) {
                    for (i, v) in p.iter().enumerate() {
                        ctx.state.push_call_page(v.as_u64().unwrap_or(0) as u32);
                        ctx.state.call_depth_inc();
                        // open call frames of both widths (near = 16, far = 24 return bits)
                        ctx.state.push_call_frame(v.as_u64().unwrap_or(0) as u32, if i % 2 == 0 { 24 } else { 16 });
                    }
                }
            }
            let n = req.get("n").and_then(|n| n.as_u64()).unwrap_or(1);
            let mut steps = Vec::new();
            for _ in 0..n {
                let s = step_once(ctx);
                let failed = !s["err"].is_null();
                steps.push(s);
                if failed {
                    break;
                }
            }
            Ok(json!({"steps": steps}))
        }
        // continue from the current state (used for split runs / histories)
        "exec.more" => {
            apply_setup(ctx, req, false)?;
            let n = req.get("n").and_then(|n| n.as_u64()).unwrap_or(1);
            let mut steps = Vec::new();
            for _ in 0..n {
                let s = step_once(ctx);
                let failed = !s["err"].is_null();
                steps.push(s);
                if failed {
                    break;
                }
            }
            Ok(json!({"steps": steps}))
        }
        "exec.mem" => {
            let addrs = req["addrs"].as_array().ok_or("addrs")?;
            let out: Vec<Value> = addrs
                .iter()
                .map(|a| {
                    let a = a.as_u64().unwrap_or(0) as u32;
                    json!([a, match ctx.bus.mem.get(&a) { Some(v) => *v, None => if ctx.bus.hashed { hash_byte(a) } else { ctx.bus.default } }])
                })
                .collect();
            Ok(json!({"mem": out}))
        }
        "exec.power_on_reset" => {
            apply_setup(ctx, req, true)?;
            power_on_reset(&mut ctx.bus, &mut ctx.state);
            Ok(json!({"regs": regs_out(&ctx.state), "writes": ctx.bus.writes.iter().map(|(a, b)| json!([a, b])).collect::<Vec<_>>()}))
        }
        _ => Err(format!("unknown exec cmd {cmd}")),
    }
}
