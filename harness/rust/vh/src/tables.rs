//! C17: dump of the public tables/constants of the Rust core.
use sc62015_core::llama::opcodes::{RegName, OPCODES};
use sc62015_core::llama::state::mask_for;
use sc62015_core::memory as M;
use sc62015_core::{register_width, SNAPSHOT_REGISTER_LAYOUT};
use serde_json::{json, Value};

pub fn handle(cmd: &str, _req: &Value) -> Result<Value, String> {
    match cmd {
        "tables.dump" => {
            let ops: Vec<Value> = OPCODES
                .iter()
                .map(|e| {
                    json!({
                        "opcode": e.opcode, "kind": format!("{:?}", e.kind), "name": e.name, "cond": e.cond,
                        "rev": e.ops_reversed.unwrap_or(false),
                        "operands": e.operands.iter().map(|o| format!("{:?}", o)).collect::<Vec<_>>(),
                    })
                })
                .collect();
            let regs = [
                ("A", RegName::A), ("B", RegName::B), ("BA", RegName::BA), ("IL", RegName::IL), ("IH", RegName::IH), ("I", RegName::I),
                ("X", RegName::X), ("Y", RegName::Y), ("U", RegName::U), ("S", RegName::S), ("PC", RegName::PC), ("F", RegName::F),
                ("FC", RegName::FC), ("FZ", RegName::FZ), ("IMR", RegName::IMR),
            ];
            let masks: serde_json::Map<String, Value> = regs.iter().map(|(n, r)| ((*n).to_string(), json!(mask_for(*r)))).collect();
            let widths: serde_json::Map<String, Value> = regs.iter().map(|(n, _)| ((*n).to_string(), json!(register_width(n)))).collect();
            let layout: Vec<Value> = SNAPSHOT_REGISTER_LAYOUT.iter().map(|(n, w)| json!([n, w])).collect();
            // the keyboard register block as the memory image's predicates see it (behavioural copies of KOL/KOH/KIL)
            let kbd_is: Vec<u32> = (0u32..256).filter(|o| M::MemoryImage::is_keyboard_offset(*o)).collect();
            let plain = M::MemoryImage::new();
            let mut bridged = M::MemoryImage::new();
            bridged.set_keyboard_bridge(true);
            let kbd_host: Vec<u32> = (0u32..256).filter(|o| plain.requires_python(M::INTERNAL_MEMORY_START + *o)).collect();
            let kbd_bridge: Vec<u32> = (0u32..256)
                .filter(|o| plain.requires_python(M::INTERNAL_MEMORY_START + *o) != bridged.requires_python(M::INTERNAL_MEMORY_START + *o))
                .collect();
            Ok(json!({
                "kbd_is_keyboard_offset": kbd_is, "kbd_requires_host": kbd_host, "kbd_bridge_switches": kbd_bridge,
                "opcodes": ops, "mask_for": masks, "register_width": widths, "snapshot_layout": layout,
                "consts": {
                    "INTERNAL_MEMORY_START": M::INTERNAL_MEMORY_START, "ADDRESS_MASK": M::ADDRESS_MASK, "INTERNAL_ADDR_MASK": M::INTERNAL_ADDR_MASK,
                    "EXTERNAL_SPACE": M::EXTERNAL_SPACE, "INTERNAL_SPACE": M::INTERNAL_SPACE,
                    "INTERNAL_RAM_START": M::INTERNAL_RAM_START, "INTERNAL_RAM_SIZE": M::INTERNAL_RAM_SIZE,
                },
                "imem": {
                    "KOL": M::IMEM_KOL_OFFSET, "KOH": M::IMEM_KOH_OFFSET, "KIL": M::IMEM_KIL_OFFSET, "BP": M::IMEM_BP_OFFSET, "PX": M::IMEM_PX_OFFSET,
                    "PY": M::IMEM_PY_OFFSET, "UCR": M::IMEM_UCR_OFFSET, "USR": M::IMEM_USR_OFFSET, "RXD": M::IMEM_RXD_OFFSET, "TXD": M::IMEM_TXD_OFFSET,
                    "IMR": M::IMEM_IMR_OFFSET, "ISR": M::IMEM_ISR_OFFSET, "SCR": M::IMEM_SCR_OFFSET, "LCC": M::IMEM_LCC_OFFSET, "SSR": M::IMEM_SSR_OFFSET,
                },
            }))
        }
        _ => Err(format!("unknown tables cmd {cmd}")),
    }
}
