//! ext_devices / RomLoad: the device loaders of the Rust core (pce500.rs, iq7000.rs, device.rs, CoreRuntime::load_rom) on a
//! fresh CoreRuntime or a bare MemoryImage, followed by power_on_reset and byte probes (load, store, load, alias load,
//! restore).  Images are generated here from (generation g, source offset, length) with the same position-dependent formula
//! the Python driver and spec/mem/RomLoad.tla use, so that images longer than 1 MiB never cross the JSON pipe.
use sc62015_core::device::DeviceModel;
use sc62015_core::llama::opcodes::RegName;
use sc62015_core::memory::MemoryImage;
use sc62015_core::{iq7000, pce500, CoreRuntime};
use serde_json::{json, Value};

#[derive(Default)]
pub struct RomCtx {}

pub fn img_byte(g: u64, i: u64) -> u8 {
    ((i * 7 + (i >> 8) * 13 + (i >> 16) * 29 + g * 101 + 3) & 0xFF) as u8
}

fn image(g: u64, src0: u64, n: u64) -> Vec<u8> {
    (0..n).map(|k| img_byte(g, src0 + k)).collect()
}

enum Target {
    Rt(Box<CoreRuntime>),
    Mem(Box<MemoryImage>),
}

impl Target {
    fn mem(&mut self) -> &mut MemoryImage {
        match self {
            Target::Rt(rt) => &mut rt.memory,
            Target::Mem(m) => m,
        }
    }
}

fn ranges_json(m: &MemoryImage) -> Value {
    json!(m.readonly_ranges().iter().map(|(a, b)| json!([a, b])).collect::<Vec<_>>())
}

fn apply(t: &mut Target, op: &Value) -> Result<Value, String> {
    let name = op["op"].as_str().ok_or("op")?;
    let g = op["g"].as_u64().unwrap_or(0);
    let n = op["n"].as_u64().unwrap_or(0);
    let src0 = op["src0"].as_u64().unwrap_or(0);
    let start = op["start"].as_u64().unwrap_or(0);
    let mut err: Option<String> = None;
    let rt_only = matches!(name, "window" | "system" | "iq" | "configure_pce500" | "configure_jp" | "configure_iq" | "load_rom_at" | "reset");
    if rt_only {
        let Target::Rt(rt) = t else { return Err(format!("rom op {name} needs a runtime target")) };
        let blob = if name == "reset" { Vec::new() } else { image(g, src0, n) };
        let r = match name {
            "window" => pce500::load_pce500_rom_window(rt, &blob),
            "system" => pce500::load_pce500_system_image(rt, &blob),
            "iq" => iq7000::load_iq7000_rom_image(rt, &blob),
            "configure_pce500" => DeviceModel::PcE500.configure_runtime(rt, &blob),
            "configure_jp" => DeviceModel::PcE500Jp.configure_runtime(rt, &blob),
            "configure_iq" => DeviceModel::Iq7000.configure_runtime(rt, &blob),
            "load_rom_at" => {
                rt.load_rom(&blob, start as usize);
                Ok(())
            }
            _ => {
                rt.power_on_reset();
                Ok(())
            }
        };
        err = r.err().map(|e| e.to_string());
    } else {
        let m = t.mem();
        match name {
            "window_mem" => pce500::load_pce500_rom_window_into_memory(m, &image(g, src0, n)),
            "system_mem" => pce500::load_pce500_system_image_into_memory(m, &image(g, src0, n)),
            "iq_mem" => iq7000::load_iq7000_rom_image_into_memory(m, &image(g, src0, n)),
            "map" => pce500::configure_pce500_memory_map(m),
            "seed" => pce500::seed_pce500_bootstrap_imem(m),
            "store" => {
                let _ = m.store(start as u32, 8, (n & 0xFF) as u32);
            }
            _ => return Err(format!("unknown rom op {name}")),
        }
    }
    Ok(json!({"err": err}))
}

pub fn handle(_ctx: &mut RomCtx, cmd: &str, req: &Value) -> Result<Value, String> {
    match cmd {
        // the constants the model names, as the crate exports them
        "rom.spec" => {
            let mut models = serde_json::Map::new();
            for m in [DeviceModel::PcE500, DeviceModel::PcE500Jp, DeviceModel::Iq7000] {
                let s = m.spec();
                models.insert(s.label.to_string(), json!({"rom_window_start": s.rom_window_start, "rom_window_len": s.rom_window_len}));
            }
            Ok(json!({
                "models": Value::Object(models),
                "pce500": {"SYSTEM_IMAGE_LEN": pce500::SYSTEM_IMAGE_LEN, "ROM_WINDOW_START": pce500::ROM_WINDOW_START, "ROM_WINDOW_LEN": pce500::ROM_WINDOW_LEN,
                           "ROM_RESET_VECTOR_ADDR": pce500::ROM_RESET_VECTOR_ADDR, "NO_RAM_WINDOW_START": pce500::NO_RAM_WINDOW_START,
                           "NO_RAM_WINDOW_END": pce500::NO_RAM_WINDOW_END, "BOOTSTRAP_IMR_VALUE": pce500::BOOTSTRAP_IMR_VALUE, "BOOTSTRAP_ISR_VALUE": pce500::BOOTSTRAP_ISR_VALUE},
                "iq7000": {"ROM_WINDOW_START": iq7000::ROM_WINDOW_START, "ROM_WINDOW_LEN": iq7000::ROM_WINDOW_LEN,
                           "ROM_READONLY_START": iq7000::ROM_READONLY_START, "ROM_READONLY_END": iq7000::ROM_READONLY_END},
                "memory": {"INTERNAL_RAM_START": sc62015_core::INTERNAL_RAM_START, "INTERNAL_RAM_SIZE": sc62015_core::INTERNAL_RAM_SIZE,
                           "EXTERNAL_SPACE": sc62015_core::EXTERNAL_SPACE, "ADDRESS_MASK": sc62015_core::ADDRESS_MASK},
            }))
        }
        // one scenario: {"target": "rt"|"mem", "ops": [{op, g, n, src0, start}...], "probes": [[addr, alias, store_through]...]}
        "rom.run" => {
            let mut t = match req["target"].as_str().unwrap_or("rt") {
                "rt" => Target::Rt(Box::new(CoreRuntime::new())),
                _ => Target::Mem(Box::new(MemoryImage::new())),
            };
            let mut errs = Vec::new();
            for op in req["ops"].as_array().ok_or("ops")? {
                errs.push(apply(&mut t, op)?["err"].clone());
            }
            let pc = match &t {
                Target::Rt(rt) => rt.state.get_reg(RegName::PC),
                Target::Mem(_) => 0,
            };
            let m = t.mem();
            let ro = ranges_json(m);
            let imr = m.read_internal_byte_silent(0xFB).unwrap_or(0);
            let isr = m.read_internal_byte_silent(0xFC).unwrap_or(0);
            let mut out = Vec::new();
            for p in req["probes"].as_array().ok_or("probes")? {
                let a = p[0].as_u64().ok_or("probe addr")? as u32;
                let alias = p[1].as_u64().ok_or("probe alias")? as u32;
                let via = p[2].as_u64().unwrap_or(a as u64) as u32; // the stores go through this address (a itself or an alias of it)
                let before = m.load(a, 8).map(|v| v as i64).unwrap_or(-1);
                let marker = ((before as u32) ^ 0xA5) & 0xFF;
                let _ = m.store(via, 8, marker);
                let after = m.load(a, 8).map(|v| v as i64).unwrap_or(-1);
                let alias_after = m.load(alias, 8).map(|v| v as i64).unwrap_or(-1);
                let _ = m.store(via, 8, (before as u32) & 0xFF);
                let restored = m.load(a, 8).map(|v| v as i64).unwrap_or(-1);
                out.push(json!([a, alias, before, after, alias_after, restored]));
            }
            // the reset vector as three byte loads (what power_on_reset reads)
            let v: Vec<i64> = (0..3).map(|k| m.load(pce500::ROM_RESET_VECTOR_ADDR + k, 8).map(|v| v as i64).unwrap_or(-1)).collect();
            Ok(json!({"errs": errs, "pc": pc, "imr": imr, "isr": isr, "ro": ro, "probes": out, "vec": v}))
        }
        _ => Err(format!("unknown rom cmd {cmd}")),
    }
}
