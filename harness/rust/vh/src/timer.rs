//! C13: TimerContext::tick_timers / reset / apply_snapshot_info on a bare MemoryImage.
use sc62015_core::memory::MemoryImage;
use sc62015_core::timer::TimerContext;
use sc62015_core::{InterruptInfo, TimerInfo};
use serde_json::{json, Value};

#[derive(Default)]
pub struct TimerCtx {
    pub t: Option<TimerContext>,
    pub mem: Option<MemoryImage>,
}

fn u(req: &Value, k: &str) -> Result<u64, String> {
    req[k].as_u64().ok_or(format!("missing {k}"))
}

fn project(t: &TimerContext, mem: &MemoryImage, fired: (bool, bool)) -> Value {
    json!({
        "fired": [fired.0, fired.1],
        "enabled": t.enabled,
        "pm": t.mti_period,
        "ps": t.sti_period,
        "next_mti": t.next_mti,
        "next_sti": t.next_sti,
        "isr": mem.read_internal_byte_silent(0xFC).unwrap_or(0),
        "irq_pending": t.irq_pending,
        "irq_source": t.irq_source,
    })
}

pub fn handle(ctx: &mut TimerCtx, cmd: &str, req: &Value) -> Result<Value, String> {
    match cmd {
        "timer.new" => {
            let en = req["enabled"].as_bool().ok_or("enabled")?;
            let pm = req["pm"].as_i64().ok_or("pm")? as i32;
            let ps = req["ps"].as_i64().ok_or("ps")? as i32;
            let t = TimerContext::new(en, pm, ps);
            let mem = MemoryImage::new();
            let out = project(&t, &mem, (false, false));
            ctx.t = Some(t);
            ctx.mem = Some(mem);
            Ok(out)
        }
        "timer.tick" => {
            let c = u(req, "cycle")?;
            let t = ctx.t.as_mut().ok_or("no timer")?;
            let mem = ctx.mem.as_mut().ok_or("no mem")?;
            let fired = t.tick_timers(mem, c, None);
            Ok(project(t, mem, fired))
        }
        // the firmware clears status bits directly in the internal memory (no runtime hooks involved)
        "timer.ack" => {
            let m = u(req, "mask")? as u8;
            let t = ctx.t.as_mut().ok_or("no timer")?;
            let mem = ctx.mem.as_mut().ok_or("no mem")?;
            let isr = mem.read_internal_byte_silent(0xFC).unwrap_or(0);
            mem.write_internal_byte(0xFC, isr & !m);
            Ok(project(t, mem, (false, false)))
        }
        "timer.reset" => {
            let c = u(req, "cycle")?;
            let t = ctx.t.as_mut().ok_or("no timer")?;
            let mem = ctx.mem.as_mut().ok_or("no mem")?;
            t.reset(c);
            Ok(project(t, mem, (false, false)))
        }
        // snapshot restore through TimerInfo (the snapshot metadata struct) -> apply_snapshot_info
        "timer.restore" => {
            let t = ctx.t.as_mut().ok_or("no timer")?;
            let mem = ctx.mem.as_mut().ok_or("no mem")?;
            let info = TimerInfo {
                enabled: req["enabled"].as_bool().ok_or("enabled")?,
                mti_period: req["pm"].as_i64().ok_or("pm")? as i32,
                sti_period: req["ps"].as_i64().ok_or("ps")? as i32,
                next_mti: req["nm"].as_i64().ok_or("nm")? as i32,
                next_sti: req["ns"].as_i64().ok_or("ns")? as i32,
                kb_irq_enabled: true,
            };
            let mut ints = InterruptInfo::default();
            ints.isr = mem.read_internal_byte_silent(0xFC).unwrap_or(0);
            let c = u(req, "cycle")?;
            t.apply_snapshot_info(&info, &ints, c);
            Ok(project(t, mem, (false, false)))
        }
        // snapshot_info -> (serde round trip) -> apply_snapshot_info on a FRESH TimerContext
        "timer.roundtrip" => {
            let c = u(req, "cycle")?;
            let t = ctx.t.as_ref().ok_or("no timer")?;
            let mem = ctx.mem.as_mut().ok_or("no mem")?;
            let (ti, ii) = t.snapshot_info();
            let ti_json = serde_json::to_string(&ti).map_err(|e| e.to_string())?;
            let ii_json = serde_json::to_string(&ii).map_err(|e| e.to_string())?;
            let ti2: TimerInfo = serde_json::from_str(&ti_json).map_err(|e| e.to_string())?;
            let ii2: InterruptInfo = serde_json::from_str(&ii_json).map_err(|e| e.to_string())?;
            let mut fresh = TimerContext::new(false, 0, 0);
            fresh.apply_snapshot_info(&ti2, &ii2, c);
            let out = project(&fresh, mem, (false, false));
            ctx.t = Some(fresh);
            Ok(json!({"post": out, "timer_info": serde_json::from_str::<Value>(&ti_json).unwrap()}))
        }
        _ => Err(format!("unknown timer cmd {cmd}")),
    }
}
