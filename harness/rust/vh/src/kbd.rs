//! C14: KeyboardMatrix on a bare MemoryImage (press/release/strobe/scan/KIL read/inject/consume), full projection.
use sc62015_core::keyboard::KeyboardMatrix;
use sc62015_core::memory::MemoryImage;
use serde_json::{json, Value};

#[derive(Default)]
pub struct KbdCtx {
    pub kb: Option<KeyboardMatrix>,
    pub mem: Option<MemoryImage>,
    pub kb_irq: bool,
}

fn project(ctx: &KbdCtx, ret: i64, count: usize, keys: &[(u8, String)]) -> Value {
    let kb = ctx.kb.as_ref().unwrap();
    let mem = ctx.mem.as_ref().unwrap();
    let snap = kb.snapshot_state();
    let sv = serde_json::to_value(&snap).unwrap_or(json!({}));
    let mut states = Vec::new();
    if let Some(map) = sv.get("key_states").and_then(|k| k.as_object()) {
        for (code, name) in keys {
            if let Some(s) = map.get(name) {
                states.push(json!([code, s["pressed"], s["debounced"], s["press_ticks"], s["release_ticks"], s["repeat_ticks"]]));
            }
        }
    }
    json!({
        "ret": ret, "count": count, "fifo": kb.fifo_snapshot(), "fifo_len": kb.fifo_len(),
        "isr": mem.read_internal_byte_silent(0xFC).unwrap_or(0), "states": states, "kil_latch": sv["kil_latch"],
    })
}

pub fn handle(ctx: &mut KbdCtx, cmd: &str, req: &Value) -> Result<Value, String> {
    let keys: Vec<(u8, String)> = req
        .get("keys")
        .and_then(|k| k.as_array())
        .map(|a| a.iter().map(|v| (v[0].as_u64().unwrap_or(0) as u8, v[1].as_str().unwrap_or("").to_string())).collect())
        .unwrap_or_default();
    match cmd {
        "kbd.new" => {
            let mut kb = KeyboardMatrix::new();
            if let Some(p) = req.get("press_th").and_then(|p| p.as_u64()) {
                kb.set_press_threshold(p as u8);
            }
            if let Some(a) = req.get("active_high").and_then(|p| p.as_bool()) {
                kb.set_columns_active_high(a);
            }
            if let Some(r) = req.get("repeat").and_then(|p| p.as_bool()) {
                kb.set_repeat_enabled(r);
            }
            ctx.kb_irq = req.get("kb_irq").and_then(|p| p.as_bool()).unwrap_or(true);
            ctx.kb = Some(kb);
            ctx.mem = Some(MemoryImage::new());
            Ok(project(ctx, -1, 0, &keys))
        }
        "kbd.press" | "kbd.release" => {
            let code = req["code"].as_u64().ok_or("code")? as u8;
            let kb = ctx.kb.as_mut().ok_or("no kb")?;
            let mem = ctx.mem.as_mut().ok_or("no mem")?;
            if cmd == "kbd.press" {
                kb.press_matrix_code(code, mem);
            } else {
                kb.release_matrix_code(code, mem);
            }
            Ok(project(ctx, -1, 0, &keys))
        }
        "kbd.write" => {
            let off = req["off"].as_u64().ok_or("off")? as u32;
            let v = req["v"].as_u64().ok_or("v")? as u8;
            let kb = ctx.kb.as_mut().ok_or("no kb")?;
            let mem = ctx.mem.as_mut().ok_or("no mem")?;
            kb.handle_write(off, v, mem);
            Ok(project(ctx, -1, 0, &keys))
        }
        // one timer-driven scan, as CoreRuntime::step does inside tick_timers_with_keyboard
        "kbd.tick" => {
            let irq = ctx.kb_irq;
            let kb = ctx.kb.as_mut().ok_or("no kb")?;
            let mem = ctx.mem.as_mut().ok_or("no mem")?;
            let events = kb.scan_tick(mem, true);
            if events > 0 || (irq && kb.fifo_len() > 0) {
                kb.write_fifo_to_memory(mem, irq);
            }
            Ok(project(ctx, -1, events, &keys))
        }
        "kbd.read_kil" => {
            let kb = ctx.kb.as_mut().ok_or("no kb")?;
            let mem = ctx.mem.as_mut().ok_or("no mem")?;
            let r = kb.handle_read(0xF2, mem).map(|v| v as i64).unwrap_or(-1);
            Ok(project(ctx, r, 0, &keys))
        }
        "kbd.inject" => {
            let code = req["code"].as_u64().ok_or("code")? as u8;
            let rel = req["rel"].as_bool().unwrap_or(false);
            let irq = ctx.kb_irq;
            let kb = ctx.kb.as_mut().ok_or("no kb")?;
            let mem = ctx.mem.as_mut().ok_or("no mem")?;
            let n = kb.inject_matrix_event(code, rel, mem, irq);
            Ok(project(ctx, -1, n, &keys))
        }
        "kbd.consume" => {
            let kb = ctx.kb.as_mut().ok_or("no kb")?;
            kb.consume_pending_events();
            Ok(project(ctx, -1, 0, &keys))
        }
        "kbd.set_isr" => {
            let mem = ctx.mem.as_mut().ok_or("no mem")?;
            mem.write_internal_byte(0xFC, req["v"].as_u64().unwrap_or(0) as u8);
            Ok(project(ctx, -1, 0, &keys))
        }
        _ => Err(format!("unknown kbd cmd {cmd}")),
    }
}
