//! C08: LlamaState / CoreRuntime register files, collect/apply, pack/unpack.
use sc62015_core::llama::opcodes::RegName;
use sc62015_core::llama::state::LlamaState;
use sc62015_core::{apply_registers, collect_registers, pack_registers, unpack_registers, CoreRuntime};
use serde_json::{json, Value};
use std::collections::HashMap;

#[derive(Default)]
pub struct RegsCtx {
    pub st: Option<LlamaState>,
    pub rt: Option<CoreRuntime>,
}

pub fn reg_by_name(name: &str) -> Option<RegName> {
    Some(match name {
        "A" => RegName::A,
        "B" => RegName::B,
        "BA" => RegName::BA,
        "IL" => RegName::IL,
        "IH" => RegName::IH,
        "I" => RegName::I,
        "X" => RegName::X,
        "Y" => RegName::Y,
        "U" => RegName::U,
        "S" => RegName::S,
        "PC" => RegName::PC,
        "F" => RegName::F,
        "FC" => RegName::FC,
        "FZ" => RegName::FZ,
        "IMR" => RegName::IMR,
        n if n.starts_with("TEMP") => RegName::Temp(n[4..].parse::<u8>().ok()?),
        _ => return None,
    })
}

pub const NAMES: [&str; 14] = ["A", "B", "BA", "IL", "IH", "I", "X", "Y", "U", "S", "PC", "F", "FC", "FZ"];

pub fn read_all(st: &LlamaState) -> Value {
    let mut m = serde_json::Map::new();
    for n in NAMES.iter() {
        m.insert((*n).to_string(), json!(st.get_reg(reg_by_name(n).unwrap())));
    }
    for i in 0..14u8 {
        m.insert(format!("TEMP{i}"), json!(st.get_reg(RegName::Temp(i))));
    }
    Value::Object(m)
}

fn map_to_json(m: &HashMap<String, u32>) -> Value {
    let mut o = serde_json::Map::new();
    let mut keys: Vec<_> = m.keys().cloned().collect();
    keys.sort();
    for k in keys {
        o.insert(k.clone(), json!(m[&k]));
    }
    Value::Object(o)
}

pub fn handle(ctx: &mut RegsCtx, cmd: &str, req: &Value) -> Result<Value, String> {
    match cmd {
        "regs.new" => {
            ctx.st = Some(LlamaState::new());
            ctx.rt = Some(CoreRuntime::new());
            Ok(json!({}))
        }
        // write a named register on both the bare LlamaState and the CoreRuntime facade; read everything back
        "regs.write" => {
            let name = req["name"].as_str().ok_or("name")?;
            let value = req["value"].as_u64().ok_or("value")? as u32;
            let st = ctx.st.as_mut().ok_or("no state")?;
            let rt = ctx.rt.as_mut().ok_or("no rt")?;
            let reg = reg_by_name(name).ok_or("bad reg")?;
            st.set_reg(reg, value);
            // facade: flags go through set_flag, TEMPs are not reachable by name -> direct
            match name {
                "FC" | "FZ" => rt.set_flag(name, (value & 0xFF) as u8),
                n if n.starts_with("TEMP") => rt.state.set_reg(reg, value),
                _ => rt.set_reg(name, value),
            }
            let mut facade = serde_json::Map::new();
            for n in NAMES.iter() {
                let v = match *n {
                    "FC" | "FZ" => rt.get_flag(n) as u32,
                    _ => rt.get_reg(n),
                };
                facade.insert((*n).to_string(), json!(v));
            }
            for i in 0..14u8 {
                facade.insert(format!("TEMP{i}"), json!(rt.state.get_reg(RegName::Temp(i))));
            }
            Ok(json!({"state": read_all(st), "facade": Value::Object(facade)}))
        }
        "regs.read" => {
            let st = ctx.st.as_ref().ok_or("no state")?;
            Ok(read_all(st))
        }
        // collect_registers + pack_registers of the current state
        "regs.capture" => {
            let st = ctx.st.as_ref().ok_or("no state")?;
            let collected = collect_registers(st);
            let blob = pack_registers(&collected);
            let mut temps = serde_json::Map::new();
            for (k, v) in collected.iter() {
                if k.starts_with("TEMP") {
                    temps.insert(k.clone(), json!(*v));
                }
            }
            Ok(json!({"collected": map_to_json(&collected), "blob": blob, "temps": Value::Object(temps), "state": read_all(st)}))
        }
        // unpack_registers(blob) (+ temps) and apply_registers to a FRESH LlamaState and a fresh CoreRuntime
        "regs.apply" => {
            let blob: Vec<u8> = req["blob"]
                .as_array()
                .ok_or("blob")?
                .iter()
                .map(|v| v.as_u64().unwrap_or(0) as u8)
                .collect();
            let mut merged = unpack_registers(&blob).map_err(|e| e.to_string())?;
            if let Some(t) = req.get("temps").and_then(|t| t.as_object()) {
                for (k, v) in t.iter() {
                    merged.insert(k.clone(), v.as_u64().unwrap_or(0) as u32);
                }
            }
            let mut fresh = LlamaState::new();
            apply_registers(&mut fresh, &merged);
            let mut rt = CoreRuntime::new();
            apply_registers(&mut rt.state, &merged);
            let out = read_all(&fresh);
            ctx.st = Some(fresh);
            ctx.rt = Some(rt);
            Ok(json!({"state": out, "unpacked": map_to_json(&merged)}))
        }
        _ => Err(format!("unknown regs cmd {cmd}")),
    }
}
