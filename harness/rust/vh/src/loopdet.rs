//! Growth module: LoopDetector::record_step on scripted step streams (spec/machine/LoopDetect.tla).
use sc62015_core::loop_detector::{LoopDetector, LoopDetectorConfig, LoopIrqSource, LoopStep};
use serde_json::{json, Value};

#[derive(Default)]
pub struct LoopCtx {
    pub d: Option<LoopDetector>,
}

fn summary(d: &LoopDetector) -> Value {
    match d.current_summary() {
        None => json!({"some": 0, "len": 0, "repeats": 0, "start": 0, "end": 0, "pc": 0, "cands": []}),
        Some(s) => json!({"some": 1, "len": s.len, "repeats": s.repeats, "start": s.start_index, "end": s.end_index, "pc": s.start_pc,
                          "cands": s.candidate_lengths}),
    }
}

pub fn handle(ctx: &mut LoopCtx, cmd: &str, req: &Value) -> Result<Value, String> {
    match cmd {
        "loopdet.new" => {
            let cfg = LoopDetectorConfig {
                max_loop_len: req["max_len"].as_u64().ok_or("max_len")? as usize,
                main_history_len: req["main_hist"].as_u64().unwrap_or(0) as usize,
                full_history_len: req["full_hist"].as_u64().unwrap_or(0) as usize,
                recent_positions_len: req["recent"].as_u64().unwrap_or(8) as usize,
                detect_stride: req["stride"].as_u64().unwrap_or(0),
            };
            ctx.d = Some(LoopDetector::new(cfg));
            Ok(json!({}))
        }
        // kind: "main" (ordinary instruction), "hw" (instruction of a hardware-interrupt handler), "ir" (handler of the IR
        // instruction: counts as mainline), "reti" (the RETI opcode)
        "loopdet.step" => {
            let d = ctx.d.as_mut().ok_or("no detector")?;
            let pc = req["pc"].as_u64().ok_or("pc")? as u32;
            let kind = req["kind"].as_str().ok_or("kind")?;
            let (in_int, src, opcode) = match kind {
                "main" => (false, None, 0x00u8),
                "hw" => (true, Some(LoopIrqSource::from_name("MTI")), 0x00u8),
                "ir" => (true, Some(LoopIrqSource::from_name("IR")), 0x00u8),
                "reti" => (true, Some(LoopIrqSource::from_name("MTI")), 0x01u8),
                _ => return Err("kind".into()),
            };
            d.record_step(LoopStep { pc_before: pc, pc_after: pc + 1, opcode, instr_len: 1, in_interrupt: in_int, irq_source: src });
            Ok(summary(d))
        }
        _ => Err(format!("unknown loopdet cmd {cmd}")),
    }
}
