//! ext_devices / ImemRegs: byte reads and writes of the 256-byte internal memory on four Rust "machines":
//!   rsmem   bare MemoryImage::load / store at 0x100000 + offset (no device in the path)
//!   rsstub  MemoryImage + SioStub driven the way RuntimeBus drives them (handle_read / handle_write for UCR/USR/RXD/TXD)
//!   rsrt    CoreRuntime::new(): every access is a real instruction (PRE 0x32 + MV (n),A / MV A,(n)) executed by step(1),
//!           so it goes through the private RuntimeBus (keyboard F0-F2, SSR/ON key)
//!   rssio   the same after enable_sio_stub() (what DeviceModel::PcE500.configure_runtime does)
//! Every operation returns the value read (-1 for writes / device events) and the bytes of the backing store
//! (MemoryImage::internal_slice) that changed since the previous operation.
use sc62015_core::llama::opcodes::RegName;
use sc62015_core::memory::{MemoryImage, INTERNAL_MEMORY_START};
use sc62015_core::{CoreRuntime, SioStub};
use serde_json::{json, Value};

const CODE: u32 = 0xB9000; // scratch code address inside the internal RAM window

enum Machine {
    Mem(Box<MemoryImage>),
    Stub(Box<MemoryImage>, SioStub),
    Rt(Box<CoreRuntime>),
}

#[derive(Default)]
pub struct ImemCtx {
    m: Option<Machine>,
    prev: Vec<u8>,
}

fn backing(m: &Machine) -> Vec<u8> {
    match m {
        Machine::Mem(mem) | Machine::Stub(mem, _) => mem.internal_slice().to_vec(),
        Machine::Rt(rt) => rt.memory.internal_slice().to_vec(),
    }
}

fn is_sio(off: u32) -> bool {
    (0xF7..=0xFA).contains(&off)
}

fn rt_exec(rt: &mut CoreRuntime, bytes: &[u8]) -> Result<(), String> {
    rt.load_rom(bytes, CODE as usize);
    rt.state.set_reg(RegName::PC, CODE);
    rt.step(1).map_err(|e| e.to_string())?;
    let pc = rt.state.get_reg(RegName::PC);
    if pc != CODE + bytes.len() as u32 {
        return Err(format!("instruction did not fall through (pc {pc:#x}): an interrupt was delivered or the decode differs"));
    }
    Ok(())
}

fn write(m: &mut Machine, off: u32, v: u8) -> Result<(), String> {
    match m {
        Machine::Mem(mem) => {
            let _ = mem.store(INTERNAL_MEMORY_START + off, 8, v as u32);
        }
        Machine::Stub(mem, sio) => {
            if !(is_sio(off) && sio.handle_write(off, v, mem)) {
                let _ = mem.store(INTERNAL_MEMORY_START + off, 8, v as u32);
            }
        }
        Machine::Rt(rt) => {
            rt.state.set_reg(RegName::A, v as u32);
            rt_exec(rt, &[0x32, 0xA0, off as u8])?; // PRE(n,n)  MV (n), A
        }
    }
    Ok(())
}

fn read(m: &mut Machine, off: u32) -> Result<i64, String> {
    match m {
        Machine::Mem(mem) => Ok(mem.load(INTERNAL_MEMORY_START + off, 8).map(|v| v as i64).unwrap_or(-1)),
        Machine::Stub(mem, sio) => {
            if is_sio(off) {
                if let Some(v) = sio.handle_read(off, mem) {
                    return Ok(v as i64);
                }
            }
            Ok(mem.load(INTERNAL_MEMORY_START + off, 8).map(|v| v as i64).unwrap_or(-1))
        }
        Machine::Rt(rt) => {
            rt.state.set_reg(RegName::A, 0xEE);
            rt_exec(rt, &[0x32, 0x80, off as u8])?; // PRE(n,n)  MV A, (n)
            Ok((rt.state.get_reg(RegName::A) & 0xFF) as i64)
        }
    }
}

pub fn handle(ctx: &mut ImemCtx, cmd: &str, req: &Value) -> Result<Value, String> {
    match cmd {
        "imem.new" => {
            let m = match req["machine"].as_str().ok_or("machine")? {
                "rsmem" => Machine::Mem(Box::new(MemoryImage::new())),
                "rsstub" => {
                    let mut mem = MemoryImage::new();
                    let mut sio = SioStub::new();
                    sio.init(&mut mem);
                    Machine::Stub(Box::new(mem), sio)
                }
                "rsrt" => Machine::Rt(Box::new(CoreRuntime::new())),
                "rssio" => {
                    let mut rt = CoreRuntime::new();
                    rt.enable_sio_stub();
                    Machine::Rt(Box::new(rt))
                }
                other => return Err(format!("unknown machine {other}")),
            };
            ctx.prev = backing(&m);
            ctx.m = Some(m);
            Ok(json!({"init": ctx.prev}))
        }
        // {"ops": [["W", off, v] | ["R", off] | ["OnKey", 0|1]]} -> [{"ret", "delta": [[off, val]...]}...]
        "imem.run" => {
            let m = ctx.m.as_mut().ok_or("no machine")?;
            let mut out = Vec::new();
            for op in req["ops"].as_array().ok_or("ops")? {
                let k = op[0].as_str().ok_or("op kind")?;
                let mut ret: i64 = -1;
                match k {
                    "W" => write(m, op[1].as_u64().ok_or("off")? as u32 & 0xFF, op[2].as_u64().ok_or("v")? as u8)?,
                    "R" => ret = read(m, op[1].as_u64().ok_or("off")? as u32 & 0xFF)?,
                    "OnKey" => match m {
                        Machine::Rt(rt) => {
                            if op[1].as_u64().unwrap_or(0) != 0 {
                                rt.press_on_key();
                            } else {
                                rt.release_on_key();
                            }
                        }
                        _ => return Err("OnKey needs a runtime machine".to_string()),
                    },
                    _ => return Err(format!("unknown imem op {k}")),
                }
                let now = backing(m);
                let delta: Vec<Value> = now.iter().enumerate().filter(|(i, b)| ctx.prev[*i] != **b).map(|(i, b)| json!([i, *b])).collect();
                ctx.prev = now;
                out.push(json!({"ret": ret, "delta": delta}));
            }
            Ok(json!({"r": out}))
        }
        _ => Err(format!("unknown imem cmd {cmd}")),
    }
}
