//! vh: JSON-lines harness over the Rust core of /repo (built from /repo's working tree).
//! One JSON object per input line -> one JSON object per output line.
use serde_json::{json, Value};
use std::io::{self, BufRead, Write};

mod driver;
mod exec;
mod imemregs;
mod iqlcd;
mod kbd;
mod loopdet;
mod tables;
mod lcd;
mod lcdtext;
mod mem;
mod regs;
mod romload;
mod rt;
mod timer;

pub struct Ctx {
    pub regs: regs::RegsCtx,
    pub timer: timer::TimerCtx,
    pub rt: rt::RtCtx,
    pub driver: driver::DriverCtx,
    pub lcd: lcd::LcdCtx,
    pub exec: exec::ExecCtx,
    pub kbd: kbd::KbdCtx,
    pub mem: mem::MemCtx,
    pub rom: romload::RomCtx,
    pub imem: imemregs::ImemCtx,
    pub lcdtext: lcdtext::LcdTextCtx,
    pub iqlcd: iqlcd::IqLcdCtx,
    pub loopdet: loopdet::LoopCtx,
}

fn dispatch(ctx: &mut Ctx, req: &Value) -> Result<Value, String> {
    let cmd = req.get("cmd").and_then(|c| c.as_str()).ok_or("missing cmd")?;
    match cmd {
        "ping" => Ok(json!({"pong": true})),
        c if c.starts_with("regs.") => regs::handle(&mut ctx.regs, c, req),
        c if c.starts_with("timer.") => timer::handle(&mut ctx.timer, c, req),
        c if c.starts_with("rt.") => rt::handle(&mut ctx.rt, c, req),
        c if c.starts_with("driver.") => driver::handle(&mut ctx.driver, c, req),
        c if c.starts_with("loopdet.") => loopdet::handle(&mut ctx.loopdet, c, req),
        c if c.starts_with("lcdtext.") => lcdtext::handle(&mut ctx.lcdtext, c, req),
        c if c.starts_with("iqlcd.") => iqlcd::handle(&mut ctx.iqlcd, c, req),
        c if c.starts_with("lcd.") => lcd::handle(&mut ctx.lcd, c, req),
        c if c.starts_with("exec.") => exec::handle(&mut ctx.exec, c, req),
        c if c.starts_with("tables.") => tables::handle(c, req),
        c if c.starts_with("kbd.") => kbd::handle(&mut ctx.kbd, c, req),
        c if c.starts_with("mem.") => mem::handle(&mut ctx.mem, c, req),
        c if c.starts_with("rom.") => romload::handle(&mut ctx.rom, c, req),
        c if c.starts_with("imem.") => imemregs::handle(&mut ctx.imem, c, req),
        _ => Err(format!("unknown cmd {cmd}")),
    }
}

fn main() {
    let stdin = io::stdin();
    let stdout = io::stdout();
    let mut out = io::BufWriter::new(stdout.lock());
    let mut ctx = Ctx { regs: regs::RegsCtx::default(), timer: timer::TimerCtx::default(), rt: rt::RtCtx::default(), driver: driver::DriverCtx::default(), lcd: lcd::LcdCtx::default(), exec: exec::ExecCtx::default(), kbd: kbd::KbdCtx::default(), mem: mem::MemCtx::default(), rom: romload::RomCtx::default(), imem: imemregs::ImemCtx::default(), lcdtext: lcdtext::LcdTextCtx::default(), iqlcd: iqlcd::IqLcdCtx::default(), loopdet: loopdet::LoopCtx::default() };
    for line in stdin.lock().lines() {
        let line = match line {
            Ok(l) => l,
            Err(_) => break,
        };
        if line.trim().is_empty() {
            continue;
        }
        let resp = match serde_json::from_str::<Value>(&line) {
            Ok(req) => {
                let r = std::panic::catch_unwind(std::panic::AssertUnwindSafe(|| dispatch(&mut ctx, &req)));
                match r {
                    Ok(Ok(v)) => json!({"ok": true, "r": v}),
                    Ok(Err(e)) => json!({"ok": false, "err": e}),
                    Err(p) => {
                        let msg = p
                            .downcast_ref::<String>()
                            .cloned()
                            .or_else(|| p.downcast_ref::<&str>().map(|s| s.to_string()))
                            .unwrap_or_else(|| "panic".to_string());
                        json!({"ok": false, "panic": msg})
                    }
                }
            }
            Err(e) => json!({"ok": false, "err": format!("bad json: {e}")}),
        };
        let _ = writeln!(out, "{}", resp);
        let _ = out.flush();
    }
}
