//! C18: AsyncDriver with scripted tasks; AsyncRuntimeRunner vs the synchronous step loop.
use crate::rt;
use sc62015_core::async_driver::{current_cycle, emit_event, sleep_cycles, AsyncDriver, DriverEvent};
use sc62015_core::{AsyncDisplayTask, AsyncRuntimeRunner, AsyncTimerKeyboardTask, CoreRuntime};
use serde_json::{json, Value};
use std::cell::RefCell;
use std::rc::Rc;

type Log = Rc<RefCell<Vec<(u64, u64, u64, u64)>>>; // (task, pc, cycle, want)

#[derive(Default)]
pub struct DriverCtx {
    pub driver: Option<AsyncDriver>,
    pub log: Option<Log>,
    pub consumed: usize,
}

#[derive(Clone)]
enum Item {
    Sleep(u64),
    Emit,
}

fn parse_script(v: &Value) -> Result<Vec<Item>, String> {
    let mut out = Vec::new();
    for it in v.as_array().ok_or("script")? {
        let k = it.get(0).and_then(|k| k.as_str()).ok_or("item kind")?;
        match k {
            "S" => out.push(Item::Sleep(it.get(1).and_then(|d| d.as_u64()).ok_or("sleep d")?)),
            "E" => out.push(Item::Emit),
            _ => return Err(format!("bad item {k}")),
        }
    }
    Ok(out)
}

pub fn handle(ctx: &mut DriverCtx, cmd: &str, req: &Value) -> Result<Value, String> {
    match cmd {
        "driver.new" => {
            let clock = req.get("clock").and_then(|c| c.as_u64()).unwrap_or(0);
            let mut driver = AsyncDriver::with_clock(clock);
            let log: Log = Rc::new(RefCell::new(Vec::new()));
            let scripts = req["scripts"].as_array().ok_or("scripts")?;
            for (idx, sv) in scripts.iter().enumerate() {
                let script = parse_script(sv)?;
                let t = (idx + 1) as u64;
                let lg = log.clone();
                // hoist: every sleep future of the task is CREATED when the task starts and awaited where the script says
                // (a guard / timeout idiom); a sleep counts from the moment it is awaited, so this must not change anything
                let hoist = req.get("hoist").and_then(|h| h.as_bool()).unwrap_or(false);
                driver.spawn(async move {
                    let mut want = current_cycle();
                    lg.borrow_mut().push((t, 1, current_cycle(), want));
                    let mut early: Vec<Option<std::pin::Pin<Box<dyn std::future::Future<Output = ()>>>>> = Vec::new();
                    if hoist {
                        for item in script.iter() {
                            early.push(match item {
                                Item::Sleep(d) => Some(Box::pin(sleep_cycles(*d))),
                                Item::Emit => None,
                            });
                        }
                    }
                    for (i, item) in script.iter().enumerate() {
                        match item {
                            Item::Emit => emit_event(DriverEvent::User((t * 100 + (i as u64 + 1)) as u32)),
                            Item::Sleep(d) => {
                                want = current_cycle() + *d;
                                if hoist {
                                    if let Some(f) = early[i].take() {
                                        f.await;
                                    }
                                } else {
                                    sleep_cycles(*d).await;
                                }
                                lg.borrow_mut().push((t, i as u64 + 2, current_cycle(), want));
                            }
                        }
                    }
                });
            }
            ctx.driver = Some(driver);
            ctx.log = Some(log);
            ctx.consumed = 0;
            Ok(json!({"clock": clock}))
        }
        "driver.run_for" => {
            let b = req["b"].as_u64().ok_or("b")?;
            let d = ctx.driver.as_mut().ok_or("no driver")?;
            let r = d.run_for(b);
            let ev = match r.event {
                DriverEvent::MaxCycles => 0,
                DriverEvent::User(x) => x as u64,
            };
            let log = ctx.log.as_ref().ok_or("no log")?.borrow();
            let new: Vec<Value> = log[ctx.consumed..].iter().map(|e| json!([e.0, e.1, e.2, e.3])).collect();
            ctx.consumed = log.len();
            Ok(json!({"ev": ev, "cycles": r.cycles_executed, "clock": d.clock(), "newlog": new}))
        }
        // program run through AsyncRuntimeRunner (slice) vs CoreRuntime::step; n instructions in `chunks`
        "driver.cpu_equiv" => {
            let cfg = req.get("cfg").ok_or("cfg")?;
            let chunks: Vec<usize> = req["chunks"].as_array().ok_or("chunks")?.iter().map(|c| c.as_u64().unwrap_or(0) as usize).collect();
            let slice = req["slice"].as_u64().ok_or("slice")?;
            let ranges = rt::ranges_of(req);
            let mut sync_rt = CoreRuntime::new();
            rt::configure(&mut sync_rt, cfg)?;
            let mut async_rt = CoreRuntime::new();
            rt::configure(&mut async_rt, cfg)?;
            // host events applied to both machines before chunk i: ["press_on"] ["release_on"] ["key", code, press] ["imem", off, v]
            let events: Vec<Vec<Value>> = req.get("events").and_then(|e| e.as_array()).map(|a| a.iter().map(|x| x.as_array().cloned().unwrap_or_default()).collect()).unwrap_or_default();
            fn apply(rt: &mut CoreRuntime, evs: Option<&Vec<Value>>) {
                if let Some(evs) = evs {
                    for e in evs {
                        let kind = e[0].as_str().unwrap_or("");
                        match kind {
                            "press_on" => rt.press_on_key(),
                            "release_on" => rt.release_on_key(),
                            "key" => {
                                let code = e[1].as_u64().unwrap_or(0) as u8;
                                let press = e[2].as_bool().unwrap_or(true);
                                if let Some(kb) = rt.keyboard.as_mut() {
                                    if press { kb.press_matrix_code(code, &mut rt.memory); } else { kb.release_matrix_code(code, &mut rt.memory); }
                                }
                            }
                            "imem" => rt.memory.write_internal_byte(e[1].as_u64().unwrap_or(0) as u32, e[2].as_u64().unwrap_or(0) as u8),
                            _ => {}
                        }
                    }
                }
            }
            let mut sync_err = None;
            for (i, n) in chunks.iter().enumerate() {
                apply(&mut sync_rt, events.get(i));
                if let Err(e) = sync_rt.step(*n) {
                    sync_err = Some(e.to_string());
                    break;
                }
            }
            let rc = Rc::new(RefCell::new(async_rt));
            let mut runner = AsyncRuntimeRunner::new(rc.clone()).with_slice_cycles(slice);
            let mut async_err = None;
            let mut stats = Vec::new();
            for (i, n) in chunks.iter().enumerate() {
                apply(&mut rc.borrow_mut(), events.get(i));
                match runner.run_instructions(*n) {
                    Ok(s) => stats.push(json!([s.instructions_executed, s.cycles_executed])),
                    Err(e) => {
                        async_err = Some(e.to_string());
                        break;
                    }
                }
            }
            let a = rt::dump(&rc.borrow(), &ranges);
            let s = rt::dump(&sync_rt, &ranges);
            Ok(json!({"sync": s, "async": a, "sync_err": sync_err, "async_err": async_err, "stats": stats}))
        }
        // the device tasks of async_devices.rs as clients of the scheduler: the timer/keyboard task (one tick per cycle, `ticks` of
        // them, or for ever when ticks = 0) and the display task (`frames` events, one every `period` cycles), run under `budgets`;
        // returns what every run_for returned (event, clock, cycles) and the runtime next to a reference runtime ticked by a
        // plain loop over the same cycles
        "driver.devices" => {
            let cfg = req.get("cfg").ok_or("cfg")?;
            let ticks = req["ticks"].as_u64().unwrap_or(0);
            let period = req["period"].as_u64().unwrap_or(0);
            let frames = req["frames"].as_u64().unwrap_or(0);
            let clock0 = req["clock"].as_u64().unwrap_or(0);
            let off = req.get("off").and_then(|o| o.as_bool()).unwrap_or(false);
            let budgets: Vec<u64> = req["budgets"].as_array().ok_or("budgets")?.iter().map(|b| b.as_u64().unwrap_or(0)).collect();
            let mut art = CoreRuntime::new();
            rt::configure(&mut art, cfg)?;
            let mut srt = CoreRuntime::new();
            rt::configure(&mut srt, cfg)?;
            if off {
                art.state.power_off();
                srt.state.power_off();
            }
            let rc = Rc::new(RefCell::new(art));
            let mut driver = AsyncDriver::with_clock(clock0);
            let task = AsyncTimerKeyboardTask::new(rc.clone());
            if ticks > 0 {
                driver.spawn(async move { task.run_for(ticks).await; });
            } else {
                driver.spawn(async move { task.run().await; });
            }
            if frames > 0 {
                let display = AsyncDisplayTask::new(period, DriverEvent::User(77));
                driver.spawn(async move { display.run_frames(frames).await; });
            }
            let mut runs = Vec::new();
            for b in &budgets {
                let r = driver.run_for(*b);
                let ev = match r.event { DriverEvent::MaxCycles => 0, DriverEvent::User(x) => x as u64 };
                runs.push(json!([ev, driver.clock(), r.cycles_executed]));
            }
            // reference: the same cycles ticked by a plain loop (the task with a tick count stops after `ticks`; the endless one
            // does not tick while the machine is powered off)
            let end = driver.clock();
            let last = if ticks > 0 { (clock0 + ticks).min(end) } else { end };
            for cyc in clock0 + 1..=last {
                if ticks == 0 && srt.state.is_off() {
                    continue;
                }
                if !srt.timer.in_interrupt {
                    let _ = srt.timer.tick_timers_with_keyboard(&mut srt.memory, cyc, |_m| (0, false, None), None, None);
                    if let Some(isr) = srt.memory.read_internal_byte(0xFC) {
                        srt.timer.irq_isr = isr;
                    }
                }
            }
            let ranges: Vec<(u32, u32)> = Vec::new();
            let a = rt::dump(&rc.borrow(), &ranges);
            let s = rt::dump(&srt, &ranges);
            Ok(json!({"runs": runs, "async": a, "sync": s}))
        }
        _ => Err(format!("unknown driver cmd {cmd}")),
    }
}
