//! C15: LcdController protocol (read/write in the LCD windows), state projection, pixel map extraction.
use sc62015_core::lcd::LcdController;
use serde_json::{json, Value};

#[derive(Default)]
pub struct LcdCtx {
    pub lcd: Option<LcdController>,
    pub prev: Vec<u8>,
}

fn chips_meta(lcd: &LcdController) -> (Value, Vec<u8>) {
    let (meta, payload) = lcd.export_snapshot();
    let chips = meta.get("chips").cloned().unwrap_or(json!([]));
    (chips, payload)
}

fn project(ctx: &mut LcdCtx, ret: Option<u8>) -> Value {
    let lcd = ctx.lcd.as_ref().unwrap();
    let (chips, payload) = chips_meta(lcd);
    // VRAM delta relative to the previous projection: [chip, page, col, value]
    let mut delta = Vec::new();
    for (i, b) in payload.iter().enumerate() {
        if ctx.prev.get(i).copied().unwrap_or(0) != *b {
            delta.push(json!([i / 512, (i % 512) / 64, i % 64, *b]));
        }
    }
    ctx.prev = payload;
    let st: Vec<Value> = chips
        .as_array()
        .map(|a| {
            a.iter()
                .map(|c| json!({"on": c["on"], "start": c["start_line"], "page": c["page"], "y": c["y_address"]}))
                .collect()
        })
        .unwrap_or_default();
    json!({"ret": ret.map(|r| r as i64).unwrap_or(-1), "st": st, "delta": delta})
}

pub fn handle(ctx: &mut LcdCtx, cmd: &str, req: &Value) -> Result<Value, String> {
    match cmd {
        "lcd.new" => {
            ctx.lcd = Some(LcdController::new());
            // capture: the controller's display-write capture (used by the front ends to collect what a frame drew) is switched on
            // from the start; it is an observer and must not change what the controller does
            if req.get("capture").and_then(|c| c.as_bool()).unwrap_or(false) {
                if let Some(l) = ctx.lcd.as_mut() {
                    l.begin_display_write_capture();
                }
            }
            ctx.prev = vec![0u8; 1024];
            Ok(project(ctx, None))
        }
        "lcd.write" => {
            let addr = req["addr"].as_u64().ok_or("addr")? as u32;
            let v = req["v"].as_u64().ok_or("v")? as u8;
            let lcd = ctx.lcd.as_mut().ok_or("no lcd")?;
            if lcd.handles(addr) {
                lcd.write(addr, v);
            }
            Ok(project(ctx, None))
        }
        "lcd.read" => {
            let addr = req["addr"].as_u64().ok_or("addr")? as u32;
            let lcd = ctx.lcd.as_mut().ok_or("no lcd")?;
            let r = if lcd.handles(addr) { lcd.read(addr) } else { None };
            Ok(project(ctx, r))
        }
        // display buffer as list of lit pixel coordinates [x, y]
        "lcd.lit" => {
            let lcd = ctx.lcd.as_ref().ok_or("no lcd")?;
            let buf = lcd.display_buffer();
            let mut lit = Vec::new();
            for (y, row) in buf.iter().enumerate() {
                for (x, p) in row.iter().enumerate() {
                    if *p != 0 {
                        lit.push(json!([x, y]));
                    }
                }
            }
            Ok(json!({"lit": lit}))
        }
        // full pixel-map extraction through the protocol: for every VRAM bit, the set of pixels that change when
        // only that bit differs from the baseline byte `base` (all chips on, given start line)
        "lcd.pixelmap" => {
            let base = req["base"].as_u64().unwrap_or(0xFF) as u8;
            let start = req["start"].as_u64().unwrap_or(0) as u8;
            let mut out = Vec::new();
            let mut lcd = LcdController::new();
            // on, start line, fill baseline
            lcd.write(0x2000, 0x3F);
            lcd.write(0x2000, 0xC0 | (start & 0x3F));
            for page in 0..8u8 {
                lcd.write(0x2000, 0x80 | page);
                lcd.write(0x2000, 0x40);
                for _ in 0..64 {
                    lcd.write(0x2002, base);
                }
            }
            // optionally switch one chip off again (its own chip-select address)
            if let Some(off) = req.get("off_chip").and_then(|v| v.as_u64()) {
                lcd.write(0x2000 | if off == 0 { 0x8 } else { 0x4 }, 0x3E);
            }
            let baseline = lcd.display_buffer();
            for chip in 0..2u32 {
                let cs = if chip == 0 { 0x8 } else { 0x4 };
                for page in 0..8u8 {
                    for col in 0..64u8 {
                        for bit in 0..8u8 {
                            lcd.write(0x2000 | cs, 0x80 | page);
                            lcd.write(0x2000 | cs, 0x40 | col);
                            lcd.write(0x2002 | cs, base ^ (1 << bit));
                            let buf = lcd.display_buffer();
                            let mut px = Vec::new();
                            for y in 0..32 {
                                for x in 0..240 {
                                    if buf[y][x] != baseline[y][x] {
                                        px.push(json!([x, y]));
                                    }
                                }
                            }
                            out.push(json!([chip, page, col, bit, px]));
                            lcd.write(0x2000 | cs, 0x40 | col);
                            lcd.write(0x2002 | cs, base);
                        }
                    }
                }
            }
            Ok(json!({"map": out}))
        }
        _ => Err(format!("unknown lcd cmd {cmd}")),
    }
}
