//! EXT lcdtext part 2: the second device profile's display (lcd.rs: Iq7000LcdController and its LcdHal impl,
//! UnknownLcdController, create_lcd / LcdKind / lcd_kind_from_snapshot_meta / overlay_addr), reached only through
//! the LcdHal trait object the runtime holds.
use sc62015_core::lcd::{create_lcd, lcd_kind_from_snapshot_meta, overlay_addr, LcdHal, LcdKind, LCD_DISPLAY_COLS};
use serde_json::{json, Value};

#[derive(Default)]
pub struct IqLcdCtx {
    pub lcd: Option<Box<dyn LcdHal>>,
}

/// display_buffer() as bytes: [band 0..3][x 0..239], bit dy = buffer[band*8+dy][x] != 0
fn image(lcd: &dyn LcdHal) -> Value {
    let buf = lcd.display_buffer();
    let mut rows = Vec::with_capacity(4);
    for t in 0..4usize {
        let mut row = Vec::with_capacity(LCD_DISPLAY_COLS);
        for x in 0..LCD_DISPLAY_COLS {
            let mut b = 0u32;
            for dy in 0..8usize {
                if buf[t * 8 + dy][x] != 0 {
                    b |= 1 << dy;
                }
            }
            row.push(b);
        }
        rows.push(row);
    }
    json!(rows)
}

fn obs(lcd: &dyn LcdHal, full: bool) -> Value {
    let (meta, payload) = lcd.export_snapshot();
    // sparse VRAM: [index, value] of the non-zero payload bytes
    let nz: Vec<Value> = payload.iter().enumerate().filter(|(_, b)| **b != 0).map(|(i, b)| json!([i, *b])).collect();
    let mut o = json!({"kind": lcd.kind().as_str(), "meta": meta, "len": payload.len(), "nz": nz});
    if full {
        o["image"] = image(lcd);
        let vb = lcd.display_vram_bytes();
        let rows: Vec<Vec<u8>> = vb.iter().map(|r| r.to_vec()).collect();
        o["vbytes"] = json!(rows);
    }
    o
}

pub fn handle(ctx: &mut IqLcdCtx, cmd: &str, req: &Value) -> Result<Value, String> {
    match cmd {
        "iqlcd.new" => {
            let kind = LcdKind::parse(req["kind"].as_str().unwrap_or("iq7000-vram"));
            ctx.lcd = Some(create_lcd(kind));
            Ok(obs(ctx.lcd.as_deref().unwrap(), false))
        }
        "iqlcd.write" => {
            let addr = req["addr"].as_u64().ok_or("addr")? as u32;
            let v = req["v"].as_u64().ok_or("v")? as u8;
            let lcd = ctx.lcd.as_mut().ok_or("no lcd")?;
            let h = lcd.handles(addr);
            lcd.write(addr, v);
            let mut o = obs(lcd.as_ref(), false);
            o["handles"] = json!(h);
            o["ret"] = json!(-1);
            Ok(o)
        }
        "iqlcd.read" => {
            let addr = req["addr"].as_u64().ok_or("addr")? as u32;
            let lcd = ctx.lcd.as_mut().ok_or("no lcd")?;
            let h = lcd.handles(addr);
            let r = lcd.read(addr);
            let ph = lcd.read_placeholder(addr);
            let mut o = obs(lcd.as_ref(), false);
            o["handles"] = json!(h);
            o["ret"] = json!(r.map(|x| x as i64).unwrap_or(-1));
            o["placeholder"] = json!(ph);
            Ok(o)
        }
        "iqlcd.reset" => {
            let lcd = ctx.lcd.as_mut().ok_or("no lcd")?;
            lcd.reset();
            Ok(obs(lcd.as_ref(), false))
        }
        "iqlcd.export" => {
            let lcd = ctx.lcd.as_ref().ok_or("no lcd")?;
            let (meta, payload) = lcd.export_snapshot();
            let mut o = obs(lcd.as_ref(), false);
            o["payload"] = json!(payload);
            o["meta"] = meta;
            Ok(o)
        }
        // {"meta": {...}, "payload": [bytes]} -> {"ok": bool, "err": str, + observation}
        "iqlcd.load" => {
            let lcd = ctx.lcd.as_mut().ok_or("no lcd")?;
            let payload: Vec<u8> = req["payload"].as_array().ok_or("payload")?.iter().map(|b| b.as_u64().unwrap_or(0) as u8).collect();
            let r = lcd.load_snapshot(&req["meta"], &payload);
            let mut o = obs(lcd.as_ref(), false);
            o["ok"] = json!(r.is_ok());
            o["err"] = json!(r.err().unwrap_or_default());
            Ok(o)
        }
        "iqlcd.obs" => {
            let lcd = ctx.lcd.as_ref().ok_or("no lcd")?;
            Ok(obs(lcd.as_ref(), true))
        }
        // pure helpers: LcdKind::parse/as_str, lcd_kind_from_snapshot_meta, create_lcd(kind).kind(), overlay_addr
        "iqlcd.kinds" => {
            let mut parsed = Vec::new();
            for s in req["raw"].as_array().ok_or("raw")? {
                let k = LcdKind::parse(s.as_str().unwrap_or(""));
                parsed.push(json!([k.as_str(), create_lcd(k).kind().as_str(), serde_json::to_value(k).unwrap_or(Value::Null)]));
            }
            let mut metas = Vec::new();
            for m in req["metas"].as_array().map(|a| a.as_slice()).unwrap_or(&[]) {
                let d = LcdKind::parse(m["default"].as_str().unwrap_or(""));
                metas.push(json!(lcd_kind_from_snapshot_meta(&m["meta"], d).as_str()));
            }
            let mut ov = Vec::new();
            for o in req["offsets"].as_array().map(|a| a.as_slice()).unwrap_or(&[]) {
                ov.push(json!(overlay_addr(o.as_u64().unwrap_or(0) as u32)));
            }
            Ok(json!({"parsed": parsed, "metas": metas, "overlay": ov}))
        }
        _ => Err(format!("unknown iqlcd cmd {cmd}")),
    }
}
