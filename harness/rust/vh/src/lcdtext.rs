//! EXT lcdtext: the PC-E500 display TEXT decoder (lcd_text.rs: Pce500FontMap::from_rom / decode_display_text;
//! pce500.rs: pce500_font_map_from_rom, ROM_ENGLISH_FONT_BASE_ADDR) over a real LcdController that is driven
//! through the HD61202 write protocol or loaded with a VRAM image (LcdController::load_snapshot).
//! The font comes from a synthetic ROM image assembled from (address, bytes) patches.
use sc62015_core::lcd::{LcdController, LcdHal, LCD_DISPLAY_COLS};
use sc62015_core::lcd_text::{decode_display_text, Pce500FontMap};
use sc62015_core::pce500::{pce500_font_map_from_rom, ROM_ENGLISH_FONT_BASE_ADDR, ROM_WINDOW_START};
use serde_json::{json, Value};

#[derive(Default)]
pub struct LcdTextCtx {
    pub lcd: Option<LcdController>,
    pub font: Option<Pce500FontMap>,
}

fn chips(lcd: &LcdController) -> (Value, Vec<u8>) {
    let (meta, payload) = lcd.export_snapshot();
    let st: Vec<Value> = meta
        .get("chips")
        .and_then(|c| c.as_array())
        .map(|a| {
            a.iter()
                .map(|c| json!({"on": if c["on"].as_bool().unwrap_or(false) {1} else {0}, "start": c["start_line"], "page": c["page"], "y": c["y_address"]}))
                .collect()
        })
        .unwrap_or_default();
    (Value::Array(st), payload)
}

/// The picture the decoder looks at, as ink bytes: for text row t (0..3) and display column x (0..239) the byte whose
/// bit dy says that display_buffer()[t*8+dy][x] == 0 (the decoder's "lit" test).
fn image(lcd: &LcdController) -> Value {
    let buf = LcdHal::display_buffer(lcd);
    let mut rows = Vec::with_capacity(4);
    for t in 0..4usize {
        let mut row = Vec::with_capacity(LCD_DISPLAY_COLS);
        for x in 0..LCD_DISPLAY_COLS {
            let mut b = 0u32;
            for dy in 0..8usize {
                if buf[t * 8 + dy][x] == 0 {
                    b |= 1 << dy;
                }
            }
            row.push(b);
        }
        rows.push(row);
    }
    json!(rows)
}

pub fn handle(ctx: &mut LcdTextCtx, cmd: &str, req: &Value) -> Result<Value, String> {
    match cmd {
        // {"patches": [[addr, [b, ...]], ...], "layout": "full" | "window", "entry": "from_rom" | "product"}
        "lcdtext.font" => {
            let layout = req["layout"].as_str().unwrap_or("full");
            let (len, org) = if layout == "window" { (0x40000usize, ROM_WINDOW_START) } else { (0x100000usize, 0usize) };
            let mut rom = vec![0u8; len];
            for p in req["patches"].as_array().ok_or("patches")? {
                let addr = p[0].as_u64().ok_or("patch addr")? as usize;
                for (i, b) in p[1].as_array().ok_or("patch bytes")?.iter().enumerate() {
                    let a = addr + i;
                    if a >= org && a - org < len {
                        rom[a - org] = b.as_u64().ok_or("patch byte")? as u8;
                    }
                }
            }
            let entry = req["entry"].as_str().unwrap_or("from_rom");
            let font = if entry == "product" {
                pce500_font_map_from_rom(&rom)
            } else {
                Some(Pce500FontMap::from_rom(&rom, ROM_ENGLISH_FONT_BASE_ADDR, ROM_WINDOW_START as u32))
            };
            let empty = font.as_ref().map(|f| f.is_empty()).unwrap_or(true);
            ctx.font = font;
            Ok(json!({"empty": empty, "none": ctx.font.is_none()}))
        }
        "lcdtext.new" => {
            ctx.lcd = Some(LcdController::new());
            Ok(json!({}))
        }
        // {"writes": [[addr, v], ...], "load": {"st": [{on,start,page,y} x2], "vram": [1024 bytes]}?, "image": bool, "vram": bool}
        "lcdtext.step" => {
            let lcd = ctx.lcd.as_mut().ok_or("no lcd")?;
            if let Some(load) = req.get("load").filter(|l| !l.is_null()) {
                let st = load["st"].as_array().ok_or("load.st")?;
                let chips_meta: Vec<Value> = st
                    .iter()
                    .map(|c| json!({"on": c["on"].as_u64().unwrap_or(0) != 0, "start_line": c["start"], "page": c["page"], "y_address": c["y"],
                                    "instruction_count": 0, "data_write_count": 0, "data_read_count": 0}))
                    .collect();
                let meta = json!({"kind": "hd61202", "chip_count": 2, "pages": 8, "width": 64, "chips": chips_meta,
                                  "cs_both_count": 0, "cs_left_count": 0, "cs_right_count": 0});
                let payload: Vec<u8> = load["vram"].as_array().ok_or("load.vram")?.iter().map(|b| b.as_u64().unwrap_or(0) as u8).collect();
                lcd.load_snapshot(&meta, &payload)?;
            }
            if let Some(ws) = req.get("writes").and_then(|w| w.as_array()) {
                for w in ws {
                    let addr = w[0].as_u64().ok_or("write addr")? as u32;
                    let v = w[1].as_u64().ok_or("write v")? as u8;
                    if lcd.handles(addr) {
                        lcd.write(addr, v);
                    }
                }
            }
            let lcd = ctx.lcd.as_ref().unwrap();
            let (st, payload) = chips(lcd);
            let mut out = json!({"st": st});
            if let Some(font) = ctx.font.as_ref() {
                let lines: Vec<Vec<u32>> = decode_display_text(lcd, font).iter().map(|l| l.chars().map(|c| c as u32).collect()).collect();
                out["lines"] = json!(lines);
            }
            if req["image"].as_bool().unwrap_or(false) {
                out["image"] = image(lcd);
            }
            if req["vram"].as_bool().unwrap_or(false) {
                out["vram"] = json!(payload);
            }
            Ok(out)
        }
        _ => Err(format!("unknown lcdtext cmd {cmd}")),
    }
}
