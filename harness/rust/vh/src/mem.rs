//! C11: MemoryImage under a configuration; loads/stores of 8/16/24 bits at arbitrary 32-bit addresses.
use sc62015_core::memory::MemoryImage;
use serde_json::{json, Value};

#[derive(Default)]
pub struct MemCtx {
    pub m: Option<MemoryImage>,
}

pub fn configure(m: &mut MemoryImage, cfg: &Value) -> Result<(), String> {
    if let Some(b) = cfg.get("mirror").and_then(|b| b.as_bool()) {
        m.set_internal_ram_mirror(b);
    }
    if let Some(ovs) = cfg.get("rom_overlays").and_then(|l| l.as_array()) {
        for (i, l) in ovs.iter().enumerate() {
            let addr = l[0].as_u64().ok_or("rom addr")? as u32;
            let bytes = crate::rt::bytes_of(&l[1])?;
            m.add_rom_overlay(addr, &bytes, &format!("rom{i}"));
        }
    }
    if let Some(ovs) = cfg.get("ram_overlays").and_then(|l| l.as_array()) {
        for (i, l) in ovs.iter().enumerate() {
            m.add_ram_overlay(l[0].as_u64().ok_or("ram addr")? as u32, l[1].as_u64().ok_or("ram size")? as usize, &format!("ram{i}"));
        }
    }
    if let Some(c) = cfg.get("card") {
        if let Some(sz) = c.get("size").and_then(|s| s.as_u64()) {
            m.load_memory_card(&vec![0u8; sz as usize]).map_err(|e| e.to_string())?;
        }
        if let Some(p) = c.get("present").and_then(|s| s.as_bool()) {
            m.set_memory_card_slot_present(p);
        }
    }
    if let Some(ro) = cfg.get("readonly").and_then(|l| l.as_array()) {
        m.set_readonly_ranges(ro.iter().map(|p| (p[0].as_u64().unwrap_or(0) as u32, p[1].as_u64().unwrap_or(0) as u32)).collect());
    }
    if let Some(img) = cfg.get("fill").and_then(|l| l.as_array()) {
        for p in img {
            m.write_external_byte(p[0].as_u64().unwrap_or(0) as u32, p[1].as_u64().unwrap_or(0) as u8);
        }
    }
    Ok(())
}

pub fn handle(ctx: &mut MemCtx, cmd: &str, req: &Value) -> Result<Value, String> {
    match cmd {
        "mem.new" => {
            let mut m = MemoryImage::new();
            if let Some(cfg) = req.get("cfg") {
                configure(&mut m, cfg)?;
            }
            ctx.m = Some(m);
            Ok(json!({}))
        }
        "mem.load" => {
            let m = ctx.m.as_ref().ok_or("no mem")?;
            let addr = req["addr"].as_u64().ok_or("addr")? as u32;
            let bits = req["bits"].as_u64().unwrap_or(8) as u8;
            Ok(json!({"v": m.load(addr, bits)}))
        }
        "mem.store" => {
            let m = ctx.m.as_mut().ok_or("no mem")?;
            let addr = req["addr"].as_u64().ok_or("addr")? as u32;
            let bits = req["bits"].as_u64().unwrap_or(8) as u8;
            let value = req["value"].as_u64().ok_or("value")? as u32;
            Ok(json!({"ok": m.store(addr, bits, value).is_some()}))
        }
        // many ops in one request: [["L", addr, bits] | ["S", addr, bits, value], ...] -> list of load results (null for stores)
        "mem.ops" => {
            let m = ctx.m.as_mut().ok_or("no mem")?;
            let mut out = Vec::new();
            for op in req["ops"].as_array().ok_or("ops")? {
                let k = op[0].as_str().unwrap_or("");
                let addr = op[1].as_u64().unwrap_or(0) as u32;
                let bits = op[2].as_u64().unwrap_or(8) as u8;
                if k == "L" {
                    out.push(json!(m.load(addr, bits)));
                } else {
                    let _ = m.store(addr, bits, op[3].as_u64().unwrap_or(0) as u32);
                    out.push(Value::Null);
                }
            }
            Ok(json!({"r": out}))
        }
        _ => Err(format!("unknown mem cmd {cmd}")),
    }
}
