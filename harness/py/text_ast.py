"""Parse the token stream of Instruction.render() into the operand ASTs of spec/isa/SC62015Denote.tla (C03, C09).
Only the TEXT is used - nothing of the decoded operand objects - so that a lift that disagrees with what is displayed shows."""
from __future__ import annotations

from typing import Any, Dict, List, Tuple

# internal-memory register names (README "Internal Memory Map" and "Logic Registers")
IMEM_NAMES = {"BP": 0xEC, "PX": 0xED, "PY": 0xEE, "AMC": 0xEF, "KOL": 0xF0, "KOH": 0xF1, "KIL": 0xF2, "EOL": 0xF3, "EOH": 0xF4,
              "EIL": 0xF5, "EIH": 0xF6, "UCR": 0xF7, "USR": 0xF8, "RXD": 0xF9, "TXD": 0xFA, "IMR": 0xFB, "ISR": 0xFC, "SCR": 0xFD,
              "LCC": 0xFE, "SSR": 0xFF, "BL": 0xD4, "BH": 0xD5, "CL": 0xD6, "CH": 0xD7, "DL": 0xD8, "DH": 0xD9, "SI": 0xDA, "DI": 0xDD,
              "IOCS_WS": 0xE6,
              # byte aliases of the 3-byte pointers ([SI+1], [SI+2], ...; README: "aliases E6/E7/E8")
              "SI1": 0xDB, "SI2": 0xDC, "DI1": 0xDE, "DI2": 0xDF, "IOCS_WS1": 0xE7, "IOCS_WS2": 0xE8}


class TextParseError(Exception):
    pass


def _split_operands(toks: List[Tuple[str, str]]) -> List[List[Tuple[str, str]]]:
    out: List[List[Tuple[str, str]]] = [[]]
    depth = 0
    for t, s in toks:
        if t == "TBegMem":
            depth += 1
        elif t == "TEndMem":
            depth -= 1
        if t == "TSep" and depth == 0 and s.strip() == ",":
            out.append([])
            continue
        out[-1].append((t, s))
    return [o for o in out if o]


def _imem(inner: List[Tuple[str, str]]) -> Dict[str, Any]:
    """tokens between '(' and ')'"""
    txt = [s for t, s in inner if not (t == "TSep" and s.strip() == "")]
    if len(txt) == 1:
        s = txt[0]
        if s in IMEM_NAMES:
            return {"k": "IMem", "mode": "N", "n": IMEM_NAMES[s]}
        return {"k": "IMem", "mode": "N", "n": int(s, 16)}
    if len(txt) == 3 and txt[1] == "+":
        a, b = txt[0], txt[2]
        if a == "BP" and b == "PX":
            return {"k": "IMem", "mode": "BP_PX", "n": 0}
        if a == "BP" and b == "PY":
            return {"k": "IMem", "mode": "BP_PY", "n": 0}
        if a in ("BP", "PX", "PY"):
            n = IMEM_NAMES[b] if b in IMEM_NAMES else int(b, 16)
            return {"k": "IMem", "mode": {"BP": "BP_N", "PX": "PX_N", "PY": "PY_N"}[a], "n": n}
    raise TextParseError(f"internal operand {txt}")


def _operand(toks: List[Tuple[str, str]]) -> Dict[str, Any]:
    t0, s0 = toks[0]
    if t0 == "TReg" and len(toks) == 1:
        return {"k": "Reg", "r": s0}
    if t0 == "TInt" and len(toks) == 1:
        if s0[0] in "+-":
            return {"k": "Off", "s": s0[0], "v": int(s0[1:], 16)}
        return {"k": "Imm", "v": int(s0, 16)}
    if t0 == "TBegMem" and s0 == "(":
        if toks[-1] != ("TEndMem", ")"):
            raise TextParseError(str(toks))
        return _imem(toks[1:-1])
    if t0 == "TBegMem" and s0 == "[":
        if toks[-1] != ("TEndMem", "]"):
            raise TextParseError(str(toks))
        inner = toks[1:-1]
        if inner[0][0] == "TAddr" and len(inner) == 1:
            return {"k": "EAddr", "v": int(inner[0][1], 16)}
        if inner[0] == ("TBegMem", "("):
            close = max(i for i, x in enumerate(inner) if x == ("TEndMem", ")"))
            im = _imem(inner[1:close])
            rest = inner[close + 1:]
            o = {"k": "EIMem", "imode": im["mode"], "n": im["n"], "mode": 0, "off": 0}
            if rest:
                (rt, rs), = rest
                o["mode"] = 128 if rs[0] == "+" else 192
                o["off"] = int(rs[1:], 16)
            return o
        # register indirect
        if inner[0] == ("TText", "--") and inner[1][0] == "TReg" and len(inner) == 2:
            return {"k": "EReg", "r": inner[1][1], "mode": 3, "off": 0}
        if inner[0][0] == "TReg":
            r = inner[0][1]
            if len(inner) == 1:
                return {"k": "EReg", "r": r, "mode": 0, "off": 0}
            if inner[1] == ("TText", "++") and len(inner) == 2:
                return {"k": "EReg", "r": r, "mode": 2, "off": 0}
            if inner[1][0] == "TInt" and len(inner) == 2:
                s = inner[1][1]
                return {"k": "EReg", "r": r, "mode": 8 if s[0] == "+" else 12, "off": int(s[1:], 16)}
    raise TextParseError(str(toks))


def parse_tokens(tokens) -> Tuple[str, List[Dict[str, Any]]]:
    toks = [(type(t).__name__, str(t)) for t in tokens]
    if not toks or toks[0][0] != "TInstr":
        raise TextParseError(str(toks))
    mn = toks[0][1]
    rest = toks[1:]
    if rest and rest[0][0] == "TSep" and rest[0][1].strip() == "":
        rest = rest[1:]
    ops = [_operand(o) for o in _split_operands(rest)]
    return mn, ops
