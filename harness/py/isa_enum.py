"""Enumeration of valid instruction encodings (structure) and architectural states for the semantic checks."""
from __future__ import annotations

import random
from typing import Any, Dict, Iterable, List, Optional, Tuple

PRE_BYTES = [0x21, 0x22, 0x23, 0x24, 0x25, 0x26, 0x27, 0x30, 0x31, 0x32, 0x33, 0x34, 0x35, 0x36, 0x37]
# register-selector / mode bytes worth distinguishing (register x addressing mode, reg-pair codes, memory-indirect modes)
MODE_BYTES = [0x04, 0x05, 0x06, 0x07, 0x24, 0x25, 0x26, 0x27, 0x34, 0x35, 0x36, 0x37, 0x84, 0x85, 0x86, 0x87, 0xC4, 0xC5, 0xC6, 0xC7,
              0x00, 0x01, 0x02, 0x03, 0x10, 0x12, 0x23, 0x32, 0x45, 0x54, 0x67, 0x76, 0x47, 0x20, 0x31, 0x46, 0x64, 0x80, 0xC0]


def valid_structures(tier: str, seed: int) -> List[bytes]:
    """All (optional prefix, opcode, mode byte) combinations the decoder accepts, with seeded operand bytes.
    quick: every opcode unprefixed x mode bytes, and 4 prefixes; thorough: all 15 prefixes."""
    from sc62015.pysc62015.instr import decode, OPCODES
    rnd = random.Random(seed)
    pres: List[Optional[int]] = [None] + (PRE_BYTES if tier == "thorough" else [0x30, 0x25, 0x36, 0x23])
    out: List[bytes] = []
    seen = set()
    for pre in pres:
        for op in range(256):
            if op in PRE_BYTES:
                continue
            for b2 in MODE_BYTES + [rnd.randrange(256), rnd.randrange(256)]:
                body = bytes([op, b2] + [rnd.randrange(256) for _ in range(4)])
                s = (bytes([pre]) if pre is not None else b"") + body
                try:
                    ins = decode(s + bytes(4), 0x1000, OPCODES)
                except Exception:
                    ins = None
                if ins is None or type(ins).__name__ == "PRE":
                    continue      # rejected, or an addressing prefix that could not fuse (not an instruction)
                try:
                    L = ins.length()
                except Exception:
                    continue
                enc = s[:L]
                if not documented(pre, op, enc):
                    continue
                # one representative per (prefix, opcode, mode byte actually consumed)
                key = (pre, op, enc[(2 if pre is not None else 1)] if L > (2 if pre is not None else 1) else None)
                if key in seen and rnd.random() < 0.7:
                    continue
                seen.add(key)
                out.append(enc)
                # the same structure with operand bytes that are all zero / all ones: a displacement, offset or immediate of exactly
                # 0x00 (a length computed from the VALUE instead of from the mode bits shows only there) or 0xFF
                if pre is None or tier == "thorough":
                    hdr = len(s) - 4
                    for fill in (0x00, 0xFF):
                        s3 = s[:hdr] + bytes([fill] * 4)
                        key3 = (pre, op, b2, fill)
                        if s3[:L] == enc or key3 in seen:
                            continue
                        try:
                            ins3 = decode(s3 + bytes(4), 0x1000, OPCODES)
                            if ins3 is None or type(ins3).__name__ == "PRE" or ins3.length() != L:
                                continue
                        except Exception:
                            continue
                        if not documented(pre, op, s3[:L]):
                            continue
                        seen.add(key3)
                        out.append(s3[:L])
    if tier != "thorough":
        # the other eleven prefixes, for the encodings where the prefix MATTERS: those whose rendered text changes when the prefix
        # is put in front (an internal-memory operand takes its addressing calculation from it); a few mode bytes each
        from binja_test_mocks.tokens import asm_str
        for pre in [p for p in PRE_BYTES if p not in pres]:
            for op in range(256):
                if op in PRE_BYTES:
                    continue
                took = 0
                for b2 in MODE_BYTES[:: 5] + [rnd.randrange(256)]:
                    body = bytes([op, b2] + [rnd.randrange(256) for _ in range(4)])
                    s2 = bytes([pre]) + body
                    try:
                        ins = decode(s2 + bytes(4), 0x1000, OPCODES)
                        bare = decode(body + bytes(4), 0x1000, OPCODES)
                        if ins is None or bare is None or type(ins).__name__ == "PRE":
                            continue
                        L = ins.length()
                        if asm_str(ins.render()) == asm_str(bare.render()):
                            break             # the prefix does not show in the text of this opcode
                    except Exception:
                        continue
                    enc = s2[:L]
                    if not documented(pre, op, enc):
                        continue
                    key = (pre, op, enc[2] if L > 2 else None)
                    if key in seen:
                        continue
                    seen.add(key)
                    out.append(enc)
                    took += 1
                    if took >= 2:
                        break
    return out


REGPAIR_OPS = {0x44: "ar2", 0x4C: "ar2", 0x45: "ar3", 0x4D: "ar3", 0x46: "ar1", 0x4E: "ar1", 0xED: "mv", 0xFD: "mv"}


def documented(pre: Optional[int], op: int, enc: bytes) -> bool:
    """Is this accepted encoding one of the documented instruction forms?  The decoder also accepts the two unassigned
    opcodes (0x20, 0xBF, rendered '???') and register-pair selectors outside the register class the mnemonic documents
    (e.g. ADD r2,r2 with a 3-byte pointer register); their behaviour is not specified anywhere."""
    if op in (0x20, 0xBF):
        return False
    if op == 0x11:                  # JP r3 : pointer registers only
        k = 2 if pre is not None else 1
        return len(enc) > k and (enc[k] & 7) in (4, 5, 6, 7)
    if op in (0xD6, 0xD7):          # CMPW (m),r2 / CMPP (m),r3 : the register must belong to the documented class
        k = 2 if pre is not None else 1
        if len(enc) <= k:
            return False
        c = enc[k] & 7
        return c in (2, 3) if op == 0xD6 else c in (4, 5, 6, 7)
    kind = REGPAIR_OPS.get(op)
    if kind:
        k = 2 if pre is not None else 1
        if len(enc) <= k:
            return False
        b = enc[k]
        c1, c2 = (b >> 4) & 7, b & 7
        if kind == "ar1":
            return c1 in (0, 1) and c2 in (0, 1)
        if kind == "ar2":
            return c1 in (2, 3) and c2 in (0, 1, 2, 3)
        if kind == "ar3":
            return c1 in (4, 5, 6, 7)
        if kind == "mv":
            return (c1 in (2, 3) and c2 in (2, 3)) or (c1 in (4, 5, 6, 7) and c2 in (4, 5, 6, 7))
    return True


BOUNDARY = [0, 1, 0xFF, 0x100, 0xFFFF, 0x10000, 0xFFFFE, 0xFFFFF, 0x7FFFF, 0x80000]


COUNTED_OPS = {0x54, 0x55, 0x5C, 0x5D, 0x56, 0x5E, 0xC3, 0xC4, 0xC5, 0xD4, 0xD5, 0xCB, 0xCF, 0xD3, 0xDB, 0xE3, 0xEB, 0xEC, 0xFC, 0xF3, 0xFB, 0xEF}
BCD_OPS = {0xC4, 0xC5, 0xD4, 0xD5, 0xEC, 0xFC, 0x47, 0x57}


def opcode_of(enc: bytes) -> int:
    return enc[1] if (enc[0] in PRE_BYTES and len(enc) > 1) else enc[0]


def state_for(enc: bytes, rnd: random.Random) -> Dict[str, Any]:
    """Architectural state appropriate for this encoding: counted instructions get a block length 1..6 (the documented
    'loop I times'; I = 0 and lengths that sweep the whole internal memory are separate, recorded cases), packed-BCD
    instructions get valid BCD digits in every internal-memory cell and in A."""
    st = random_state(rnd, code_at=rnd.choice([0x4000, 0x4000, 0x0FFF8, 0x2FFFD, 0x10002, 0xFFFF0, 0x7FFFE]))
    op = opcode_of(enc)
    if op in COUNTED_OPS:
        st["regs"]["I"] = rnd.choice([1, 1, 2, 3, 4, 6])
    if op in BCD_OPS:
        def bcd():
            return rnd.randrange(10) * 16 + rnd.randrange(10)
        keep = {0xEC: st["imem"][0xEC], 0xED: st["imem"][0xED], 0xEE: st["imem"][0xEE]}
        st["imem"] = {off: bcd() for off in range(0, 0xEC)}
        st["imem"].update(keep)
        for off in range(0xEF, 0x100):
            st["imem"][off] = bcd()
        st["regs"]["BA"] = (st["regs"]["BA"] & 0xFF00) | bcd()
    return st


def random_state(rnd: random.Random, code_at: int = 0x4000) -> Dict[str, Any]:
    """Architectural state: registers, flags, IMEM pointer cells (BP/PX/PY distinct and non-zero, wrapping cases included)."""
    def ptr():
        return rnd.choice([0x2000, 0x20000, 0x7FFF0, 0x0FFF0, 0x3FFFE, 0xB0000 + rnd.randrange(0x1000), rnd.randrange(0x100, 0xF0000)])
    regs = {"PC": code_at, "BA": rnd.choice([0, 0xFF, 0x100, 0xFFFF, rnd.getrandbits(16)]), "I": rnd.choice([1, 2, 3, 4, 0, 0x100, rnd.randrange(1, 6)]),
            "X": ptr(), "Y": ptr(), "U": ptr(), "S": ptr(), "F": rnd.randrange(4)}
    bp = rnd.choice([0x10, 0x40, 0xF0, 0xFE, rnd.randrange(1, 256)])
    px = rnd.choice([0x08, 0x21, 0xF7, rnd.randrange(1, 256)])
    py = rnd.choice([0x05, 0x33, 0xFD, rnd.randrange(1, 256)])
    imem = {0xEC: bp, 0xED: px, 0xEE: py}
    # a handful of IMEM cells holding 20/24-bit pointers and data
    for _ in range(6):
        off = rnd.randrange(0, 0xE0)
        p = ptr()
        for i in range(3):
            imem[(off + i) & 0xFF] = (p >> (8 * i)) & 0xFF
    for _ in range(6):
        imem[rnd.randrange(0, 0xE8)] = rnd.choice([0, 0xFF, 0x99, 0x09, rnd.randrange(256)])
    return {"regs": regs, "imem": imem}


def build_case(enc: bytes, st: Dict[str, Any], code_at: Optional[int] = None) -> Tuple[Dict[str, int], List[List[int]]]:
    if code_at is None:
        code_at = st["regs"]["PC"]
    mem = [[(code_at + i) & 0xFFFFF, b] for i, b in enumerate(enc)]
    mem += [[0x100000 + off, v] for off, v in sorted(st["imem"].items())]
    return dict(st["regs"]), mem
