"""One-instruction executions of the Python core (Emulator.execute_instruction on a sparse recording memory) in the same
request/response shape as `vh exec.run` (C03/C04/C05/C06/C07)."""
from __future__ import annotations

from typing import Any, Dict, List, Optional, Tuple

REGS = ["BA", "I", "X", "Y", "U", "S", "PC", "F"]


def hash_byte(a: int) -> int:
    return (((a * 73) & 0xFFFFFFFF) ^ (a >> 7) ^ 0x5A) & 0xFF


def canon(a: int) -> int:
    """Canonical bus address used by BOTH harness buses: 24-bit wrap; 0x100000-0x1001FF is the internal memory modulo 256
    (so an internal pointer stepping past offset 0xFF stays internal, as on either real bus); everything else wraps into
    the 1 MiB external space (so pointers with stray high bits address the same byte on both sides)."""
    a &= 0xFFFFFF
    if 0x100000 <= a < 0x100200:
        return 0x100000 + (a & 0xFF)
    return a & 0xFFFFF


class SparseMem:
    def __init__(self, mem: Dict[int, int], default: int = 0, hashed: bool = False):
        self.mem = dict(mem)
        self.default = default
        self.hashed = hashed
        self.reads: List[Tuple[int, int]] = []
        self.writes: List[Tuple[int, int]] = []

    def read(self, a: int) -> int:
        a = canon(a)
        v = self.mem.get(a)
        if v is None:
            v = hash_byte(a) if self.hashed else self.default
        self.reads.append((a, v))
        return v

    def write(self, a: int, v: int) -> None:
        a = canon(a)
        v &= 0xFF
        self.mem[a] = v
        self.writes.append((a, v))


_emu_cls = None


def new_emulator(sm: SparseMem):
    from sc62015.pysc62015.emulator import Emulator
    from binja_test_mocks.eval_llil import Memory
    m = Memory(sm.read, sm.write)
    return Emulator(m, reset_on_init=False)


def set_regs(emu, regs: Dict[str, int]) -> None:
    from sc62015.pysc62015.emulator import RegisterName
    for k, v in regs.items():
        emu.regs.set(RegisterName[k], v)


def regs_out(emu) -> Dict[str, int]:
    from sc62015.pysc62015.emulator import RegisterName
    return {k: int(emu.regs.get(RegisterName[k])) for k in REGS}


def step(emu, sm: SparseMem) -> Dict[str, Any]:
    from sc62015.pysc62015.emulator import RegisterName
    pc = emu.regs.get(RegisterName.PC)
    sm.reads.clear()
    sm.writes.clear()
    err = None
    length = -1
    try:
        info = emu.execute_instruction(pc)
        length = int(info.instruction_info.length or 0)
    except Exception as ex:
        err = f"{type(ex).__name__}: {ex}"
    halted = bool(getattr(emu.state, "halted", False))
    return {"len": length, "err": err, "regs": regs_out(emu), "power": "halted" if halted else "running",
            "writes": [[a, v] for a, v in sm.writes], "reads": [[a, v] for a, v in sm.reads]}


def run(regs: Dict[str, int], mem: List[List[int]], n: int = 1, default: int = 0, hashed: bool = False, hidden: Optional[Dict[str, Any]] = None,
        power: Optional[str] = None) -> Dict[str, Any]:
    sm = SparseMem({a: v for a, v in mem}, default, hashed)
    emu = new_emulator(sm)
    set_regs(emu, regs)
    if hidden:
        from sc62015.pysc62015.emulator import RegisterName
        for i, v in enumerate(hidden.get("temps", [])):
            emu.regs.set(getattr(RegisterName, f"TEMP{i}"), v)
        emu.regs.call_sub_level = len(hidden.get("call_pages", []))
        if hidden.get("flagwise"):
            # the same flags once more, written one by one through the FC / FZ aliases
            f = emu.regs.get(RegisterName.F)
            emu.regs.set(RegisterName.FC, f & 1)
            emu.regs.set(RegisterName.FZ, (f >> 1) & 1)
    steps = []
    for _ in range(n):
        s = step(emu, sm)
        steps.append(s)
        if s["err"]:
            break
    return {"steps": steps, "_emu": emu, "_mem": sm}


_long = None


def run_longlived(regs: Dict[str, int], mem: List[List[int]], default: int = 0, hashed: bool = False) -> Dict[str, Any]:
    """One instruction on a process-wide, long-lived Emulator whose memory image and registers are replaced before every
    call: what a debugger session or a machine running self-modifying / freshly loaded code does.  Anything the emulator
    keeps between instructions besides registers and memory (decoder caches, look-ahead buffers, bookkeeping) is carried
    from one call to the next."""
    global _long
    if _long is None:
        sm = SparseMem({}, default, hashed)
        _long = (new_emulator(sm), sm)
    emu, sm = _long
    sm.mem = {a: v for a, v in mem}
    sm.default, sm.hashed = default, hashed
    try:
        emu.state.halted = False
    except Exception:      # noqa: BLE001
        pass
    set_regs(emu, regs)
    s = step(emu, sm)
    if s["err"]:
        _long = None          # do not let a failed step shape the next record
    return {"steps": [s], "_emu": emu, "_mem": sm}
