"""Drivers for the two PC-E500 machine models (C12, C13 machine level, C16): the Rust CoreRuntime through vh and the
Python PCE500Emulator.  A run is a scripted instruction stream: before every step the next instruction's bytes are
poked at the machine's current PC (RAM), environment events are applied at the instruction boundary, the machine is
stepped once, and the observable state before/after is recorded."""
from __future__ import annotations

from typing import Any, Dict, List, Optional

MAIN = 0xB9000      # main code (internal RAM window 0xB8000-0xBFFFF)
VEC = 0xBA000       # interrupt vector target: handler code; starts with a NOP
STACK = 0xBFF00
VECTOR_BYTES = [VEC & 0xFF, (VEC >> 8) & 0xFF, (VEC >> 16) & 0xFF]

# abstract instruction -> bytes
def encode(ins: Dict[str, Any]) -> List[int]:
    k = ins["k"]
    if k == "NOP":
        return [0x00]
    if k == "ALU":
        return [0x40, 0x01]            # ADD A, 1   (changes A and the flags)
    if k == "SETIMR":
        return [0xCC, 0xFB, ins["v"] & 0xFF]      # MV (FB), n
    if k == "CLRISR":
        m = 0
        for b in ins["m"]:
            m |= 1 << b
        return [0x71, 0xFC, (~m) & 0xFF]          # AND (FC), n
    if k == "RAISE":
        m = 0
        for b in ins["m"]:
            m |= 1 << b
        return [0x79, 0xFC, m & 0xFF]             # OR (FC), n : firmware raises a request itself
    if k == "JRBACK":
        return [0x13, ins["v"] & 0xFF]            # JR -n
    if k == "HALT":
        return [0xDE]
    if k == "OFF":
        return [0xDF]
    if k == "RETI":
        return [0x01]
    if k == "WAIT":
        return [0xEF]
    if k == "SETI":
        return [0x09, ins["v"] & 0xFF]            # MV IL, n
    if k == "IDLE":
        return [0x00]
    if k == "STROBE":
        return [0xCC, 0xF0, ins["v"] & 0xFF]      # MV (KOL), n : select keyboard columns
    if k == "READKIL":
        return [0x80, 0xF2]                       # MV A, (KIL)
    raise ValueError(k)


_KEY_NAMES = None


class RustMachine:
    impl = "rs"

    def __init__(self, vh, name="m", kb_irq=True, press_th=None):
        self.vh = vh
        self.name = name
        self.kb_irq = kb_irq          # False: the non-default "keyboard interrupts disabled" configuration of the runtime
        vh.call("rt.new", name=name, cfg={"regs": {"PC": MAIN, "S": STACK, "U": STACK - 0x100}, "rom_overlays": [[0xFFFFA, VECTOR_BYTES]],
                                          "loads": [[VEC, [0x00]]], "timer": {"enabled": False, "pm": 0, "ps": 0, "kb_irq_enabled": kb_irq}})
        if press_th is not None:
            vh.call("rt.kbd_cfg", name=name, press_th=int(press_th))

    def pc(self):
        return self.vh.call("rt.obs", name=self.name)["pc"]

    def poke(self, addr, bs):
        self.vh.call("rt.poke", name=self.name, addr=addr, bytes=list(bs))

    def event(self, ev):
        k = ev["ev"]
        if k == "Timer":
            self.vh.call("rt.fire", name=self.name, which=ev["s"])
        elif k == "OnKey":
            self.vh.call("rt.press_on", name=self.name)
        elif k == "OnKeyUp":
            self.vh.call("rt.release_on", name=self.name)
        elif k == "TimerCfg":
            self.vh.call("rt.configure", name=self.name, cfg={"timer": {"enabled": True, "pm": ev["pm"], "ps": ev["ps"], "kb_irq_enabled": self.kb_irq}})
        elif k == "Key":
            self.vh.call("rt.key", name=self.name, code=ev["code"], press=bool(ev["press"]))

    def step_obs(self):
        return self.vh.call("rt.step_obs", name=self.name)


class PyMachine:
    impl = "py"

    def __init__(self, kb_irq=True, press_th=None, fast=False, trace=False, active_low=False):
        """fast: the emulator's minimal stepping path (`fast_mode`); trace: constructed with the perfetto / call-stack tracing
        switched on (observers only - no file is written unless a trace is started).  Both are configurations of the same machine:
        every architectural clause applies to them unchanged."""
        from pce500.emulator import PCE500Emulator
        rom = bytearray(0x40000)
        rom[0x3FFFA:0x3FFFD] = bytes(VECTOR_BYTES)
        rom[0x3FFFD:0x40000] = bytes([MAIN & 0xFF, (MAIN >> 8) & 0xFF, (MAIN >> 16) & 0xFF])
        # active_low: the keyboard columns are selected by 0 bits (constructor option; a fresh matrix then idles at KOL = 0xFF)
        self.emu = PCE500Emulator(trace_enabled=bool(trace), perfetto_trace=bool(trace), **({"keyboard_columns_active_high": False} if active_low else {}))
        if fast:
            self.emu.fast_mode = True
        self.emu.load_rom(bytes(rom))
        from sc62015.pysc62015.emulator import RegisterName
        self.R = RegisterName
        r = self.emu.cpu.regs
        r.set(RegisterName.PC, MAIN)
        r.set(RegisterName.S, STACK)
        r.set(RegisterName.U, STACK - 0x100)
        self.emu.memory.write_byte(VEC, 0x00)
        self.emu._timer_enabled = False
        self.emu._scheduler.mti_period = 0
        self.emu._scheduler.sti_period = 0
        self.emu._scheduler.reset(cycle_base=0)
        self.kb_irq = kb_irq
        self.emu._kb_irq_enabled = bool(kb_irq)     # the machine's own switch (also a snapshot member)
        # every event the matrix queues is noted as it is queued: the Python machine may queue and drain an event within one step
        # (its KIL / ISR handlers consume the queue), so the queue contents before and after a step do not show every event
        self.kev = []
        mx = self.emu.keyboard._matrix
        _enq = mx._enqueue_event

        def _noted(event, _enq=_enq):
            self.kev.append(int(event.to_byte()) & 0xFF)
            return _enq(event)
        mx._enqueue_event = _noted
        if press_th is not None:
            self.emu.keyboard._matrix.press_threshold = max(1, int(press_th))

    def pc(self):
        return self.emu.cpu.regs.get(self.R.PC)

    def poke(self, addr, bs):
        for i, b in enumerate(bs):
            self.emu.memory.write_byte(addr + i, b)

    def event(self, ev):
        k = ev["ev"]
        sch = self.emu._scheduler
        if k == "Timer":
            self.emu._timer_enabled = True
            if ev["s"] == 0:
                if sch.mti_period == 0:
                    sch.mti_period = 1 << 30
                sch.next_mti = self.emu.cycle_count
            else:
                if sch.sti_period == 0:
                    sch.sti_period = 1 << 30
                sch.next_sti = self.emu.cycle_count
        elif k == "OnKey":
            self.emu.press_key("KEY_ON")
        elif k == "OnKeyUp":
            self.emu.release_key("KEY_ON")
        elif k == "Key":
            global _KEY_NAMES
            if _KEY_NAMES is None:
                from pce500.keyboard_matrix import KEY_LOCATIONS
                _KEY_NAMES = {(loc.column << 3) | loc.row: name for name, loc in KEY_LOCATIONS.items()}
            (self.emu.press_key if ev["press"] else self.emu.release_key)(_KEY_NAMES[ev["code"]])
        elif k == "TimerCfg":
            self.emu._timer_enabled = True
            sch.mti_period = ev["pm"]
            sch.sti_period = ev["ps"]
            sch.reset(cycle_base=self.emu.cycle_count)

    def obs(self):
        e = self.emu
        r = e.cpu.regs
        R = self.R
        from pce500.memory import INTERNAL_MEMORY_START
        sch = e._scheduler
        live_m = sch.enabled and sch.mti_period > 0
        live_s = sch.enabled and sch.sti_period > 0
        return {"pc": r.get(R.PC), "s": r.get(R.S), "f": r.get(R.F), "ba": r.get(R.BA), "i": r.get(R.I),
                "imr": e.memory.read_byte(INTERNAL_MEMORY_START + 0xFB) & 0xFF, "isr": e.memory.read_byte(INTERNAL_MEMORY_START + 0xFC) & 0xFF,
                "pw": "halt" if getattr(e.cpu.state, "halted", False) else "run", "inint": int(bool(e._in_interrupt)), "pend": int(bool(e._irq_pending)),
                "tot": int(e.irq_counts.get("total", 0)), "instr": int(e.instruction_count), "cyc": int(e.cycle_count),
                "src": {"MTI": 0, "STI": 1, "KEY": 2, "ONK": 3}.get(e.last_irq.get("src"), -1),
                "nm": int(sch.next_mti) if live_m else 0, "ns": int(sch.next_sti) if live_s else 0,
                "kf": [int(b) & 0xFF for b in e.keyboard.fifo_snapshot()], "kl": int(bool(e._key_irq_latched))}

    def step_obs(self):
        pre = self.obs()
        err = None
        self.kev = []
        try:
            self.emu.step()
        except Exception as ex:  # a raising step is reported, not hidden
            err = f"{type(ex).__name__}: {ex}"
        post = self.obs()
        s = post["s"]
        frame = [self.emu.memory.read_byte((s + i) & 0xFFFFF) & 0xFF for i in range(5)]
        return {"pre": pre, "post": post, "frame": frame, "err": err, "kev": list(self.kev)}


def run_script(m, script: List[Dict[str, Any]], tid: int) -> List[Dict[str, Any]]:
    """script items: {"ev":"Step","ins":{...}} | {"ev":"Timer","s":0|1} | {"ev":"OnKey"} | {"ev":"OnKeyUp"} | {"ev":"TimerCfg",...}"""
    out = [{"tid": tid, "ev": "Init", "impl": m.impl, "kbirq": int(getattr(m, "kb_irq", True)), "cap": 8 if m.impl == "rs" else 7}]
    pending_env: List[Dict[str, Any]] = []
    for a in script:
        if a["ev"] != "Step":
            m.event(a)
            pending_env.append(a)
            continue
        ins = a["ins"]
        bs = encode(ins)
        pc = m.pc()
        m.poke(pc, bs)
        if pc <= VEC < pc + len(bs) + 1:
            pass
        r = m.step_obs()
        clr = 0
        for bit in (ins.get("m", []) if ins["k"] == "CLRISR" else []):
            clr |= 1 << bit
        cfg = [-1, -1]
        inj = [0, 0]
        for e in pending_env:
            if e["ev"] == "TimerCfg":
                cfg = [int(e["pm"]), int(e["ps"])]
            elif e["ev"] == "Timer":
                inj[int(e["s"])] = 1
        rse = 0
        for bit in (ins.get("m", []) if ins["k"] == "RAISE" else []):
            rse |= 1 << bit
        envk = [[int(e["code"]), int(bool(e["press"]))] for e in pending_env if e["ev"] == "Key"]
        out.append({"tid": tid, "ev": "Step", "kind": ins["k"], "len": len(bs), "vec": VEC, "clr": clr, "rse": rse, "envk": envk, "kev": r.get("kev") if r.get("kev") is not None else [], "kevk": int(r.get("kev") is not None), "env": [e["ev"] for e in pending_env], "cfg": cfg, "inj": inj,
                    "pre": r["pre"], "post": r["post"], "frame": r["frame"], "err": r["err"] or ""})
        pending_env = []
        # keep the handler entry a NOP for the next delivery
        m.poke(VEC, [0x00])
    return out
