"""Drivers for the four decode consumers (C01) and the encode round trip (C02)."""
from __future__ import annotations

import hashlib
import random
from typing import Any, Dict, List, Optional, Tuple

_arch = None
_emu = None
_mem: Dict[int, int] = {}
TAILS = {1: bytes([0x08, 0x12]), 2: bytes([0x4C, 0x88]), 3: bytes([0x56, 0x04, 0x00, 0x00])}


def _setup():
    global _arch, _emu
    if _arch is None:
        from sc62015.arch import SC62015
        from sc62015.pysc62015.emulator import Emulator
        from binja_test_mocks.eval_llil import Memory
        _arch = SC62015()
        m = Memory(lambda a: _mem.get(a, 0), lambda a, v: _mem.__setitem__(a, v & 0xFF))
        _emu = Emulator(m, reset_on_init=False)
    return _arch, _emu


def consumers(data: bytes, addr: int, fetch: bool) -> List[Any]:
    """-> [ia, il, ta, tl, tm, la, ll, fa, fl, fm, exc] for one buffer."""
    from binja_test_mocks.mock_llil import MockLowLevelILFunction
    arch, emu = _setup()
    exc = 0
    ia = il = ta = tl = la = ll = 0
    tm = fm = ""
    fa, fl = -1, 0
    try:
        i = arch.get_instruction_info(data, addr)
        if i is not None:
            ia, il = 1, int(i.length)
    except Exception:
        exc = 1
    try:
        t = arch.get_instruction_text(data, addr)
        if t is not None:
            ta, tl = 1, int(t[1])
            tm = str(t[0][0].text) if t[0] else ""
    except Exception:
        exc = 1
    try:
        f = MockLowLevelILFunction()
        l = arch.get_instruction_low_level_il(data, addr, f)
        if l is not None:
            la, ll = 1, int(l)
    except Exception:
        exc = 1
    if fetch:
        _mem.clear()
        for k, b in enumerate(data):
            _mem[(addr + k) & 0xFFFFFF] = b
        try:
            ins = emu.decode_instruction(addr)
            if type(ins).__name__ == "_FallbackInstruction":
                fa, fl = 0, 0
            else:
                fa, fl, fm = 1, int(ins.length()), str(ins.name())
        except Exception:
            exc = 1
            fa = 0
    return [ia, il, ta, tl, tm, la, ll, fa, fl, fm, exc]


def observe(base: bytes, rid: int, addr: int, contexts: bool, truncations: bool, history_rng: Optional[random.Random] = None) -> Dict[str, Any]:
    rows = []
    r0 = consumers(base, addr, True)
    rows.append([0, len(base)] + r0)
    L = r0[1] if r0[0] == 1 else 0
    if contexts and L > 0:
        for k, tail in TAILS.items():
            buf = base[:L] + tail
            rows.append([k, len(buf)] + consumers(buf, addr, True))
    if truncations:
        top = (L + 1) if L > 0 else min(len(base), 3)
        for n in range(0, min(top, len(base)) + 1):
            rows.append([4, n] + consumers(base[:n], addr, False))
    if history_rng is not None:
        # adversarial history: decode a handful of other strings (incl. prefixes and rejected ones) first
        for _ in range(4):
            junk = bytes(history_rng.randrange(256) for _ in range(7))
            consumers(junk, history_rng.randrange(0, 1 << 20), True)
        # ... and the sequential-fetch history: a predecessor instruction that ENDS at addr is fetched on the same emulator while
        # other bytes lie behind it (what any look-ahead of the fetch path has seen), then the memory is rewritten with the
        # buffer under test (self-modifying code, a loader overwriting the next instruction) and it is fetched at addr
        pred = history_rng.choice([bytes([0x00]), bytes([0x08, 0x12]), bytes([0x32, 0x00]), bytes([0x30, 0x50, 0x10, 0x01]), bytes([0x02, 0x34, 0x12])])
        other = history_rng.choice([bytes([0x08, 0x12, 0x00, 0x00]), bytes([0x02, 0x34, 0x12, 0x00]), bytes([0x32, 0xC8, 0x10, 0x20]),
                                    bytes(history_rng.randrange(256) for _ in range(6))])
        if addr >= len(pred):
            consumers(pred + other, addr - len(pred), True)
        rows.append([5, len(base)] + consumers(base, addr, True))
    return {"id": rid, "b": list(base), "o": rows}


def observe_followers(base: bytes, rid: int, addr: int, followers: List[bytes]) -> Dict[str, Any]:
    """the base string alone, then base[:L] followed by each follower (context 6)"""
    r0 = consumers(base, addr, True)
    rows = [[0, len(base)] + r0]
    L = r0[1] if r0[0] == 1 else 0
    if L > 0:
        for fw in followers:
            buf = base[:L] + fw
            rows.append([6, len(buf)] + consumers(buf, addr, True))
    return {"id": rid, "b": list(base), "o": rows, "fw": [list(f) for f in followers]}


def il_digest(data: bytes, addr: int) -> str:
    """Canonical serialisation of the lifted mock LLIL of the instruction at data."""
    from binja_test_mocks.mock_llil import MockLowLevelILFunction
    arch, _ = _setup()
    f = MockLowLevelILFunction()
    try:
        l = arch.get_instruction_low_level_il(data, addr, f)
    except Exception as e:  # pragma: no cover
        return "EXC:" + type(e).__name__
    if l is None:
        return "NONE"
    return hashlib.sha1(canonical_il(f).encode()).hexdigest()[:16]


def canonical_il(f) -> str:
    """repr of the mock LLIL with label object identities renamed to L0, L1, ... in order of first appearance."""
    import re
    text = repr(f.ils)
    seen: Dict[str, str] = {}

    def ren(m):
        return seen.setdefault(m.group(0), f"L{len(seen)}")

    return re.sub(r"<[\w.]*LowLevelILLabel object at 0x[0-9a-f]+>", ren, text)


def roundtrip(base: bytes, rid: int, addr: int) -> Optional[Dict[str, Any]]:
    """C02 record for one accepted byte string: consumed bytes, re-encoded bytes, and the second decode."""
    from sc62015.pysc62015.instr import decode, encode, OPCODES
    from binja_test_mocks.tokens import asm_str
    arch, _ = _setup()
    try:
        info = arch.get_instruction_info(base, addr)
    except Exception:
        return None
    if info is None:
        return None
    L = int(info.length)
    rec: Dict[str, Any] = {"id": rid, "b": list(base), "len": L, "exc": 0}
    try:
        ins = decode(base, addr, OPCODES)
        re = bytes(encode(ins, addr))
        rec["reenc"] = list(re)
        t1 = arch.get_instruction_text(base, addr)
        rec["text_none"] = 1 if t1 is None else 0
        txt1 = asm_str(ins.render())
        ins2 = decode(re + bytes(7), addr, OPCODES)
        rec["len2"] = int(ins2.length()) if ins2 is not None else 0
        rec["text_same"] = 1 if (ins2 is not None and asm_str(ins2.render()) == txt1) else 0
        rec["il_same"] = 1 if il_digest(base, addr) == il_digest(re + bytes(7), addr) else 0
        re2 = bytes(encode(ins2, addr)) if ins2 is not None else b""
        rec["reenc2_same"] = 1 if re2 == re else 0
        rec["text"] = txt1
    except Exception as e:
        rec["exc"] = 1
        rec["exc_name"] = type(e).__name__
        rec.setdefault("reenc", [])
        for k in ("text_none", "len2", "text_same", "il_same", "reenc2_same"):
            rec.setdefault(k, 0)
        rec.setdefault("text", "")
    return rec
