#!/bin/sh
# Offline setup: build the Rust harness from /repo's working tree with vendored crates; sanity-check TLC.
set -e
cd "$(dirname "$0")"
mkdir -p build evidence
export CARGO_TARGET_DIR="$PWD/build/target" CARGO_NET_OFFLINE=true
(cd harness/rust/vh && cargo build --release --offline 2>&1 | tail -3)
echo '{"cmd":"ping"}' | build/target/release/vh | grep -q pong
java -cp /opt/veriftools/tla/tla2tools.jar tlc2.TLC -h >/dev/null 2>&1 || true
echo "setup ok"
