#!/usr/bin/env python3
"""Regenerates the two generated regions of DESIGN.md section 9 from the files they describe:
   <!-- BEGIN findings --> ... <!-- END findings -->   from known_findings.json
   <!-- BEGIN seeds -->    ... <!-- END seeds -->      from seeded/*/meta.json
(markers are inserted on first use around the existing regions)."""
import json, re, glob, os
V = "/verif"
doc = open(f"{V}/DESIGN.md").read()


def cut(s, n, table=False):
    s = " ".join(str(s).split())
    if table:
        s = s.replace("|", "/")
    return s if len(s) <= n else s[:n] + "..."


def findings():
    kf = json.load(open(f"{V}/known_findings.json"))["findings"]
    out = []
    for pid in sorted({f["property"] for f in kf}):
        out.append(f"**{pid}**")
        for f in kf:
            if f["property"] != pid:
                continue
            tag = f"fixed {f['commit']}" if f["status"] == "fixed" else "open"
            out.append(f"* [{tag}] `{cut(f['key'], 100)}` — {cut(f['what'], 330)}")
        out.append("")
    return "\n".join(out)


def seeds():
    rows = ["| seed | property | change | status | first violation keys |", "|---|---|---|---|---|"]
    for d in sorted(glob.glob(f"{V}/seeded/*/")):
        name = os.path.basename(d.rstrip("/"))
        m = json.load(open(d + "meta.json"))
        w = m.get("what_was_run", {})
        keys = []
        for l in w.get("check_violation_lines", []):
            k = re.search(r"key=(\S+)", l)
            if k and k.group(1) not in keys:
                keys.append(k.group(1))
        st = m.get("status") or ("detected" if w.get("detected") else "MISSED")
        rows.append(f"| {name} | {m.get('property', w.get('property'))} | {cut(m.get('summary', ''), 170, True)} | {st} | {cut(', '.join(keys[:3]), 150, True)} |")
    return "\n".join(rows)


def put(doc, name, body, start_pat, end_pat):
    b, e = f"<!-- BEGIN {name} -->", f"<!-- END {name} -->"
    if b not in doc:
        i = re.search(start_pat, doc, re.M).start()
        j = re.search(end_pat, doc, re.M).start()
        return doc[:i] + b + "\n" + body + "\n" + e + "\n\n" + doc[j:]
    i = doc.index(b) + len(b)
    j = doc.index(e)
    return doc[:i] + "\n" + body + "\n" + doc[j:]


doc = put(doc, "findings", findings(), r"^\*\*C01\*\*$", r"^Observations that are \*not\*")
doc = put(doc, "seeds", seeds(), r"^\| seed \| property", r"^Two rounds of seeds")
open(f"{V}/DESIGN.md", "w").write(doc)
print("DESIGN.md regions regenerated")
