"""Shared machinery for the /verif checks: paths, TLC runner, TLA+ value parser, vh client,
evidence writer, known-finding matcher, verdict printing.

Exit codes: 0 = property held on everything explored (KNOWN-FINDING lines allowed),
            1 = VIOLATION line(s) printed, 2 = machinery failure (never a verdict).
"""
from __future__ import annotations

import json
import os
import re
import shutil
import subprocess
import sys
import time
from pathlib import Path
from typing import Any, Callable, Dict, Iterable, List, Optional, Tuple

VERIF = Path(__file__).resolve().parent.parent
REPO = Path(os.environ.get("VERIF_REPO", "/repo"))
# Isolated mode (used by lib/try_seed.py only): VERIF_REPO names another checkout of the repository and VERIF_BUILD a private
# build directory; build output, replay files and the evidence file of such a run stay under VERIF_BUILD, so it can run next
# to checks of the real /repo.  The registered commands never set these variables.
BUILD = Path(os.environ.get("VERIF_BUILD", str(VERIF / "build")))
SPEC = VERIF / "spec"
EVIDENCE = (BUILD / "evidence") if "VERIF_BUILD" in os.environ else VERIF / "evidence"
TLA_JAR = "/opt/veriftools/tla/tla2tools.jar"
COMMUNITY = "/opt/veriftools/tla/CommunityModules-deps.jar"
NCPU = os.cpu_count() or 4


class MachineryError(Exception):
    pass


def die_machinery(msg: str) -> None:
    print(f"MACHINERY-ERROR: {msg}", flush=True)
    sys.exit(2)


# --------------------------------------------------------------------------------------------
# TLC
# --------------------------------------------------------------------------------------------

def _tlc_classpath() -> str:
    cands = [TLA_JAR]
    d = Path("/opt/veriftools/tla")
    if d.is_dir():
        for p in sorted(d.glob("*.jar")):
            if str(p) not in cands:
                cands.append(str(p))
    return ":".join(cands)


class TlcResult:
    def __init__(self, rc: int, out: str, wall: float):
        self.rc = rc
        self.out = out
        self.wall = wall
        self.states_generated = 0
        self.distinct = 0
        self.depth = 0
        m = None
        for m in re.finditer(r"(\d+) states generated, (\d+) distinct states found", out):
            pass
        if m:
            self.states_generated = int(m.group(1))
            self.distinct = int(m.group(2))
        m = re.search(r"The depth of the complete state graph search is (\d+)", out)
        if m:
            self.depth = int(m.group(1))
        self.ok = ("Model checking completed. No error has been found." in out) or (
            rc == 0 and "Error:" not in out
        )
        self.invariant_violated: Optional[str] = None
        m = re.search(r"Invariant (\S+) is violated", out)
        if m:
            self.invariant_violated = m.group(1)
        m = re.search(r"Action property (\S+) is violated", out)
        if m:
            self.invariant_violated = m.group(1)
        if "Temporal properties were violated" in out:
            self.invariant_violated = self.invariant_violated or "temporal"

    def printed(self) -> List[Any]:
        """Values printed with PrintT (TLC pretty-prints large values over several lines;
        collect by bracket matching from a line that starts a tuple/record/set at column 0)."""
        vals = []
        lines = self.out.splitlines()
        i = 0
        n = len(lines)
        while i < n:
            s = lines[i]
            if s.startswith("<<") or s.startswith("[ ") or s.startswith("{"):
                buf = []
                depth = 0
                j = i
                instr = False
                done = False
                while j < n and not done:
                    ln = lines[j]
                    k = 0
                    while k < len(ln):
                        c = ln[k]
                        if instr:
                            if c == "\\":
                                k += 1
                            elif c == '"':
                                instr = False
                        elif c == '"':
                            instr = True
                        elif ln.startswith("<<", k):
                            depth += 1
                            k += 1
                        elif ln.startswith(">>", k):
                            depth -= 1
                            k += 1
                        elif c in "[{(":
                            depth += 1
                        elif c in "]})":
                            depth -= 1
                        k += 1
                    buf.append(ln)
                    j += 1
                    if depth <= 0:
                        done = True
                try:
                    vals.append(parse_tla("\n".join(buf)))
                except Exception:
                    pass
                i = j
            else:
                i += 1
        return vals

    def coverage_actions(self) -> Dict[str, Tuple[int, int]]:
        """Per-action (distinct, total) counts from -coverage output."""
        res: Dict[str, Tuple[int, int]] = {}
        for m in re.finditer(r"<(\w+) line \d+, col \d+ to line \d+, col \d+ of module (\w+)>: (\d+):(\d+)", self.out):
            name = m.group(1)
            d, t = int(m.group(3)), int(m.group(4))
            if name in res:
                res[name] = (res[name][0] + d, res[name][1] + t)
            else:
                res[name] = (d, t)
        return res


def run_tlc(
    module_dir: Path,
    module: str,
    cfg: Optional[str] = None,
    *,
    workers: int | str = "auto",
    env: Optional[Dict[str, str]] = None,
    extra: Optional[List[str]] = None,
    timeout: int = 1800,
    tag: str = "",
    depth_first: bool = False,
    simulate: Optional[str] = None,
    heap: str = "8g",
    jvm: Optional[List[str]] = None,
) -> TlcResult:
    """Run TLC on module_dir/module.tla with cfg (default module.cfg)."""
    meta = BUILD / "tlc" / (tag or module)
    if meta.exists():
        shutil.rmtree(meta, ignore_errors=True)
    meta.mkdir(parents=True, exist_ok=True)
    cmd = ["java", f"-Xmx{heap}", "-XX:+UseParallelGC", "-Xss256m"] + (jvm or [])
    if depth_first:
        cmd.append("-Dtlc2.tool.queue.IStateQueue=StateDeque")
    # every spec dir may reference spec/common
    libpath = os.pathsep.join([str(module_dir), str(SPEC / "common")] + [str(d) for d in sorted(SPEC.iterdir()) if d.is_dir() and d != module_dir and d.name != "common"])
    cmd += [f"-DTLA-Library={libpath}", "-cp", _tlc_classpath(), "tlc2.TLC"]
    cmd += ["-metadir", str(meta), "-noGenerateSpecTE"]
    cmd += ["-workers", str(workers)]
    if cfg:
        cmd += ["-config", cfg]
    if simulate:
        cmd += ["-simulate", simulate]
    if extra:
        cmd += extra
    cmd += [module]
    e = dict(os.environ)
    if env:
        e.update(env)
    t0 = time.time()
    try:
        p = subprocess.run(cmd, cwd=str(module_dir), env=e, capture_output=True, text=True, timeout=timeout)
    except subprocess.TimeoutExpired as ex:
        out = (ex.stdout or b"").decode() if isinstance(ex.stdout, bytes) else (ex.stdout or "")
        raise MachineryError(f"TLC timeout after {timeout}s on {module} ({tag}); tail: {out[-500:]}")
    wall = time.time() - t0
    out = p.stdout + "\n" + p.stderr
    (meta / "tlc.out").write_text(out)
    res = TlcResult(p.returncode, out, wall)
    # parse / semantic errors are machinery failures
    if re.search(r"(Parsing or semantic analysis failed|\*\*\* Errors:|Could not find|ConfigFileException|Unknown operator|was not found|In evaluation, the identifier)", out) and not res.ok:
        raise MachineryError(f"TLC could not process {module} ({tag}):\n" + out[-3000:])
    return res


def tlc_expect_ok(res: TlcResult, what: str) -> None:
    if not res.ok:
        raise MachineryError(f"TLC run '{what}' failed unexpectedly:\n{res.out[-3000:]}")


# --------------------------------------------------------------------------------------------
# TLA+ value parser (TLC's printed values: ints, strings, booleans, tuples, sets, records,
# functions written a :> b @@ c :> d, model values)
# --------------------------------------------------------------------------------------------

class _P:
    def __init__(self, s: str):
        self.s = s
        self.i = 0

    def ws(self) -> None:
        s = self.s
        n = len(s)
        while self.i < n and s[self.i] in " \t\r\n":
            self.i += 1

    def peek(self, k: int = 1) -> str:
        return self.s[self.i : self.i + k]

    def expect(self, tok: str) -> None:
        self.ws()
        if not self.s.startswith(tok, self.i):
            raise ValueError(f"expected {tok!r} at {self.i}: {self.s[self.i:self.i+40]!r}")
        self.i += len(tok)

    def value(self) -> Any:
        self.ws()
        v = self.atom()
        # function constructor chains  a :> b @@ c :> d
        self.ws()
        if self.peek(2) == ":>":
            d = {}
            k = v
            while True:
                self.expect(":>")
                val = self.atom_or_paren()
                d[_freeze(k)] = val
                self.ws()
                if self.peek(2) == "@@":
                    self.i += 2
                    self.ws()
                    k = self.atom()
                    self.ws()
                    continue
                break
            return d
        return v

    def atom_or_paren(self) -> Any:
        self.ws()
        return self.atom()

    def atom(self) -> Any:
        self.ws()
        s = self.s
        c = self.peek()
        if c == "(":
            self.i += 1
            v = self.value()
            self.expect(")")
            return v
        if self.peek(2) == "<<":
            self.i += 2
            items = []
            self.ws()
            if self.peek(2) == ">>":
                self.i += 2
                return tuple(items)
            while True:
                items.append(self.value())
                self.ws()
                if self.peek() == ",":
                    self.i += 1
                    continue
                self.expect(">>")
                return tuple(items)
        if c == "{":
            self.i += 1
            items = []
            self.ws()
            if self.peek() == "}":
                self.i += 1
                return TlaSet(items)
            while True:
                items.append(self.value())
                self.ws()
                if self.peek() == ",":
                    self.i += 1
                    continue
                self.expect("}")
                return TlaSet(items)
        if c == "[":
            self.i += 1
            rec = {}
            self.ws()
            if self.peek() == "]":
                self.i += 1
                return rec
            while True:
                self.ws()
                m = re.compile(r"[A-Za-z_][A-Za-z0-9_]*").match(s, self.i)
                if not m:
                    raise ValueError(f"record field expected at {self.i}")
                name = m.group(0)
                self.i = m.end()
                self.expect("|->")
                rec[name] = self.value()
                self.ws()
                if self.peek() == ",":
                    self.i += 1
                    continue
                self.expect("]")
                return rec
        if c == '"':
            j = self.i + 1
            out = []
            while s[j] != '"':
                if s[j] == "\\":
                    j += 1
                out.append(s[j])
                j += 1
            self.i = j + 1
            return "".join(out)
        m = re.compile(r"-?\d+").match(s, self.i)
        if m:
            self.i = m.end()
            return int(m.group(0))
        m = re.compile(r"[A-Za-z_][A-Za-z0-9_]*").match(s, self.i)
        if m:
            self.i = m.end()
            w = m.group(0)
            if w == "TRUE":
                return True
            if w == "FALSE":
                return False
            return ModelValue(w)
        raise ValueError(f"cannot parse at {self.i}: {s[self.i:self.i+40]!r}")


class TlaSet(list):
    """A TLA+ set, kept as a list (TLC prints them sorted)."""


class ModelValue(str):
    pass


def _freeze(v: Any) -> Any:
    if isinstance(v, (list, TlaSet)):
        return tuple(_freeze(x) for x in v)
    if isinstance(v, dict):
        return tuple(sorted((k, _freeze(x)) for k, x in v.items()))
    if isinstance(v, tuple):
        return tuple(_freeze(x) for x in v)
    return v


def parse_tla(s: str) -> Any:
    p = _P(s)
    v = p.value()
    p.ws()
    if p.i != len(p.s):
        raise ValueError(f"trailing input at {p.i}: {p.s[p.i:p.i+40]!r}")
    return v


def parse_state_block(block: str) -> Dict[str, Any]:
    """Parse '/\\ var = value' conjunct lists as TLC prints states."""
    # split on lines starting with '/\ name ='
    parts = re.split(r"(?m)^\s*/\\ (\w+) = ", "\n" + block.strip())
    if len(parts) == 1:
        # single-variable state: 'var = value'
        m = re.match(r"\s*(\w+) = (.*)", block.strip(), re.S)
        if not m:
            raise ValueError("cannot parse state block: " + block[:80])
        return {m.group(1): parse_tla(m.group(2).strip())}
    st: Dict[str, Any] = {}
    it = iter(parts[1:])
    for name, val in zip(it, it):
        st[name] = parse_tla(val.strip())
    return st


def parse_sim_file(path: Path) -> List[Tuple[str, Dict[str, Any]]]:
    """Parse one behaviour written by `tlc -simulate file=...`: list of (action header, state)."""
    text = Path(path).read_text()
    res: List[Tuple[str, Dict[str, Any]]] = []
    # blocks: '\* <Action line ..>' or '\* <Initial predicate>' followed by 'STATE_n ==' block
    for m in re.finditer(r"\\\* (.*?)\nSTATE_(\d+) ==\s*\n(.*?)(?=\n\\\* |\n={4,}|\Z)", text, re.S):
        hdr = m.group(1).strip()
        mm = re.match(r"<?(\w+)(\(.*?\))? line", hdr.lstrip("<"))
        act = hdr
        if mm:
            act = mm.group(1) + (mm.group(2) or "")
        elif "Initial predicate" in hdr:
            act = "Init"
        res.append((act, parse_state_block(m.group(3))))
    return res


def parse_dot_dump(path: Path) -> Tuple[Dict[str, Dict[str, Any]], List[Tuple[str, str, str]], List[str]]:
    """Parse `-dump dot,actionlabels` output: (nodes id->state, edges (src,dst,label), initial ids)."""
    text = Path(path).read_text()
    nodes: Dict[str, Dict[str, Any]] = {}
    edges: List[Tuple[str, str, str]] = []
    inits: List[str] = []
    for m in re.finditer(r'^(-?\d+) \[label="(.*?)"(,style = filled)?\]', text, re.M | re.S):
        nid = m.group(1)
        lab = m.group(2).replace("\\n", "\n").replace('\\"', '"').replace("\\\\", "\\")
        nodes[nid] = parse_state_block(lab)
        if m.group(3):
            inits.append(nid)
    for m in re.finditer(r'^(-?\d+) -> (-?\d+) \[label="(.*?)"', text, re.M):
        edges.append((m.group(1), m.group(2), m.group(3)))
    return nodes, edges, inits


# --------------------------------------------------------------------------------------------
# Rust harness
# --------------------------------------------------------------------------------------------

VH_BIN = BUILD / "target" / "release" / "vh"


def build_vh(quiet: bool = True) -> Path:
    """(Re)build the Rust harness against /repo's current working tree."""
    env = dict(os.environ)
    env["CARGO_TARGET_DIR"] = str(BUILD / "target")
    env["CARGO_NET_OFFLINE"] = "true"
    rust = VERIF / "harness" / "rust"
    if REPO != Path("/repo"):
        # the shadow manifest names /repo: use a private copy of the harness crates that names the other checkout
        rust = BUILD / "rust"
        shutil.rmtree(rust, ignore_errors=True)
        shutil.copytree(VERIF / "harness" / "rust", rust)
        man = rust / "shadow" / "Cargo.toml"
        man.write_text(man.read_text().replace('"/repo/sc62015/core/src/lib.rs"', f'"{REPO}/sc62015/core/src/lib.rs"'))
    p = subprocess.run(
        ["cargo", "build", "--release", "--offline"],
        cwd=str(rust / "vh"),
        env=env,
        capture_output=True,
        text=True,
    )
    if p.returncode != 0:
        raise MachineryError("cargo build of vh failed:\n" + p.stderr[-4000:])
    return VH_BIN


class Vh:
    """JSON-lines client for the vh binary."""

    def __init__(self) -> None:
        if not VH_BIN.exists():
            build_vh()
        self.p = subprocess.Popen([str(VH_BIN)], stdin=subprocess.PIPE, stdout=subprocess.PIPE, text=True, bufsize=1)
        self.recent: List[Dict[str, Any]] = []      # the latest requests of this session (replay material when the core panics)

    def call(self, cmd: str, **kw: Any) -> Any:
        kw["cmd"] = cmd
        assert self.p.stdin and self.p.stdout
        self.recent.append(kw)
        if len(self.recent) > 4000:
            del self.recent[:2000]
        self.p.stdin.write(json.dumps(kw) + "\n")
        self.p.stdin.flush()
        line = self._readline(kw)
        if not line:
            raise MachineryError(f"vh died on {cmd}")
        r = json.loads(line)
        if not r.get("ok"):
            if "panic" in r:
                # the Rust core itself panicked while serving an in-domain request: not a harness failure
                raise ImplCrash("rs", f"panic:{cmd}", str(r.get("panic"))[:300], "", self.recent[-600:])
            raise VhError(r.get("err") or "error")
        return r["r"]

    def _readline(self, req: Any, timeout: float = 300.0) -> str:
        import select
        assert self.p.stdout
        r, _, _ = select.select([self.p.stdout], [], [], timeout)
        if not r:
            self.p.kill()
            # every request is served in milliseconds to a few seconds on the unchanged tree; five minutes without an answer means
            # the code under test (or the harness loop that waits for it to finish) does not terminate on an in-scope request: like
            # a panic, the operation the property talks about produced no result
            raise ImplCrash("rs", f"hang:{req.get('cmd') if isinstance(req, dict) else '?'}", f"no answer within {timeout:.0f}s: {json.dumps(req)[:300]}", "", self.recent[-600:])
        return self.p.stdout.readline()

    def batch(self, reqs: List[Dict[str, Any]]) -> List[Dict[str, Any]]:
        """Send many requests, return raw responses (ok/err objects)."""
        assert self.p.stdin and self.p.stdout
        out = []
        CH = 200
        for i in range(0, len(reqs), CH):
            chunk = reqs[i : i + CH]
            self.p.stdin.write("".join(json.dumps(r) + "\n" for r in chunk))
            self.p.stdin.flush()
            for _ in chunk:
                line = self.p.stdout.readline()
                if not line:
                    raise MachineryError("vh died in batch")
                out.append(json.loads(line))
        return out

    def close(self) -> None:
        try:
            if self.p.stdin:
                self.p.stdin.close()
            self.p.wait(timeout=5)
        except Exception:
            self.p.kill()


class VhTimeout(Exception):
    pass


class VhError(Exception):
    def __init__(self, msg: str, panic: bool = False):
        super().__init__(msg)
        self.panic = panic


class ImplCrash(Exception):
    """The code under test (not the machinery) failed with an unexpected error on an input the check considers in scope:
    a panic inside the Rust core, or a Python exception whose innermost frame lies in the repository.  The operation produced
    no result at all, so whatever the property says about that result does not hold: reported as a violation (key NoCrash:...)."""

    def __init__(self, impl: str, where: str, msg: str, tb: str = "", requests: Any = None):
        super().__init__(impl, where, msg, tb, requests)
        self.impl, self.where, self.msg, self.tb, self.requests = impl, where, msg, tb, requests

    def __str__(self) -> str:
        return f"{self.impl} {self.where}: {self.msg}"


def classify_exception(e: BaseException) -> Optional["ImplCrash"]:
    """ImplCrash if `e` was raised inside the repository's Python code (innermost frame under REPO), else None."""
    import traceback as _tb
    if isinstance(e, (ImplCrash, MachineryError, VhError, VhTimeout, KeyboardInterrupt, MemoryError)):
        return e if isinstance(e, ImplCrash) else None
    frames = _tb.extract_tb(e.__traceback__)
    if not frames:
        return None
    inner = frames[-1]
    repo = str(REPO.resolve()) + os.sep
    fn = str(Path(inner.filename).resolve()) if inner.filename and not inner.filename.startswith("<") else inner.filename
    if not fn.startswith(repo):
        return None
    rel = fn[len(repo):]
    txt = "".join(_tb.format_exception(type(e), e, e.__traceback__))[-3000:]
    return ImplCrash("py", f"{type(e).__name__}:{rel}:{inner.name}", str(e)[:300], txt, None)


class _Guarded:
    """pmap wrapper: exceptions raised by the code under test inside a worker come back as ImplCrash (picklable, with the
    traceback text); everything else propagates unchanged."""

    def __init__(self, func: Callable[[Any], Any]):
        self.func = func

    def __call__(self, a: Any) -> Any:
        try:
            return self.func(a)
        except Exception as e:      # noqa: BLE001
            c = classify_exception(e)
            if c is not None and c is not e:
                raise c from None
            raise


# --------------------------------------------------------------------------------------------
# Python side environment for importing /repo
# --------------------------------------------------------------------------------------------

def setup_repo_imports() -> None:
    os.environ.setdefault("FORCE_BINJA_MOCK", "1")
    if str(REPO) not in sys.path:
        sys.path.insert(0, str(REPO))
    from binja_test_mocks import binja_api  # noqa: F401


# --------------------------------------------------------------------------------------------
# Limbs (TLC integers are 32-bit signed; JSON numbers >= 2^31 get mangled)
# --------------------------------------------------------------------------------------------

def limbs(v: int) -> List[int]:
    return [(v >> 16) & 0xFFFF, v & 0xFFFF]


def unlimbs(l: Iterable[int]) -> int:
    hi, lo = l
    return (hi << 16) | lo


# --------------------------------------------------------------------------------------------
# Findings, verdicts, evidence
# --------------------------------------------------------------------------------------------

class Violation:
    def __init__(self, key: str, desc: str, replay: Any):
        self.key = key  # structural key for known-finding matching
        self.desc = desc
        self.replay = replay  # JSON-serialisable: enough to re-run the failing case


def load_known_findings() -> List[Dict[str, Any]]:
    p = Path(os.environ.get("VERIF_KNOWN_FINDINGS", str(VERIF / "known_findings.json")))      # (override: development aid only)
    if not p.exists():
        return []
    return json.loads(p.read_text()).get("findings", [])


class CheckRun:
    """Collects coverage, violations, drift for one property run and produces verdict + evidence."""

    def __init__(self, pid: str, tier: str, seed: int, level: str):
        self.pid = pid
        self.tier = tier
        self.seed = seed
        self.level = level
        self.t0 = time.time()
        self.violations: List[Violation] = []
        self.drift: List[str] = []
        self.cov: Dict[str, Any] = {
            "states": 0,
            "transitions": 0,
            "traces_validated_against_impl": 0,
            "evaluations": 0,
            "distinct_nontrivial": 0,
            "samples": [],
            "model_drift": 0,
            "tlc_runs": [],
        }
        self.assumptions: List[str] = []
        self.notes: List[str] = []

    def mark(self, name: str) -> None:
        """Record wall-clock time since the previous mark under `name` (evidence: coverage.phases)."""
        now = time.time()
        last = getattr(self, "_last_mark", self.t0)
        self.cov.setdefault("phases", []).append({"phase": name, "wall_s": round(now - last, 1)})
        self._last_mark = now

    # -- coverage helpers
    def add_tlc(self, name: str, res: TlcResult) -> None:
        self.cov["states"] += res.distinct
        self.cov["transitions"] += res.states_generated
        self.cov["tlc_runs"].append(
            {"name": name, "distinct_states": res.distinct, "states_generated": res.states_generated, "depth": res.depth, "wall_s": round(res.wall, 2)}
        )

    def add_sample(self, s: Any, cap: int = 6) -> None:
        if len(self.cov["samples"]) < cap:
            self.cov["samples"].append(s)

    def violation(self, key: str, desc: str, replay: Any) -> None:
        self.violations.append(Violation(key, desc, replay))

    def add_drift(self, msg: str) -> None:
        self.drift.append(msg)
        self.cov["model_drift"] += 1
        if len(self.drift) <= 20:
            print(f"DRIFT property={self.pid} {msg}", flush=True)

    # -- verdict
    def finish(self) -> int:
        known = [k for k in load_known_findings() if k.get("property") == self.pid and k.get("status", "open") == "open"]
        unlisted: List[Violation] = []
        matched: Dict[str, int] = {}
        for v in self.violations:
            hit = None
            for k in known:
                if re.fullmatch(k["key"], v.key):
                    hit = k
                    break
            if hit is None:
                unlisted.append(v)
            else:
                matched[hit["key"]] = matched.get(hit["key"], 0) + 1
        for k in known:
            n = matched.get(k["key"], 0)
            if n:
                print(f"KNOWN-FINDING: property={self.pid} {k['what']} (key={k['key']}, {n} case(s) this run)", flush=True)
        rc = 0
        if unlisted:
            rc = 1
            rdir = BUILD / "replay" / self.pid
            rdir.mkdir(parents=True, exist_ok=True)
            seen = set()
            n = 0
            for v in unlisted:
                if v.key in seen:
                    continue
                seen.add(v.key)
                n += 1
                if n > 25:
                    break
                path = rdir / f"{self.pid}-{n}.json"
                path.write_text(json.dumps({"property": self.pid, "key": v.key, "desc": v.desc, "replay": v.replay}, indent=1, default=str))
                print(f"VIOLATION property={self.pid} replay={path} key={v.key} :: {v.desc}", flush=True)
        if os.environ.get("VERIF_DUMP_KEYS"):      # debugging aid: every unlisted key with its count and first description
            agg: Dict[str, Any] = {}
            for v in unlisted:
                a = agg.setdefault(v.key, {"n": 0, "desc": v.desc, "replay": v.replay})
                a["n"] += 1
            Path(os.environ["VERIF_DUMP_KEYS"]).write_text(json.dumps(agg, indent=1, default=str))
        self.cov["known_findings_matched"] = sum(matched.values())
        self.cov["violation_keys"] = sorted({v.key for v in unlisted})[:50]
        ev = {
            "property_id": self.pid,
            "tier": self.tier,
            "seed": self.seed,
            "level": self.level,
            "coverage": self.cov,
            "assumptions": self.assumptions,
            "wall_s": round(time.time() - self.t0, 2),
            "violations": len(unlisted),
        }
        if not self.cov["samples"]:
            self.cov["samples"] = ["(no sample recorded)"]
        if self.notes:
            ev["coverage"]["notes"] = self.notes
        EVIDENCE.mkdir(exist_ok=True)
        (EVIDENCE / f"{self.pid}.json").write_text(json.dumps(ev, indent=1, default=str))
        print(
            f"RESULT property={self.pid} tier={self.tier} seed={self.seed} violations={len(unlisted)} known={sum(matched.values())} "
            f"drift={len(self.drift)} states={self.cov['states']} traces={self.cov['traces_validated_against_impl']} "
            f"evaluations={self.cov['evaluations']} wall={ev['wall_s']}s",
            flush=True,
        )
        return rc


def write_ndjson(path: Path, records: Iterable[Any]) -> int:
    path.parent.mkdir(parents=True, exist_ok=True)
    n = 0
    with open(path, "w") as f:
        for r in records:
            f.write(json.dumps(r, separators=(",", ":")) + "\n")
            n += 1
    return n


def scratch(pid: str) -> Path:
    d = BUILD / "work" / pid
    d.mkdir(parents=True, exist_ok=True)
    return d


# --------------------------------------------------------------------------------------------
# Sharded execution (fork-based process pool; each shard drives the implementation, writes its
# own trace file and runs its own single-worker TLC)
# --------------------------------------------------------------------------------------------

def shard_list(items: List[Any], k: int) -> List[List[Any]]:
    k = max(1, min(k, len(items)))
    return [items[i::k] for i in range(k)] if items else []


def run_apalache(arg: Tuple[str, str, List[str], str, int]) -> Dict[str, Any]:
    """One `apalache-mc check` invocation: (module dir, module file, extra args, tag, timeout s).  Returns the outcome
    ('NoError' | 'Error' | 'timeout' | 'failed') and the wall time; used for inductive-invariant checks (length 0 / 1)."""
    import shutil
    mdir, mfile, extra, tag, tmo = arg
    out = BUILD / "apalache" / tag
    shutil.rmtree(out, ignore_errors=True)
    out.mkdir(parents=True, exist_ok=True)
    t0 = time.time()
    try:
        p = subprocess.run(["apalache-mc", "check", f"--out-dir={out}"] + extra + [mfile], cwd=mdir, capture_output=True, text=True, timeout=tmo)
        txt = p.stdout + p.stderr
        m = re.search(r"The outcome is: (\w+)", txt)
        outcome = m.group(1) if m else "failed"
        tail = txt[-1500:] if outcome == "failed" else ""
    except subprocess.TimeoutExpired:
        outcome, tail = "timeout", ""
    shutil.rmtree(out, ignore_errors=True)
    return {"tag": tag, "args": extra, "outcome": outcome, "wall_s": round(time.time() - t0, 1), "tail": tail}


def pmap(func: Callable[[Any], Any], args: List[Any], procs: Optional[int] = None) -> List[Any]:
    import multiprocessing as mp
    if not args:
        return []
    procs = procs or min(NCPU, len(args))
    func = _Guarded(func)
    if procs <= 1 or len(args) == 1:
        return [func(a) for a in args]
    # ProcessPoolExecutor (not mp.Pool): a worker killed by the kernel (out of memory) raises BrokenProcessPool instead of
    # leaving the parent waiting forever
    from concurrent.futures import ProcessPoolExecutor
    from concurrent.futures.process import BrokenProcessPool
    ctx = mp.get_context("fork")
    try:
        with ProcessPoolExecutor(max_workers=procs, mp_context=ctx) as pool:
            return list(pool.map(func, args))
    except BrokenProcessPool as e:
        raise MachineryError(f"a worker process died (out of memory?): {e}")


def tlc_judge_trace(pid: str, spec_dir: Path, module: str, cfg: str, events: List[Any], tag: str, heap: str = "2g") -> List[Dict[str, Any]]:
    """Write events as ndjson, run the Trace* specification over them (single worker, linear
    behaviour), return the collected `bad` records printed as <<"BAD", n, set>>."""
    d = scratch(pid)
    # traces are independent (each starts with an "Init" event that resets the monitors): long campaigns are judged in chunks
    # of at most CHUNK events, cut at trace starts, so that one TLC never has to hold a trace file of hundreds of megabytes
    CHUNK = 40000
    chunks: List[List[Any]] = [[]]
    for e in events:
        if len(chunks[-1]) >= CHUNK and isinstance(e, dict) and e.get("ev") == "Init":
            chunks.append([])
        chunks[-1].append(e)
    out: List[Dict[str, Any]] = []
    offset = 0          # `line` fields of the verdicts are positions in the whole event list
    for ci, ch in enumerate(chunks):
        tf = d / f"trace-{tag}-{ci}.ndjson"
        write_ndjson(tf, ch)
        res = run_tlc(spec_dir, module, cfg, workers=1, env={"TRACE_FILE": str(tf)}, tag=f"{pid}-trace-{tag}", timeout=3000, heap=heap)
        bad = None
        for v in res.printed():
            if isinstance(v, tuple) and len(v) == 3 and v[0] == "BAD":
                bad = v
        if bad is None or not res.ok:
            raise MachineryError(f"trace validation did not complete ({pid} {tag} chunk {ci}):\n{res.out[-2500:]}")
        tf.unlink()
        for b in bad[2]:
            b = dict(b)
            if isinstance(b.get("line"), int):
                b["line"] += offset
            out.append(b)
        offset += len(ch)
    return out


def _campaign_job(arg):
    pid, spec_dir, module, cfg, drive_fn, shard_id, items, tag, extra = arg
    events, meta = drive_fn(shard_id, items, extra)
    if not events:
        return (0, 0, [], {})
    bad = tlc_judge_trace(pid, spec_dir, module, cfg, events, f"{tag}-{shard_id}")
    badmeta = {b["tid"]: meta.get(b["tid"]) for b in bad}
    return (len(meta), len(events), bad, badmeta)


def trace_campaign(pid: str, spec_dir: Path, module: str, cfg: str, items: List[Any], drive_fn: Callable, tag: str,
                   extra: Any = None, procs: Optional[int] = None):
    """Shard `items` (behaviours / seeds), drive the implementation in worker processes
    (drive_fn(shard_id, items, extra) -> (events, {tid: meta})), TLC-judge each shard's trace file.
    Returns (n_traces, n_events, [(bad_record, meta)])."""
    shards = shard_list(items, procs or NCPU)
    res = pmap(_campaign_job, [(pid, spec_dir, module, cfg, drive_fn, i, sh, tag, extra) for i, sh in enumerate(shards)], procs)
    ntr = sum(r[0] for r in res)
    nev = sum(r[1] for r in res)
    bad = []
    for r in res:
        for b in r[2]:
            bad.append((b, r[3].get(b["tid"])))
    return ntr, nev, bad


def sim_behaviours(spec_dir: Path, module: str, cfg: str, n: int, depth: int, seed: int, tag: str, var: str = "acts") -> Tuple[List[Any], "TlcResult"]:
    """`tlc -simulate`: n behaviours of given depth; returns the final value of history variable `var` of each."""
    d = BUILD / "work" / tag / "sim"
    if d.exists():
        shutil.rmtree(d)
    d.mkdir(parents=True, exist_ok=True)
    res = run_tlc(spec_dir, module, cfg, workers=1, simulate=f"file={d}/tr,num={n}", extra=["-depth", str(depth), "-seed", str(seed)], tag=f"{tag}-sim", timeout=1800)
    out = []
    pat = re.compile(r"/\\ " + var + r" = (.*?)(?=\n/\\ |\n\n|\n=+|\Z)", re.S)
    for f in sorted(d.iterdir()):
        text = f.read_text()
        # only the value of `var` in the LAST state is needed (it is a history variable)
        k = text.rfind("/\\ " + var + " = ")
        if k < 0:
            continue
        m = pat.match(text, k)
        if not m:
            continue
        v = parse_tla(m.group(1).strip())
        if v:
            out.append(v)
    shutil.rmtree(d, ignore_errors=True)
    return out, res


def dump_behaviours(spec_dir: Path, module: str, cfg: str, tag: str, var: str = "acts", coverage: bool = True, timeout: int = 3000) -> Tuple[List[Any], "TlcResult"]:
    """Exhaustive TLC run with a state dump; returns the value of history variable `var` in every
    reachable state (each state with a history is one replayable behaviour)."""
    d = BUILD / "work" / tag
    d.mkdir(parents=True, exist_ok=True)
    dump_path = d / f"{cfg}.dump"
    extra = ["-dump", str(dump_path)] + (["-coverage", "1"] if coverage else [])
    res = run_tlc(spec_dir, module, cfg, workers=NCPU, extra=extra, tag=f"{tag}-{cfg}", timeout=timeout)
    out = []
    if dump_path.exists():
        text = dump_path.read_text()
        for m in re.finditer(r"(?:/\\ |^)" + var + r" = (.*?)(?=\n/\\ |\n\nState |\Z)", text, re.S | re.M):
            v = parse_tla(m.group(1).strip())
            if v:
                out.append(v)
        dump_path.unlink()
    return out, res
