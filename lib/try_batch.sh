#!/bin/sh
# try_batch.sh <suffix> <PID>... : prepare and try the seeds /tmp/seeded-out/<PID><suffix> one after the other (isolated mode)
SUF="$1"; shift
for P in "$@"; do
  S="$P$SUF"
  [ -f /tmp/seeded-out/$S/meta.json ] || { echo "$S missing"; continue; }
  /verif/lib/prep_seed.py $S >/dev/null
  /verif/lib/try_seed.py $S $P > /tmp/try-$S.log 2>&1
  python3 -c "
import json;d=json.load(open('/verif/seeded/$S/meta.json'))['what_was_run'];print('$S',{k:d.get(k) for k in ('applies','pinned_ok','demo_confirms','detected','check_rc')}, [l[:220] for l in d.get('check_violation_lines',[])[:2]])"
done
