#!/usr/bin/env python3
"""prep_seed.py <seed-name>: normalise the demo command a seed agent wrote into /tmp/seeded-out/<name>/meta.json
(strip trailing explanations; Rust demonstrations run through lib/run_rust_demo.sh).  The original text is kept."""
import json, os, re, sys
name = sys.argv[1]
src = f"/tmp/seeded-out/{name}"
p = f"{src}/meta.json"
m = json.load(open(p))
if "demo_cmd_original" not in m:
    m["demo_cmd_original"] = m.get("demo_cmd", "")
if os.path.exists(f"{src}/demo.rs"):
    m["demo_cmd"] = f"sh /verif/lib/run_rust_demo.sh <repo root> /tmp/seeded-out/{name}/demo.rs"
else:
    m["demo_cmd"] = re.sub(r"\s+[\(#].*$", "", m["demo_cmd_original"], flags=re.S).strip()
json.dump(m, open(p, "w"), indent=1)
print(name, "->", m["demo_cmd"])
