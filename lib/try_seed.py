#!/usr/bin/env python3
"""try_seed.py <seed-name> <PID> [--skip-tests]
Confirms a seeded change (from /tmp/seeded-out/<seed-name>/) in a scratch worktree (applies, pinned suite still
passes, demo fails with / passes without), then runs ./check PID --tier quick against /repo with the patch
applied and reverts /repo.  Stores everything under /verif/seeded/<seed-name>/."""
import json, os, re, shutil, subprocess, sys, time
import fcntl
# at most two seed trials at a time (each has its own isolated build directory)
while True:
    got = None
    for slot in ("a", "b"):
        _lock = open(f"/tmp/vbuild-seed-{slot}.lock", "w")
        try:
            fcntl.flock(_lock, fcntl.LOCK_EX | fcntl.LOCK_NB)
            got = slot
            break
        except OSError:
            _lock.close()
    if got:
        break
    time.sleep(5)
name, pid = sys.argv[1], sys.argv[2]
skip_tests = "--skip-tests" in sys.argv
src = f"/tmp/seeded-out/{name}"
dst = f"/verif/seeded/{name}"
os.makedirs(dst, exist_ok=True)
prev_run = {}
if os.path.exists(f"{dst}/meta.json"):
    prev_run = json.load(open(f"{dst}/meta.json")).get("what_was_run", {})
if os.path.isdir(src):
    for f in os.listdir(src):
        if os.path.isfile(os.path.join(src, f)):
            shutil.copy(os.path.join(src, f), dst)
meta = json.load(open(f"{dst}/meta.json"))
wt = f"/tmp/vwt-{name}"
def sh(cmd, **kw):
    return subprocess.run(cmd, shell=True, capture_output=True, text=True, **kw)
res = {"seed": name, "property": pid}
sh(f"git -C /repo worktree remove --force {wt}; rm -rf {wt}")
r = sh(f"git -C /repo worktree add {wt} HEAD && git -C {wt} apply {dst}/patch.diff")
res["applies"] = r.returncode == 0
if not res["applies"]:
    print(r.stderr)
if not skip_tests and res["applies"]:
    r = sh(f"cd {wt} && /venv/bin/python -m pytest -q -p no:cacheprovider --timeout=900 --continue-on-collection-errors 2>&1 | tail -3")
    m = re.search(r"(\d+) passed", r.stdout)
    res["pinned_passed"] = int(m.group(1)) if m else -1
    m = re.search(r"(\d+) failed", r.stdout)
    res["pinned_failed"] = int(m.group(1)) if m else 0
    res["pinned_ok"] = res["pinned_passed"] == 412 and res["pinned_failed"] == 17
def run_demo(root):
    cmd = meta.get("demo_cmd", "")
    cmd = cmd.replace("<repo root>", root).replace("<repo_root>", root).replace("<REPO_ROOT>", root).replace("<repo>", root)
    cmd = cmd.replace(src, dst)
    r = sh(cmd, cwd=dst, timeout=1800)
    return r.returncode, (r.stdout + r.stderr)[-600:]
if res["applies"]:
    rc_with, out_with = run_demo(wt)
    rc_without, out_without = run_demo("/repo")
    res["demo_with_patch_rc"] = rc_with
    res["demo_without_patch_rc"] = rc_without
    res["demo_confirms"] = rc_with != 0 and rc_without == 0
    res["demo_tail_with"] = out_with[-300:]
# run the check against the patched scratch worktree in isolated mode (VERIF_REPO / VERIF_BUILD): /repo itself, the main build
# directory and the evidence files of the real tree are not touched, so this can run next to other checks
bdir = f"/tmp/vbuild-seed-{got}"
try:
    t0 = time.time()
    r = sh(f"cd /verif && VERIF_REPO={wt} VERIF_BUILD={bdir} timeout 3000 ./check {pid} --tier quick", timeout=3100)
    res["check_rc"] = r.returncode
    res["check_wall_s"] = round(time.time() - t0, 1)
    res["check_violation_lines"] = [l[:400] for l in r.stdout.splitlines() if l.startswith("VIOLATION")][:8]
    res["check_tail"] = r.stdout.splitlines()[-1:]
    if r.returncode not in (0, 1):
        print(r.stdout[-2000:], r.stderr[-2000:])
finally:
    sh(f"git -C /repo worktree remove --force {wt}; rm -rf {wt}; git -C /repo worktree prune")
res["detected"] = res.get("check_rc") == 1
if skip_tests:      # keep the suite result of the earlier full confirmation
    for k in ("pinned_passed", "pinned_failed", "pinned_ok"):
        if k in prev_run:
            res[k] = prev_run[k]
meta["what_was_run"] = res
json.dump(meta, open(f"{dst}/meta.json", "w"), indent=1)
print(json.dumps(res, indent=1))
