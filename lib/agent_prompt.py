#!/usr/bin/env python3
"""Prints the prompt given to a fresh sub-agent asked to seed a property-breaking change (no /verif content)."""
import json, sys
pid = sys.argv[1]
variant = sys.argv[2] if len(sys.argv) > 2 else "a"
for l in open('/verif/properties.jsonl'):
    p = json.loads(l)
    if p['id'] == pid:
        break
hint = {
 "a": "Prefer a change in the Python code if the property mentions Python, otherwise Rust.",
 "b": "Prefer a change in the Rust core (sc62015/core/src) if the property involves it, otherwise pick a different Python site than the most obvious one.",
 "c": "Prefer a change whose effect depends on an INTERACTION of two features (for example an addressing prefix together with a counted instruction, an interrupt arriving while halted, a snapshot taken during a debounce window, a label defined in another section, a page boundary together with a stack operation); avoid the most obvious single arithmetic or table site, and avoid sites where the surrounding code already looks inconsistent.",
}
hint["d"] = hint["c"]
hint["e"] = ("Prefer a change in a RARELY EXERCISED configuration, mode or edge path: a constructor option or non-default threshold/polarity, an optional "
             "component that is absent, an empty queue, a zero or maximal length, the last address of a region, wrap-around of a counter or address, "
             "an error path, the second of two consecutive operations of the same kind. Choose the core (Python or Rust) and the site that you judge "
             "LEAST likely to be caught by differential testing of one core against the other or by a simple round-trip test; avoid the most obvious "
             "arithmetic or table site.")
hint["f"] = ("Prefer a change that only shows on REUSE or through a RARELY USED ENTRY POINT: the second call on the same object, a second object "
             "created in the same process, a reset / reconfigure / restore followed by further use, state left behind by an earlier rejected or "
             "failed operation, module-level caches or mutable defaults shared between instances, an alternative constructor, a convenience "
             "wrapper or the batch variant of a single-step call, an option that is off by default. Avoid the most obvious arithmetic or table "
             "site, and avoid changes that any single fresh-object round trip would expose.")
hint["g"] = ("Prefer a change at a SEAM BETWEEN COMPONENTS or in an ERROR / FALLBACK PATH: the glue between the CPU core and a peripheral "
             "(memory-mapped registers, callbacks, overlays), the conversion between two representations of the same thing (bytes <-> integers, "
             "Python <-> Rust field names, snapshot metadata <-> live objects, text <-> operands), an exception that is caught and replaced by a "
             "default, a value that is clamped / masked / defaulted when it is out of range, or the order of two independent-looking updates. "
             "The change should leave every component correct in isolation. Avoid the most obvious arithmetic or table site.")
hint["h"] = ("Assume the repository is guarded by a strong verification framework that you cannot see: it enumerates every opcode x prefix x "
             "mode byte with seeded operand bytes and states, runs the Python core and the Rust core differentially, round-trips decode / encode / "
             "assemble, replays model-generated event schedules on both machine models, snapshots at every step, and compares duplicated tables. "
             "Craft a change that is a genuine violation of the property yet has the best chance of slipping past such a framework: it should need "
             "a specific VALUE or a specific LONG or ORDERED sequence that enumeration with small bounds, short random schedules and two-core "
             "comparison are unlikely to hit (for example: a value reachable only after many steps, a counter that must wrap, three events in a "
             "particular order, a state that both cores would get wrong in the same way, an input class the framework would consider out of "
             "scope but the property does not).")
hint["i"] = ("Look at ALL the files the property is anchored in (listed below) and prefer a SECONDARY one: a wrapper, cache, alternative "
             "entry point, asynchronous / batched twin of a synchronous routine, device profile, bridge or convenience layer that sits next to "
             "the main implementation and is expected to behave identically (for example a cached decoder next to the decoder, a stepper next to "
             "the emulator, an async evaluator next to the synchronous one, a keyboard handler next to the matrix, a display pipeline next to the "
             "controller, a second device model next to the first). The main implementation should stay correct; the secondary path should "
             "deviate only for a specific input, state or order of calls. Avoid the most obvious arithmetic or table site.")
hint["j"] = ("Prefer a COMPENSATED change: one that is applied consistently on BOTH sides of a comparison that a test harness would naturally "
             "make - both the Python core and the Rust core, both the encoder and the decoder, both the renderer and the assembler's parser, "
             "both snapshot save and snapshot load, both the producer and the consumer of a queue - so that the two sides still agree with each "
             "other and round trips still close, while the behaviour no longer matches what the property and the repository documentation "
             "(README instruction tables, hardware description) require. The change should need a specific operand value, state or sequence to "
             "show. Avoid the most obvious arithmetic or table site.")
hint["k"] = ("Make it a REFACTORING SLIP: replace a hand-written expression or loop by an 'equivalent' helper, library call or idiom that "
             "differs only on an edge - Python ints vs masked machine words, signed vs unsigned shifts or comparisons, // vs >>, % on negative "
             "numbers, sorted vs insertion order, dict / set iteration order, min/max clamps, off-by-one in a range or slice, "
             "saturating vs wrapping vs checked arithmetic in Rust, u8/u16/u32 `as` casts that truncate, Option::unwrap_or defaults, "
             "an early return that skips a side effect, two statements merged into one. The diff should read like a clean-up commit "
             "('simplify', 'use helper', 'clippy'). Pick a site that is NOT the first one anybody would look at for this property.")
hint["l"] = ("Make the defect RELATIONAL: it should depend on a relationship BETWEEN two values rather than on one value - two operands that "
             "name the same or overlapping locations, a source equal to its destination, an address equal to a register's own memory-mapped cell, "
             "a pointer register that is also the data register, a value exactly equal to (or one past) a threshold / period / capacity that is "
             "itself configurable, two events falling on the SAME cycle, two timers whose periods are multiples of each other, a label whose "
             "address equals a section boundary, a key pressed exactly when the strobe changes. Any one of the two values taken alone should "
             "behave correctly. Avoid the most obvious arithmetic or table site.")
hint["m"] = ("Start from the DOCUMENTATION: read README.md (instruction tables, flag columns, register and PRE tables, hardware notes) and the "
             "doc comments of the anchored files, pick ONE documented clause that only one or two opcodes / one register / one device state "
             "exercise (a flag that a single instruction leaves unchanged, the width of one operand of one opcode, which byte of a multi-byte "
             "value goes first for one instruction, what ONE status bit does on one path, an ordering guarantee for one kind of event), and break "
             "exactly that clause - if the property compares the Python and Rust implementations, break it identically in both so they still agree. "
             "It should need a specific state to show (a flag already set, a non-zero upper byte, a second pending event).")
hint["n"] = ("Put the defect in a LONG-HORIZON or ACCUMULATING quantity: something that is only wrong after many steps or many events - a counter "
             "or index that drifts by one per wrap, a remainder that is dropped on each reconfiguration, a queue index that goes wrong only after "
             "the ring has wrapped twice, an address or cycle count beyond 16 / 20 / 32 bits, the N-th repetition of an auto-repeat, the third nested "
             "level, a phase that is lost on the second restore. Short runs from a fresh object, and any single operation, must still behave "
             "correctly. Avoid the most obvious arithmetic or table site.")
hint["o"] = ("Put the defect behind a NON-DEFAULT CONFIGURATION that the property still covers: a memory card present (or of an unusual size), "
             "the second device profile (IQ-7000) instead of the PC-E500, a ROM / RAM overlay installed at run time, a constructor option, "
             "threshold, polarity, repeat setting or period that differs from the default, tracing or performance counters switched on, "
             "a keyboard handler / bridge layered over the matrix, the `fast` or `batch` variant of a stepping entry point, a chip switched off, "
             "an emulator that was reset or re-initialised rather than freshly constructed. With the default configuration, and in every "
             "existing test, the code must behave exactly as before. Avoid the most obvious arithmetic or table site.")
hint["q"] = ("Make it TWO COOPERATING SITES that each look fine alone: two small edits in different functions (or files) - for example a helper "
             "that now returns a slightly wider / differently normalised value and a caller that no longer masks it, a producer that now leaves "
             "a field stale on one path and a consumer that trusts it, a default changed in one place and relied on in another, a decode-side "
             "change that is only harmful together with a render / lift / encode-side one. Either edit applied by itself must leave the property "
             "intact (say so in meta.json and check it); only the combination breaks it, and only for a specific input, state or sequence.")
hint["s"] = ("Read the property statement sentence by sentence and pick its LEAST PROMINENT clause - the last sentence, a parenthesis, a "
             "'consequently', an 'in particular', the behaviour named for one rare kind of statement / event / register / directive - the one a "
             "verifier who concentrated on the headline would most easily have left out. Break exactly that clause and nothing the headline "
             "says; the change should need a specific input, state or sequence to show. Say in meta.json which clause you targeted. "
             "Avoid the most obvious arithmetic or table site.")
hint = hint[variant]
print(f"""You are helping test a verification framework for the repository mblsha/binja-esr (a Binary Ninja plugin + emulator for the Sharp SC62015 CPU: decoder/encoder, LLIL lifter, assembler, PC-E500 machine emulator in Python under pce500/, and a Rust core under sc62015/core).

Your job: produce ONE realistic, subtle code change ("seeded defect") to the repository that BREAKS the following semantic property while the code still compiles/imports and the existing pinned test suite still passes, plus a small demonstration that fails with your change and passes without it.

PROPERTY {p['id']} - {p['title']}
Statement: {p['statement']}
Quantified over: {p['quantifier']['text']}
Anchored in: {', '.join(p['anchors']['files'])}

Rules:
- Work ONLY in your own scratch git worktree. Create it with:  git -C /repo worktree add /tmp/wt-{pid}{variant} HEAD   (work inside /tmp/wt-{pid}{variant}). NEVER edit anything under /repo itself and NEVER read or write anything under /verif.
- The change must need something specific to manifest: a particular interleaving, a multi-step sequence of operations, an unusual input/operand value, a boundary value, or two cooperating sites that each look fine alone. It must NOT be something ordinary use would expose at once, and it must NOT be caught by the existing tests.
- Do NOT use `git stash` (the stash is shared by all worktrees of /repo; to get a baseline use `git diff > /tmp/my.diff; git checkout -- .; ...; git apply /tmp/my.diff` inside your own worktree).
- Keep the change small (a few lines), plausible as a real regression/refactoring slip. {hint}
- The existing pinned test suite must still pass with your change. Run it inside your worktree:  cd /tmp/wt-{pid}{variant} && /venv/bin/python -m pytest -q -p no:cacheprovider --timeout=900 --continue-on-collection-errors -x -q 2>&1 | tail -5   (about 412 tests pass; 17 tests with 'llama' in their id fail both before and after because the Rust extension module is not built - ignore those exact failures; to save time you may run only the test files relevant to your change plus a final full run).
- Python code is imported with PYTHONPATH=<worktree> FORCE_BINJA_MOCK=1 /venv/bin/python ; import `from binja_test_mocks import binja_api` before importing sc62015.arch or the lifter.
- If you change Rust code (sc62015/core/src): the crate's own Cargo.toml cannot be resolved offline (it has a git dependency). To compile-check and to run a demonstration, create a scratch cargo package OUTSIDE the worktree (e.g. /tmp/rs-{pid}{variant}) whose Cargo.toml has `[lib] path = "/tmp/wt-{pid}{variant}/sc62015/core/src/lib.rs"` with package name `sc62015-core`, dependencies serde (features derive), serde_json, thiserror = "1.0", and `[features] default=[] llama-tests=[] cli=[] perfetto=[] snapshot=[]`; add `.cargo/config.toml` with `[source.crates-io] replace-with = "vendored"` and `[source.vendored] directory = "vendor"`, where vendor/ contains copies (cp -r) from ~/.cargo/registry/src/*/ of: serde-1.0.228 serde_core-1.0.228 serde_derive-1.0.228 serde_json-1.0.149 thiserror-1.0.69 thiserror-impl-1.0.69 proc-macro2-1.0.106 quote-1.0.45 syn-2.0.117 unicode-ident-1.0.24 itoa-1.0.17 memchr-2.7.6 zmij-1.0.18, each with a file `.cargo-checksum.json` containing {{"files":{{}}}} . Then `cargo build --offline` works (about 20 s). A demonstration for Rust can be a small binary crate (src/main.rs) depending on that package by path, or a #[test] in a tests/ directory of the scratch package. No network is available; nothing can be downloaded.
- Deliverables, written to /tmp/seeded-out/{pid}{variant}/ :
    patch.diff   - output of `git -C /tmp/wt-{pid}{variant} diff` (the change only, applies with `git apply` on the repository root)
    demo.py or demo.rs (+ how to run it in meta.json) - exits non-zero / fails WITH the change and succeeds WITHOUT it. For Python demos: a standalone script run as `PYTHONPATH=<repo root> FORCE_BINJA_MOCK=1 /venv/bin/python demo.py` that exits 1 on the broken behaviour and 0 otherwise (take the repo root from PYTHONPATH / sys.argv[1]).
    meta.json    - {{"property": "{pid}", "summary": "...what you changed...", "needs": "...what specific input/sequence/state is needed for it to manifest...", "demo_cmd": "...exact command...", "tests_run": "...what you ran and the result..."}}
- When finished, remove your worktree and any build output:  git -C /repo worktree remove --force /tmp/wt-{pid}{variant} ; rm -rf /tmp/rs-{pid}{variant}
- Your final answer should be a short summary: what the change is, why existing tests miss it, what input exposes it.
""")
