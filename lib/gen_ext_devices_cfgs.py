"""Writes the .cfg files of the ext_devices specifications (spec/mem/MCRomLoad_*.cfg, JudgeRomLoad.cfg, MCImemRegs_*.cfg,
TraceImemRegs.cfg):  python3 lib/gen_ext_devices_cfgs.py spec/mem"""
import sys
from pathlib import Path
d = Path(sys.argv[1])
geom_small = """  SysLen = 64
  WinStart = 48
  WinLen = 16
  RamStart = 46
  RamLen = 2
  MirStart = 32
  MirEnd = 47
  NoRamEnd = 15
  AddrWrap = 1024
"""
geom_real = """  SysLen = 1048576
  WinStart = 786432
  WinLen = 262144
  RamStart = 753664
  RamLen = 32768
  MirStart = 524288
  MirEnd = 786431
  NoRamEnd = 262143
  AddrWrap = 16777216
"""
invs = ["Injective", "InsideWindow", "TailAligned", "ShortImage", "PyHead", "SystemIdentity", "VectorFromImage", "Protected", "RomImmutable", "RamWorks", "AliasCanonical"]
for t, sp, dep in (("quick", "SpecQ", 2), ("thorough", "SpecQ", 3), ("full", "Spec", 2)):
    s = f"SPECIFICATION {sp}\nCONSTANTS\n{geom_small}  Impls = {{\"rs_rt\", \"rs_mem\", \"py_mem\", \"py_emu\"}}\n  MaxDepth = {dep}\n"
    s += "".join(f"INVARIANT {i}\n" for i in invs) + "CHECK_DEADLOCK FALSE\n"
    (d / f"MCRomLoad_{t}.cfg").write_text(s)
iinv = ["TypeOK", "PlainReadAfterWrite", "PlainReadIsPure", "KilReadOnly", "UsrStatusBits", "KohNibble", "SsrShowsOnKey", "KolLatch", "SioAutoResponse"]
ms = '{"rsmem", "pymem", "rsstub", "rsrt", "rssio", "pyemu"}'
for t, dep, rec in (("quick", 2, "TRUE"), ("thorough", 3, "FALSE"), ("sim", 14, "TRUE")):
    s = f"SPECIFICATION Spec\nCONSTANTS\n  MachineSet = {ms}\n  Offs <- OffsMC\n  Vals <- {'ValsQ' if t == 'quick' else 'ValsMC'}\n  MaxDepth = {dep}\n  RecordActs = {rec}\n"
    s += "".join(f"INVARIANT {i}\n" for i in iinv) + "CHECK_DEADLOCK FALSE\n"
    (d / f"MCImemRegs_{t}.cfg").write_text(s)
(d / "TraceImemRegs.cfg").write_text(f"SPECIFICATION TSpec\nCONSTANTS\n  MachineSet = {ms}\n  Offs <- OffsAll\n  Vals <- OffsAll\n  MaxDepth = 0\n  RecordActs = FALSE\nINVARIANT Report\nCHECK_DEADLOCK FALSE\n")
(d / "JudgeRomLoad.cfg").write_text(f"INIT DInit\nNEXT DNext\nCONSTANTS\n{geom_real}  Impls = {{\"rs_rt\"}}\n  MaxDepth = 0\n")
