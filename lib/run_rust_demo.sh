#!/bin/sh
# run_rust_demo.sh <repo root> <demo.rs> : compile demo.rs as an integration test of sc62015-core built from <repo root>
set -e
ROOT="$1"; DEMO="$2"; D=/tmp/rs-demo-$$
mkdir -p $D/tests $D/.cargo $D/src
cat > $D/Cargo.toml <<EOT
[package]
name = "sc62015-core"
version = "0.1.0"
edition = "2021"
[lib]
path = "$ROOT/sc62015/core/src/lib.rs"
[dependencies]
serde = { version = "1.0", features = ["derive"] }
serde_json = "1.0"
thiserror = "1.0"
[features]
default = []
llama-tests = []
cli = []
perfetto = []
snapshot = []
EOT
printf '[source.crates-io]\nreplace-with = "vendored"\n[source.vendored]\ndirectory = "/verif/vendor"\n' > $D/.cargo/config.toml
export REPO_ROOT="$ROOT"
set +e
if grep -q "fn main" "$DEMO" && ! grep -q "#\[test\]" "$DEMO"; then
  # a demo written as a program: build it as a binary of the scratch package
  cp "$DEMO" $D/demo_main.rs
  printf '[[bin]]\nname = "demo"\npath = "demo_main.rs"\n' >> $D/Cargo.toml
  cd $D && CARGO_TARGET_DIR=$D/target cargo run --offline --bin demo > $D/log 2>&1
  RC=$?
else
  cp "$DEMO" $D/tests/demo.rs
  cd $D && CARGO_TARGET_DIR=$D/target cargo test --offline --test demo > $D/log 2>&1
  RC=$?
fi
tail -15 $D/log
cd / && rm -rf $D
exit $RC
