#!/bin/sh
# try_now.sh <seed-name> <PID> [tier]: run ./check PID against a scratch worktree of /repo carrying seeded/<seed-name>/patch.diff
# (or /tmp/seeded-out/<seed-name>/patch.diff), private build directory, no lock; prints the violation keys and the RESULT line
S="$1"; P="$2"; T="${3:-quick}"
PATCH=/verif/seeded/$S/patch.diff; [ -f $PATCH ] || PATCH=/tmp/seeded-out/$S/patch.diff
WT=/tmp/vwt-now-$S; BD=/tmp/vbuild-now-$S
git -C /repo worktree remove --force $WT >/dev/null 2>&1; rm -rf $WT
git -C /repo worktree add $WT HEAD >/dev/null 2>&1 && git -C $WT apply $PATCH || { echo "patch does not apply"; exit 2; }
cd /verif && VERIF_REPO=$WT VERIF_BUILD=$BD ./check $P --tier $T > /tmp/try-now-$S.log 2>&1; RC=$?
grep -o "^VIOLATION property=[A-Z0-9]* replay=[^ ]* key=[^ ]*" /tmp/try-now-$S.log | sed 's/replay=[^ ]* //' | sort | uniq -c | head -12
grep "^RESULT\|MACHINERY\|IMPL-CRASH" /tmp/try-now-$S.log | cut -c1-300
echo "rc=$RC"
git -C /repo worktree remove --force $WT >/dev/null 2>&1; rm -rf $WT $BD; git -C /repo worktree prune
