#!/usr/bin/env python3
"""Regenerates /verif/MANIFEST.json from the table below (single source of truth)."""
import json
from pathlib import Path

VERIF = Path(__file__).resolve().parent.parent

CHECKS = {
    "C08": dict(
        category="model_checking",
        text="Registers.tla is model-checked exhaustively (all write/capture/apply sequences up to depth 2 over 16 names x 12 "
             "values, depth 3 over a reduced palette) against a declarative last-writer reference; every TLC behaviour is "
             "replayed into the real Python Registers/CPURegistersSnapshot/blob helpers and the real Rust LlamaState/"
             "CoreRuntime/collect/apply/pack/unpack, and the recorded projections (all 28 names after every action) plus "
             "seeded random 32-bit write sequences are validated by TLC against TraceRegisters.tla.",
        design_ref="DESIGN.md section 4 (C08)",
        note="Trusted: TLC, the vh Rust harness (harness/rust/vh), the Python drivers in checks/c08.py. Exhaustive only within the stated bounds; beyond them simulation + random traces.",
        technique="TLA+ spec (Registers.tla) + TLC exhaustive/simulate + trace validation of recorded Python and Rust executions",
        engine="regs",
    ),
    "C13": dict(
        category="model_checking",
        text="Timers.tla (two periodic timers with absolute targets, reset and snapshot-restore actions, declarative boundary "
             "ghosts) is model-checked exhaustively for all period pairs 0..4 (thorough 0..6) and gap sequences to depth 8-10; "
             "every behaviour of a small recorded model and `-simulate` behaviours (depth 40) are replayed on the real Python "
             "TimerScheduler and the real Rust TimerContext, and those recordings plus seeded random runs with large periods "
             "and cycle origins up to 2^62 are validated step by step by TLC against TraceTimers.tla (FiredIffBoundary, "
             "NextInFuture, NeverWhenOff, FireSetsIsr); Python and Rust sequences are also compared directly.",
        design_ref="DESIGN.md section 4 (C13)",
        note="Trusted: TLC, vh harness (timer.rs), drivers in checks/c13.py. Scheduler-level objects; machine-level ticking (WAIT/HALT) is exercised by the C12 machine traces.",
        technique="TLA+ spec (Timers.tla) + TLC exhaustive/simulate + trace validation of recorded Python and Rust executions",
        engine="machine",
    ),
    "C18": dict(
        category="model_checking",
        text="Scheduler.tla models AsyncDriver::run_for step by step (queue keyed by wake cycle with insertion order, the "
             "three thread-local cells, event queue) with scripted tasks; TLC checks exhaustively (1-2 tasks with scripts of "
             "length <=3 over sleeps {0,1,2,3} and emits, budgets {1,2,3,5,100} chosen at every run_for; thorough adds 3 "
             "tasks) WakeExact, TimeMonotone, PartitionIndependent (log is a prefix of the budget-free reference log), "
             "EventsOnceInOrder, Accounting. Every behaviour of a recorded model, 4-task `-simulate` behaviours and seeded "
             "random task sets are executed on the real AsyncDriver (vh driver) and the recordings validated by TLC against "
             "TraceScheduler.tla; AsyncRuntimeRunner (slices 1,2,3,7,10000, split runs) is compared with CoreRuntime::step on "
             "generated looping programs with timers and interrupts enabled.",
        design_ref="DESIGN.md section 4 (C18)",
        note="Trusted: TLC, vh harness (driver.rs builds the scripted futures from sleep_cycles/emit_event/current_cycle). Tasks are spawned before the first run_for.",
        technique="TLA+ spec (Scheduler.tla) + TLC exhaustive/simulate + trace validation of the real AsyncDriver + differential async/sync CPU runs",
        engine="sched",
    ),
}

NOT_YET = {
}

ENGINES = [
    dict(name="sched", path="spec/sched", serves_properties=["C18"], kind_free_text="TLA+ virtual-time scheduler spec + trace spec"),
    dict(name="machine", path="spec/machine", serves_properties=["C13"], kind_free_text="TLA+ timers / interrupts / machine specs + trace specs"),
    dict(name="regs", path="spec/regs", serves_properties=["C08"], kind_free_text="TLA+ register-file state machine + trace spec"),
]


def main() -> None:
    props = [json.loads(l)["id"] for l in (VERIF / "properties.jsonl").read_text().splitlines() if l.strip()]
    checks = []
    for pid in props:
        if pid not in CHECKS:
            continue
        c = CHECKS[pid]
        checks.append({
            "property_id": pid,
            "quick_cmd": f"./check {pid} --tier quick",
            "thorough_cmd": f"./check {pid} --tier thorough",
            "evidence_file": f"/verif/evidence/{pid}.json",
            "replay_cmd_template": f"./check {pid} --replay {{path}}",
            "engine": c["engine"],
            "level_claimed": {"category": c["category"], "text": c["text"], "design_ref": c["design_ref"]},
            "level_note": c["note"],
            "technique": c["technique"],
        })
    na = []
    for pid in props:
        if pid not in CHECKS:
            na.append({"property_id": pid, "reason": NOT_YET.get(pid, "check not built yet in this round (planned: TLA+ model + conformance, see DESIGN.md section 4); not claimed until sound")})
    m = {
        "version": 1,
        "setup_cmd": "./setup.sh",
        "hooks": {
            "guard": "none (no source hooks are used; the Rust harness reads /repo/sc62015/core/src through a shadow Cargo manifest)",
            "enable": "not needed: checks import /repo's Python working tree directly and rebuild harness/rust/vh (cargo --offline, vendored crates) against /repo/sc62015/core/src on every run",
            "baseline_off_cmd": "cd /repo && /venv/bin/python -m pytest -ra -q -p no:cacheprovider --timeout=900 --continue-on-collection-errors",
            "source_commits": [],
            "add_only": True,
        },
        "engines": ENGINES,
        "checks": checks,
        "not_applicable": na,
        "notes": "Single entry point ./check <ID> --tier quick|thorough [--seed N] [--replay P]. Exit 2 = machinery failure. See DESIGN.md.",
    }
    (VERIF / "MANIFEST.json").write_text(json.dumps(m, indent=1) + "\n")


if __name__ == "__main__":
    main()
