#!/usr/bin/env python3
"""Regenerates /verif/MANIFEST.json from the table below (single source of truth)."""
import json
from pathlib import Path

VERIF = Path(__file__).resolve().parent.parent

CHECKS = {
    "C07": dict(
        category="model_checking",
        text="SC62015Sem.tla has only architectural variables, so any influence of hidden state is a step it cannot explain. TLC (JudgeHistory) "
             "judges groups of runs of both cores that start from the same architectural state and bytes and differ only in history: a probe "
             "instruction (every 12th documented structural encoding quick / all thorough, plus flag-producing instructions from all-zero data) on a "
             "fresh core | with random TEMP0-13 and call bookkeeping | on a long-lived core after an unrelated program (also placed at the probe's own "
             "address) with the architectural state restored | on a fresh core created last in the process; programs (96 quick / 2500 thorough, "
             "looping, 7-40 steps) run N+M steps in one go | N steps, registers+memory carried into a NEW core, M steps | twice on fresh cores with "
             "every step compared | (Python) the snapshot-driven CPUStepper with a new CPU per step against one Emulator; and on the whole machines "
             "(CoreRuntime::step(k) / PCE500Emulator.run(k), resident programs with interrupts, firmware-raised requests and both timers live) one "
             "batch of T instructions | T single steps | two-batch splits; and a snapshot loaded into a fresh machine | into a machine that has "
             "already run another program, followed by the same continuation. The first differing "
             "architectural component is named. The fresh Python runs are also judged by JudgeSem (figure in the evidence; disagreements are C04's). "
             "Static complement: the lifted IL of every distinct instruction shape is exported as a control-flow graph and TLC (TempDefUse) explores "
             "every path carrying the set of TEMP registers written so far - DefBeforeUse must hold at every node.",
        design_ref="DESIGN.md section 4 (C07)",
        note="Trusted: exec_harness, vh exec module (clear_mem / hidden), binja_test_mocks evaluator, TLC. Restoring the architectural state on a used "
             "core means: eight registers, whole memory image, running power state.",
        technique="TLA+ semantics with architectural variables only + TLC-judged groups of recorded runs differing only in hidden state / split point",
        engine="isa",
    ),
    "C08": dict(
        category="model_checking",
        text="Registers.tla is model-checked exhaustively (all write/capture/apply sequences up to depth 2 over 16 names x 12 "
             "values, depth 3 over a reduced palette) against a declarative last-writer reference; every TLC behaviour is "
             "replayed into the real Python Registers/CPURegistersSnapshot/blob helpers and the real Rust LlamaState/"
             "CoreRuntime/collect/apply/pack/unpack, and the recorded projections (all 28 names after every action) plus "
             "seeded random 32-bit write sequences are validated by TLC against TraceRegisters.tla.",
        design_ref="DESIGN.md section 4 (C08)",
        note="Trusted: TLC, the vh Rust harness (harness/rust/vh), the Python drivers in checks/c08.py. Exhaustive only within the stated bounds; beyond them simulation + random traces.",
        technique="TLA+ spec (Registers.tla) + TLC exhaustive/simulate + trace validation of recorded Python and Rust executions",
        engine="regs",
    ),
    "C13": dict(
        category="model_checking",
        text="Timers.tla (two periodic timers with absolute targets, reset and snapshot-restore actions, declarative boundary "
             "ghosts) is model-checked exhaustively for all period pairs 0..4 (thorough 0..6) and gap sequences to depth 8-10; "
             "every behaviour of a small recorded model and `-simulate` behaviours (depth 40) are replayed on the real Python "
             "TimerScheduler and the real Rust TimerContext, and those recordings plus seeded random runs with large periods "
             "and cycle origins up to 2^62 are validated step by step by TLC against TraceTimers.tla (FiredIffBoundary, "
             "NextInFuture, NeverWhenOff, FireSetsIsr; the firmware acknowledging status bits between ticks is an action of the traces; gaps of more than 2^24 periods landing on / next to a boundary are included); Python and Rust sequences are also compared directly. Machine level: whole "
             "machines running with both timers are saved and restored into fresh machines at every script position (the C16 "
             "campaign) and the firing cadence after the restore is compared with the uninterrupted run (snapshot_cadence); and "
             "Machine.tla composes the timers with the abstract CPU and interrupt controller - the timers are driven by the machine's own "
             "cycle counter (instruction cycles, WAIT of many lengths, HALT idle cycles, no ticks inside handlers, nothing while powered "
             "off) - TLC checks the cadence clauses on the composition for a machine that ticks before the instruction (Python) and for "
             "one that ticks after it (Rust), and the model's behaviours (exhaustive small + simulate) plus seeded scripts are run on both "
             "real machines, whose step-by-step recordings are judged by the same clauses (TraceMachineTimers.tla: PhasePreserved, "
             "FireSetsStatus, FiredOnlyAtBoundary, NoBoundarySkipped, NextInFuture, DueTargetFires, NeverWhenOff). "
             "Unbounded: ind/TimersInd.tla states the one-timer argument over mathematical integers and Apalache discharges it - "
             "'the target is the least unconsumed period boundary' is inductive (base + step, for periods 1, 2, 7, 2048, 512000; "
             "thorough 14 periods up to 2^27) for every cycle count, gap and restored target, and FiredIffBoundary / NextInFuture "
             "follow from it in one step for a symbolic period P > 0; TLC ties the closed form used there to the loop of Timers.tla.",
        design_ref="DESIGN.md section 4 (C13)",
        note="Trusted: TLC, vh harness (timer.rs), drivers in checks/c13.py. Scheduler-level objects plus whole machines (Machine.tla schedules, machine_harness); snapshot-restore at machine level by the cadence campaign.",
        technique="TLA+ spec (Timers.tla) + TLC exhaustive/simulate + Apalache inductive invariant (unbounded cycles) + trace validation of recorded Python and Rust executions",
        engine="machine",
    ),
    "C18": dict(
        category="model_checking",
        text="Scheduler.tla models AsyncDriver::run_for step by step (queue keyed by wake cycle with insertion order, the "
             "three thread-local cells, event queue) with scripted tasks; TLC checks exhaustively (1-2 tasks with scripts of "
             "length <=3 over sleeps {0,1,2,3} and emits, budgets {1,2,3,5,100} chosen at every run_for; thorough adds 3 "
             "tasks) WakeExact, TimeMonotone, PartitionIndependent (log is a prefix of the budget-free reference log), "
             "EventsOnceInOrder, Accounting. Every behaviour of a recorded model, 4-task `-simulate` behaviours and seeded "
             "random task sets are executed on the real AsyncDriver (vh driver; every other behaviour with its sleep futures created at task start "
             "and awaited later) and the recordings validated by TLC against "
             "TraceScheduler.tla; long-horizon behaviours (70-200 rounds of zero-cycle and short sleeps per task, hundreds of resumptions inside "
             "ONE budget of 10^6 cycles as well as cut into budgets of 5-11) are validated the same way; AsyncRuntimeRunner (slices 1,2,3,7,10000, split runs) is compared with CoreRuntime::step on "
             "generated looping programs with timers and interrupts enabled.",
        design_ref="DESIGN.md section 4 (C18)",
        note="Trusted: TLC, vh harness (driver.rs builds the scripted futures from sleep_cycles/emit_event/current_cycle). Tasks are spawned before the first run_for.",
        technique="TLA+ spec (Scheduler.tla) + TLC exhaustive/simulate + trace validation of the real AsyncDriver + differential async/sync CPU runs",
        engine="sched",
    ),
    "C15": dict(
        category="model_checking",
        text="Lcd.tla (two HD61202 chips behind the low-nibble address decoding: chip select, data/instruction, read/write, "
             "instruction parse, post-increment, buffered data read, status read) is model-checked exhaustively at reduced "
             "geometry; command sequences generated by TLC (all sequences of length <=2 over the 16 decodings x value classes, "
             "`-simulate` depth 60 at full geometry) and seeded random sequences over both windows and all 256 values are "
             "executed on the real Python HD61202Controller and the real Rust LcdController, and every step (returned value, "
             "chip registers, VRAM delta) is validated by TLC against TraceLcd.tla at full 8x64 geometry. PixelMap.tla states "
             "the one-to-one / one-column predicates; the complete pixel map of each implementation (all 8192 VRAM bits probed "
             "through the protocol) is judged by TLC, with both chips on and again with each chip switched off in turn (OwnChipOnly: what the "
             "chip that is on shows does not depend on the other chip's on/off state); DisplayDetermined: a Python controller that renders after "
             "every access shows the same picture as a fresh one given the same accesses; the random sequences also go through PCE500Memory's LCD "
             "overlays with non-zero RAM lying under both windows.",
        design_ref="DESIGN.md section 4 (C15)",
        note="Trusted: TLC, vh harness (lcd.rs), Python driver in checks/c15.py. One known finding (writes at read addresses, Rust vs Python) is listed in known_findings.json.",
        technique="TLA+ spec (Lcd.tla, PixelMap.tla) + TLC exhaustive/simulate + trace validation of both implementations + complete pixel-map enumeration judged by TLC",
        engine="lcd",
    ),
    "C01": dict(
        category="model_checking",
        text="SC62015Format.tla (256-row reference table, operand grammar, prefix fusion) is model-checked over the complete "
             "structural space (prefix x opcode x second byte x fill: LenBounds, PrefixClosed, NoPrePre, FusionAdds). Every "
             "structural byte string (quick: all unprefixed + prefixed x 35 second-byte classes; thorough: all 1.1M) is run "
             "through the four real consumers (instruction-info / text / low-level-IL callbacks, emulator fetch) in its base "
             "form, with three trailing contexts (valid / rejected / assertion-tripping bytes), every truncation and after an "
             "adversarial decode history; in the follower campaign a few valid bases are followed by every one of the 65536 two-byte "
             "instruction heads; every opcode is also tried with operand bytes forming the extreme addresses / immediates (all ones, top of the external space, ignored upper bits set); TLC judges every recorded row (JudgeDecode.tla): LenBounds, ConsumersAgree, "
             "IndependentOfLaterBytes, IndependentOfHistory, NoUnexpectedError, plus comparison with the reference format (drift).",
        design_ref="DESIGN.md section 4 (C01)",
        note="Trusted: TLC, harness/py/decode_harness.py, binja_test_mocks. Operand bytes after the second byte are seeded fill. A genuine defect found by this check was repaired (fix: commit in /repo, recorded in known_findings.json).",
        technique="TLA+ reference format spec + TLC exhaustive over the structural space + TLC-judged complete enumeration of the real decoders",
        engine="isa",
    ),
    "C02": dict(
        category="model_checking",
        text="Every accepted structural byte string x operand-byte palette/random fill is taken through the real "
             "decode -> encode -> decode; TLC (JudgeEncode.tla over SC62015Format.tla) judges every record: re-encoded bytes equal "
             "the consumed bytes (prefix and ignored bits included), second decode has the same length/text/lifted IL, the text "
             "callback does not demote an accepted instruction to data, and the consumed length equals the reference format's.",
        design_ref="DESIGN.md section 4 (C02)",
        note="Trusted: TLC, harness/py/decode_harness.py (canonical IL digest), binja_test_mocks. Operand bytes beyond the structural part are sampled.",
        technique="TLA+ reference format spec + TLC-judged enumeration of decode/encode round trips on the real code",
        engine="isa",
    ),
    "C16": dict(
        category="model_checking",
        text="Snapshot.tla states the property at the design level over the abstract machine of C12: saving and loading into a fresh machine is a "
             "stuttering step (RoundTrip = identity for the full field set; TLC checks it in all 19822 reachable states, and with a smaller field set "
             "names the states that break - the catalogue of snapshot points). Conformance, per implementation (Python PCE500Emulator, Rust "
             "CoreRuntime through vh with a PKZIP shim): 64 (thorough 600) seeded scripts of 8-18 items (timers, ON key, matrix keys, IMR/ISR writes, "
             "HALT, OFF, WAIT, RETI; keys held through a 90-instruction handler until the event ring wraps; a cycle counter crossing 2^31); EVERY script position is a snapshot point: the live machine is saved, a FRESH machine loads the bundle, both "
             "get the next 6 script items, and the full projection (power state, registers, IMEM, RAM, LCD, keyboard, timers, interrupt "
             "bookkeeping, counters) after the load and after every step is compared by TLC (JudgeSnapshot) component by component. Cross loading "
             "(each core loads the other's bundle) compares the immediately visible state; bundle members, registers.bin length and "
             "snapshot.json key sets are compared.",
        design_ref="DESIGN.md section 4 (C16)",
        note="Trusted: machine_harness.py, vh rt module, harness/rust/zip-shim (stands in for the zip crate, which is not available offline), TLC. "
             "One defect repaired (fix: 0d9a836: Python bundles had no power state; Python could not load Rust bundles). Three open known findings "
             "about cross loading / metadata.",
        technique="TLA+ stuttering-step model checked by TLC + TLC-judged original-vs-restored traces from every snapshot point (code->spec)",
        engine="machine",
    ),
    "C17": dict(
        category="other",
        text="Complete comparison, evaluated by TLC (spec/tables/Tables.tla over the reference table spec/isa/SC62015Table.tla): all 256 "
             "opcode rows of the live Python table and the live Rust table in a normalised operand-shape vocabulary, the PRE table, "
             "the single-addressable set, ~90 constant/layout groups (register storage sizes, effective masks probed by writing "
             "0xFFFFFFFF, sub-register layout declared and probed, IMEM offsets (Rust constants defined in terms of other constants are resolved), the keyboard register block as named and as selected by the "
             "Rust memory predicates over all 256 offsets, IMR/ISR bits, interrupt/reset vector addresses declared "
             "and probed by executing IR/RESET/power-on-reset on both cores, address-space constants) and the Binary Ninja view segments - as declared and as registered by init() for raw files of seven lengths - "
             "(pairwise disjoint, inside the address space, internal RAM placement). No state space: TLC evaluates equalities over finite tables.",
        design_ref="DESIGN.md section 4 (C17)",
        note="Trusted: vh tables/exec/regs modules, regex extraction of private Rust constants from the working tree, TLC. Two known findings (Rust widths for 0xBA-0xBE, Python reset vector) are listed in known_findings.json.",
        technique="TLA+ table specification evaluated by TLC over dumps of every live copy (complete finite comparison)",
        engine="tables",
    ),
    "C14": dict(
        category="model_checking",
        text="Keyboard.tla (per-key debounce/repeat automaton, strobe registers, KIL computation, event FIFO, plus monitors driven only "
             "by the inputs) is model-checked exhaustively (2-3 keys sharing a row/column, thresholds 2/2/3/2, capacity 3, both "
             "polarities, depth 7-8): KilSound, KilComplete, EventOrder, Cadence, NoSkippedRepeat, ReleaseFollows, ReleaseJustified, FifoBounded, "
             "DropsOldestOnly. TLC behaviours (exhaustive depth 5, `-simulate` depth 60/120) and seeded random histories are executed on "
             "the real Python KeyboardMatrix/PCE500KeyboardHandler (constructor thresholds) and the real Rust KeyboardMatrix (repeat on and off, strobe-flicker campaign, redundant presses of held keys, an opposite-polarity decoy keyboard in the same process, "
             "twelve-key bursts producing more events in one tick than the queue holds; + KEYI via "
             "write_fifo_to_memory); TraceKeyboard.tla evaluates the property clauses on each implementation's own observations (KIL "
             "value, enqueued events, queue contents, KEYI bit) and compares each step with the automaton (drift). "
             "MachineKbd.tla composes the same per-key automaton (KeyAutomaton.tla) with the abstract CPU / interrupt controller / main timer: the "
             "MACHINE decides when the matrix is scanned (Python: after every instruction; Rust: on main-timer firings outside handlers), keeps the "
             "key-interrupt latch and drains the queue; TLC checks KeyiGated, LatchHasCause, FifoLaw, EventOrder, DebounceInScans, ScanNeedsFiring "
             "under both disciplines with keyboard interrupts on and off, and `-simulate` behaviours plus seeded scripts (keys going down and up "
             "under strobes, masks, acknowledges, HALT, handlers) run on both WHOLE machines (CoreRuntime, PCE500Emulator), every step judged by "
             "TraceMachineKbd.tla (KeyiGated, DropsOldestOnly, FifoBounded, EventOrder as the firmware sees the queue).",
        design_ref="DESIGN.md section 4 (C14), section 9.7",
        note="Trusted: TLC, vh kbd module, Python driver (wraps scan_tick to observe its returned events). One known finding (Rust emits no release events) is listed in known_findings.json.",
        technique="TLA+ spec (Keyboard.tla) + TLC exhaustive/simulate + trace validation of the Python and Rust keyboard matrices",
        engine="kbd",
    ),
    "C12": dict(
        category="model_checking",
        text="Interrupts.tla (abstract CPU + IMR/ISR controller with the five-byte frame, RETI, HALT, OFF and both delivery phases: "
             "end-of-step as in the Rust core, start-of-step as in the Python machine; every step executes an instruction chosen from "
             "an alphabet, so all short programs and all interleavings with timer expiries / ON key are explored) is model-checked "
             "exhaustively to depth 7-9, without and with acknowledge-at-return (RETI clears the status bit of the source the handler was "
             "entered for - the Rust core's reading), for DeliverOnlyIfEnabled, FrameOnEntry, EnteredForEnabledPending, NoReentryWhileMasked, "
             "PromptWhenEnabled, StatusNotLost, StillOwed, HaltIdle, OffStopsTimers; the thorough tier also explores the complete reachable state "
             "space (program positions modulo 2, no depth bound, 7.8 M states per variant), i.e. runs of every length. Its behaviours (exhaustive depth 5, `-simulate` depth 40) and seeded random scripts are executed step by "
             "step on the real Rust CoreRuntime and the real Python PCE500Emulator (instruction bytes poked at the PC, timer expiries - also both at once -, ON key and matrix keys "
             "with strobe / KIL-read instructions injected at instruction boundaries); TraceMachine.tla evaluates the clauses of C12 on every "
             "recorded step (pushed frame contents, delivery counter and reported source, registers, power state, timer targets) with monitors "
             "for saved frames (incl. the source each was entered for) and expected resume addresses; every third script also runs on a Rust runtime "
             "built with keyboard interrupts disabled (the spec is told: KEYI then neither arms nor wakes), and handlers that re-enable interrupts nest two to seven levels deep; StatusNotLost: a status bit goes away only "
             "by a firmware write or at the RETI of the handler entered for it. Growth module run as an additional campaign (DRIFT only, no property sentence covers it): LoopDetect.tla - the Rust core's execution-loop detector, whose mainline is defined by the interrupt state of each step (handlers of hardware interrupts and RETI are invisible, the IR handler is not) - model-checked (search = declarative loops within reach, sound, longest, exact repeat count, transparent) and bound to the real LoopDetector by trace validation (TraceLoopDetect.tla).",
        design_ref="DESIGN.md section 4 (C12)",
        note="Trusted: TLC, vh rt module, harness/py/machine_harness.py. One defect repaired (fix: a24bc1d, Rust RETI acknowledged the live irq_source latch); open findings on the Python machine (master-enable override, OFF = HALT, pending flag not re-armed, stale source attribution) and the Rust core (stray RETI clears a pending bit) are listed in known_findings.json. The debounce automaton itself is covered by C14.",
        technique="TLA+ spec (Interrupts.tla) + TLC exhaustive/simulate + trace validation of both machine models",
        engine="machine",
    ),
    "C09": dict(
        category="model_checking",
        text="JudgeAsm.tla defines CanonEnc - the canonical reading of an encoding under the format specification and the README prefix rules (class, "
             "mnemonic, condition, resolved operands with ignored bits dropped) - and the round-trip clauses Assembles, Equivalent (CanonEnc of the "
             "assembled bytes = CanonEnc of the original), SameText, SameLift (IL digest), SecondRoundAssembles, Stable. Every accepted structural "
             "encoding (prefix x opcode x mode byte x operand palette incl. 00/FF/7F/80 displacements; 42750 quick, all 15 prefixes thorough; "
             "undocumented but accepted forms included) is rendered, turned into source text (TInt/TAddr tokens as 0x literals, named internal "
             "registers by name), assembled by Assembler().assemble, disassembled and assembled again; TLC judges every record. Encodings that share their operand "
             "selector byte run in one process and every text is re-assembled in reverse order (a text whose bytes changed is observed and judged again); "
             "listings of two to four rendered lines are assembled by one assemble() call and must equal the concatenation of the lines assembled alone. On the model, "
             "TLC checks over the structural space (MCSemSpace) that the canonical reading is total and depends on the instruction's own bytes only.",
        design_ref="DESIGN.md section 4 (C09)",
        note="Trusted: the text convention of checks/c09.text_of, decode_harness.il_digest, TLC. Eight open known findings, all disagreements between "
             "sc_asm's and the renderer's conventions for internal-memory operands, several pinned by test_asm; keys carry structural tags (prefix-dropped, "
             "shorter, combo, novalue, undoc, noimem-prefix) so that any other rejection or non-equivalence is still reported.",
        technique="TLA+ canonical-encoding equivalence + TLC-judged disassemble/assemble round trips (code->spec)",
        engine="isa",
    ),
    "C10": dict(
        category="model_checking",
        text="AsmLayout.tla defines Layout(prog), the reference layout of an abstract program (SECTION code/data/bss, .ORG number|label, labels, sized "
             "data and instruction statements, page-local jumps): addresses, symbol table, bss-follows-data, cross-page rejection. TLC checks "
             "Contiguous, LabelsPointAtNext and BssFollowsData of Layout over every palette program of <= 4 statements (30941 states; <= 5 thorough). "
             "spec->code: the well-formed palette programs (all of <= 3 statements, a seeded fifth of the 4-statement ones) are concretised and "
             "assembled by the real Assembler; code->spec: 1500 (thorough 20000) seeded grammar-based programs of 4-50 statements with forward / "
             "backward label references in immediates, absolute addresses, data directives, near and far jumps, sections and non-overlapping .ORGs. "
             "A logging subclass records pass-one sizes and pass-two addresses/bytes; TLC (JudgeLayout) judges every clause family separately: "
             "Accepted / PageRuleRejects, SizesAgree, LabelAddress, Contiguous, Compositional (bytes = the statement assembled alone with symbols "
             "replaced by values), Placed (output segments; bss emits nothing), Stateless (same object again, after another program, fresh object).",
        design_ref="DESIGN.md section 4 (C10)",
        note="Trusted: the LoggingAssembler subclass in checks/c10.py (wraps two methods, nothing in /repo is touched), bincopy, TLC. Five open known "
             "findings keyed by clause, statement kind, section and structural tags (refbss, orgsym, labdir).",
        technique="TLA+ layout model checked by TLC, its programs assembled by the real assembler (spec->code) + TLC-judged logs of grammar-based programs (code->spec)",
        engine="asm",
    ),
    "C11": dict(
        category="model_checking",
        text="MemoryBus.tla (memory as a function from alias classes to bytes; Store/Load of 1-3 bytes; ReadAfterWrite, Frame, "
             "RomImmutable, LEComposition, AliasCoherent) is model-checked exhaustively on a six-cell instance with an alias, a ROM "
             "cell and internal cells. For every implementation (Python PCE500Memory, Rust MemoryImage) and memory configuration "
             "(bare, ROM image, short ROM image leaving part of the ROM window unbacked, card 8K/64K/absent, RAM/ROM overlays, mirror off, read-only range) the harness probes the alias "
             "structure over 75 byte cells (IMEM edges, 24/32-bit wrap aliases, mirror window, card window, overlay edges) and "
             "TraceMemory.tla judges it (equivalence; internal and external space disjoint) and then validates seeded random "
             "8/16/24-bit load/store sequences plus a final read-back of every cell against the class-based memory semantics; "
             "RomWindowImmutable: no cell of the ROM window or of a read-only range accepts a store, backed or not, nor changes through a "
             "store at another cell (a mirror alias outside the range; configuration mirror+readonly-ram).",
        design_ref="DESIGN.md section 4 (C11)",
        note="Trusted: TLC, vh mem module, Python driver. Two known findings (Python IMEM aliasing on a bare bus, Rust multi-byte accesses across region edges) are listed in known_findings.json.",
        technique="TLA+ spec (MemoryBus.tla) + TLC exhaustive + probed alias structure and load/store traces of both buses judged by TLC",
        engine="mem",
    ),
    "C05": dict(
        category="model_checking",
        text="(1) MetaAgrees: TLC (JudgeMeta over SC62015Sem) judges the InstructionInfo of SC62015.get_instruction_info (length, every reported branch) "
             "against the PC and stack the Python emulator and the Rust core actually reach, for every branch/call/return encoding (bare and behind each kind of addressing prefix) x 24 addresses (page boundaries +-3, "
             "top of memory, seeded random) x target/displacement palettes x all C/Z values, and for every other documented encoding ('no branch => "
             "continues at address + length'); targets modulo 2^20. (2) Pairing laws: CallRet.tla is an abstract machine over (pc, s, f, imr, frames) "
             "with actions Call, CallF, Ir, stack-neutral body instructions, a computed jump through the stack (Dispatch), Ret, RetF, RetI; TLC checks StackShape and "
             "ReturnLaw exhaustively to 5 actions at nesting depth 3 (310896 states) and every maximal behaviour is replayed, one instruction per action, on the Python emulator and "
             "the Rust core, comparing (pc, s, C/Z, IMR) after every action (thorough: + 30000 simulated behaviours of 13 actions).",
        design_ref="DESIGN.md section 4 (C05)",
        note="Trusted: exec_harness, vh exec module, binja_test_mocks InstructionInfo, TLC. One defect repaired (fix: 434d3a6, JP (n)/JP r3 metadata). "
             "Near calls/returns that straddle a 64 KiB page are outside the pairing model.",
        technique="TLA+ pairing-law model checked by TLC, behaviours replayed on both cores (spec->code); TLC-judged metadata-vs-execution records (code->spec)",
        engine="isa",
    ),
    "C06": dict(
        category="translation_validation",
        text="Differential execution of the two cores: every documented structural encoding the decoder accepts (prefix x opcode x "
             "register/mode byte; quick: 5 prefixes incl. none, thorough: all 16) is executed once on the Python core "
             "(Emulator.execute_instruction) and once on the Rust core (LlamaExecutor::execute through vh) from identical seeded "
             "random/boundary states (registers, flags, BP/PX/PY, pointer cells, code placed at page boundaries) on identical sparse "
             "buses; TLC (JudgeParity.tla over SC62015Format.tla) judges every pair: same registers, C/Z, PC, low-power state, consumed "
             "length (also against the format specification) and same final contents of every location either core wrote. Seeded "
             "random looping programs and structured call / return programs (near and far calls, a far jump between call and return, "
             "mismatched pairs, returns without a call) are run in lockstep on both cores; block moves with an external operand also "
             "with block lengths 0x100-0x234 (registers, flags and the set of external addresses written).",
        design_ref="DESIGN.md section 4 (C06)",
        note="Trusted: vh exec module (sparse recording bus), harness/py/exec_harness.py, binja_test_mocks LLIL evaluator, TLC. Nine open known findings (opcode-keyed root causes) and one fixed defect are listed in known_findings.json; counted instructions get block lengths 1..6, BCD instructions valid BCD digits.",
        technique="TLA+ format spec + TLC-judged differential execution (translation validation between the Python and Rust cores)",
        engine="isa",
    ),
    "C03": dict(
        category="model_checking",
        text="SC62015Denote.tla maps the RENDERED token stream of an instruction (parsed into operand ASTs by harness/py/text_ast.py, nothing of the "
             "decoded operand objects) and a machine state to the bytes read as data, written, read to form addresses, and the registers that may "
             "change, under the documented addressing rules, mnemonic widths and I-counted ranges. TLC (JudgeDenote) compares that denotation with "
             "the accesses recorded through the Memory callbacks while Emulator.execute_instruction runs, for every documented structural encoding "
             "(4 prefixes + none quick, all 15 thorough) x seeded states with BP/PX/PY distinct and non-zero, boundary pointers, I in 1..8 (and 0x100-0x234 for block moves with an external operand): "
             "denoted bytes must be accessed, nothing else may be (outside the instruction's own bytes), no undenoted register may change. "
             "On the model, TLC checks over the complete structural space of encodings (MCSemSpace: 89856 states quick, all prefixes x all second "
             "bytes thorough) that the bytes SC62015Sem.Exec writes are exactly the ones Denote assigns to the text (DenoteCoversExec).",
        design_ref="DESIGN.md section 4 (C03)",
        note="Trusted: exec_harness recording memory, text_ast.py, binja_test_mocks evaluator, TLC. Register reads are not observable; register writes "
             "are seen as value changes. Five open known findings (same root causes as C04's) keyed by opcode + TLC-computed alternative-reading tag.",
        technique="TLA+ denotation of the disassembly text + TLC-judged recorded memory accesses of the lifted IL (code->spec conformance)",
        engine="isa",
    ),
    "C04": dict(
        category="model_checking",
        text="SC62015Sem.tla is an executable TLA+ transcription of the README instruction tables (Exec: destination value, C/Z where the table "
             "defines them, pointer/counter/stack side effects; Unspecified: states the README does not cover). TLC (JudgeSem) judges every "
             "recorded one-instruction execution of the Python core (block moves of more than 32768 bytes by BlockCore: counter, pointers, flags, number of external "
             "locations written) - every documented structural encoding x seeded base / boundary-wide / "
             "long-block states (3 per encoding quick, 10 thorough; overlapping two-operand block ranges and block lengths 0x100-0x234 for the "
             "block moves with an external operand added) - clause by clause: result "
             "registers, next PC, flag values, flags the table marks '-' preserved, written memory, and the frame condition (every other "
             "register and every location the implementation wrote). TLC (JudgeAlu) judges complete (a, b, carry) tables of the 8-bit "
             "operations in every operand form: 70 forms, all 2^17 inputs each in the thorough tier; quick: 3 forms complete + a stratified "
             "sample of 18 a-values x all b x carry for the others. On the model, TLC checks 17 algebraic laws of the semantics itself "
             "(MCSemLaws: EX twice = identity, PUSH/POP, ADCL/SBCL = multi-precision add/sub, DADL/DSBL = decimal add/sub, ...) over a "
             "product palette of 7200 (thorough 31680) states.",
        design_ref="DESIGN.md section 4 (C04)",
        note="Trusted: harness/py/exec_harness.py (sparse recording memory), binja_test_mocks LLIL evaluator, TLC, the README tables as transcribed. "
             "Rows of the README that are only descriptive are transcribed from the implementation and marked (T) in the spec. Eight open known "
             "findings (README vs lift) are keyed by opcode + an alternative-reading tag computed by TLC (aspre0, assecond, cin-cleared, edge) so that "
             "any other deviation of the same opcode is still reported; one defect (ADC/SBC carry) was repaired (fix: 0a25dca).",
        technique="TLA+ instruction-semantics spec (from the README tables) + TLC-judged recorded executions (code->spec conformance), complete 8-bit operand tables",
        engine="isa",
    ),
}

NOT_YET = {
}

ENGINES = [
    dict(name="asm", path="spec/asm", serves_properties=["C10"], kind_free_text="TLA+ two-pass assembly layout reference + judge of recorded assemblies"),
    dict(name="mem", path="spec/mem", serves_properties=["C11"], kind_free_text="TLA+ memory bus over alias classes + trace spec"),
    dict(name="kbd", path="spec/kbd", serves_properties=["C14"], kind_free_text="TLA+ keyboard matrix automaton + monitors + trace spec; the matrix composed with the machine (MachineKbd) + trace spec"),
    dict(name="tables", path="spec/tables", serves_properties=["C17"], kind_free_text="TLA+ equalities over dumped tables/constants"),
    dict(name="isa", path="spec/isa", serves_properties=["C01", "C02", "C03", "C04", "C05", "C06", "C07", "C09"], kind_free_text="TLA+ SC62015 instruction format (table + grammar) and batch judges"),
    dict(name="lcd", path="spec/lcd", serves_properties=["C15"], kind_free_text="TLA+ HD61202 protocol + pixel map specs"),
    dict(name="trace", path="spec/trace", serves_properties=["C07"], kind_free_text="TLA+ call-stack / interrupt-flow tracer spec (CallTrace) + trace spec"),
    dict(name="sched", path="spec/sched", serves_properties=["C18"], kind_free_text="TLA+ virtual-time scheduler spec + trace spec"),
    dict(name="machine", path="spec/machine", serves_properties=["C12", "C13", "C16"], kind_free_text="TLA+ timers / interrupts / machine / loop-detector specs + trace specs"),
    dict(name="regs", path="spec/regs", serves_properties=["C08"], kind_free_text="TLA+ register-file state machine + trace spec"),
]

# sentences appended to the descriptions above (strengthenings of the later rounds, kept apart so that the long texts stay readable)
LATER = {
    "C01": " The history context also fetches, on the same emulator, a predecessor instruction that ENDS at the address under test while other bytes lie behind it, then rewrites the memory and fetches at that address (sequential fetch after self-modification).",
    "C05": " Every record is also executed on a LONG-LIVED Python emulator that has just executed, at the same address, a sibling of the instruction (same opcode and prefix, other operand bytes) - patched or reloaded code - and judged by the same clauses (impl tag pyl).",
    "C06": " Every other state is set up with the flags written once more one by one (FC, FZ after F) - the same architectural state reached through the flag aliases of either register file. Every unprefixed structure is also run with operand bytes that are all zero and all ones (a displacement, offset or immediate of exactly 0x00 / 0xFF: a length derived from the value instead of the mode bits shows only there); the same enumeration feeds C03, C04, C05, C07 and C09.",
    "C07": " The sibling history (the same bytes except the last one, executed at the same address just before) runs before the probe is ever executed on the long-lived core; the hidden-state variant also writes the flags one by one through the FC / FZ aliases. Growth: the call-stack / interrupt-flow tracer of the Python machine (spec/trace/CallTrace.tla: implementation-shaped tracer against declarative frame laws, model-checked with and without hardware interrupts) is bound to the real PCE500Emulator with tracing on and an observer registered (TraceCallTrace.tla); drift only.",
    "C11": " The probed alias structure must also be the DOCUMENTED one: two cells of the external space may share a class only if their canonical addresses (24-bit wrap, 32 KiB mirror of 0x80000-0xBFFFF where switched on) coincide (clause UndocumentedAlias - a window folded modulo its size is coherent but still an alias). CPU-facing buses: on the whole machines (CoreRuntime::step with its RuntimeBus layer, PCE500Emulator.step) the same load/store traces are produced by EXECUTED instructions - MV A / MV BA / three-byte MVP through the internal memory, poked into RAM and stepped - and judged by the same TraceMemory clauses (impl tags rscpu, pycpu). Growth beyond the bus objects: RomLoad.tla (how the device loaders of both machines place ROM / system images of eleven palette lengths from 0 to beyond 1 MiB, which ranges they protect, the reset vector; model-checked placement function, every loader run probed at about 35 boundary addresses incl. 2^24 aliases and judged by TLC) and ImemRegs.tla (the memory-mapped internal registers of six machine variants as a state machine: keyboard, LCC/SCR, USR/SSR, IMR/ISR, E-port, SIO; TLC behaviours replayed, random sequences trace-validated). Uart.tla (the serial adapter behind USR / RXD / TXD as its own state machine: queues with per-byte error flags, status bits, snapshot / restore; seven laws model-checked over 935 k states, one refuted on purpose - a pristine adapter reports its transmitter neither ready nor empty - and the real SerialAdapter trace-validated; drift only). Only the C11 sentences (ROM immutable, aliases canonical, plain internal RAM reads back) are verdicts there (keys RomLoad:/ImemRegs:); Python/Rust device-register differences are reported as DRIFT.",
    "C12": " PromptAfterUnmask carries the origin of the owed request (monitors: line at which each status bit last rose, line of the latest delivery): a request raised by a NEW event after the latest delivery (key pressed / other timer expiring while a handler runs; dedicated scripts) must be taken (tag fresh-request), only the stale shape is a recorded finding. Liveness: on the finite instance of Interrupts.tla (positions modulo 2, no depth bound, no state constraint) TLC checks under weak fairness of the CPU that a halted CPU with a pending status bit resumes (HaltWakes), a powered-off one with the ON key pending resumes with its timers running (OffWakes) and an owed request is served unless the firmware acknowledges or masks it first (RequestServed), for both delivery phases and both acknowledge readings. 'A powered-off CPU stops both timers' is judged on whole-machine runs (schedules of Machine.tla plus OFF scripts with both timers live, 0-40 idle steps, ON key) by the OffFreezes clause of TraceMachineTimers.tla: over a step that begins and ends powered off the remaining count of each live timer is unchanged. Every fourth script also runs on the Python machine's minimal stepping path (fast_mode) and on one constructed with tracing switched on.",
    "C13": " Machine level: OffFreezes (a step that begins and ends powered off leaves the remaining count of each live timer unchanged and raises no timer status bit) joins the cadence clauses; every third script also runs on the Python machine's minimal stepping path (fast_mode, where WAIT is simulated by a separate routine) and on one constructed with tracing switched on.",
    "C15": " On alternate steps the Python controller is observed through its snapshot API (get_snapshot(): registers and VRAM as the state capture and save path see them) instead of the chip objects; both views are judged by the same trace clauses. Every other sequence also runs on a Rust controller whose display-write capture is switched on (an observer used by the front ends; the protocol must not notice it).",
    "C16": " Ring-full scripts outside handlers (fast main timer, interrupts disabled, three keys held, nothing reads the queue) make the 8-slot event ring run exactly full and overflow on BOTH machines, every step being a snapshot point. Cross loading also happens at the end of scripts that END in each low-power state (HALT / OFF, with and without idle steps); a power-state difference carries which state became which (pw=off>halt is the recorded Python limitation, pw=off>run is reported).",
    "C17": " Sub-register layout is also compared in the WRITE direction: on two backgrounds where every byte differs, writing A/B/IL/IH/FC/FZ must change exactly its own bits of its own container (IL also clears IH) per the Python table, the Binary Ninja register definitions and the behaviour of both register files.",
    "C18": " CPU equivalence also runs programs that use HALT / OFF / IR / WAIT, firmware writes to ISR / IMR / KOL and a handler that acknowledges and returns, with host events (ON key, matrix keys, ISR pokes) applied to both machines between up to three budgets. A panic of the Rust core on an in-scope request is reported as violation NoCrash:rs:... (all checks). Liveness: SchedulerLive.tla adds the callers' policies to Scheduler.tla; under weak fairness and without a state constraint TLC shows that every task finishes and every event is returned (Progress, EveryWake) for the two callers the repository has - AsyncRuntimeRunner's slice that grows by one after every run that executed no cycle, and one huge budget - within a slice of at most the longest sleep + 1, and that a caller repeating a small budget stalls (run every time as the vacuity guard). The real AsyncDriver is driven under the growing-slice caller (sleeps up to 40 cycles from slices of 1-10) and on drivers constructed with a start clock > 0 (with_clock); the recorded runs are judged by TraceScheduler.tla, which now carries the start clock.",
}


def main() -> None:
    props = [json.loads(l)["id"] for l in (VERIF / "properties.jsonl").read_text().splitlines() if l.strip()]
    checks = []
    for pid in props:
        if pid not in CHECKS:
            continue
        c = CHECKS[pid]
        checks.append({
            "property_id": pid,
            "quick_cmd": f"./check {pid} --tier quick",
            "thorough_cmd": f"./check {pid} --tier thorough",
            "evidence_file": f"/verif/evidence/{pid}.json",
            "replay_cmd_template": f"./check {pid} --replay {{path}}",
            "engine": c["engine"],
            "level_claimed": {"category": c["category"], "text": c["text"] + LATER.get(pid, ""), "design_ref": c["design_ref"]},
            "level_note": c["note"],
            "technique": c["technique"],
        })
    na = []
    for pid in props:
        if pid not in CHECKS:
            na.append({"property_id": pid, "reason": NOT_YET.get(pid, "check not built yet in this round (planned: TLA+ model + conformance, see DESIGN.md section 4); not claimed until sound")})
    m = {
        "version": 1,
        "setup_cmd": "./setup.sh",
        "hooks": {
            "guard": "none (no source hooks are used; the Rust harness reads /repo/sc62015/core/src through a shadow Cargo manifest)",
            "enable": "not needed: checks import /repo's Python working tree directly and rebuild harness/rust/vh (cargo --offline, vendored crates) against /repo/sc62015/core/src on every run",
            "baseline_off_cmd": "cd /repo && /venv/bin/python -m pytest -ra -q -p no:cacheprovider --timeout=900 --continue-on-collection-errors",
            "source_commits": [],
            "add_only": True,
        },
        "engines": ENGINES,
        "checks": checks,
        "not_applicable": na,
        "notes": "Single entry point ./check <ID> --tier quick|thorough [--seed N] [--replay P]. Exit 2 = machinery failure. See DESIGN.md.",
    }
    (VERIF / "MANIFEST.json").write_text(json.dumps(m, indent=1) + "\n")


if __name__ == "__main__":
    main()
