------------------------------- MODULE Bits -------------------------------
(* Bit-level helpers shared by every specification in /verif/spec.          *)
(* TLC integers are 32-bit signed, so values that may reach 2^31 (32-bit    *)
(* register writes, cycle counters) cross the JSON boundary as limb pairs   *)
(* <<hi16, lo16>>.                                                          *)
EXTENDS Naturals, Sequences

Pow2(n) == 2 ^ n
Mask(w) == Pow2(w) - 1
Trunc(v, w) == v % Pow2(w)
BitOf(v, k) == (v \div Pow2(k)) % 2
Byte(v, i) == (v \div Pow2(8 * i)) % 256
\* little-endian composition of a sequence of bytes
RECURSIVE LE(_)
LE(bs) == IF bs = <<>> THEN 0 ELSE Head(bs) + 256 * LE(Tail(bs))
\* bytes of v, little-endian, n of them
LEBytes(v, n) == [i \in 1..n |-> Byte(v, i - 1)]

\* ---- limb pairs <<hi, lo>>, each 0..65535 --------------------------------
IsLimb(l) == /\ Len(l) = 2 /\ l[1] \in 0..65535 /\ l[2] \in 0..65535
\* truncate a limb value to w <= 30 bits, as a plain integer
LimbTrunc(l, w) == IF w <= 16 THEN l[2] % Pow2(w)
                   ELSE (l[1] % Pow2(w - 16)) * 65536 + l[2]
LimbBit(l, k) == IF k < 16 THEN BitOf(l[2], k) ELSE IF k < 32 THEN BitOf(l[1], k - 16) ELSE 0
ToLimb(v) == <<v \div 65536, v % 65536>>
===========================================================================
