----------------------------- MODULE MCScheduler -----------------------------
EXTENDS Scheduler
Items == { <<"S", 0>>, <<"S", 1>>, <<"S", 2>>, <<"S", 3>>, <<"E">> }
ItemsSmall == { <<"S", 0>>, <<"S", 1>>, <<"S", 3>>, <<"E">> }
RECURSIVE SeqsUpTo(_, _)
SeqsUpTo(S, n) == IF n = 0 THEN { <<>> } ELSE LET P == SeqsUpTo(S, n - 1) IN P \cup { Append(p, x) : p \in {q \in P : Len(q) = n - 1}, x \in S }
Sleeps(sc) == Cardinality({i \in 1..Len(sc) : sc[i][1] = "S"})
Emits(sc) == Cardinality({i \in 1..Len(sc) : sc[i][1] = "E"})
Ok(sc) == Sleeps(sc) <= 3 /\ Emits(sc) <= 2
Scripts3 == { sc \in SeqsUpTo(Items, 3) : Ok(sc) }
Scripts2 == { sc \in SeqsUpTo(ItemsSmall, 2) : Ok(sc) }
Scripts4 == { sc \in SeqsUpTo(ItemsSmall, 4) : Ok(sc) }
\* 1..2 tasks with scripts of length <= 3; 3 tasks with scripts of length <= 2
ChoicesQuick == { <<a>> : a \in Scripts3 } \cup { <<a, b>> : a \in Scripts2, b \in Scripts3 }
ChoicesThorough == { <<a>> : a \in Scripts4 } \cup { <<a, b>> : a \in Scripts3, b \in Scripts3 } \cup { <<a, b, c>> : a \in Scripts2, b \in Scripts2, c \in Scripts2 }
ChoicesReplay == { <<a, b>> : a \in Scripts2, b \in Scripts2 } \cup { <<a, b, c>> : a \in {<<<<"S",1>>,<<"E">>>>}, b \in Scripts2, c \in {<<<<"S",0>>, <<"S",1>>>>} }
ChoicesSim == { <<a, b, c, d>> : a \in Scripts3, b \in Scripts2, c \in Scripts3, d \in Scripts2 }
BudgetsAll == {1, 2, 3, 5, 100}
BudgetsR == {1, 2, 100}
=============================================================================
