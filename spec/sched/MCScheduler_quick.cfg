SPECIFICATION Spec
CONSTANTS
  ScriptChoices <- ChoicesQuick
  Budgets <- BudgetsAll
  MaxRuns = 6
  RecordActs = FALSE
INVARIANT WakeExact
INVARIANT PartitionIndependent
INVARIANT Complete
INVARIANT EventsOnceInOrder
INVARIANT Accounting
INVARIANT NeverPastTarget
PROPERTY TimeMonotone
CHECK_DEADLOCK FALSE
