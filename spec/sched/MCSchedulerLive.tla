-------------------------- MODULE MCSchedulerLive --------------------------
EXTENDS SchedulerLive
Items == { <<"S", 0>>, <<"S", 1>>, <<"S", 2>>, <<"S", 3>>, <<"E">> }
ItemsSmall == { <<"S", 0>>, <<"S", 1>>, <<"S", 3>>, <<"E">> }
RECURSIVE SeqsUpTo(_, _)
SeqsUpTo(S, n) == IF n = 0 THEN { <<>> } ELSE LET P == SeqsUpTo(S, n - 1) IN P \cup { Append(p, x) : p \in {q \in P : Len(q) = n - 1}, x \in S }
Scripts3 == SeqsUpTo(Items, 3)
Scripts2 == SeqsUpTo(ItemsSmall, 2)
ChoicesLive == { <<a>> : a \in Scripts3 } \cup { <<a, b>> : a \in Scripts2, b \in Scripts3 }
ChoicesLiveT == { <<a, b>> : a \in Scripts3, b \in Scripts3 } \cup { <<a, b, c>> : a \in Scripts2, b \in Scripts2, c \in Scripts2 }
NoBudgets == {}
=============================================================================
