SPECIFICATION Spec
CONSTANTS
  ScriptChoices <- ChoicesThorough
  Budgets <- BudgetsAll
  MaxRuns = 8
  RecordActs = FALSE
INVARIANT WakeExact
INVARIANT PartitionIndependent
INVARIANT Complete
INVARIANT EventsOnceInOrder
INVARIANT Accounting
INVARIANT NeverPastTarget
PROPERTY TimeMonotone
CHECK_DEADLOCK FALSE
