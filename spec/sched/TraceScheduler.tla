--------------------------- MODULE TraceScheduler ---------------------------
(* Trace validation for C18.  A trace is: Init(scripts) followed by RunFor   *)
(* events, each logging the budget, the DriverRunResult, the driver clock    *)
(* after the call and the resumption-log entries produced during the call.   *)
(* The implementation's run_for is atomic; the specification takes its       *)
(* internal steps (PopEarliest/Poll/EndOfCycle/ReturnMax) silently between   *)
(* two logged events and is compared when it is idle again.                  *)
(*                                                                           *)
(* Two kinds of judgement per RunFor line:                                   *)
(*  - property clauses evaluated on the implementation's OWN observations    *)
(*    (WakeExact, TimeMonotone, Accounting, PartitionIndependent = prefix of *)
(*    the reference log, EventsOnceInOrder = returned events are a prefix of *)
(*    the reference event order);                                            *)
(*  - ModelMismatch: the step-wise model predicts a different result         *)
(*    (reported as drift by the harness, never as a violation).              *)
EXTENDS Scheduler, Json, IOUtils

TraceLog == ndJsonDeserialize(IOEnv.TRACE_FILE)

VARIABLES l, bad, pending, mark, implLog, implClock, implRet,
          c0      \* the clock the driver was constructed with (AsyncDriver::with_clock); everything is invariant under this shift
tvars == <<vars, l, bad, pending, mark, implLog, implClock, implRet, c0>>

Entry(x) == [t |-> x[1], pc |-> x[2], cycle |-> x[3], want |-> x[4]]
Entries(s) == [i \in 1..Len(s) |-> Entry(s[i])]
NoWant(s) == [i \in 1..Len(s) |-> [t |-> s[i].t, pc |-> s[i].pc, cycle |-> s[i].cycle]]
Shifted(s, c) == [i \in 1..Len(s) |-> [s[i] EXCEPT !.cycle = @ + c]]
Clock0(e) == IF "clock0" \in DOMAIN e THEN e.clock0 ELSE 0

\* reference order of accepted events, derived from the reference log
RefAccepted(sc) ==
  LET R == RefLog(sc)
      Ev(i) == Exec(sc[R[i].t], R[i].t, R[i].pc, 0).pend
  IN SelectSeq([i \in 1..Len(R) |-> Ev(i)], LAMBDA e : e # 0)

TInit ==
  /\ scripts = <<>> /\ clock = 0 /\ queue = << >> /\ events = <<>> /\ pcOf = << >> /\ want = << >>
  /\ phase = "idle" /\ drain = <<>> /\ start = 0 /\ target = 0 /\ log = <<>> /\ results = <<>> /\ accepted = <<>> /\ acts = <<>>
  /\ l = 1 /\ bad = {} /\ pending = FALSE /\ mark = 0 /\ implLog = <<>> /\ implClock = 0 /\ implRet = <<>> /\ c0 = 0

Flag(e, clause, detail) == bad' = bad \cup {[tid |-> e.tid, line |-> l, clause |-> clause, detail |-> detail]}

Clause(e) ==
  LET nl == Entries(e.newlog)
      il == implLog \o nl
      ret == IF e.ret.ev # 0 THEN Append(implRet, e.ret.ev) ELSE implRet
  IN IF \E i \in 1..Len(nl) : nl[i].cycle # nl[i].want THEN "WakeExact"
     ELSE IF e.clock < implClock THEN "TimeMonotone"
     ELSE IF \E i \in 1..Len(nl) : nl[i].cycle < implClock \/ nl[i].cycle > e.clock THEN "TimeMonotone"
     ELSE IF e.ret.cycles # e.clock - implClock THEN "Accounting"
     ELSE IF ~IsPrefixOf(NoWant(il), Shifted(NoWant(RefLog(scripts)), c0)) THEN "PartitionIndependent"
     ELSE IF ~IsPrefixOf(ret, RefAccepted(scripts)) THEN "EventsOnceInOrder"
     ELSE IF \/ results[Len(results)] # [ev |-> e.ret.ev, cycles |-> e.ret.cycles]
             \/ clock # e.clock
             \/ NoWant(SubSeq(log, mark + 1, Len(log))) # NoWant(nl) THEN "ModelMismatch"
     ELSE "ok"

TNext ==
  \/ /\ phase = "idle" /\ ~pending /\ l <= Len(TraceLog) /\ TraceLog[l].ev = "Init"
     /\ LET e == TraceLog[l] IN
        /\ scripts' = e.scripts /\ clock' = Clock0(e) /\ c0' = Clock0(e)
        /\ queue' = (IF Len(e.scripts) = 0 THEN << >> ELSE (Clock0(e) :> [i \in 1..Len(e.scripts) |-> i]))
        /\ events' = <<>> /\ pcOf' = [t \in 1..Len(e.scripts) |-> 1] /\ want' = [t \in 1..Len(e.scripts) |-> Clock0(e)]
        /\ phase' = "idle" /\ drain' = <<>> /\ start' = 0 /\ target' = 0 /\ log' = <<>> /\ results' = <<>> /\ accepted' = <<>>
        /\ acts' = acts /\ l' = l + 1 /\ bad' = bad /\ pending' = FALSE /\ mark' = 0
        /\ implLog' = <<>> /\ implClock' = Clock0(e) /\ implRet' = <<>>
  \/ /\ phase = "idle" /\ ~pending /\ l <= Len(TraceLog) /\ TraceLog[l].ev = "RunFor"
     /\ RunForBegin(TraceLog[l].b)
     /\ pending' = TRUE /\ mark' = Len(log)
     /\ UNCHANGED <<l, bad, implLog, implClock, implRet, c0>>
  \/ /\ phase # "idle" /\ Internal
     /\ UNCHANGED <<l, bad, pending, mark, implLog, implClock, implRet, c0>>
  \/ /\ phase = "idle" /\ pending
     /\ LET e == TraceLog[l]
            c == Clause(e)
        IN /\ (IF c = "ok" THEN bad' = bad ELSE Flag(e, c, <<e.b, e.ret.ev, e.ret.cycles, e.clock, Len(e.newlog), results[Len(results)], clock>>))
           /\ implLog' = implLog \o Entries(e.newlog)
           /\ implClock' = e.clock
           /\ implRet' = (IF e.ret.ev # 0 THEN Append(implRet, e.ret.ev) ELSE implRet)
     /\ l' = l + 1 /\ pending' = FALSE
     /\ UNCHANGED <<vars, mark, c0>>

TSpec == TInit /\ [][TNext]_tvars

Done == l = Len(TraceLog) + 1 /\ ~pending /\ phase = "idle"
Report == Done => PrintT(<<"BAD", Cardinality(bad), bad>>)
=============================================================================
