SPECIFICATION LiveSpec
CONSTANTS
  ScriptChoices <- ChoicesLive
  Budgets <- NoBudgets
  MaxRuns = 8
  RecordActs = FALSE
  Policy = "fixed"
  Slice0 = 2
  BigBudget = 1000
INVARIANT WakeExact
INVARIANT PartitionIndependent
INVARIANT EventsOnceInOrder
PROPERTY Progress
PROPERTY EveryWake
CHECK_DEADLOCK FALSE
