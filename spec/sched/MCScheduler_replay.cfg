SPECIFICATION Spec
CONSTANTS
  ScriptChoices <- ChoicesReplay
  Budgets <- BudgetsR
  MaxRuns = 3
  RecordActs = TRUE
INVARIANT WakeExact
INVARIANT PartitionIndependent
INVARIANT Complete
INVARIANT EventsOnceInOrder
INVARIANT Accounting
PROPERTY TimeMonotone
CHECK_DEADLOCK FALSE
