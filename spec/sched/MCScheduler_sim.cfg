SPECIFICATION Spec
CONSTANTS
  ScriptChoices <- ChoicesSim
  Budgets <- BudgetsAll
  MaxRuns = 30
  RecordActs = TRUE
INVARIANT WakeExact
INVARIANT PartitionIndependent
INVARIANT Complete
INVARIANT EventsOnceInOrder
INVARIANT Accounting
PROPERTY TimeMonotone
CHECK_DEADLOCK FALSE
