------------------------------ MODULE Scheduler ------------------------------
(* The virtual-time cooperative task scheduler of the Rust runtime           *)
(* (sc62015-core async_driver.rs: AsyncDriver::spawn / run_for, sleep_cycles,*)
(* emit_event, the three thread-local cells).  Property C18.                  *)
(*                                                                            *)
(* One action per real step of AsyncDriver::run_for: RunForBegin (returns a   *)
(* queued event or computes the target), PopEarliest (take the earliest key   *)
(* of the BTreeMap and its Vec), Poll (poll one future: it runs to its next   *)
(* sleep; requeue; collect the pending-event cell), EndOfCycle (return the    *)
(* first queued event, or go on), ReturnMax.                                  *)
(*                                                                            *)
(* Tasks are scripts over Sleep(d) and Emit: <<"S", d>> / <<"E">>.  Every     *)
(* resumption of a task is logged with the cycle it happened at and the cycle *)
(* the task had asked for.                                                    *)
EXTENDS Naturals, Sequences, FiniteSets, TLC

CONSTANTS ScriptChoices,   \* set of task-script tuples <<script_1, ..., script_n>> (spawned in this order at cycle 0)
          Budgets,         \* set of run_for budgets chosen nondeterministically
          MaxRuns,         \* bound on the number of run_for calls
          RecordActs

VARIABLES scripts,          \* the chosen tuple of scripts
          clock,            \* AsyncDriver.clock
          queue,            \* futures_queue: [wake cycle -> Seq(task)] (insertion order inside a key)
          events,           \* events_queue
          pcOf,             \* [task -> index of the next script item]
          want,             \* [task -> cycle the task asked to be resumed at]
          phase,            \* "idle" | "running" | "draining" | "endcycle"
          drain,            \* the Vec being polled at this cycle
          start, target,    \* of the current run_for
          log,              \* history: Seq of [t, pc, cycle, want] resumptions
          results,          \* history: Seq of [ev, cycles] returned by run_for (ev = 0 is MaxCycles)
          accepted,         \* history: events that won the pending-event cell, in emission order
          acts

vars == <<scripts, clock, queue, events, pcOf, want, phase, drain, start, target, log, results, accepted, acts>>

Tasks == 1..Len(scripts)
EventId(t, i) == t * 100 + i
Rec(a) == IF RecordActs THEN Append(acts, a) ELSE acts

Min(S) == CHOOSE x \in S : \A y \in S : x <= y

\* run script sc of task t from item i until its next Sleep; pend = content of the pending-event cell (0 = empty)
RECURSIVE Exec(_, _, _, _)
Exec(sc, t, i, pend) ==
  IF i > Len(sc) THEN [pc |-> i, d |-> 0, pend |-> pend, done |-> TRUE]
  ELSE IF sc[i][1] = "E" THEN Exec(sc, t, i + 1, IF pend = 0 THEN EventId(t, i) ELSE pend)
  ELSE [pc |-> i + 1, d |-> sc[i][2], pend |-> pend, done |-> FALSE]

Enqueue(q, w, t) == [c \in (DOMAIN q) \cup {w} |-> IF c = w THEN Append(IF w \in DOMAIN q THEN q[w] ELSE <<>>, t) ELSE q[c]]
Dequeue(q, k) == [c \in (DOMAIN q) \ {k} |-> q[c]]

Init ==
  /\ scripts \in ScriptChoices
  /\ clock = 0
  /\ queue = (IF Len(scripts) = 0 THEN << >> ELSE (0 :> [i \in 1..Len(scripts) |-> i]))   \* all spawned at cycle 0, in order
  /\ events = <<>>
  /\ pcOf = [t \in 1..Len(scripts) |-> 1]
  /\ want = [t \in 1..Len(scripts) |-> 0]
  /\ phase = "idle" /\ drain = <<>> /\ start = 0 /\ target = 0
  /\ log = <<>> /\ results = <<>> /\ accepted = <<>>
  /\ acts = (IF RecordActs THEN <<[ev |-> "Init", scripts |-> scripts]>> ELSE <<>>)

RunForBegin(b) ==
  /\ phase = "idle" /\ Len(results) < MaxRuns
  /\ acts' = Rec([ev |-> "RunFor", b |-> b])
  /\ IF events # <<>>
     THEN /\ results' = Append(results, [ev |-> Head(events), cycles |-> 0])
          /\ events' = Tail(events)
          /\ UNCHANGED <<clock, queue, pcOf, want, phase, drain, start, target, log, accepted, scripts>>
     ELSE /\ start' = clock /\ target' = clock + b /\ phase' = "running"
          /\ UNCHANGED <<clock, queue, events, pcOf, want, drain, log, results, accepted, scripts>>

QEmpty == \A c \in DOMAIN queue : FALSE
Exhausted == IF QEmpty THEN TRUE ELSE (IF clock >= target THEN TRUE ELSE Min(DOMAIN queue) >= target)

PopEarliest ==
  /\ phase = "running" /\ ~Exhausted
  /\ LET k == Min(DOMAIN queue) IN
       /\ clock' = k /\ drain' = queue[k] /\ queue' = Dequeue(queue, k)
  /\ phase' = "draining"
  /\ UNCHANGED <<scripts, events, pcOf, want, start, target, log, results, accepted, acts>>

ReturnMax ==
  /\ phase = "running" /\ Exhausted
  /\ results' = Append(results, [ev |-> 0, cycles |-> clock - start])      \* the clock is NOT advanced to the target
  /\ phase' = "idle"
  /\ UNCHANGED <<scripts, clock, queue, events, pcOf, want, drain, start, target, log, accepted, acts>>

Poll ==
  /\ phase = "draining" /\ drain # <<>>
  /\ LET t == Head(drain)
         r == Exec(scripts[t], t, pcOf[t], 0)
     IN /\ log' = Append(log, [t |-> t, pc |-> pcOf[t], cycle |-> clock, want |-> want[t]])
        /\ pcOf' = [pcOf EXCEPT ![t] = r.pc]
        /\ IF r.done
           THEN queue' = queue /\ want' = want
           ELSE queue' = Enqueue(queue, clock + r.d, t) /\ want' = [want EXCEPT ![t] = clock + r.d]
        /\ IF r.pend # 0
           THEN events' = Append(events, r.pend) /\ accepted' = Append(accepted, r.pend)
           ELSE events' = events /\ accepted' = accepted
        /\ drain' = Tail(drain)
        /\ phase' = IF Tail(drain) = <<>> THEN "endcycle" ELSE "draining"
  /\ UNCHANGED <<scripts, clock, start, target, results, acts>>

EndOfCycle ==
  /\ phase = "endcycle"
  /\ IF events # <<>>
     THEN /\ results' = Append(results, [ev |-> Head(events), cycles |-> clock - start])
          /\ events' = Tail(events) /\ phase' = "idle"
     ELSE /\ phase' = "running" /\ UNCHANGED <<results, events>>
  /\ UNCHANGED <<scripts, clock, queue, pcOf, want, drain, start, target, log, accepted, acts>>

Internal == PopEarliest \/ ReturnMax \/ Poll \/ EndOfCycle
Next == (\E b \in Budgets : RunForBegin(b)) \/ Internal
Spec == Init /\ [][Next]_vars

\* ----------------------------------------------------------- reference log
\* The ideal resumption order: always resume the entry with the least (wake cycle, insertion number).
LexLeq(a, b) == a.w < b.w \/ (a.w = b.w /\ a.s <= b.s)
RECURSIVE Ideal(_, _, _, _, _)
Ideal(sc, q, pcs, n, lg) ==
  IF q = {} THEN lg
  ELSE LET e == CHOOSE x \in q : \A y \in q : LexLeq(x, y)
           r == Exec(sc[e.t], e.t, pcs[e.t], 0)
       IN Ideal(sc, (q \ {e}) \cup (IF r.done THEN {} ELSE {[w |-> e.w + r.d, s |-> n, t |-> e.t]}),
                [pcs EXCEPT ![e.t] = r.pc], n + 1,
                Append(lg, [t |-> e.t, pc |-> pcs[e.t], cycle |-> e.w, want |-> e.w]))
RefLog(sc) == Ideal(sc, {[w |-> 0, s |-> t, t |-> t] : t \in 1..Len(sc)}, [t \in 1..Len(sc) |-> 1], Len(sc) + 1, <<>>)

IsPrefixOf(a, b) == Len(a) <= Len(b) /\ \A i \in 1..Len(a) : a[i] = b[i]

\* ------------------------------------------------------------- properties
\* C18: each task is resumed exactly at the cycle it asked for
WakeExact == \A i \in 1..Len(log) : log[i].cycle = log[i].want
\* C18: virtual time never moves backwards
TimeMonotone == [][clock' >= clock]_vars
\* C18: resumption order (incl. tasks due at the same cycle) does not depend on the budget partition
PartitionIndependent == IsPrefixOf(log, RefLog(scripts))
\* the whole reference log is produced once the queue has drained
Complete == (QEmpty /\ phase = "idle") => log = RefLog(scripts)
\* C18: every accepted event is returned exactly once, in emission order
Returned == SelectSeq([i \in 1..Len(results) |-> results[i].ev], LAMBDA e : e # 0)
EventsOnceInOrder == Returned \o events = accepted
\* cycles_executed accounts for the clock
Accounting == phase = "idle" =>
   LET Sum[i \in 0..Len(results)] == IF i = 0 THEN 0 ELSE Sum[i - 1] + results[i].cycles IN Sum[Len(results)] = clock
\* a run never ends past its target
NeverPastTarget == phase # "idle" => clock < target \/ clock = start
=============================================================================
