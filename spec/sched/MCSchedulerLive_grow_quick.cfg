SPECIFICATION LiveSpec
CONSTANTS
  ScriptChoices <- ChoicesLive
  Budgets <- NoBudgets
  MaxRuns = 40
  RecordActs = FALSE
  Policy = "grow"
  Slice0 = 1
  BigBudget = 1000
INVARIANT WakeExact
INVARIANT PartitionIndependent
INVARIANT EventsOnceInOrder
INVARIANT FenceNotReached
INVARIANT SliceBounded
PROPERTY Progress
PROPERTY EveryWake
CHECK_DEADLOCK FALSE
