--------------------------- MODULE SchedulerLive ---------------------------
(* Progress of the virtual-time scheduler under its callers' policies        *)
(* (sc62015-core async_runtime.rs: AsyncRuntimeRunner::run_instructions;     *)
(* bin/pce500.rs: run_for(u64::MAX)).                                         *)
(*                                                                            *)
(* Scheduler.tla is a safety specification: run_for(b) never advances the     *)
(* clock to its target when the earliest wake-up lies at or beyond it         *)
(* (ReturnMax), so a caller that keeps asking for budgets not larger than a   *)
(* task's sleep makes no progress at all.  The repository's callers avoid     *)
(* that in two ways, and this module states what each of them buys:           *)
(*   Policy = "grow"  - AsyncRuntimeRunner: the same slice again, one cycle   *)
(*                      more after every run that returned MaxCycles without  *)
(*                      executing a cycle; stop when everything has finished  *)
(*   Policy = "max"   - bin/pce500.rs: one budget that exceeds every sleep    *)
(*   Policy = "fixed" - a caller that repeats one small budget (NOT in the    *)
(*                      repository; kept as the contrast that shows the       *)
(*                      liveness properties are not vacuous: TLC finds the    *)
(*                      stall)                                                *)
(* Liveness is checked under weak fairness of Next, without a state           *)
(* constraint; the runs of a behaviour are finite because the caller stops    *)
(* when the queue has drained, so MaxRuns is only a fence that must never be  *)
(* reached (invariant FenceNotReached).                                       *)
EXTENDS Scheduler

CONSTANTS Policy, Slice0, BigBudget
VARIABLE slice

lvars == <<vars, slice>>

AllDone == QEmpty /\ events = <<>> /\ phase = "idle"
LastStalled == results # <<>> /\ results[Len(results)].ev = 0 /\ results[Len(results)].cycles = 0

LInit == Init /\ slice = Slice0

CallerBegin ==
  /\ ~AllDone
  /\ LET b == CASE Policy = "grow" -> (IF LastStalled THEN slice + 1 ELSE slice)
                [] Policy = "max" -> BigBudget
                [] OTHER -> slice
     IN slice' = b /\ RunForBegin(b)

LNext == CallerBegin \/ (Internal /\ UNCHANGED slice)
LiveSpec == LInit /\ [][LNext]_lvars /\ WF_lvars(LNext)

\* every task runs to the end of its script and every event is handed to the caller
Progress == <>[]AllDone
\* every resumption the reference order contains does happen
EveryWake == <>(log = RefLog(scripts))
\* the fence of the bounded history is never what stops the caller
FenceNotReached == ~AllDone => Len(results) < MaxRuns
\* the "grow" caller never needs a slice beyond the longest sleep + 1
SleepsOf(sc) == {sc[i][2] : i \in {j \in 1..Len(sc) : sc[j][1] = "S"}}
MaxSleep == LET S == UNION {SleepsOf(scripts[t]) : t \in 1..Len(scripts)}
            IN IF S = {} THEN 0 ELSE CHOOSE x \in S : \A y \in S : y <= x
SliceBounded == slice <= (IF Slice0 > MaxSleep + 1 THEN Slice0 ELSE MaxSleep + 1)
=============================================================================
