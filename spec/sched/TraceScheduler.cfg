SPECIFICATION TSpec
CONSTANTS
  ScriptChoices = {}
  Budgets = {}
  MaxRuns = 1000000
  RecordActs = FALSE
INVARIANT Report
CHECK_DEADLOCK FALSE
