SPECIFICATION Spec
CONSTANTS
  DeliverPhase = "start"
  ImrVals <- ImrSmall
  MaxDepth <- Unlimited
  MaxNest = 2
  PcMod = 2
  AckOnReturn = FALSE
  RecordActs = FALSE
INVARIANT DeliverOnlyIfEnabled
INVARIANT FrameOnEntry
INVARIANT EnteredForEnabledPending
PROPERTY StatusNotLost
PROPERTY StillOwed
PROPERTY NoReentryWhileMasked
PROPERTY PromptWhenEnabled
PROPERTY HaltIdle
PROPERTY OffStopsTimers
CHECK_DEADLOCK FALSE
