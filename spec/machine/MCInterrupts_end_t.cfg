SPECIFICATION Spec
CONSTANTS
  DeliverPhase = "end"
  ImrVals <- ImrFull
  MaxDepth = 9
  MaxNest = 2
  RecordActs = FALSE
INVARIANT DeliverOnlyIfEnabled
INVARIANT FrameOnEntry
PROPERTY NoReentryWhileMasked
PROPERTY PromptWhenEnabled
PROPERTY HaltIdle
PROPERTY OffStopsTimers
CHECK_DEADLOCK FALSE
