------------------------- MODULE TraceMachineTimers -------------------------
(* C13 at machine level: the timer cadence clauses evaluated on recorded       *)
(* step-by-step runs of the whole machines (Rust CoreRuntime, Python           *)
(* PCE500Emulator) - "however the cycle counter advances": single              *)
(* instructions, multi-cycle WAIT, idle HALT cycles, handlers (ticks           *)
(* suppressed), power-off.  The events are those of TraceMachine.tla (one      *)
(* Step per call of step(1) with the observable state before and after:        *)
(* cycle counter cyc, targets nm / ns (0 = that timer cannot fire), ISR, power, *)
(* in-handler flag) plus cfg = <<pm, ps>> on the step that follows a timer      *)
(* configuration (<<-1, -1>> otherwise) and inj = 1 when the harness moved a    *)
(* target by hand before the step.  The clauses are the action properties       *)
(* `Cadence` / `NeverWhenOff` of Machine.tla, which TLC shows to hold for a      *)
(* machine that ticks before the instruction (Python) as well as for one that    *)
(* ticks after it (Rust); they do not depend on that order.                      *)
EXTENDS Integers, Sequences, FiniteSets, TLC, Json, IOUtils

TraceLog == ndJsonDeserialize(IOEnv.TRACE_FILE)
Bit(v, i) == (v \div (2 ^ i)) % 2

VARIABLES l, bad,
          pm, ps,        \* configured periods (-1: not known yet)
          injM, injS     \* a target of that timer was moved by hand earlier in this trace (its period may then be a stand-in)
vars == <<l, bad, pm, ps, injM, injS>>

TInit == l = 1 /\ bad = {} /\ pm = -1 /\ ps = -1 /\ injM = FALSE /\ injS = FALSE

\* clauses for one timer: period p, status bit b, targets n -> n2 over a step from cycle c to c2
TimerClause(e, p, b, n, n2) ==
  LET a == e.pre  z == e.post  c == a.cyc  c2 == z.cyc
      clearedByIns == e.kind = "CLRISR" /\ Bit(e.clr, b) = 1
      newly == Bit(a.isr, b) = 0 /\ Bit(z.isr, b) = 1 /\ e.kind # "RAISE"
  IN IF p > 0 /\ n > 0 /\ n2 > 0
     THEN \* C12 / Machine.tla OffFreezes, in the form the sentence "a powered-off CPU stops both timers" has: over a step that
          \* begins and ends powered off the remaining count of a live timer is unchanged and its status bit does not rise
          \* (whether the machine freezes its cycle counter or slides the deadlines along with it is its own business)
          IF a.pw = "off" /\ z.pw = "off"
          THEN (IF (n2 - c2 # n - c) \/ newly THEN "OffFreezes" ELSE "ok")
          ELSE IF ~(n2 >= n /\ (n2 - n) % p = 0) THEN "PhasePreserved"
          ELSE IF n2 > n /\ ~(Bit(z.isr, b) = 1 \/ clearedByIns) THEN "FireSetsStatus"
          ELSE IF newly /\ ~(n2 > n /\ n <= c2) THEN "FiredOnlyAtBoundary"
          ELSE IF n2 > n /\ ~(n2 - p <= c2) THEN "NoBoundarySkipped"
          ELSE IF n2 > n /\ ~(n2 > c) THEN "NextInFuture"
          ELSE IF a.inint = 0 /\ z.inint = 0 /\ a.pw # "off" /\ z.pw # "off" /\ n < c /\ ~(n2 > n) THEN "DueTargetFires"
          ELSE "ok"
     ELSE "ok"

Flag(e, c, which) == bad' = bad \cup {[tid |-> e.tid, line |-> l, clause |-> c, detail |-> <<which, e.kind, e.pre, e.post>>]}

TNext ==
  /\ l <= Len(TraceLog) /\ l' = l + 1
  /\ LET e == TraceLog[l] IN
     IF e.ev = "Init" THEN bad' = bad /\ pm' = -1 /\ ps' = -1 /\ injM' = FALSE /\ injS' = FALSE
     ELSE LET hasCfg == e.cfg[1] >= 0
              cm == IF hasCfg \/ e.inj[1] = 1 THEN "ok" ELSE TimerClause(e, pm, 0, e.pre.nm, e.post.nm)
              cs == IF hasCfg \/ e.inj[2] = 1 THEN "ok" ELSE TimerClause(e, ps, 1, e.pre.ns, e.post.ns)
              \* C13: a disabled or zero-period timer never fires
              offM == pm = 0 /\ ~hasCfg /\ ~injM /\ e.inj[1] = 0 /\ Bit(e.pre.isr, 0) = 0 /\ Bit(e.post.isr, 0) = 1 /\ e.kind # "RAISE"
              offS == ps = 0 /\ ~hasCfg /\ ~injS /\ e.inj[2] = 0 /\ Bit(e.pre.isr, 1) = 0 /\ Bit(e.post.isr, 1) = 1 /\ e.kind # "RAISE"
          IN /\ (IF cm # "ok" THEN Flag(e, cm, "MTI")
                 ELSE IF cs # "ok" THEN Flag(e, cs, "STI")
                 ELSE IF offM THEN Flag(e, "NeverWhenOff", "MTI")
                 ELSE IF offS THEN Flag(e, "NeverWhenOff", "STI")
                 ELSE bad' = bad)
             /\ pm' = IF hasCfg THEN e.cfg[1] ELSE pm
             /\ ps' = IF hasCfg THEN e.cfg[2] ELSE ps
             /\ injM' = (injM \/ e.inj[1] = 1) /\ injS' = (injS \/ e.inj[2] = 1)

TSpec == TInit /\ [][TNext]_vars
Done == l = Len(TraceLog) + 1
Report == Done => PrintT(<<"BAD", Cardinality(bad), bad>>)
=============================================================================
