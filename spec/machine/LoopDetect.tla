------------------------------ MODULE LoopDetect ------------------------------
(* The execution-loop detector of the Rust core (sc62015-core loop_detector.rs:   *)
(* LoopDetector::record_step / detect / collect_candidates / check_repeat /        *)
(* count_repeats), which the runtime feeds with one LoopStep per executed          *)
(* instruction to tell a front end "the firmware is spinning in a loop of length   *)
(* L that has repeated R times".                                                   *)
(*                                                                                 *)
(* Two layers, as elsewhere: a DECLARATIVE definition over the mainline history    *)
(* (what a reported loop means) and the IMPLEMENTATION-SHAPED search (candidate    *)
(* lengths are the distances to the latest `Recent` earlier occurrences of the     *)
(* current PC; three equal blocks are required; repeats are counted backwards).    *)
(* TLC checks that the two agree wherever the declarative one is within the reach  *)
(* of the search, and that what is reported is sound.  No listed property talks    *)
(* about this component: disagreements of the code are DRIFT.                      *)
(* Left out: the bounded history windows (main_history_len >= 3 * MaxLen + 64 is   *)
(* never reached by the behaviours explored here), detect_stride > 0, the report   *)
(* with branch information.                                                        *)
EXTENDS Integers, Sequences, FiniteSets, TLC

CONSTANTS PCs,          \* small alphabet of program-counter values
          MaxLen,       \* LoopDetectorConfig.max_loop_len
          Recent,       \* LoopDetectorConfig.recent_positions_len (>= 2)
          MaxDepth, RecordActs

VARIABLES main,         \* mainline history: PCs of the steps that count (1-based; index i here = mainline index i - 1 there)
          summary,      \* [some, len, repeats, start, end, pc, cands]
          acts, depth, last
vars == <<main, summary, acts, depth, last>>

None == [some |-> 0, len |-> 0, repeats |-> 0, start |-> 0, end |-> 0, pc |-> 0, cands |-> <<>>]

\* ---- declarative layer
\* the last k blocks of length L of h are equal
Blocks(h, L, k) == Len(h) >= k * L /\ \A i \in (Len(h) - k * L + 1)..(Len(h) - L) : h[i] = h[i + L]
RepeatsOf(h, L) == CHOOSE r \in 1..Len(h) : Blocks(h, L, r) /\ ~Blocks(h, L, r + 1)
Occurrences(h, pc, from, to) == Cardinality({i \in from..to : h[i] = pc})
\* a loop of length L is within reach of the search iff fewer than Recent occurrences of the current PC lie inside one period
InReach(h, L) == Occurrences(h, h[Len(h)], Len(h) - L + 1, Len(h)) <= Recent - 1
Loops(h) == {L \in 1..MaxLen : Blocks(h, L, 3) /\ InReach(h, L)}

\* ---- implementation-shaped layer
RECURSIVE LatestBefore(_, _, _, _)
\* the up to n latest positions < i at which h holds pc, latest first
LatestBefore(h, pc, i, n) ==
  IF n = 0 \/ i <= 1 THEN <<>>
  ELSE IF h[i - 1] = pc THEN <<i - 1>> \o LatestBefore(h, pc, i - 1, n - 1) ELSE LatestBefore(h, pc, i - 1, n)
RECURSIVE CountBack(_, _, _)
CountBack(h, L, start) ==          \* start: first index of the newest block
  IF start - L >= 1 /\ (\A o \in 0..(L - 1) : h[start - L + o] = h[start + o]) THEN 1 + CountBack(h, L, start - L) ELSE 1
Search(h) ==
  LET n == Len(h)
      prev == LatestBefore(h, h[n], n, Recent - 1)
      lens == {n - prev[i] : i \in 1..Len(prev)}
  IN {L \in lens : L <= MaxLen /\ Blocks(h, L, 3) /\ CountBack(h, L, n - L + 1) >= 3}

RECURSIVE SortedSeq(_)
SortedSeq(S) == IF S = {} THEN <<>> ELSE LET m == CHOOSE x \in S : \A y \in S : x <= y IN <<m>> \o SortedSeq(S \ {m})
Max(S) == CHOOSE x \in S : \A y \in S : y <= x
SummaryOf(h) ==
  IF h = <<>> THEN None
  ELSE LET c == Search(h) IN
       IF c = {} THEN None
       ELSE LET L == Max(c) IN
            [some |-> 1, len |-> L, repeats |-> CountBack(h, L, Len(h) - L + 1), start |-> Len(h) - L, end |-> Len(h) - 1,
             pc |-> h[Len(h) - L + 1], cands |-> SortedSeq(c)]

Init == main = <<>> /\ summary = None /\ acts = <<>> /\ depth = 0 /\ last = "Init"
Rec(a) == IF RecordActs THEN Append(acts, a) ELSE acts
\* an ordinary instruction, or an instruction of the handler of the IR instruction: part of the mainline
Record(pc, kind) ==
  /\ depth < MaxDepth /\ depth' = depth + 1 /\ acts' = Rec([pc |-> pc, kind |-> kind]) /\ last' = kind
  /\ IF kind \in {"main", "ir"}
     THEN main' = Append(main, pc) /\ summary' = SummaryOf(main')
     ELSE UNCHANGED <<main, summary>>      \* hardware-interrupt handlers and RETI are invisible: the detector looks at the mainline only
Next == \E pc \in PCs, kind \in {"main", "hw", "ir", "reti"} : Record(pc, kind)
Spec == Init /\ [][Next]_vars

\* ------------------------------------------------------------- properties
\* what is reported is a loop: at least three equal blocks, counted exactly, ending at the latest step
Sound == summary.some = 1 =>
           /\ summary.len \in 1..MaxLen /\ summary.repeats >= 3
           /\ Blocks(main, summary.len, summary.repeats) /\ ~Blocks(main, summary.len, summary.repeats + 1)
           /\ summary.end = Len(main) - 1 /\ summary.start = Len(main) - summary.len /\ summary.pc = main[Len(main) - summary.len + 1]
\* the search finds exactly the loops within its reach, and reports the longest
SearchIsLoops == main # <<>> => Search(main) = Loops(main)
Longest == summary.some = 1 => summary.len = Max(Loops(main))
Complete == (main # <<>> /\ Loops(main) # {}) => summary.some = 1
CountAgrees == summary.some = 1 => summary.repeats = RepeatsOf(main, summary.len)
\* handlers are transparent
Transparent == [][last' \in {"hw", "reti"} => summary' = summary]_vars
=============================================================================
