SPECIFICATION Spec
CONSTANTS
  DeliverPhase = "end"
  ImrVals <- ImrFull
  MaxDepth = 9
  MaxNest = 2
  PcMod = 0
  AckOnReturn = TRUE
  RecordActs = FALSE
INVARIANT DeliverOnlyIfEnabled
INVARIANT FrameOnEntry
INVARIANT EnteredForEnabledPending
PROPERTY StatusNotLost
PROPERTY StillOwed
PROPERTY NoReentryWhileMasked
PROPERTY PromptWhenEnabled
PROPERTY HaltIdle
PROPERTY OffStopsTimers
CHECK_DEADLOCK FALSE
