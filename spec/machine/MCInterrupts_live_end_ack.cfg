SPECIFICATION LiveSpec
CONSTANTS
  DeliverPhase = "end"
  ImrVals <- ImrLive
  MaxDepth <- Unlimited
  MaxNest = 1
  PcMod = 2
  AckOnReturn = TRUE
  RecordActs = FALSE
INVARIANT CanReturn
PROPERTY HaltWakes
PROPERTY OffWakes
PROPERTY RequestServed
CHECK_DEADLOCK TRUE
