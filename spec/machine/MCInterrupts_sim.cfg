SPECIFICATION Spec
CONSTANTS
  DeliverPhase = "end"
  ImrVals <- ImrFull
  MaxDepth = 40
  MaxNest = 2
  RecordActs = TRUE
INVARIANT DeliverOnlyIfEnabled
INVARIANT FrameOnEntry
PROPERTY NoReentryWhileMasked
PROPERTY PromptWhenEnabled
PROPERTY HaltIdle
PROPERTY OffStopsTimers
CHECK_DEADLOCK FALSE
