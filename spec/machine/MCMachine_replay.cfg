SPECIFICATION Spec
CONSTANTS
  Order = "post"
  Periods = {0, 2, 3}
  Waits = {0, 3}
  ImrVals <- ImrTiny
  MaxDepth = 4
  MaxNest = 2
  RecordActs = TRUE
INVARIANT TypeOK
CHECK_DEADLOCK FALSE
