------------------------------- MODULE Timers -------------------------------
(* The two periodic timers (main MTI / sub STI) of the PC-E500 machine      *)
(* models: pce500.scheduler.TimerScheduler (Python) and                     *)
(* sc62015-core TimerContext::tick_timers (Rust).  Property C13.            *)
(*                                                                          *)
(* Implementation-shaped part: absolute targets nextM/nextS that are pushed *)
(* forward in whole periods by Tick(c) ("while c >= next: next += period"). *)
(* Property part: ghost variables (phase, low) per timer describe the       *)
(* period boundaries declaratively - the boundaries are the cycles t with   *)
(* t % p = phase, and every boundary <= low has been consumed - and the     *)
(* invariants/action properties relate firing to boundaries crossed.        *)
EXTENDS Naturals, Integers, Sequences, FiniteSets, TLC

CONSTANTS Periods,     \* set of periods to explore (0 = timer off)
          Gaps,        \* set of cycle gaps between ticks (0 allowed: same cycle ticked twice)
          MaxDepth,    \* bound on the number of actions
          RestoreChoices,  \* set of [en, pm, ps, dm, ds]: snapshot contents to restore (targets = cycle + dm/ds - 2)
          RecordActs   \* TRUE: keep the action history (states become replayable behaviours)

VARIABLES enabled, pm, ps,       \* configuration
          cycle,                 \* cycle of the latest tick/reset
          nextM, nextS,          \* absolute next targets (0 when the timer cannot fire)
          isr,                   \* subset of {"MTI","STI"}: status bits set by firing
          fired,                 \* result of the latest action: subset of {"MTI","STI"}
          gM, gS,                \* ghost: [phase, low, fires, dense] per timer
          acts, depth, last      \* last = name of the latest action

vars == <<enabled, pm, ps, cycle, nextM, nextS, isr, fired, gM, gS, acts, depth, last>>

Live(p) == enabled /\ p > 0
Rec(a) == IF RecordActs THEN Append(acts, a) ELSE acts

\* least t > low with t % p = phase
NextBoundary(phase, low, p) == low + 1 + ((phase - (low + 1)) % p)
\* number of boundaries in (low, c]
Crossed(phase, low, c, p) == IF c <= low THEN 0
                             ELSE LET nb == NextBoundary(phase, low, p) IN IF nb > c THEN 0 ELSE 1 + (c - nb) \div p

\* implementation shape: push `next` forward in whole periods until it is > c
RECURSIVE Push(_, _, _)
Push(next, c, p) == IF c >= next THEN Push(next + p, c, p) ELSE next

Ghost0(base, p) == [phase |-> IF p > 0 THEN base % p ELSE 0, low |-> base, fires |-> 0, crossed |-> 0, dense |-> TRUE]

Init ==
  /\ enabled \in BOOLEAN /\ pm \in Periods /\ ps \in Periods
  /\ cycle = 0
  /\ nextM = IF Live(pm) THEN pm ELSE 0
  /\ nextS = IF Live(ps) THEN ps ELSE 0
  /\ isr = {} /\ fired = {}
  /\ gM = Ghost0(0, pm) /\ gS = Ghost0(0, ps)
  /\ acts = (IF RecordActs THEN <<[ev |-> "Init", en |-> enabled, pm |-> pm, ps |-> ps]>> ELSE <<>>)
  /\ depth = 0 /\ last = "Init"

TickGhost(g, c, p, didFire) ==
  [g EXCEPT !.low = IF c > g.low THEN c ELSE g.low,
            !.fires = g.fires + (IF didFire THEN 1 ELSE 0),
            !.crossed = g.crossed + Crossed(g.phase, g.low, c, p),
            !.dense = g.dense /\ (c <= g.low + 1)]

Tick(c) ==
  /\ depth < MaxDepth /\ c >= cycle
  /\ LET fm == Live(pm) /\ c >= nextM
         fs == Live(ps) /\ c >= nextS
     IN /\ fired' = (IF fm THEN {"MTI"} ELSE {}) \cup (IF fs THEN {"STI"} ELSE {})
        /\ nextM' = IF fm THEN Push(nextM, c, pm) ELSE nextM
        /\ nextS' = IF fs THEN Push(nextS, c, ps) ELSE nextS
        /\ isr' = isr \cup fired'
        /\ gM' = IF Live(pm) THEN TickGhost(gM, c, pm, fm) ELSE gM
        /\ gS' = IF Live(ps) THEN TickGhost(gS, c, ps, fs) ELSE gS
  /\ cycle' = c
  /\ acts' = Rec([ev |-> "Tick", c |-> c]) /\ depth' = depth + 1 /\ last' = "Tick"
  /\ UNCHANGED <<enabled, pm, ps>>

\* reset(cycle_base = current cycle): targets one full period after the base
Reset ==
  /\ depth < MaxDepth
  /\ nextM' = IF Live(pm) THEN cycle + pm ELSE 0
  /\ nextS' = IF Live(ps) THEN cycle + ps ELSE 0
  /\ gM' = Ghost0(cycle, pm) /\ gS' = Ghost0(cycle, ps)
  /\ fired' = {}
  /\ acts' = Rec([ev |-> "Reset", c |-> cycle]) /\ depth' = depth + 1 /\ last' = "Reset"
  /\ UNCHANGED <<enabled, pm, ps, cycle, isr>>

\* snapshot restore: configuration and absolute targets are installed verbatim
\* (targets in the past fire at the next tick)
Restore(en, p1, p2, n1, n2) ==
  /\ depth < MaxDepth
  /\ enabled' = en /\ pm' = p1 /\ ps' = p2
  /\ nextM' = IF en /\ p1 > 0 THEN n1 ELSE 0
  /\ nextS' = IF en /\ p2 > 0 THEN n2 ELSE 0
  /\ gM' = [phase |-> IF p1 > 0 THEN n1 % p1 ELSE 0, low |-> n1 - 1, fires |-> 0, crossed |-> 0, dense |-> TRUE]
  /\ gS' = [phase |-> IF p2 > 0 THEN n2 % p2 ELSE 0, low |-> n2 - 1, fires |-> 0, crossed |-> 0, dense |-> TRUE]
  /\ fired' = {}
  /\ acts' = Rec([ev |-> "Restore", en |-> en, pm |-> p1, ps |-> p2, nm |-> n1, ns |-> n2]) /\ depth' = depth + 1 /\ last' = "Restore"
  /\ UNCHANGED <<cycle, isr>>

Next ==
  \/ \E g \in Gaps : Tick(cycle + g)
  \/ Reset
  \/ \E r \in RestoreChoices :
        (cycle + r.dm >= 3 /\ cycle + r.ds >= 3) /\ Restore(r.en, r.pm, r.ps, cycle + r.dm - 2, cycle + r.ds - 2)

Spec == Init /\ [][Next]_vars

\* ------------------------------------------------------------- properties
TypeOK == /\ nextM \in Nat /\ nextS \in Nat /\ cycle \in Nat /\ fired \subseteq {"MTI", "STI"} /\ isr \subseteq {"MTI", "STI"}

\* the implementation's target is always the least unconsumed boundary
TargetIsNextBoundary ==
  /\ Live(pm) => nextM = NextBoundary(gM.phase, gM.low, pm)
  /\ Live(ps) => nextS = NextBoundary(gS.phase, gS.low, ps)

\* C13: "its next target is strictly in the future after every tick"
NextInFuture ==
  [][last' = "Tick" => /\ (Live(pm) => nextM' > cycle')
                       /\ (Live(ps) => nextS' > cycle')]_vars

\* C13: a tick fires iff a boundary was crossed since the previous tick; never twice for one boundary
FiredIffBoundary ==
  [][last' = "Tick" => /\ (Live(pm) => (("MTI" \in fired') <=> Crossed(gM.phase, gM.low, cycle', pm) > 0))
                       /\ (Live(ps) => (("STI" \in fired') <=> Crossed(gS.phase, gS.low, cycle', ps) > 0))]_vars
FiresBoundedByBoundaries ==
  /\ gM.fires <= gM.crossed
  /\ gS.fires <= gS.crossed
\* C13: ticked every cycle, each timer fired exactly once per boundary crossed
DenseExactlyOnce ==
  /\ (Live(pm) /\ gM.dense) => gM.fires = gM.crossed
  /\ (Live(ps) /\ gS.dense) => gS.fires = gS.crossed
\* C13: disabled or zero-period timers never fire
NeverWhenOff ==
  /\ ~Live(pm) => "MTI" \notin fired
  /\ ~Live(ps) => "STI" \notin fired
\* C13: firing sets the corresponding status bit
FireSetsIsr == fired \subseteq isr
=============================================================================
