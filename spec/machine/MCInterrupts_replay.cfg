SPECIFICATION Spec
CONSTANTS
  DeliverPhase = "end"
  ImrVals <- ImrSmall
  MaxDepth = 5
  MaxNest = 2
  RecordActs = TRUE
INVARIANT DeliverOnlyIfEnabled
INVARIANT FrameOnEntry
PROPERTY NoReentryWhileMasked
PROPERTY PromptWhenEnabled
PROPERTY HaltIdle
PROPERTY OffStopsTimers
CHECK_DEADLOCK FALSE
