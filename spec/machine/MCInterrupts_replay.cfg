SPECIFICATION Spec
CONSTANTS
  DeliverPhase = "end"
  ImrVals <- ImrSmall
  MaxDepth = 5
  MaxNest = 2
  PcMod = 0
  AckOnReturn = FALSE
  RecordActs = TRUE
INVARIANT DeliverOnlyIfEnabled
INVARIANT FrameOnEntry
INVARIANT EnteredForEnabledPending
PROPERTY StatusNotLost
PROPERTY StillOwed
PROPERTY NoReentryWhileMasked
PROPERTY PromptWhenEnabled
PROPERTY HaltIdle
PROPERTY OffStopsTimers
CHECK_DEADLOCK FALSE
