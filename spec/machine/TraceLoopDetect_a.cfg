SPECIFICATION TSpec
CONSTANTS
  PCs = {}
  MaxLen = 5
  Recent = 3
  MaxDepth = 0
  RecordActs = FALSE
INVARIANT Report
CHECK_DEADLOCK FALSE
