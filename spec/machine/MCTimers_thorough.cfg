SPECIFICATION Spec
CONSTANTS
  Periods <- P06
  Gaps <- GapsT
  MaxDepth = 10
  RecordActs = FALSE
  RestoreChoices <- RC
VIEW ViewNoCounters
INVARIANT TypeOK
INVARIANT TargetIsNextBoundary
INVARIANT FiresBoundedByBoundaries
INVARIANT DenseExactlyOnce
INVARIANT NeverWhenOff
INVARIANT FireSetsIsr
PROPERTY NextInFuture
PROPERTY FiredIffBoundary
CHECK_DEADLOCK FALSE
