----------------------------- MODULE TimersInd -----------------------------
(* Unbounded version of the C13 argument for ONE periodic timer, written for  *)
(* Apalache (symbolic integers: no bound on cycles, gaps or targets).          *)
(*                                                                             *)
(* Timers.tla explores periods 0..6 and short gap sequences exhaustively with  *)
(* TLC; the conformance runs reach cycle origins up to 2^62.  What neither     *)
(* shows is that the "push the target forward in whole periods" shape is right *)
(* for EVERY cycle count.  Here the invariant                                  *)
(*     Ind == next = NextBoundary(phase, low, P)                               *)
(* (the implementation's target is the least unconsumed period boundary) is    *)
(* proved inductive for all integers, and the C13 clauses follow from it as    *)
(* action invariants of Tick:  fired <=> a boundary lies in (low, c],           *)
(* next' > c.  Push is given in closed form; PushAgrees (checked by TLC in     *)
(* MCTimersInd over a finite box) ties it to the loop of Timers.tla.           *)
EXTENDS Integers

CONSTANT
  \* @type: Int;
  P                 \* the period (> 0)

VARIABLES
  \* @type: Int;
  cycle,
  \* @type: Int;
  next,
  \* @type: Int;
  phase,
  \* @type: Int;
  low,
  \* @type: Bool;
  fired,
  \* @type: Str;
  last

\* least t > lo with t % P = ph
NextBoundary(ph, lo) == lo + 1 + ((ph - (lo + 1)) % P)
\* is there a boundary in (lo, c]
Crosses(ph, lo, c) == c > lo /\ NextBoundary(ph, lo) <= c
\* closed form of "while c >= n: n += P"
PushTo(n, c) == IF c >= n THEN n + P * (((c - n) \div P) + 1) ELSE n

Tick(c) ==
  /\ c >= cycle
  /\ fired' = (c >= next)
  /\ next' = PushTo(next, c)
  /\ low' = IF c > low THEN c ELSE low
  /\ cycle' = c
  /\ last' = "Tick"
  /\ UNCHANGED phase

Reset ==
  /\ next' = cycle + P /\ phase' = cycle % P /\ low' = cycle /\ fired' = FALSE /\ last' = "Reset"
  /\ UNCHANGED cycle

\* snapshot restore: an arbitrary absolute target n (possibly in the past) is installed
Restore(n) ==
  /\ n >= 1
  /\ next' = n /\ phase' = n % P /\ low' = n - 1 /\ fired' = FALSE /\ last' = "Restore"
  /\ UNCHANGED cycle

Init == cycle = 0 /\ next = P /\ phase = 0 /\ low = 0 /\ fired = FALSE /\ last = "Init"

Next == (\E c \in Int : Tick(c)) \/ Reset \/ (\E n \in Int : Restore(n))

\* ---- the inductive invariant and what follows from it
Ind == /\ cycle >= 0 /\ phase >= 0 /\ phase < P
       /\ next = NextBoundary(phase, low)
       /\ last \in {"Init", "Tick", "Reset", "Restore"}
\* arbitrary state satisfying the invariant (for the induction step)
IndInit == /\ cycle \in Int /\ next \in Int /\ phase \in Int /\ low \in Int /\ fired \in BOOLEAN
           /\ last \in {"Init", "Tick", "Reset", "Restore"}
           /\ Ind

\* C13 as action invariants of a tick taken from any state satisfying Ind
FiredIffBoundary == (last' = "Tick") => (fired' <=> Crosses(phase, low, cycle'))
NextInFuture == (last' = "Tick") => next' > cycle'
\* ... never twice for one boundary: after a tick no boundary is left in (low, c]
Consumed == (last' = "Tick") => ~Crosses(phase', low', cycle')
=============================================================================
