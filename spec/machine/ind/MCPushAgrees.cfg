INIT DInit
NEXT DNext
