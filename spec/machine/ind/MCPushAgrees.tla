---------------------------- MODULE MCPushAgrees ----------------------------
(* Ties TimersInd (closed forms, for Apalache) to Timers (the loop shape of    *)
(* the implementations): over a finite box the closed form of "push the        *)
(* target forward in whole periods" equals the recursive loop, and the two     *)
(* NextBoundary definitions coincide.                                          *)
EXTENDS Integers, TLC
RECURSIVE Push(_, _, _)
Push(next, c, p) == IF c >= next THEN Push(next + p, c, p) ELSE next       \* verbatim from Timers.tla
PushTo(n, c, p) == IF c >= n THEN n + p * (((c - n) \div p) + 1) ELSE n    \* TimersInd.tla with P = p
NextBoundaryT(phase, low, p) == low + 1 + ((phase - (low + 1)) % p)        \* Timers.tla
Least(phase, low, p) == CHOOSE t \in (low + 1)..(low + p) : t % p = phase   \* what both mean
ASSUME \A p \in 1..9 : \A n \in 0..40 : \A c \in 0..70 : Push(n, c, p) = PushTo(n, c, p)
ASSUME \A p \in 1..9 : \A ph \in 0..(p - 1) : \A lo \in 0..40 : NextBoundaryT(ph, lo, p) = Least(ph, lo, p)
VARIABLE x
DInit == x = 0
DNext == x' = x
=============================================================================
