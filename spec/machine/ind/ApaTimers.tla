------------------------------ MODULE ApaTimers ------------------------------
EXTENDS Integers
VARIABLES
  \* @type: Int;
  cycle,
  \* @type: Int;
  next,
  \* @type: Int;
  phase,
  \* @type: Int;
  low,
  \* @type: Bool;
  fired,
  \* @type: Str;
  last
\* @type: Int;
PP == 7
INSTANCE TimersInd WITH P <- PP
=============================================================================
