---------------------------- MODULE ApaTimersSym ----------------------------
EXTENDS Integers
CONSTANT
  \* @type: Int;
  P
VARIABLES
  \* @type: Int;
  cycle,
  \* @type: Int;
  next,
  \* @type: Int;
  phase,
  \* @type: Int;
  low,
  \* @type: Bool;
  fired,
  \* @type: Str;
  last
INSTANCE TimersInd
CInit == P \in Int /\ P > 0
=============================================================================
