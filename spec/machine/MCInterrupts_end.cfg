SPECIFICATION Spec
CONSTANTS
  DeliverPhase = "end"
  ImrVals <- ImrSmall
  MaxDepth = 7
  MaxNest = 2
  RecordActs = FALSE
INVARIANT DeliverOnlyIfEnabled
INVARIANT FrameOnEntry
PROPERTY NoReentryWhileMasked
PROPERTY PromptWhenEnabled
PROPERTY HaltIdle
PROPERTY OffStopsTimers
CHECK_DEADLOCK FALSE
