SPECIFICATION TSpec
CONSTANTS
  Periods = {}
  Gaps = {}
  MaxDepth = 0
  RestoreChoices = {}
  RecordActs = FALSE
INVARIANT Report
POSTCONDITION Accepted
CHECK_DEADLOCK FALSE
