---------------------------- MODULE TraceMachine ----------------------------
(* Trace validation for C12: recorded step-by-step runs of the Rust CoreRuntime *)
(* and the Python PCE500Emulator under scripted instruction streams and         *)
(* environment events (timer expiries, ON key, firmware writes to IMR/ISR).     *)
(* Every Step event logs the machine's observable state before and after the    *)
(* step (PC, S, F, IMR, ISR, power, in-handler flag, delivery counter,           *)
(* instruction/cycle counters, timer targets) and the five bytes at the new      *)
(* stack pointer.  The clauses below are the sentences of C12 evaluated on those *)
(* observations; monitors (saved frames, expected resume addresses, "should be   *)
(* off") are driven by the logged instruction stream only.                       *)
EXTENDS Integers, Sequences, FiniteSets, TLC, Json, IOUtils

TraceLog == ndJsonDeserialize(IOEnv.TRACE_FILE)
Bit(v, i) == (v \div (2 ^ i)) % 2
And4(a, b) == LET f[i \in 0..4] == IF i = 0 THEN 0 ELSE f[i - 1] + (IF Bit(a, i - 1) = 1 /\ Bit(b, i - 1) = 1 THEN 2 ^ (i - 1) ELSE 0) IN f[4]

VARIABLES l, bad,
          saved,      \* stack of [pc, f, imr, s] captured at each delivery (from the pushed frame)
          prevDue,    \* was an interrupt deliverable (outside handlers) at the previous step boundary without being taken
          wantOff,    \* the CPU executed OFF and no ON-key has been seen since
          risen,      \* per source: the line at which its status bit last rose (by an event before that step or during it)
          lastDeliv,  \* line of the latest delivery (0: none yet)
          prevIsr,    \* ISR after the previous step (an event between two steps shows as a difference to the next pre.isr)
          kbirq       \* configuration of the traced machine: 1 = keyboard interrupts enabled (default); 0 = the machine was built
                      \* with them disabled, KEYI then neither arms a request nor wakes a halted CPU (every other source does)
vars == <<l, bad, saved, prevDue, wantOff, risen, lastDeliv, prevIsr, kbirq>>

TInit == l = 1 /\ bad = {} /\ saved = <<>> /\ prevDue = FALSE /\ wantOff = FALSE /\ kbirq = 1
         /\ risen = [i \in 0..3 |-> 0] /\ lastDeliv = 0 /\ prevIsr = 0
\* the status bits that count for arming / waking under the machine's configuration
Eff(isr) == IF kbirq = 1 \/ Bit(isr, 2) = 0 THEN isr ELSE isr - 4
Flag(e, c, d) == bad' = bad \cup {[tid |-> e.tid, line |-> l, clause |-> c, detail |-> d]}

Deliverable(o) == o.pw = "run" /\ Bit(o.imr, 7) = 1 /\ And4(o.imr, Eff(o.isr)) # 0 /\ o.inint = 0 /\ o.s >= 5
FramePc(fr) == fr[3] + 256 * fr[4] + 65536 * (fr[5] % 16)
Quiet(o) == (o.nm = 0 \/ o.nm > o.cyc + 2) /\ (o.ns = 0 \/ o.ns > o.cyc + 2)
\* the source an entry is for is the one the machine itself reports (last_irq_src / last_irq["src"], logged as post.src:
\* 0 MTI, 1 STI, 2 KEY, 3 ONK, -1 none); with several enabled requests pending the property leaves the choice open
\* status bits (0..3) that were set before the step and are clear after it
Dropped(a, b) == {i \in 0..3 : Bit(a.isr, i) = 1 /\ Bit(b.isr, i) = 0}
ClrMask(e) == IF e.kind = "CLRISR" THEN {i \in 0..3 : Bit(e.clr, i) = 1} ELSE {}
SrcName == <<"MTI", "STI", "KEY", "ONK">>
\* how an unexplained loss came about (a reading for the reader of the report, not part of the verdict): the request whose
\* bit vanished was raised while the handler ran / was already pending when the handler was entered / no return was involved
LostShape(lost, reti, top) ==
  LET i == CHOOSE j \in lost : \A k \in lost : j <= k
  IN (IF ~reti THEN "no-return" ELSE IF Bit(top.isr, i) = 0 THEN "raised-in-handler" ELSE "pending-at-entry") \o "-" \o SrcName[i + 1]
       \o (IF reti /\ top.src >= 0 THEN "-returning-from-" \o SrcName[top.src + 1] ELSE "")

Clause(e) ==
  LET a == e.pre  b == e.post  fr == e.frame
      D == b.tot > a.tot
      execd == b.instr > a.instr                       \* an instruction was executed in this step
      atStart == D /\ b.pc = e.vec + 1                 \* delivered first, then the handler's leading NOP ran
      atEnd == D /\ b.pc = e.vec                       \* the scripted instruction ran, then the interrupt was taken
      retiRan == e.kind = "RETI" /\ execd /\ ~atStart
      top == IF saved # <<>> THEN saved[Len(saved)] ELSE [pc |-> 0, f |-> 0, imr |-> 0, s |-> 0, src |-> -1, isr |-> 0]
      sAtDelivery == IF atEnd /\ e.kind = "RETI" /\ execd THEN a.s + 5 ELSE a.s   \* (a halted CPU does not execute the scripted RETI)
      resume == IF atStart \/ ~execd THEN a.pc ELSE IF e.kind = "RETI" THEN top.pc ELSE a.pc + e.len
  IN IF D /\ ~(Bit(fr[1], 7) = 1 /\ And4(fr[1], b.isr) # 0) THEN "DeliverOnlyIfEnabled"
     \* ... and the source it is reported for is one of the enabled pending ones
     ELSE IF D /\ b.src \in 0..3 /\ ~(Bit(fr[1], b.src) = 1 /\ Bit(b.isr, b.src) = 1) THEN "DeliveredSourceEnabled"
     ELSE IF D /\ ~(atStart \/ atEnd) THEN "FrameOnEntry-vector"
     ELSE IF D /\ ~(b.imr = fr[1] % 128 /\ Bit(fr[1], 7) = 1) THEN "FrameOnEntry-imr"
     ELSE IF D /\ b.s # sAtDelivery - 5 THEN "FrameOnEntry-sp"
     ELSE IF D /\ fr[2] # b.f THEN "FrameOnEntry-flags"
     ELSE IF D /\ FramePc(fr) # resume THEN "FrameOnEntry-pc"
     ELSE IF D /\ b.inint # 1 THEN "FrameOnEntry-state"
     ELSE IF retiRan /\ saved # <<>> /\ ~D /\ <<b.pc, b.f, b.imr, b.s>> # <<top.pc, top.f, top.imr, top.s>> THEN "RetiRestores"
     ELSE IF retiRan /\ saved # <<>> /\ D /\ <<FramePc(fr), fr[2], fr[1], b.s + 5>> # <<top.pc, top.f, top.imr, top.s>> THEN "RetiRestores"
     \* a pending request is never lost: a status bit goes away only through the firmware's own write to ISR or, at RETI, for
     \* the source whose handler returns
     \* (powering off resets the controller; the property says nothing about requests across a power-off)
     ELSE IF a.pw # "off" /\ b.pw # "off" /\ Dropped(a, b) \ (ClrMask(e) \cup (IF retiRan /\ saved # <<>> THEN {top.src} ELSE {})) # {} THEN "StatusNotLost"
     ELSE IF prevDue /\ Deliverable(a) /\ Deliverable(b) /\ ~D THEN "PromptAfterUnmask"
     ELSE IF a.pw = "halt" /\ And4(Eff(a.isr), 15) = 0 /\ And4(Eff(b.isr), 15) = 0 /\ b.pw = "halt" /\ ~(b.pc = a.pc /\ b.instr = a.instr /\ b.f = a.f /\ b.s = a.s /\ b.imr = a.imr) THEN "HaltExecutesNothing"
     ELSE IF a.pw = "halt" /\ And4(Eff(a.isr), 15) # 0 /\ b.pw = "halt" /\ ~execd THEN "HaltWakesOnStatus"
     \* (a matrix key debounced by this step's keyboard scan raises KEYI during the step: then b.isr shows it)
     ELSE IF a.pw = "halt" /\ Eff(a.isr) = 0 /\ And4(Eff(b.isr), 15) = 0 /\ Quiet(a) /\ b.pw # "halt" THEN "HaltOnlyWakesOnStatus"
     ELSE IF wantOff /\ Bit(a.isr, 3) = 0 /\ (execd \/ b.pc # a.pc) THEN "OffExecutesNothing"
     ELSE IF wantOff /\ Bit(a.isr, 3) = 0 /\ (Bit(b.isr, 0) > Bit(a.isr, 0) \/ Bit(b.isr, 1) > Bit(a.isr, 1)) THEN "OffStopsTimers"
     ELSE "ok"

TNext ==
  /\ l <= Len(TraceLog) /\ l' = l + 1
  /\ LET e == TraceLog[l] IN
     IF e.ev = "Init" THEN bad' = bad /\ saved' = <<>> /\ prevDue' = FALSE /\ wantOff' = FALSE /\ kbirq' = e.kbirq
                           /\ risen' = [i \in 0..3 |-> 0] /\ lastDeliv' = 0 /\ prevIsr' = 0
     ELSE LET c == Clause(e)
              a == e.pre  b == e.post  fr == e.frame
              D == b.tot > a.tot
              atStart == D /\ b.pc = e.vec + 1
              execd == b.instr > a.instr
              retiRan == e.kind = "RETI" /\ execd /\ ~atStart
              s1 == IF retiRan /\ saved # <<>> THEN SubSeq(saved, 1, Len(saved) - 1) ELSE saved
              sAtDelivery == IF D /\ ~atStart /\ e.kind = "RETI" /\ execd THEN a.s + 5 ELSE a.s
              top == IF saved # <<>> THEN saved[Len(saved)] ELSE [pc |-> 0, f |-> 0, imr |-> 0, s |-> 0, src |-> -1, isr |-> 0]
              lost == Dropped(a, b) \ (ClrMask(e) \cup (IF retiRan /\ saved # <<>> THEN {top.src} ELSE {}))
              why == IF c = "StatusNotLost" THEN LostShape(lost, retiRan /\ saved # <<>>, top)
                     ELSE IF c = "DeliveredSourceEnabled" THEN (IF Bit(fr[1], b.src) = 0 THEN "masked-" ELSE "not-pending-") \o SrcName[b.src + 1]
                     \* a request that is owed but not taken: did (one of) the owed request(s) arrive after the latest delivery - a fresh
                     \* event - or were all of them already pending when the machine last took an interrupt (or never took one)
                     ELSE IF c = "PromptAfterUnmask" THEN
                          (IF \E i \in 0..3 : Bit(b.imr, i) = 1 /\ Bit(Eff(b.isr), i) = 1 /\ lastDeliv > 0 /\ risen[i] > lastDeliv THEN "fresh-request"
                           ELSE IF lastDeliv = 0 THEN "no-delivery-yet" ELSE "stale-request")
                     ELSE ""
              risen1 == [i \in 0..3 |-> IF (Bit(prevIsr, i) = 0 /\ Bit(a.isr, i) = 1) \/ (Bit(a.isr, i) = 0 /\ Bit(b.isr, i) = 1) THEN l ELSE risen[i]]
          IN /\ (IF c = "ok" THEN bad' = bad ELSE Flag(e, c, <<e.kind, a, b, fr, why>>))
             /\ saved' = IF D THEN Append(s1, [pc |-> FramePc(fr), f |-> fr[2], imr |-> fr[1], s |-> sAtDelivery, src |-> b.src, isr |-> b.isr]) ELSE s1
             \* "due": deliverable before and still deliverable after the step (the step's own instruction did not mask it)
             /\ prevDue' = (Deliverable(a) /\ Deliverable(b) /\ ~D /\ c # "PromptAfterUnmask")
             /\ wantOff' = IF Bit(a.isr, 3) = 1 \/ Bit(b.isr, 3) = 1 THEN FALSE
                           ELSE IF e.kind = "OFF" /\ execd /\ ~D /\ b.pw # "run" THEN TRUE ELSE wantOff
             /\ kbirq' = kbirq
             /\ risen' = risen1 /\ prevIsr' = b.isr
             /\ lastDeliv' = IF D THEN l ELSE lastDeliv

TSpec == TInit /\ [][TNext]_vars
Done == l = Len(TraceLog) + 1
Report == Done => PrintT(<<"BAD", Cardinality(bad), bad>>)
=============================================================================
