INIT DInit
NEXT DNext
