SPECIFICATION Spec
CONSTANTS
  Order = "pre"
  Periods = {0, 2, 3, 5}
  Waits = {0, 1, 4, 7}
  ImrVals <- ImrSmall
  MaxDepth = 7
  MaxNest = 2
  RecordActs = FALSE
INVARIANT TypeOK
PROPERTY Cadence
PROPERTY NeverWhenOff
PROPERTY OffFreezes
PROPERTY DeliverOnlyIfEnabled
CHECK_DEADLOCK FALSE
