SPECIFICATION Spec
CONSTANTS
  PCs = {1, 2, 3}
  MaxLen = 4
  Recent = 3
  MaxDepth = 13
  RecordActs = FALSE
INVARIANT Sound
INVARIANT SearchIsLoops
INVARIANT Longest
INVARIANT Complete
INVARIANT CountAgrees
PROPERTY Transparent
CHECK_DEADLOCK FALSE
