SPECIFICATION Spec
CONSTANTS
  PCs = {1, 2, 3}
  MaxLen = 5
  Recent = 3
  MaxDepth = 60
  RecordActs = TRUE
INVARIANT Sound
INVARIANT SearchIsLoops
INVARIANT Longest
INVARIANT Complete
INVARIANT CountAgrees
PROPERTY Transparent
CHECK_DEADLOCK FALSE
