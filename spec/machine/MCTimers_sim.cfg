SPECIFICATION Spec
CONSTANTS
  Periods <- P06
  Gaps <- GapsT
  MaxDepth = 40
  RecordActs = TRUE
  RestoreChoices <- RC
INVARIANT TypeOK
INVARIANT TargetIsNextBoundary
INVARIANT FiresBoundedByBoundaries
INVARIANT DenseExactlyOnce
INVARIANT NeverWhenOff
INVARIANT FireSetsIsr
PROPERTY NextInFuture
PROPERTY FiredIffBoundary
CHECK_DEADLOCK FALSE
