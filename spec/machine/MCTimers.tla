------------------------------ MODULE MCTimers ------------------------------
EXTENDS Timers
P03 == 0..3
P04 == 0..4
GapsR == {0, 1, 2, 3, 5}
RC1 == { [en |-> TRUE, pm |-> 3, ps |-> 2, dm |-> 0, ds |-> 3] }
P06 == 0..6
GapsQ == {0, 1, 2, 3, 5, 7}
GapsT == {0, 1, 2, 3, 5, 7, 13}
RC == { [en |-> TRUE, pm |-> 3, ps |-> 2, dm |-> 0, ds |-> 3],     \* MTI target 2 cycles in the past, STI next cycle
        [en |-> TRUE, pm |-> 4, ps |-> 0, dm |-> 2, ds |-> 2],     \* target = current cycle
        [en |-> FALSE, pm |-> 2, ps |-> 3, dm |-> 3, ds |-> 6],
        [en |-> TRUE, pm |-> 1, ps |-> 4, dm |-> 6, ds |-> 1] }
\* the ghosts' counters grow without bound along a behaviour; they are observers, not behaviour
ViewNoCounters == <<enabled, pm, ps, cycle, nextM, nextS, isr, fired, gM.phase, gM.low, gM.dense, gM.fires - gM.crossed,
                    gS.phase, gS.low, gS.dense, gS.fires - gS.crossed, acts, depth, last>>
=============================================================================
