SPECIFICATION Spec
CONSTANTS
  Order = "post"
  Periods = {0, 2, 3, 5, 7, 11}
  Waits = {0, 1, 2, 4, 7, 12}
  ImrVals <- ImrSmall
  MaxDepth = 40
  MaxNest = 2
  RecordActs = TRUE
INVARIANT TypeOK
PROPERTY Cadence
PROPERTY OffFreezes
CHECK_DEADLOCK FALSE
