------------------------------ MODULE MCSnapshot ------------------------------
EXTENDS Snapshot
AllFields == All
ImrSmall == {0, 128 + 1, 128 + 8, 128 + 11, 3, 128}
PyFields == All \ {"power"}          \* the Python bundle has no power-state member (C16 finding)
=============================================================================
