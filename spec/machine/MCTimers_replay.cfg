SPECIFICATION Spec
CONSTANTS
  Periods <- P03
  Gaps <- GapsR
  MaxDepth = 4
  RecordActs = TRUE
  RestoreChoices <- RC1
INVARIANT TypeOK
INVARIANT TargetIsNextBoundary
INVARIANT FiresBoundedByBoundaries
INVARIANT DenseExactlyOnce
INVARIANT NeverWhenOff
INVARIANT FireSetsIsr
PROPERTY NextInFuture
PROPERTY FiredIffBoundary
CHECK_DEADLOCK FALSE
