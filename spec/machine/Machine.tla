------------------------------- MODULE Machine -------------------------------
(* The PC-E500 machine as a composition: the abstract CPU and interrupt          *)
(* controller of Interrupts.tla, but with the two timers of Timers.tla driven by  *)
(* the machine's own cycle counter instead of being a free environment action.    *)
(* (pce500/emulator.py: step, _tick_timers, _simulate_wait;                        *)
(*  sc62015-core lib.rs: CoreRuntime::step - cycle accounting, tick loop, HALT     *)
(*  idle cycle, OFF early return, deliver_pending_irq.)                            *)
(*                                                                                *)
(* How time advances (properties C12 / C13, "however time advances"):             *)
(*   - every executed instruction costs one cycle, WAIT costs 1 + I cycles;        *)
(*   - a halted CPU consumes one idle cycle per step; a powered-off CPU none;      *)
(*   - the timers are ticked with the cycle counter, but NOT while a handler runs  *)
(*     (both machines suppress the tick while in_interrupt): boundaries crossed    *)
(*     meanwhile collapse into one firing at the first tick after the return;      *)
(*   - Order = "pre"  (Python): deliver-check, then tick at the cycle the step     *)
(*     starts with, then execute and count the cycles (WAIT ticks every cycle);    *)
(*     Order = "post" (Rust): execute, count the cycles ticking each one, deliver. *)
(* The model is a schedule generator for both real machines (its behaviours are    *)
(* scripts: timer configuration, instruction stream with WAITs / HALT / OFF /      *)
(* mask writes / acknowledges / RETI, ON key) and the place where the machine-     *)
(* level cadence clauses evaluated on recorded runs (TraceMachineTimers.tla) are   *)
(* shown to hold under either order - so that those clauses do not alarm on a      *)
(* machine that follows either discipline.                                         *)
(* Left out: the five-byte frame contents and PC (Interrupts.tla), the keyboard    *)
(* matrix source (Keyboard.tla), acknowledge-at-return.                            *)
EXTENDS Integers, Sequences, FiniteSets, TLC

CONSTANTS Order,        \* "pre" | "post"
          Periods,      \* candidate timer periods (0 = that timer is off)
          Waits,        \* candidate WAIT lengths
          ImrVals, MaxDepth, MaxNest, RecordActs

Src == {0, 1, 2, 3}          \* MTI STI KEY ONK
Bit(v, i) == (v \div (2 ^ i)) % 2
BitsOf(v) == {i \in Src : Bit(v, i) = 1}

VARIABLES imr, isr, power, saved,   \* saved: stack of IMR values pushed at delivery (innermost last)
          cyc, pm, ps, nm, ns,      \* cycle counter, periods, absolute next targets (0 = cannot fire)
          cleared,                  \* status bits the latest instruction cleared itself
          acts, depth, last

vars == <<imr, isr, power, saved, cyc, pm, ps, nm, ns, cleared, acts, depth, last>>
Rec(a) == IF RecordActs THEN Append(acts, a) ELSE acts
Deliverable(m, s) == Bit(m, 7) = 1 /\ (BitsOf(m) \cap s) # {}

RECURSIVE Push(_, _, _)
Push(next, c, p) == IF c >= next THEN Push(next + p, c, p) ELSE next
\* one tick of both timers at cycle c: <<nm', ns', fired>>
TickAt(c, n1, n2) ==
  LET fm == pm > 0 /\ c >= n1
      fs == ps > 0 /\ c >= n2
  IN <<IF fm THEN Push(n1, c, pm) ELSE n1, IF fs THEN Push(n2, c, ps) ELSE n2,
       (IF fm THEN {0} ELSE {}) \cup (IF fs THEN {1} ELSE {})>>

Init == /\ imr = 0 /\ isr = {} /\ power = "run" /\ saved = <<>> /\ cyc = 0
        /\ pm \in Periods /\ ps \in Periods
        /\ nm = pm /\ ns = ps                    \* reset(cycle_base = 0): one full period after the base
        /\ cleared = {}
        /\ acts = (IF RecordActs THEN <<[ev |-> "TimerCfg", pm |-> pm, ps |-> ps]>> ELSE <<>>)
        /\ depth = 0 /\ last = "Init"

Alphabet == {[k |-> "NOP"], [k |-> "HALT"], [k |-> "OFF"]}
            \cup {[k |-> "WAIT", n |-> n] : n \in Waits}
            \cup {[k |-> "SETIMR", v |-> v] : v \in ImrVals}
            \cup {[k |-> "CLRISR", m |-> {i}] : i \in {0, 1, 3}}
            \cup (IF saved # <<>> THEN {[k |-> "RETI"]} ELSE {})

Cost(ins) == IF ins.k = "WAIT" THEN 1 + ins.n ELSE 1
\* effect of an instruction on <<imr, isr, power, saved>>
Exec(ins, m, s, sv) ==
  CASE ins.k = "SETIMR" -> [imr |-> ins.v, isr |-> s, power |-> "run", saved |-> sv]
    [] ins.k = "CLRISR" -> [imr |-> m, isr |-> s \ ins.m, power |-> "run", saved |-> sv]
    [] ins.k = "HALT"   -> [imr |-> m, isr |-> s, power |-> "halt", saved |-> sv]
    [] ins.k = "OFF"    -> [imr |-> m, isr |-> s, power |-> "off", saved |-> sv]
    [] ins.k = "RETI"   -> [imr |-> sv[Len(sv)], isr |-> s, power |-> "run", saved |-> SubSeq(sv, 1, Len(sv) - 1)]
    [] OTHER            -> [imr |-> m, isr |-> s, power |-> "run", saved |-> sv]

Bound(name, a) == depth < MaxDepth /\ depth' = depth + 1 /\ acts' = Rec(a) /\ last' = name /\ UNCHANGED <<pm, ps>>

\* execute `ins` from a running CPU whose controller state is (m, s, sv) at cycle c with targets (n1, n2)
RunFrom(ins, m, s, sv, c, n1, n2) ==
  IF Order = "pre"
  THEN IF Deliverable(m, s) /\ Len(sv) < MaxNest
       THEN \* taken first; the handler's leading NOP runs in the same step; no tick (a handler is running)
            /\ saved' = Append(sv, m) /\ imr' = m - 128 /\ isr' = s /\ power' = "run"
            /\ cyc' = c + 1 /\ nm' = n1 /\ ns' = n2 /\ cleared' = {}
       ELSE LET t == IF sv = <<>> THEN TickAt(c, n1, n2) ELSE <<n1, n2, {}>>
                r == Exec(ins, m, s \cup t[3], sv)
                c2 == c + Cost(ins)
                \* WAIT burns its cycles one by one, ticking each (unless a handler is running)
                t2 == IF ins.k = "WAIT" /\ ins.n > 0 /\ r.saved = <<>> THEN TickAt(c2, t[1], t[2]) ELSE <<t[1], t[2], {}>>
            IN /\ imr' = r.imr /\ isr' = r.isr \cup t2[3] /\ power' = r.power /\ saved' = r.saved
               /\ cyc' = c2 /\ nm' = t2[1] /\ ns' = t2[2]
               /\ cleared' = IF ins.k = "CLRISR" THEN ins.m ELSE {}
  ELSE LET r == Exec(ins, m, s, sv)
           c2 == c + Cost(ins)
           t == IF r.saved = <<>> THEN TickAt(c2, n1, n2) ELSE <<n1, n2, {}>>
           s2 == r.isr \cup t[3]
       IN /\ cyc' = c2 /\ nm' = t[1] /\ ns' = t[2] /\ isr' = s2
          /\ cleared' = IF ins.k = "CLRISR" THEN ins.m ELSE {}
          /\ IF r.power = "run" /\ Deliverable(r.imr, s2) /\ Len(r.saved) < MaxNest
             THEN saved' = Append(r.saved, r.imr) /\ imr' = r.imr - 128 /\ power' = "run"
             ELSE saved' = r.saved /\ imr' = r.imr /\ power' = r.power

StepRun(ins) == /\ power = "run" /\ ins \in Alphabet
                /\ Bound("Step", [ev |-> "Step", ins |-> ins])
                /\ RunFrom(ins, imr, isr, saved, cyc, nm, ns)

\* a halted CPU: one idle cycle with its tick; any status bit wakes it, and the woken CPU goes on with the next instruction
\* (a NOP in the scripts) in the same step
StepHalt ==
  /\ power = "halt"
  /\ Bound("StepHalt", [ev |-> "Step", ins |-> [k |-> "IDLE"]])
  /\ IF Order = "pre"
     THEN LET t == IF saved = <<>> THEN TickAt(cyc, nm, ns) ELSE <<nm, ns, {}>>
              s1 == isr \cup t[3]
          IN IF s1 # {} THEN RunFrom([k |-> "NOP"], imr, s1, saved, cyc, t[1], t[2])
             ELSE /\ cyc' = cyc + 1 /\ nm' = t[1] /\ ns' = t[2] /\ isr' = s1 /\ cleared' = {}
                  /\ UNCHANGED <<imr, power, saved>>
     ELSE IF isr # {} THEN RunFrom([k |-> "NOP"], imr, isr, saved, cyc, nm, ns)
          ELSE LET t == IF saved = <<>> THEN TickAt(cyc + 1, nm, ns) ELSE <<nm, ns, {}>>
                   s1 == isr \cup t[3]
               IN /\ cyc' = cyc + 1 /\ nm' = t[1] /\ ns' = t[2] /\ isr' = s1 /\ cleared' = {}
                  /\ IF Deliverable(imr, s1) /\ Len(saved) < MaxNest
                     THEN saved' = Append(saved, imr) /\ imr' = imr - 128 /\ power' = "run"
                     ELSE UNCHANGED <<imr, power, saved>>

\* a powered-off CPU: no cycles, no ticks; only the ON key wakes it (requests of the other sources are dropped)
StepOff ==
  /\ power = "off"
  /\ Bound("StepOff", [ev |-> "Step", ins |-> [k |-> "IDLE"]])
  /\ cleared' = {}
  /\ IF 3 \notin isr THEN UNCHANGED <<imr, isr, power, saved, cyc, nm, ns>>
     ELSE /\ power' = "run" /\ isr' = isr \cap {3} /\ UNCHANGED <<imr, saved, cyc, nm, ns>>

OnKey == /\ 3 \notin isr
         /\ Bound("OnKey", [ev |-> "OnKey"])
         /\ isr' = isr \cup {3} /\ cleared' = {}
         /\ UNCHANGED <<imr, power, saved, cyc, nm, ns>>

Next == (\E ins \in Alphabet : StepRun(ins)) \/ StepHalt \/ StepOff \/ OnKey
Spec == Init /\ [][Next]_vars

\* ------------------------------------------------------------- properties
Stepped == last' \in {"Step", "StepHalt", "StepOff"}
InH == saved # <<>>
\* the cadence clauses of TraceMachineTimers.tla, here as action properties of the model (one timer shown per clause; both checked)
Clauses(n, n2, p, b) ==
  /\ (n2 >= n /\ (n2 - n) % p = 0)                                           \* PhasePreserved
  /\ (n2 > n => (b \in isr' \/ b \in cleared'))                              \* AdvanceOnlyByFiring
  /\ ((b \notin isr /\ b \in isr') => (n2 > n /\ n <= cyc'))                 \* NoSpuriousFire
  /\ (n2 > n => (n2 - p <= cyc' /\ n2 > cyc))                                \* NotSkipped (never pushed beyond the next boundary) / NextInFuture
  /\ ((~InH /\ saved' = <<>> /\ power # "off" /\ power' # "off" /\ n < cyc) => n2 > n)   \* NotLate
Cadence == [][Stepped => /\ (pm > 0 => Clauses(nm, nm', pm, 0))
                         /\ (ps > 0 => Clauses(ns, ns', ps, 1))]_vars
\* C13: disabled or zero-period timers never fire
NeverWhenOff == [][(pm = 0 => ((0 \in isr') => (0 \in isr))) /\ (ps = 0 => ((1 \in isr') => (1 \in isr)))]_vars
\* C12: a powered-off CPU stops both timers
OffFreezes == [][(power = "off" /\ power' = "off") => (nm' = nm /\ ns' = ns /\ cyc' = cyc /\ (isr' \cap {0, 1}) \subseteq isr)]_vars
\* C12: taken only if enabled and pending; entry clears the master enable
DeliverOnlyIfEnabled == [][Len(saved') > Len(saved) => LET m == saved'[Len(saved')] IN Bit(m, 7) = 1 /\ (BitsOf(m) \cap isr') # {} /\ imr' = m - 128]_vars
\* outside handlers, while powered, a due target never survives two consecutive steps (the composition keeps C13's "never skipping one")
TypeOK == cyc \in Nat /\ nm \in Nat /\ ns \in Nat /\ isr \subseteq Src /\ Len(saved) <= MaxNest
=============================================================================
