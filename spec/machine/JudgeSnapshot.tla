---------------------------- MODULE JudgeSnapshot ----------------------------
(* C16: TLC compares, for every snapshot point of every recorded run, the       *)
(* projection of the ORIGINAL machine after each of the next K steps with the   *)
(* projection of a FRESH machine that loaded the snapshot and received the same *)
(* inputs.  Snapshot.tla says the round trip is a stuttering step, so position  *)
(* 1 (immediately after the load) and every later position must agree in every  *)
(* component:                                                                   *)
(*   pw (running / halted / off), regs, imem, ram, lcd, kbd, timers, irq        *)
(*   (pending / in-interrupt / source / stack / counts), cnt (cycle and         *)
(*   instruction counters), err (a step raised)                                 *)
(* Records: [id, impl, kind, cls, orig (Seq of projections), rest (Seq)].       *)
(* kind = "future" (same implementation) or "cross" (the other implementation   *)
(* loads the bundle; only position 1 and the components both expose).           *)
EXTENDS Integers, Sequences, FiniteSets, TLC, Json, IOUtils
Obs == ndJsonDeserialize(IOEnv.TRACE_FILE)
Comps == <<"err", "pw", "regs", "imem", "ram", "lcd", "kbd", "timers", "irq", "cnt">>
\* components that are records are compared field by field; every differing field is reported ("kbd" + {"kil"})
SubFields(c, x, y) == IF c \in {"kbd", "timers", "irq", "cnt", "regs"} /\ DOMAIN x = DOMAIN y THEN {f \in DOMAIN x : x[f] # y[f]} ELSE {}
FirstComp(a, b) == LET ds == {i \in 1..Len(Comps) : a[Comps[i]] # b[Comps[i]]} IN
                   IF ds = {} THEN "" ELSE Comps[CHOOSE i \in ds : \A j \in ds : i <= j]
Verdict(r) ==
  IF r.loaderr = 1 THEN <<"Loads", 0, "", {}>>
  ELSE IF Len(r.orig) # Len(r.rest) THEN <<"SameFuture", 0, "length", {}>>
  ELSE LET bad == {k \in 1..Len(r.orig) : FirstComp(r.orig[k], r.rest[k]) # ""} IN
       IF bad = {} THEN <<"ok", 0, "", {}>>
       ELSE LET k == CHOOSE k \in bad : \A j \in bad : k <= j
                c == FirstComp(r.orig[k], r.rest[k])
            IN <<IF r.kind = "cross" THEN "CrossLoad" ELSE "SameFuture", k, c, SubFields(c, r.orig[k][c], r.rest[k][c])>>
BadSet == {<<Obs[k].id>> \o Verdict(Obs[k]) : k \in {j \in 1..Len(Obs) : Verdict(Obs[j])[1] # "ok"}}
ASSUME PrintT(<<"JUDGE", Len(Obs), BadSet>>)
VARIABLE dummy
DInit == dummy = 0
DNext == dummy' = dummy
=============================================================================
