------------------------------- MODULE Snapshot -------------------------------
(* C16 at the design level: saving a snapshot and loading it into a FRESH       *)
(* machine is a stuttering step of the machine.                                 *)
(*                                                                             *)
(* The abstract machine is Interrupts (C12): imr, isr, power, pc, flags,        *)
(* frames, timersOn.  A snapshot keeps the components named in Fields; a fresh  *)
(* machine has the power-on value of everything else.  With Fields = All the   *)
(* round trip is the identity in every reachable state (RoundTrip); with a      *)
(* smaller set TLC produces the reachable states in which the future changes -  *)
(* the catalogue of snapshot points the conformance runs must cover (halted,    *)
(* powered off, inside a handler, with requests pending ...).                   *)
EXTENDS Interrupts
CONSTANT Fields
All == {"imr", "isr", "power", "pc", "flags", "frames", "timersOn"}
Fresh == [imr |-> 0, isr |-> {}, power |-> "run", pc |-> <<"main", 0>>, flags |-> 0, frames |-> <<>>, timersOn |-> TRUE]
Now == [imr |-> imr, isr |-> isr, power |-> power, pc |-> pc, flags |-> flags, frames |-> frames, timersOn |-> timersOn]
Saved == [f \in Fields |-> Now[f]]
Restored == [f \in All |-> IF f \in Fields THEN Saved[f] ELSE Fresh[f]]
\* the snapshot point classes the conformance campaign is organised by
Class == <<power, InInt, isr # {}, Bit(imr, 7) = 1, timersOn>>
RoundTrip == Restored = Now
=============================================================================
