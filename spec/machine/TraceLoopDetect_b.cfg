SPECIFICATION TSpec
CONSTANTS
  PCs = {}
  MaxLen = 4
  Recent = 2
  MaxDepth = 0
  RecordActs = FALSE
INVARIANT Report
CHECK_DEADLOCK FALSE
