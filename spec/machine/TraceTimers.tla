----------------------------- MODULE TraceTimers -----------------------------
(* Trace validation for C13.  Recorded executions of TimerScheduler.advance *)
(* (Python) and TimerContext::tick_timers (Rust) - driven along TLC         *)
(* behaviours of Timers.tla, along seeded random tick sequences with large  *)
(* periods, and along machine-level runs - are checked step by step.        *)
(* Cycles are logged relative to a per-trace origin so that counters near   *)
(* 2^31 / 2^32 stay inside TLC's integer range.                             *)
(* Verdicts are total: each step the specification cannot explain is        *)
(* recorded with the property clause that fails on the implementation's own *)
(* step, and the specification state is resynchronised to the logged state. *)
EXTENDS Timers, Json, IOUtils

TraceLog == ndJsonDeserialize(IOEnv.TRACE_FILE)

VARIABLES l, bad
tvars == <<vars, l, bad>>

B(x) == x = 1
FiredSet(e) == (IF e.fired[1] = 1 THEN {"MTI"} ELSE {}) \cup (IF e.fired[2] = 1 THEN {"STI"} ELSE {})
IsrSet(v) == (IF v % 2 = 1 THEN {"MTI"} ELSE {}) \cup (IF (v \div 2) % 2 = 1 THEN {"STI"} ELSE {})

TInit ==
  /\ enabled = FALSE /\ pm = 0 /\ ps = 0 /\ cycle = 0 /\ nextM = 0 /\ nextS = 0 /\ isr = {} /\ fired = {}
  /\ gM = Ghost0(0, 0) /\ gS = Ghost0(0, 0) /\ acts = <<>> /\ depth = 0 /\ last = "Init"
  /\ l = 1 /\ bad = {}

Flag(e, clause, detail) == bad' = bad \cup {[tid |-> e.tid, line |-> l, clause |-> clause, detail |-> detail]}

\* property predicates evaluated on the implementation's own Tick step (pre-state = current spec state)
TickClause(e) ==
  LET c == e.c
      f == FiredSet(e)
      liveM == Live(pm)
      liveS == Live(ps)
      crossM == IF liveM THEN Crossed(gM.phase, gM.low, c, pm) ELSE 0
      crossS == IF liveS THEN Crossed(gS.phase, gS.low, c, ps) ELSE 0
  IN IF (~liveM /\ "MTI" \in f) \/ (~liveS /\ "STI" \in f) THEN "NeverWhenOff"
     ELSE IF (liveM /\ (("MTI" \in f) # (crossM > 0))) \/ (liveS /\ (("STI" \in f) # (crossS > 0))) THEN "FiredIffBoundary"
     ELSE IF (liveM /\ e.nm <= c) \/ (liveS /\ e.ns <= c) THEN "NextInFuture"
     ELSE IF e.isr >= 0 /\ ~(f \subseteq IsrSet(e.isr)) THEN "FireSetsIsr"
     ELSE IF (liveM /\ e.nm # NextBoundary(gM.phase, IF c > gM.low THEN c ELSE gM.low, pm))
          \/ (liveS /\ e.ns # NextBoundary(gS.phase, IF c > gS.low THEN c ELSE gS.low, ps)) THEN "TargetIsNextBoundary"
     ELSE IF e.isr >= 0 /\ IsrSet(e.isr) # (isr \cup f) THEN "IsrOnlyGrowsByFiring"
     ELSE "ok"

Resync(e, c) ==
  /\ cycle' = c
  /\ nextM' = IF Live(pm') THEN e.nm ELSE 0
  /\ nextS' = IF Live(ps') THEN e.ns ELSE 0
  /\ gM' = [Ghost0(c, pm') EXCEPT !.phase = IF pm' > 0 THEN e.nm % pm' ELSE 0]
  /\ gS' = [Ghost0(c, ps') EXCEPT !.phase = IF ps' > 0 THEN e.ns % ps' ELSE 0]
  /\ isr' = IF e.isr >= 0 THEN IsrSet(e.isr) ELSE isr
  /\ fired' = {}

TNext ==
  /\ l <= Len(TraceLog)
  /\ l' = l + 1
  /\ UNCHANGED <<acts, depth>>
  /\ LET e == TraceLog[l] IN
     CASE e.ev = "Init" ->      \* construct + reset(origin); cycles are relative to origin
            /\ enabled' = B(e.en) /\ pm' = e.pm /\ ps' = e.ps /\ cycle' = 0
            /\ nextM' = IF B(e.en) /\ e.pm > 0 THEN e.pm ELSE 0
            /\ nextS' = IF B(e.en) /\ e.ps > 0 THEN e.ps ELSE 0
            /\ gM' = Ghost0(0, e.pm) /\ gS' = Ghost0(0, e.ps)
            /\ isr' = {} /\ fired' = {} /\ last' = "Init"
            /\ IF e.nm # nextM' \/ e.ns # nextS' THEN Flag(e, "InitTargets", <<e.nm, e.ns>>) ELSE bad' = bad
       [] e.ev = "Tick" ->
            /\ last' = "Tick"
            /\ UNCHANGED <<enabled, pm, ps>>
            /\ LET cl == TickClause(e) IN
               IF cl = "ok"
               THEN /\ bad' = bad
                    /\ cycle' = e.c /\ nextM' = (IF Live(pm) THEN e.nm ELSE 0) /\ nextS' = (IF Live(ps) THEN e.ns ELSE 0)
                    /\ fired' = FiredSet(e) /\ isr' = isr \cup fired'
                    /\ gM' = IF Live(pm) THEN TickGhost(gM, e.c, pm, "MTI" \in fired') ELSE gM
                    /\ gS' = IF Live(ps) THEN TickGhost(gS, e.c, ps, "STI" \in fired') ELSE gS
               ELSE /\ Flag(e, cl, <<e.c, e.fired, e.nm, e.ns, e.isr, nextM, nextS>>)
                    /\ Resync(e, e.c)
       [] e.ev = "Ack" ->       \* the firmware acknowledges (clears) status bits between ticks; a later firing must set them again
            /\ last' = "Ack" /\ bad' = bad
            /\ UNCHANGED <<enabled, pm, ps, cycle, nextM, nextS, gM, gS>> /\ fired' = {}
            /\ isr' = isr \ ((IF e.m % 2 = 1 THEN {"MTI"} ELSE {}) \cup (IF (e.m \div 2) % 2 = 1 THEN {"STI"} ELSE {}))
       [] e.ev = "Reset" ->
            /\ last' = "Reset"
            /\ UNCHANGED <<enabled, pm, ps, isr>>
            /\ cycle' = e.c /\ fired' = {}
            /\ nextM' = (IF Live(pm) THEN e.c + pm ELSE 0) /\ nextS' = (IF Live(ps) THEN e.c + ps ELSE 0)
            /\ gM' = Ghost0(e.c, pm) /\ gS' = Ghost0(e.c, ps)
            /\ IF (Live(pm) /\ e.nm # nextM') \/ (Live(ps) /\ e.ns # nextS') THEN Flag(e, "ResetTargets", <<e.c, e.nm, e.ns>>) ELSE bad' = bad
       [] e.ev = "Restore" ->
            /\ last' = "Restore"
            /\ enabled' = B(e.en) /\ pm' = e.pm /\ ps' = e.ps
            /\ UNCHANGED <<cycle, isr>> /\ fired' = {}
            /\ nextM' = (IF B(e.en) /\ e.pm > 0 THEN e.rnm ELSE 0) /\ nextS' = (IF B(e.en) /\ e.ps > 0 THEN e.rns ELSE 0)
            /\ gM' = [phase |-> IF e.pm > 0 THEN e.rnm % e.pm ELSE 0, low |-> e.rnm - 1, fires |-> 0, crossed |-> 0, dense |-> TRUE]
            /\ gS' = [phase |-> IF e.ps > 0 THEN e.rns % e.ps ELSE 0, low |-> e.rns - 1, fires |-> 0, crossed |-> 0, dense |-> TRUE]
            /\ IF (B(e.en) /\ e.pm > 0 /\ e.nm # e.rnm) \/ (B(e.en) /\ e.ps > 0 /\ e.ns # e.rns) THEN Flag(e, "RestoreTargets", <<e.rnm, e.rns, e.nm, e.ns>>) ELSE bad' = bad

TSpec == TInit /\ [][TNext]_tvars

\* the dense-ticking clause is a state invariant of the trace (ghost counters)
TraceDenseExactlyOnce == DenseExactlyOnce
TraceFiresBounded == FiresBoundedByBoundaries

Done == l = Len(TraceLog) + 1
Report == Done => PrintT(<<"BAD", Cardinality(bad), bad>>)
Accepted == TLCGet("stats").diameter - 1 = Len(TraceLog)
=============================================================================
