SPECIFICATION Spec
CONSTANTS
  DeliverPhase = "start"
  ImrVals <- ImrSmall
  MaxDepth = 7
  MaxNest = 2
  RecordActs = FALSE
INVARIANT DeliverOnlyIfEnabled
INVARIANT FrameOnEntry
PROPERTY NoReentryWhileMasked
PROPERTY PromptWhenEnabled
PROPERTY HaltIdle
PROPERTY OffStopsTimers
CHECK_DEADLOCK FALSE
