----------------------------- MODULE Interrupts -----------------------------
(* The interrupt controller of the PC-E500 machine models composed with an     *)
(* abstract CPU (property C12): IMR (mask, bit 7 = master enable IRM), ISR      *)
(* (status), sources MTI(0) STI(1) KEY(2) ONK(3), the five-byte frame           *)
(* <<PC, F, IMR>> on the system stack, RETI, HALT and OFF.                      *)
(* (pce500/emulator.py: step(); sc62015-core lib.rs: CoreRuntime::step,         *)
(* arm_pending_irq_from_isr, deliver_pending_irq.)                              *)
(*                                                                              *)
(* One CPU step = one call of step(1).  DeliverPhase says where in the step a   *)
(* pending interrupt is taken: "end" (Rust: after the instruction and the timer *)
(* ticks) or "start" (Python: before the instruction; the first handler         *)
(* instruction then runs in the same step).  Environment actions (timer expiry, *)
(* ON key) happen at instruction boundaries; firmware writes to IMR / ISR are   *)
(* instructions.  Programs are not fixed: every step the CPU executes an        *)
(* instruction chosen from the alphabet, so all short programs are covered.     *)
(*                                                                              *)
(* AckOnReturn: the hardware leaves ISR to the firmware (Python model); the     *)
(* Rust core additionally acknowledges, at RETI, the source the handler was     *)
(* entered for.  Which source that is, when several enabled requests are        *)
(* pending at entry, is left open (frames[k].src is any of them).               *)
EXTENDS Integers, Sequences, FiniteSets, TLC

CONSTANTS DeliverPhase,     \* "end" | "start"
          ImrVals,          \* values firmware writes to IMR
          MaxDepth, RecordActs, MaxNest,
          AckOnReturn,      \* does RETI clear the status bit of the source the handler was entered for
          PcMod             \* 0: positions count up (behaviours are replayable programs); k > 0: positions wrap modulo k, which
                            \* makes the state space finite so that MaxDepth < 0 (no depth bound) explores runs of every length

Src == {0, 1, 2, 3}          \* MTI STI KEY ONK
Prio == <<2, 3, 0, 1>>       \* KEY > ONK > MTI > STI
Bit(v, i) == (v \div (2 ^ i)) % 2
Mask(S) == LET f[i \in 0..4] == IF i = 0 THEN 0 ELSE f[i - 1] + (IF (i - 1) \in S THEN 2 ^ (i - 1) ELSE 0) IN f[4]
BitsOf(v) == {i \in Src : Bit(v, i) = 1}

VARIABLES imr,        \* 0..255
          isr,        \* subset of Src
          power,      \* "run" | "halt" | "off"
          pc,         \* abstract position: <<"main", k>> or <<"h", level, k>>
          flags,      \* abstract F value (changed by "ALU" instructions)
          frames,     \* stack of [pc, f, imr, src] saved at delivery (innermost last)
          delivered,  \* TRUE iff the latest step took an interrupt
          last,       \* name of the latest action
          timersOn,   \* are the timers running (they stop in OFF)
          ack,        \* status bits the latest step was entitled to acknowledge (firmware write / matching return)
          acts, depth

vars == <<imr, isr, power, pc, flags, frames, delivered, last, timersOn, ack, acts, depth>>
Rec(a) == IF RecordActs THEN Append(acts, a) ELSE acts
InInt == frames # <<>>
Enabled(m, s) == Bit(m, 7) = 1 /\ (BitsOf(m) \cap s) # {}
Advance(p) == [p EXCEPT ![Len(p)] = IF PcMod > 0 THEN (@ + 1) % PcMod ELSE @ + 1]

Init == /\ imr = 0 /\ isr = {} /\ power = "run" /\ pc = <<"main", 0>> /\ flags = 0 /\ frames = <<>>
        /\ delivered = FALSE /\ last = "Init" /\ timersOn = TRUE /\ ack = {} /\ acts = <<>> /\ depth = 0

\* taking an interrupt from CPU state (p, f, m): push the frame, clear IRM, go to the vector
SrcChoices(m, s) == IF AckOnReturn THEN BitsOf(m) \cap s ELSE {CHOOSE x \in BitsOf(m) \cap s : TRUE}
Take(p, f, m, s) == /\ \E x \in SrcChoices(m, s) : frames' = Append(frames, [pc |-> p, f |-> f, imr |-> m, src |-> x])
                 /\ imr' = m - 128 /\ pc' = <<"h", Len(frames) + 1, 0>> /\ flags' = f

\* ---- the instruction alphabet (effects on <<pc, flags, imr, isr, power, frames>>)
Exec(ins, p, f, m, s) ==
  CASE ins.k = "NOP"    -> [pc |-> Advance(p), f |-> f, imr |-> m, isr |-> s, power |-> "run", pop |-> FALSE]
    [] ins.k = "ALU"    -> [pc |-> Advance(p), f |-> (f + 1) % 4, imr |-> m, isr |-> s, power |-> "run", pop |-> FALSE]
    [] ins.k = "SETIMR" -> [pc |-> Advance(p), f |-> f, imr |-> ins.v, isr |-> s, power |-> "run", pop |-> FALSE]
    [] ins.k = "CLRISR" -> [pc |-> Advance(p), f |-> f, imr |-> m, isr |-> s \ ins.m, power |-> "run", pop |-> FALSE]
    [] ins.k = "HALT"   -> [pc |-> Advance(p), f |-> f, imr |-> m, isr |-> s, power |-> "halt", pop |-> FALSE]
    [] ins.k = "OFF"    -> [pc |-> Advance(p), f |-> f, imr |-> m, isr |-> s, power |-> "off", pop |-> FALSE]
    [] ins.k = "RETI"   -> LET fr == frames[Len(frames)] IN
                           [pc |-> fr.pc, f |-> fr.f, imr |-> fr.imr, isr |-> IF AckOnReturn THEN s \ {fr.src} ELSE s, power |-> "run", pop |-> TRUE]

Alphabet == {[k |-> "NOP"], [k |-> "ALU"], [k |-> "HALT"], [k |-> "OFF"]}
            \cup {[k |-> "SETIMR", v |-> v] : v \in ImrVals}
            \cup {[k |-> "CLRISR", m |-> {i}] : i \in Src}
            \cup (IF InInt THEN {[k |-> "RETI"]} ELSE {})

\* what an instruction may acknowledge: the bits the firmware names, or the source of the frame a RETI returns from
MayAck(ins) == IF ins.k = "CLRISR" THEN ins.m ELSE IF ins.k = "RETI" /\ AckOnReturn THEN {frames[Len(frames)].src} ELSE {}
Bound(name, a) == (MaxDepth < 0 \/ depth < MaxDepth) /\ depth' = (IF MaxDepth < 0 THEN 0 ELSE depth + 1) /\ acts' = Rec(a) /\ last' = name

\* ---- one CPU step
StepRun(ins) ==
  /\ power = "run" /\ ins \in Alphabet
  /\ Bound("Step", [ev |-> "Step", ins |-> ins])
  /\ timersOn' = timersOn
  /\ IF DeliverPhase = "start" /\ Enabled(imr, isr) /\ Len(frames) < MaxNest
     THEN \* take the interrupt first; the handler's first instruction (a NOP) runs in the same step
          /\ Take(pc, flags, imr, isr) /\ delivered' = TRUE /\ isr' = isr /\ power' = "run" /\ ack' = {}
     ELSE LET r == Exec(ins, pc, flags, imr, isr)
              fr2 == IF r.pop THEN SubSeq(frames, 1, Len(frames) - 1) ELSE frames IN
          IF DeliverPhase = "end" /\ r.power = "run" /\ Enabled(r.imr, r.isr) /\ Len(fr2) < MaxNest
          THEN /\ \E x \in SrcChoices(r.imr, r.isr) : frames' = Append(fr2, [pc |-> r.pc, f |-> r.f, imr |-> r.imr, src |-> x])
               /\ ack' = MayAck(ins)
               /\ imr' = r.imr - 128 /\ pc' = <<"h", Len(fr2) + 1, 0>> /\ flags' = r.f
               /\ isr' = r.isr /\ power' = "run" /\ delivered' = TRUE
          ELSE /\ frames' = fr2 /\ imr' = r.imr /\ pc' = r.pc /\ flags' = r.f /\ isr' = r.isr /\ power' = r.power
               /\ delivered' = FALSE
               /\ ack' = MayAck(ins)

\* a halted CPU executes nothing; any status bit wakes it (the interrupt, if enabled, is then taken as in a running step)
StepHalt ==
  /\ power = "halt"
  /\ Bound("StepHalt", [ev |-> "Step", ins |-> [k |-> "IDLE"]])
  /\ UNCHANGED <<flags, timersOn>> /\ ack' = {}
  /\ IF isr = {} THEN UNCHANGED <<imr, isr, power, pc, frames>> /\ delivered' = FALSE
     ELSE IF Enabled(imr, isr) /\ Len(frames) < MaxNest
          THEN Take(pc, flags, imr, isr) /\ delivered' = TRUE /\ isr' = isr /\ power' = "run"
          ELSE power' = "run" /\ delivered' = FALSE /\ UNCHANGED <<imr, isr, pc, frames>>

\* a powered-off CPU executes nothing, its timers are stopped, only the ON key wakes it
StepOff ==
  /\ power = "off"
  /\ Bound("StepOff", [ev |-> "Step", ins |-> [k |-> "IDLE"]])
  /\ UNCHANGED <<flags>> /\ ack' = {}
  /\ IF 3 \notin isr THEN UNCHANGED <<imr, isr, power, pc, frames>> /\ delivered' = FALSE /\ timersOn' = FALSE
     ELSE /\ timersOn' = TRUE
          /\ IF Enabled(imr, isr \cap {3}) /\ Len(frames) < MaxNest
             THEN Take(pc, flags, imr, isr \cap {3}) /\ delivered' = TRUE /\ isr' = isr \cap {3} /\ power' = "run"
             ELSE power' = "run" /\ delivered' = FALSE /\ isr' = isr \cap {3} /\ UNCHANGED <<imr, pc, frames>>

\* ---- environment at instruction boundaries
TimerFire(s) == /\ s \in {0, 1} /\ power # "off" /\ s \notin isr
                /\ Bound("TimerFire", [ev |-> "Timer", s |-> s])
                /\ isr' = isr \cup {s} /\ delivered' = FALSE /\ ack' = {}
                /\ UNCHANGED <<imr, power, pc, flags, frames, timersOn>>
OnKey == /\ 3 \notin isr
         /\ Bound("OnKey", [ev |-> "OnKey"])
         /\ isr' = isr \cup {3} /\ delivered' = FALSE /\ ack' = {}
         /\ UNCHANGED <<imr, power, pc, flags, frames, timersOn>>

Next == (\E ins \in Alphabet : StepRun(ins)) \/ StepHalt \/ StepOff \/ (\E s \in {0, 1} : TimerFire(s)) \/ OnKey
Spec == Init /\ [][Next]_vars

\* ------------------------------------------------------------- properties
\* C12: an interrupt is taken only if the master enable and the source's mask bit are set and its status bit is pending
\* (evaluated on the frame that was pushed: it holds the mask at the moment of delivery)
DeliverOnlyIfEnabled == delivered => LET fr == frames[Len(frames)] IN Bit(fr.imr, 7) = 1 /\ (BitsOf(fr.imr) \cap isr) # {}
\* C12: entry clears the master enable and continues at the vector
FrameOnEntry == delivered => Bit(imr, 7) = 0 /\ imr = frames[Len(frames)].imr - 128 /\ pc = <<"h", Len(frames), 0>>
\* C12: a handler is not re-entered unless it re-enables interrupts itself
NoReentryWhileMasked == [][(InInt /\ Bit(imr, 7) = 0 /\ last' # "Step") => ~delivered']_vars
\* C12: the matching RETI restores PC, F and IMR (and the stack depth)
RetiRestores == [][(last' = "Step" /\ acts' # acts /\ RecordActs /\ Len(frames') < Len(frames) /\ ~delivered')
                     => <<pc', flags', imr'>> = <<frames[Len(frames)].pc, frames[Len(frames)].f, frames[Len(frames)].imr>>]_vars
\* C12: a pending request that is enabled at a step boundary of a running CPU outside handlers is taken by that step
PromptWhenEnabled == [][(power = "run" /\ Enabled(imr, isr) /\ Len(frames) < MaxNest /\ last' = "Step" /\ DeliverPhase = "start") => delivered']_vars
\* C12: a pending request is not lost: while the machine is powered a status bit goes away only because the firmware
\* cleared it or (AckOnReturn) because a handler that was entered for it - enabled and pending at entry - returns
StatusNotLost == [][(power # "off") => (isr \ isr') \subseteq ack']_vars
EnteredForEnabledPending == delivered => LET fr == frames[Len(frames)] IN fr.src \in BitsOf(fr.imr) /\ fr.src \in isr
\* ... and is still there to be taken: outside handlers an enabled request that was pending before a step which did not
\* acknowledge it is either taken by that step or still pending after it
StillOwed == [][\A s \in isr : (power = "run" /\ s \notin ack') => (s \in isr' \/ power' = "off")]_vars
\* C12: a halted CPU executes nothing and resumes exactly when a status bit is pending
HaltIdle == [][(power = "halt" /\ last' = "StepHalt") => /\ (isr = {} => power' = "halt" /\ pc' = pc /\ flags' = flags /\ imr' = imr)
                                                          /\ (isr # {} => power' = "run")]_vars
\* C12: a powered-off CPU stops both timers and ignores everything but the ON key
OffStopsTimers == [][(power = "off" /\ last' = "StepOff" /\ 3 \notin isr) => power' = "off" /\ ~timersOn' /\ pc' = pc]_vars

\* ------------------------------------------------------------- liveness
\* Checked under weak fairness of the CPU only (the machine keeps being stepped; the environment owes nothing), on the
\* finite instance (PcMod > 0, MaxDepth < 0) and WITHOUT a state constraint, so that no non-progress cycle is hidden.
CpuStep == (\E ins \in Alphabet : StepRun(ins)) \/ StepHalt \/ StepOff
LiveSpec == Spec /\ WF_vars(CpuStep)
\* C12: a halted CPU resumes when a status bit becomes pending
HaltWakes == (power = "halt" /\ isr # {}) ~> (power # "halt")
\* C12: a powered-off CPU resumes when the ON key is pending (and its timers run again)
OffWakes == (power = "off" /\ 3 \in isr) ~> (power # "off" /\ timersOn)
\* C12: a pending request is taken once it is unmasked - unless the firmware acknowledges or masks it, or cuts the power, first
Owed(s) == s \in isr /\ power = "run" /\ Bit(imr, 7) = 1 /\ s \in BitsOf(imr) /\ Len(frames) < MaxNest
RequestServed == \A s \in Src : Owed(s) ~> (delivered \/ ~Owed(s))
\* a handler that was entered is left again or the firmware keeps the machine inside it by its own choice: the frame stack can
\* always be unwound (possibility, as an invariant over the graph: from every state with a frame RETI is enabled)
CanReturn == InInt /\ power = "run" => [k |-> "RETI"] \in Alphabet
\* the timers of a machine that is not powered off are never found stopped
TimersRunUnlessOff == (power # "off") => timersOn
=============================================================================
