SPECIFICATION Spec
CONSTANTS
  PCs = {1, 2}
  MaxLen = 3
  Recent = 2
  MaxDepth = 12
  RecordActs = FALSE
INVARIANT Sound
INVARIANT SearchIsLoops
INVARIANT Longest
INVARIANT Complete
INVARIANT CountAgrees
PROPERTY Transparent
CHECK_DEADLOCK FALSE
