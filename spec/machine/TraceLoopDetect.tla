--------------------------- MODULE TraceLoopDetect ---------------------------
(* Recorded runs of the real LoopDetector (vh loopdet module) against            *)
(* LoopDetect.tla: one Step event per record_step call with the PC, the kind of  *)
(* step and the summary the detector holds afterwards; an Init event starts a    *)
(* fresh detector (MaxLen / Recent are constants of the configuration).          *)
EXTENDS LoopDetect, Json, IOUtils

TraceLog == ndJsonDeserialize(IOEnv.TRACE_FILE)
VARIABLES l, bad
tvars == <<vars, l, bad>>

TInit == Init /\ l = 1 /\ bad = {}
Obs(s) == [some |-> s.some, len |-> s.len, repeats |-> s.repeats, start |-> s.start, end |-> s.end, pc |-> s.pc, cands |-> s.cands]
Clause(o, m) ==
  IF o.some # m.some THEN (IF m.some = 1 THEN "LoopMissed" ELSE "LoopInvented")
  ELSE IF o.len # m.len THEN "Length"
  ELSE IF o.repeats # m.repeats THEN "Repeats"
  ELSE IF o.start # m.start \/ o.end # m.end \/ o.pc # m.pc THEN "Position"
  ELSE IF o.cands # m.cands THEN "Candidates"
  ELSE "ok"
TNext ==
  /\ l <= Len(TraceLog) /\ l' = l + 1
  /\ LET e == TraceLog[l] IN
     IF e.ev = "Init" THEN main' = <<>> /\ summary' = None /\ bad' = bad /\ UNCHANGED <<acts, depth, last>>
     ELSE /\ (IF e.kind \in {"main", "ir"} THEN main' = Append(main, e.pc) /\ summary' = SummaryOf(main') ELSE UNCHANGED <<main, summary>>)
          /\ LET c == Clause(Obs(e.summary), summary') IN
             bad' = IF c = "ok" THEN bad ELSE bad \cup {[tid |-> e.tid, line |-> l, clause |-> c, detail |-> <<e.pc, e.kind, Obs(e.summary), summary'>>]}
          /\ UNCHANGED <<acts, depth, last>>
TSpec == TInit /\ [][TNext]_tvars
Done == l = Len(TraceLog) + 1
Report == Done => PrintT(<<"BAD", Cardinality(bad), bad>>)
=============================================================================
