SPECIFICATION Spec
CONSTANTS
  DeliverPhase = "start"
  ImrVals <- ImrSmall
  MaxDepth = 7
  MaxNest = 2
  PcMod = 0
  AckOnReturn = FALSE
  RecordActs = FALSE
  Fields <- AllFields
INVARIANT RoundTrip
CHECK_DEADLOCK FALSE
