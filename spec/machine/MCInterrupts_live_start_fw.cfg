SPECIFICATION LiveSpec
CONSTANTS
  DeliverPhase = "start"
  ImrVals <- ImrLive
  MaxDepth <- Unlimited
  MaxNest = 1
  PcMod = 2
  AckOnReturn = FALSE
  RecordActs = FALSE
INVARIANT CanReturn
PROPERTY HaltWakes
PROPERTY OffWakes
PROPERTY RequestServed
CHECK_DEADLOCK TRUE
