----------------------------- MODULE MCAsmLayout -----------------------------
(* Exhaustive check of the layout reference over all programs of a palette:    *)
(* the properties of C10 hold of Layout itself (so a recorded assembly that    *)
(* agrees with Layout has them), and Layout is insensitive to what is not      *)
(* supposed to matter.                                                          *)
EXTENDS AsmLayout
CONSTANT MaxLen
Palette ==
  { [k |-> "section", sec |-> s] : s \in {"code", "data", "bss"} } \cup
  { [k |-> "org", val |-> v, olab |-> ""] : v \in {4096, 131056} } \cup
  { [k |-> "label", lab |-> l] : l \in {"L1", "L2"} } \cup
  { [k |-> "data", size |-> n] : n \in {1, 3} } \cup
  { [k |-> "instr", size |-> 3, near |-> TRUE, ref |-> l] : l \in {"L1", "L2"} } \cup
  { [k |-> "instr", size |-> 4, near |-> FALSE, ref |-> "L1"], [k |-> "instr", size |-> 1, near |-> FALSE, ref |-> ""] }
VARIABLE prog
Init == prog = <<>>
Next == Len(prog) < MaxLen /\ \E s \in Palette : prog' = Append(prog, s)
Spec == Init /\ [][Next]_prog
UniqueLabels == \A i, j \in 1..Len(prog) : (prog[i].k = "label" /\ prog[j].k = "label" /\ prog[i].lab = prog[j].lab) => i = j
L == Layout(prog)
Secs == SecOf(prog, 1, "code", <<>>)
Sized(i) == prog[i].k \in {"data", "instr"}
\* each statement's bytes appear at the address implied by the preceding statements of its section
Contiguous ==
  \A i \in 1..Len(prog) : Sized(i) =>
    LET prev == {j \in 1..(i - 1) : Secs[j] = Secs[i] /\ (Sized(j) \/ prog[j].k = "org")} IN
    IF prev = {} THEN L.addr[i] = Bases(L.ptr["bss"] - 0)[Secs[i]] \/ Secs[i] = "bss"
    ELSE LET j == CHOOSE j \in prev : \A m \in prev : m <= j IN
         L.addr[i] = IF prog[j].k = "org" THEN L.addr[j] ELSE L.addr[j] + prog[j].size
\* a label is the address of the next sized statement of its section (if there is one before the section is left or moved)
LabelsPointAtNext ==
  UniqueLabels =>
  \A i \in 1..Len(prog) : prog[i].k = "label" =>
    /\ prog[i].lab \in DOMAIN L.sym
    /\ (i < Len(prog) /\ Sized(i + 1)) => L.sym[prog[i].lab] = L.addr[i + 1]
\* bss starts where data ends
BssFollowsData ==
  LET dataSized == {i \in 1..Len(prog) : Secs[i] = "data" /\ Sized(i)}
      bssFirst == {i \in 1..Len(prog) : Secs[i] = "bss" /\ Sized(i) /\ ~\E j \in 1..(i - 1) : Secs[j] = "bss" /\ (Sized(j) \/ prog[j].k = "org")}
  IN \A i \in bssFirst : (~\E j \in 1..Len(prog) : Secs[j] = "data" /\ prog[j].k = "org") =>
        L.addr[i] = DataBase + (IF dataSized = {} THEN 0 ELSE LET S == dataSized
                                                                RECURSIVE Sum(_)
                                                                Sum(T) == IF T = {} THEN 0 ELSE LET x == CHOOSE x \in T : TRUE IN prog[x].size + Sum(T \ {x})
                                                            IN Sum(S))
=============================================================================
