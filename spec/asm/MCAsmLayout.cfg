SPECIFICATION Spec
CONSTANT MaxLen = 4
INVARIANT Contiguous
INVARIANT LabelsPointAtNext
INVARIANT BssFollowsData
CHECK_DEADLOCK FALSE
