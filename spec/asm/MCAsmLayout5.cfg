SPECIFICATION Spec
CONSTANT MaxLen = 5
INVARIANT Contiguous
INVARIANT LabelsPointAtNext
INVARIANT BssFollowsData
CHECK_DEADLOCK FALSE
