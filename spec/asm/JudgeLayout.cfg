INIT DInit
NEXT DNext
