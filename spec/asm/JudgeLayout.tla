----------------------------- MODULE JudgeLayout -----------------------------
(* C10: TLC judges recorded assemblies against AsmLayout.Layout.               *)
(* One ndjson record per program:                                              *)
(*   prog     abstract statements (AsmLayout), one per source line; size = the *)
(*            number of bytes the statement produces when assembled ALONE      *)
(*   outcome  "ok" | "rejected", errline                                        *)
(*   st       per statement: size1 (pass-one size), addr2 / len2 (pass-two      *)
(*            address and length), same (bytes = assembling the statement      *)
(*            alone at that address with its symbol replaced by the recorded   *)
(*            value), placed (the bytes are in the output at addr2; for bss:   *)
(*            nothing is in the output there); -1 = not applicable             *)
(*   syms     recorded symbol table as <<name, address>> pairs                  *)
(*   again    1/0 per repeated-assembly variant (same object again, same       *)
(*            object after another program, fresh object afterwards)           *)
(* Clauses, first failing one: Accepted, PageRuleRejects, SizesAgree,          *)
(* LabelAddress, Contiguous, Compositional, CompositionalNearLiteral (the      *)
(* bytes equal the statement alone only if the target is written as a 16-bit   *)
(* literal), Placed, Stateless.                                                *)
EXTENDS AsmLayout, Json, IOUtils
Obs == ndJsonDeserialize(IOEnv.TRACE_FILE)
Verdict(r) ==
  LET P == r.prog
      L == Layout(P)
      secs == SecOf(P, 1, "code", <<>>)
      cross == CrossPage(P)
      sized == {i \in 1..Len(P) : P[i].k \in {"data", "instr"}}
      symOf(n) == LET i == CHOOSE i \in 1..Len(r.syms) : r.syms[i][1] = n IN r.syms[i][2]
      names == {r.syms[i][1] : i \in 1..Len(r.syms)}
      Bad(S) == S # {}
      Min(S) == CHOOSE i \in S : \A j \in S : i <= j
      sizeBad == {i \in sized : r.st[i].size1 # r.st[i].len2}
      addrBad == {i \in sized : r.st[i].addr2 # L.addr[i]}
      labBad == {i \in 1..Len(P) : P[i].k = "label" /\ (P[i].lab \notin names \/ symOf(P[i].lab) # L.sym[P[i].lab])}
      compBad == {i \in sized : r.st[i].same = 0 \/ r.st[i].len2 # P[i].size}
      nearLit == {i \in sized : r.st[i].same = 2}      \* equal only when the literal is written in its low-16 form
      placeBad == {i \in sized : r.st[i].placed = 0}
      againBad == {v \in 1..Len(r.again) : r.again[v] = 0}
      One(name, S) == IF S = {} THEN {} ELSE {<<name, Min(S), secs[Min(S)]>>}
  IN IF cross # {} THEN (IF r.outcome = "rejected" THEN {} ELSE {<<"PageRuleRejects", Min(cross), secs[Min(cross)]>>})
     ELSE IF r.outcome # "ok" THEN {<<"Accepted", r.errline, IF r.errline \in 1..Len(P) THEN secs[r.errline] ELSE "">>}
     ELSE \* every clause family is judged on its own, so that a recorded finding in one does not hide another
          One("SizesAgree", sizeBad) \cup One("LabelAddress", labBad) \cup One("Contiguous", addrBad) \cup One("Compositional", compBad)
          \cup One("CompositionalNearLiteral", nearLit) \cup One("Placed", placeBad)
          \cup (IF againBad = {} THEN {} ELSE {<<"Stateless", Min(againBad), "">>})
BadSet == UNION {{<<Obs[k].id>> \o v : v \in Verdict(Obs[k])} : k \in 1..Len(Obs)}
ASSUME PrintT(<<"JUDGE", Len(Obs), BadSet>>)
VARIABLE dummy
DInit == dummy = 0
DNext == dummy' = dummy
=============================================================================
