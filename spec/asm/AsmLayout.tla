------------------------------ MODULE AsmLayout ------------------------------
(* C10: how a two-pass assembly lays out code, data and labels.                *)
(* A program is a sequence of abstract statements                               *)
(*   [k |-> "section", sec]        SECTION code | text | data | bss             *)
(*   [k |-> "org", val, olab]      .ORG number | .ORG label (olab # "")         *)
(*   [k |-> "label", lab]          L:                                            *)
(*   [k |-> "data", size]          defb / defw / defl / defs / defm             *)
(*   [k |-> "instr", size, near, ref]  an instruction; near = it is a page-local *)
(*                                 jump or call to the label ref                 *)
(* Layout(prog) is the reference a user relies on: every statement sits at the  *)
(* address implied by the preceding statements of its section, a label is the   *)
(* address of the next byte of its section, .ORG moves the current section,     *)
(* bss starts where data ends (and emits nothing), and a page-local jump / call  *)
(* whose target lies in another 64 KiB page is rejected.                        *)
EXTENDS Integers, Sequences, FiniteSets, TLC

Sections == {"code", "text", "data", "bss"}
CodeBase == 0
DataBase == 524288          \* 0x80000
BssDefault == 589824        \* 0x90000 (provisional; bss follows data)
Page(a) == (a \div 65536) * 65536
EmptyF == [x \in {} |-> 0]

\* one left-to-right walk with a given bss base; returns [addr |-> Seq (address of each statement), sym |-> label -> address, ptr]
RECURSIVE Walk(_, _, _, _, _, _)
Walk(prog, i, sec, ptr, addrs, sym) ==
  IF i > Len(prog) THEN [addr |-> addrs, sym |-> sym, ptr |-> ptr]
  ELSE LET s == prog[i]
           here == ptr[sec]
       IN CASE s.k = "section" -> Walk(prog, i + 1, s.sec, ptr, Append(addrs, ptr[s.sec]), sym)
            [] s.k = "org" -> LET v == IF s.olab = "" THEN s.val ELSE (IF s.olab \in DOMAIN sym THEN sym[s.olab] ELSE 0)
                              IN Walk(prog, i + 1, sec, [ptr EXCEPT ![sec] = v], Append(addrs, v), sym)
            [] s.k = "label" -> Walk(prog, i + 1, sec, ptr, Append(addrs, here), (s.lab :> here) @@ sym)
            [] OTHER -> Walk(prog, i + 1, sec, [ptr EXCEPT ![sec] = here + s.size], Append(addrs, here), sym)
Bases(bss) == [s \in Sections |-> IF s = "data" THEN DataBase ELSE IF s = "bss" THEN bss ELSE CodeBase]
\* bss follows data: the data section's final pointer of a first walk is the bss base of the definitive one
Layout(prog) ==
  LET first == Walk(prog, 1, "code", Bases(BssDefault), <<>>, EmptyF)
  IN Walk(prog, 1, "code", Bases(first.ptr["data"]), <<>>, EmptyF)
\* section each statement belongs to
RECURSIVE SecOf(_, _, _, _)
SecOf(prog, i, sec, acc) ==
  IF i > Len(prog) THEN acc
  ELSE IF prog[i].k = "section" THEN SecOf(prog, i + 1, prog[i].sec, Append(acc, prog[i].sec))
  ELSE SecOf(prog, i + 1, sec, Append(acc, sec))
\* must the program be rejected?  (a page-local jump / call whose label lies in another page)
CrossPage(prog) ==
  LET L == Layout(prog) IN
  {i \in 1..Len(prog) : prog[i].k = "instr" /\ prog[i].near /\ prog[i].ref \in DOMAIN L.sym /\ Page(L.sym[prog[i].ref]) # Page(L.addr[i])}
=============================================================================
