SPECIFICATION Spec
CONSTANTS
  Values <- PaletteFull
  Temps <- TempsTwo
  MaxDepth = 3
INVARIANT TypeOK
INVARIANT ReadsMatchHistory
INVARIANT Aliasing
INVARIANT BlobWellFormed
PROPERTY ApplyReproduces
CHECK_DEADLOCK FALSE
