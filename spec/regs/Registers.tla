----------------------------- MODULE Registers -----------------------------
(* The SC62015 register file as a state machine (property C08).            *)
(*                                                                          *)
(* Implementation-shaped part: `reg` holds the eight architectural base     *)
(* registers and the TEMP scratch registers; Write(name, v) is what         *)
(* Registers.set (Python) / LlamaState::set_reg (Rust) do; Capture/Apply is *)
(* CPURegistersSnapshot.from_registers/apply_to, collect/apply_registers    *)
(* and the 20-byte registers.bin blob.                                      *)
(*                                                                          *)
(* Property part: `hist` records every write; RefRead(name) defines, bit by *)
(* bit and without looking at `reg`, "the last value written to it or to an *)
(* overlapping register, truncated to its width".  The invariants say the   *)
(* machine agrees with that declarative reading.                            *)
EXTENDS Naturals, Sequences, FiniteSets, FiniteSetsExt, TLC, Bits

CONSTANTS Values,     \* set of limb pairs <<hi16, lo16>> that may be written
          Temps,      \* subset of TEMP names modelled
          MaxDepth    \* bound on Len(hist) for exhaustive runs

Arch == {"BA", "I", "X", "Y", "U", "S", "PC", "F"}
Base == Arch \cup Temps
SubNames == {"A", "B", "IL", "IH", "FC", "FZ"}
Names == Base \cup SubNames

\* name |-> <<base, low bit, width>>
Layout(n) ==
  CASE n = "A"  -> <<"BA", 0, 8>>
    [] n = "B"  -> <<"BA", 8, 8>>
    [] n = "IL" -> <<"I", 0, 8>>
    [] n = "IH" -> <<"I", 8, 8>>
    [] n = "FC" -> <<"F", 0, 1>>
    [] n = "FZ" -> <<"F", 1, 1>>
    [] n = "BA" -> <<"BA", 0, 16>>
    [] n = "I"  -> <<"I", 0, 16>>
    [] n \in {"X", "Y", "U", "S", "PC"} -> <<n, 0, 20>>
    [] n = "F"  -> <<"F", 0, 8>>
    [] OTHER    -> <<n, 0, 24>>          \* TEMPn

Width(n) == Layout(n)[3]

VARIABLES reg,     \* [Base -> Nat]
          hist,    \* Seq of [name, v] writes that produced reg from a zeroed file
          snap,    \* captured register record, or <<>> when none
          acts     \* every action taken so far, with arguments (makes each state self-describing
                   \* so that TLC's state dump is directly replayable into the implementations)

vars == <<reg, hist, snap, acts>>
depth == Len(acts)

Zero == [b \in Base |-> 0]

Read(r, n) == LET L == Layout(n) IN (r[L[1]] \div Pow2(L[2])) % Pow2(L[3])

\* ---------------------------------------------------------------- actions
WriteResult(r, n, v) ==
  LET L == Layout(n)
      b == L[1]
      val == LimbTrunc(v, L[3])
  IN IF n \in Base THEN [r EXCEPT ![b] = val]
     ELSE IF n = "IL" THEN [r EXCEPT !["I"] = val]          \* writing IL clears IH
     ELSE [r EXCEPT ![b] = (r[b] - Read(r, n) * Pow2(L[2])) + val * Pow2(L[2])]

Init == reg = Zero /\ hist = <<>> /\ snap = <<>> /\ acts = <<>>

Write(n, v) ==
  /\ depth < MaxDepth
  /\ reg' = WriteResult(reg, n, v)
  /\ hist' = Append(hist, [name |-> n, v |-> v])
  /\ acts' = Append(acts, [ev |-> "Write", name |-> n, v |-> v])
  /\ UNCHANGED snap

Capture ==
  /\ snap = <<>> /\ depth < MaxDepth
  /\ snap' = reg
  /\ acts' = Append(acts, [ev |-> "Capture"])
  /\ UNCHANGED <<reg, hist>>

\* apply the captured snapshot to a *fresh* register file: a zeroed file receives one write
\* per base register, in the order the implementations use (PC BA I X Y U S F, then TEMPs)
ApplyOrder == <<"PC", "BA", "I", "X", "Y", "U", "S", "F">>
RECURSIVE SeqOfSet(_)
SeqOfSet(S) == IF S = {} THEN <<>> ELSE LET x == CHOOSE y \in S : TRUE IN <<x>> \o SeqOfSet(S \ {x})
ApplyWrites(sn) == [k \in 1..8 |-> [name |-> ApplyOrder[k], v |-> ToLimb(sn[ApplyOrder[k]])]]
                   \o LET ts == SeqOfSet(Temps) IN [k \in 1..Len(ts) |-> [name |-> ts[k], v |-> ToLimb(sn[ts[k]])]]
RECURSIVE ApplyAll(_, _, _)
ApplyAll(r, ws, k) == IF k > Len(ws) THEN r ELSE ApplyAll(WriteResult(r, ws[k].name, ws[k].v), ws, k + 1)
Apply ==
  /\ snap # <<>> /\ depth < MaxDepth
  /\ reg' = ApplyAll(Zero, ApplyWrites(snap), 1)
  /\ hist' = ApplyWrites(snap)
  /\ snap' = <<>>
  /\ acts' = Append(acts, [ev |-> "Apply"])

Next == (\E n \in Names, v \in Values : Write(n, v)) \/ Capture \/ Apply

Spec == Init /\ [][Next]_vars

\* 20-byte registers.bin layout: PC BA I X Y U S F, little-endian
BlobLayout == << <<"PC", 3>>, <<"BA", 2>>, <<"I", 2>>, <<"X", 3>>, <<"Y", 3>>, <<"U", 3>>, <<"S", 3>>, <<"F", 1>> >>
RECURSIVE BlobFrom(_, _)
BlobFrom(r, k) == IF k > Len(BlobLayout) THEN <<>>
                  ELSE LEBytes(r[BlobLayout[k][1]], BlobLayout[k][2]) \o BlobFrom(r, k + 1)
Blob(r) == BlobFrom(r, 1)

\* ------------------------------------------------- declarative reference
\* Atomic fields: the finest pieces any name can address.  field |-> <<base, low bit, width>>
FieldsOf(b) ==
  CASE b = "BA" -> { <<"BA", 0, 8>>, <<"BA", 8, 8>> }
    [] b = "I"  -> { <<"I", 0, 8>>, <<"I", 8, 8>> }
    [] b = "F"  -> { <<"F", 0, 1>>, <<"F", 1, 1>>, <<"F", 2, 6>> }
    [] OTHER    -> { <<b, 0, Width(b)>> }

\* Does write w determine field f?  An IL write also determines IH (as zero).
Covers(w, f) ==
  LET L == Layout(w.name) IN
    /\ L[1] = f[1]
    /\ \/ (f[2] >= L[2] /\ f[2] + f[3] <= L[2] + L[3])
       \/ (w.name = "IL" /\ f = <<"I", 8, 8>>)
FieldWritten(w, f) ==
  LET L == Layout(w.name) IN
    IF f[2] >= L[2] /\ f[2] + f[3] <= L[2] + L[3]
    THEN (LimbTrunc(w.v, L[3]) \div Pow2(f[2] - L[2])) % Pow2(f[3])
    ELSE 0

RECURSIVE LastField(_, _, _)
LastField(h, k, f) ==    \* scan hist backwards from position k
  IF k = 0 THEN 0
  ELSE IF Covers(h[k], f) THEN FieldWritten(h[k], f)
  ELSE LastField(h, k - 1, f)

RefRead(h, n) ==
  LET L == Layout(n)
      inside == { f \in FieldsOf(L[1]) : f[2] >= L[2] /\ f[2] + f[3] <= L[2] + L[3] }
      Part(f) == LastField(h, Len(h), f) * Pow2(f[2] - L[2])
  IN MapThenSumSet(Part, inside)

\* ------------------------------------------------------------- properties
TypeOK == \A b \in Base : reg[b] \in 0..Mask(Width(b))

\* C08 sentence 1: every read returns the last overlapping write, truncated; IL write clears IH.
ReadsMatchHistory == \A n \in Names : Read(reg, n) = RefRead(hist, n)

Aliasing ==
  /\ Read(reg, "BA") = Read(reg, "A") + 256 * Read(reg, "B")
  /\ Read(reg, "I") = Read(reg, "IL") + 256 * Read(reg, "IH")
  /\ Read(reg, "FC") = Read(reg, "F") % 2
  /\ Read(reg, "FZ") = (Read(reg, "F") \div 2) % 2

\* C08 sentence 3: a snapshot applied to a fresh file reproduces every readable value
ApplyReproduces ==
  [][snap # <<>> /\ snap' = <<>> => \A n \in Names : Read(reg', n) = Read(snap, n)]_vars

BlobWellFormed == Len(Blob(reg)) = 20 /\ \A i \in 1..20 : Blob(reg)[i] \in 0..255
=============================================================================
