SPECIFICATION Spec
CONSTANTS
  Values <- PaletteFull
  Temps <- TempsTwo
  MaxDepth = 2
INVARIANT TypeOK
INVARIANT ReadsMatchHistory
INVARIANT Aliasing
INVARIANT BlobWellFormed
PROPERTY ApplyReproduces
CHECK_DEADLOCK FALSE
