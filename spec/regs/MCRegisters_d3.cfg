SPECIFICATION Spec
CONSTANTS
  Values <- PaletteTiny
  Temps <- TempsNone
  MaxDepth = 3
INVARIANT TypeOK
INVARIANT ReadsMatchHistory
INVARIANT Aliasing
INVARIANT BlobWellFormed
PROPERTY ApplyReproduces
CHECK_DEADLOCK FALSE
