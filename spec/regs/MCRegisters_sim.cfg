SPECIFICATION Spec
CONSTANTS
  Values <- PaletteFull
  Temps <- AllTempsC
  MaxDepth = 14
INVARIANT TypeOK
INVARIANT ReadsMatchHistory
INVARIANT Aliasing
INVARIANT BlobWellFormed
PROPERTY ApplyReproduces
CHECK_DEADLOCK FALSE
