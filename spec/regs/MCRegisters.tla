---------------------------- MODULE MCRegisters ----------------------------
EXTENDS Registers
\* value palette as limb pairs: 0, 1, 0xFF, 0x100, 0xFFFF, 0x10000, 0xFFFFF, 0x100000,
\* 0xFFFFFF, 0x7FFFFFFF, 0xFFFFFFFF, 0xA5C3965A
PaletteFull == { <<0,0>>, <<0,1>>, <<0,255>>, <<0,256>>, <<0,65535>>, <<1,0>>, <<15,65535>>, <<16,0>>,
                 <<255,65535>>, <<32767,65535>>, <<65535,65535>>, <<42435,38490>> }
PaletteSmall == { <<0,0>>, <<0,255>>, <<0,256>>, <<15,65535>>, <<16,0>>, <<42435,38490>> }
PaletteTiny == { <<0,0>>, <<0,256>>, <<255,65535>>, <<42435,38490>> }
TempsTwo == {"TEMP0", "TEMP13"}
TempsNone == {}
AllTempsC == {"TEMP0","TEMP1","TEMP2","TEMP3","TEMP4","TEMP5","TEMP6","TEMP7","TEMP8","TEMP9","TEMP10","TEMP11","TEMP12","TEMP13"}
=============================================================================
