--------------------------- MODULE TraceRegisters ---------------------------
(* Trace validation for C08: recorded executions of the real register files *)
(* (Python Registers / CPURegistersSnapshot / blob helpers, Rust LlamaState,*)
(* CoreRuntime facade, collect/apply/pack/unpack) are replayed against the  *)
(* Registers specification.  One ndjson file carries many traces; every     *)
(* event logs its arguments and the complete projected post-state (the      *)
(* value read back for every register name), so validation is linear.       *)
(* Verdicts are total: a step the specification cannot explain is recorded  *)
(* in `bad` with the failing clause and the specification state is resynced *)
(* to the logged state, so the rest of the trace is still examined.         *)
EXTENDS Registers, Json, IOUtils

Trace == ndJsonDeserialize(IOEnv.TRACE_FILE)

VARIABLES l, bad
tvars == <<reg, hist, snap, acts, l, bad>>

AllTemps == {"TEMP0","TEMP1","TEMP2","TEMP3","TEMP4","TEMP5","TEMP6","TEMP7","TEMP8","TEMP9","TEMP10","TEMP11","TEMP12","TEMP13"}
ASSUME Temps = AllTemps

Project(r) == [n \in Names |-> Read(r, n)]
\* the logged post-state as a function on Names (JSON object -> record)
PostOf(e) == [n \in Names |-> e.post[n]]
\* inverse projection: base registers are logged directly
FromPost(p) == [b \in Base |-> p[b]]

FirstDiff(p, q) == CHOOSE n \in Names : p[n] # q[n]

TInit == reg = Zero /\ hist = <<>> /\ snap = <<>> /\ acts = <<>> /\ l = 1 /\ bad = {}

Judge(e, expected, clause) ==
  LET p == PostOf(e) IN
  IF Project(expected) = p
  THEN reg' = expected /\ bad' = bad
  ELSE /\ reg' = FromPost(p)
       /\ bad' = bad \cup {[tid |-> e.tid, line |-> l, clause |-> clause, reg |-> FirstDiff(Project(expected), p),
                            want |-> Project(expected)[FirstDiff(Project(expected), p)],
                            got |-> p[FirstDiff(Project(expected), p)]]}

TNext ==
  /\ l <= Len(Trace)
  /\ l' = l + 1
  /\ UNCHANGED <<hist, acts>>
  /\ LET e == Trace[l] IN
     CASE e.ev = "Init" ->
            /\ reg' = Zero /\ snap' = <<>> /\ bad' = bad
       [] e.ev = "Write" ->
            /\ Judge(e, WriteResult(reg, e.name, e.v), "ReadsMatchHistory")
            /\ UNCHANGED snap
       [] e.ev = "Capture" ->
            \* capturing must not disturb the register file; the captured blob (if logged) has the documented layout
            /\ snap' = reg
            /\ IF "blob" \in DOMAIN e /\ e.blob # Blob(reg)
               THEN /\ bad' = bad \cup {[tid |-> e.tid, line |-> l, clause |-> "BlobLayout", reg |-> "blob", want |-> Blob(reg), got |-> e.blob]}
                    /\ reg' = reg
               ELSE Judge(e, reg, "CaptureIsReadOnly")
       [] e.ev = "Apply" ->
            \* a fresh register file after applying the captured snapshot reproduces every readable value
            /\ Judge(e, ApplyAll(Zero, ApplyWrites(snap), 1), "ApplyReproduces")
            /\ snap' = snap

TSpec == TInit /\ [][TNext]_tvars

\* report at the end of the (single, linear) behaviour
Done == l = Len(Trace) + 1
Report == Done => PrintT(<<"BAD", Cardinality(bad), bad>>)
Accepted == TLCGet("stats").diameter - 1 = Len(Trace)
=============================================================================
