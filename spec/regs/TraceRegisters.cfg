SPECIFICATION TSpec
CONSTANTS
  Values = {}
  Temps <- AllTemps
  MaxDepth = 0
INVARIANT Report
POSTCONDITION Accepted
CHECK_DEADLOCK FALSE
