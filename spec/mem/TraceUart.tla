------------------------------ MODULE TraceUart ------------------------------
(* Recorded runs of the real SerialAdapter (pce500/peripherals/serial.py over a *)
(* bare PCE500Memory) against Uart.tla: one Step event per public call with its  *)
(* arguments, the value returned, and afterwards USR, RXD and both queues.  Each *)
(* event takes the action of Uart.tla it names; prediction and observation are   *)
(* compared, and the model continues from the observed state after a mismatch.   *)
EXTENDS Uart, Json, IOUtils

TraceLog == ndJsonDeserialize(IOEnv.TRACE_FILE)
VARIABLES l, bad, pending
tvars == <<vars, l, bad, pending>>

Bits(u) == {b \in {RXR, TXE, TXR, FE, OE, PE} : (u \div b) % 2 = 1}
EntryOf(t) == [v |-> t[1], pe |-> t[2] = 1, oe |-> t[3] = 1, fe |-> t[4] = 1]
EntriesOf(s) == [i \in 1..Len(s) |-> EntryOf(s[i])]

TInit == Init /\ l = 1 /\ bad = {} /\ pending = FALSE

Clause(e) ==
  IF usr # Bits(e.usr) THEN "Status"
  ELSE IF rxd # e.rxd THEN "RxdLatch"
  ELSE IF rxq # EntriesOf(e.rxq) THEN "RxQueue"
  ELSE IF txq # e.txq THEN "TxQueue"
  ELSE IF Len(ret) # Len(e.ret) THEN "Returned"
  ELSE IF Len(ret) = 1 /\ e.k = "ConsumeRx" /\ ret[1] # EntryOf(e.ret[1]) THEN "Returned"
  ELSE IF Len(ret) = 1 /\ e.k = "TxDone" /\ ret[1] # e.ret[1] THEN "Returned"
  ELSE "ok"

TNext ==
  \/ /\ ~pending /\ l <= Len(TraceLog) /\ TraceLog[l].ev = "Init"
     /\ LET e == TraceLog[l] IN
        /\ usr' = Bits(e.usr) /\ rxd' = e.rxd /\ rxq' = <<>> /\ txq' = <<>>
        /\ saved' = [ok |-> FALSE, usr |-> {}, rxq |-> <<>>, txq |-> <<>>] /\ ret' = <<>> /\ last' = "Init"
        /\ queued' = <<>> /\ consumed' = <<>> /\ sent' = <<>> /\ done' = <<>> /\ txTouched' = FALSE /\ acts' = acts
     /\ l' = l + 1 /\ UNCHANGED <<bad, pending>>
  \/ /\ ~pending /\ l <= Len(TraceLog) /\ TraceLog[l].ev = "Step"
     /\ LET e == TraceLog[l] IN
          CASE e.k = "QueueRx" -> QueueRx(EntryOf(e.e))
            [] e.k = "ConsumeRx" -> ConsumeRx
            [] e.k = "TxWrite" -> TxWrite(e.v)
            [] e.k = "TxDone" -> TxDone
            [] e.k = "Save" -> Save
            [] OTHER -> Restore
     /\ pending' = TRUE /\ UNCHANGED <<l, bad>>
  \/ /\ pending
     /\ LET e == TraceLog[l]
            c == Clause(e)
        IN /\ bad' = IF c = "ok" THEN bad ELSE bad \cup {[tid |-> e.tid, line |-> l, clause |-> c, detail |-> <<e.k, usr, Bits(e.usr), rxd, e.rxd, Len(rxq), Len(e.rxq), Len(txq), Len(e.txq)>>]}
           /\ usr' = Bits(e.usr) /\ rxd' = e.rxd /\ rxq' = EntriesOf(e.rxq) /\ txq' = e.txq
     /\ l' = l + 1 /\ pending' = FALSE
     /\ UNCHANGED <<saved, ret, last, queued, consumed, sent, done, txTouched, acts>>

TSpec == TInit /\ [][TNext]_tvars
Done == l = Len(TraceLog) + 1 /\ ~pending
Report == Done => PrintT(<<"BAD", Cardinality(bad), bad>>)
=============================================================================
