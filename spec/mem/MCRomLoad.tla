----------------------------- MODULE MCRomLoad -----------------------------
(* Exhaustive exploration of RomLoad at a reduced geometry: one cell stands   *)
(* for 16 KiB (SysLen 64, ROM window 48..63, internal RAM 46..47, mirror      *)
(* window 32..47, PC-E500 low read-only window 0..15, 24-bit wrap 1024).      *)
(* The loaders are parametric in these constants only, and the length palette *)
(* keeps every relation the code distinguishes: 0, 1, shorter than the        *)
(* window, window-1, window, window+1, between, system-1, system, system+1,   *)
(* longer than system + window.  ASSUME PlacementOk checks the closed form of *)
(* the placement for EVERY length 0 .. SysLen + WinLen + 2.                   *)
EXTENDS RomLoad
Lens == {0, 1, 5, 15, 16, 17, 40, 63, 64, 65, 85}
LensQ == {0, 5, 16, 17, 64, 65}
AtStarts == {0, 40, 60}
AddStarts == {20}
StoreAddrs == {0, 15, 16, 33, 46, 47, 48, 52, 63, 63 + 1024}
StoreAddrsQ == {15, 33, 47, 48, 63 + 1024}

NextWith(L, A, S) ==
  \/ \E k \in {"window", "iq", "window_mem", "iq_mem"}, n \in L : RomWindow(k, n)
  \/ \E k \in {"system", "system_mem"}, n \in L : SystemImage(k, n)
  \/ \E n \in L, s \in A : LoadRomAt(n, s)
  \/ \E k \in {"map", "seed"} : MapOrSeed(k)
  \/ \E k \in {"reset", "py_reset"} : Reset(k)
  \/ \E n \in L : PyLoadRom(n)
  \/ \E n \in L \cap 0..16, s \in AddStarts : PyAddRom(n, s)
  \/ \E n \in L : PyBootstrap(n)
  \/ \E a \in S : Store(a, 165)
Next == NextWith(Lens, AtStarts, StoreAddrs)
NextQ == NextWith(LensQ, {40, 60}, StoreAddrsQ)
Spec == Init /\ [][Next]_vars
SpecQ == Init /\ [][NextQ]_vars

ASSUME PlacementOk == \A n \in 0..(SysLen + WinLen + 2) : PlacementLaw(n)
=============================================================================
