---------------------------- MODULE MCMemoryBus ----------------------------
EXTENDS MemoryBus
\* six byte cells: 1,2 plain RAM; 3 aliases 1 (mirror); 4 ROM; 5,6 internal memory; cell+1 chains 1->2->3?  (3 follows 2 to
\* exercise a multi-byte store whose bytes share a class)
C6 == 1..6
Cls6 == <<"r1", "r2", "r1", "rom", "i1", "i2">>
Wr6 == [k \in {"r1", "r2", "rom", "i1", "i2"} |-> k # "rom"]
Nx6 == <<2, 3, 4, 0, 6, 0>>
=============================================================================
