------------------------------ MODULE MCUart ------------------------------
EXTENDS Uart
V2 == {0, 165}
V1 == {90}
\* the ghost histories grow with every refill of a queue: the exhaustive runs stop at MaxHist bytes per direction
Bounded3 == Len(queued) <= 3 /\ Len(sent) <= 3
Bounded4 == Len(queued) <= 4 /\ Len(sent) <= 4
=============================================================================
