SPECIFICATION TSpec
CONSTANTS
  Vals = {}
  MaxQ = 100000
  RecordActs = FALSE
INVARIANT Report
CHECK_DEADLOCK FALSE
