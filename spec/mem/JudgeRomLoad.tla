---------------------------- MODULE JudgeRomLoad ----------------------------
(* Batch judge: the records of real loader runs (Rust through vh rom.run,     *)
(* Python through checks/ext_devices.py) against RomLoad at the REAL geometry. *)
(* One ndjson line per scenario:                                               *)
(*   [sid, runs: << run, ... >>]      one run per implementation               *)
(*   run = [impl, ops: <<[op, g, n, src0, start], ...>>, errs: <<0|1, ...>>,   *)
(*          pc, imr, isr, ro: <<<<lo, hi>>, ...>> (ranges the implementation   *)
(*          itself declares read-only), vec: <<b0, b1, b2>> (bytes at SysLen-3),*)
(*          probes: << <<addr, alias, before, after, alias_after, restored,    *)
(*                       marker, store_through>>, ... >>]                      *)
(* A probe is: load addr; store marker (= before xor 0xA5) - through addr or,  *)
(* in four probes of ten, through an alias addr + k * 2^24; load addr; load    *)
(* the alias; store `before` back the same way; load addr.                     *)
(* Clauses named RomImmutable and AliasCanonical are sentences of property C11 *)
(* ("writes to ROM or read-only windows never change what is read"; "every     *)
(* address is first reduced to its canonical form"); every other clause is a   *)
(* disagreement with the model only (drift).                                   *)
EXTENDS RomLoad, Json, IOUtils

Obs == ndJsonDeserialize(IOEnv.TRACE_FILE)

IsPy(r) == r.impl \in {"py_mem", "py_emu"}
\* Python keeps the internal memory in the top 256 bytes of the external array (recorded C11 finding): where no ROM data
\* covers those addresses their content is not what this model is about
AliasZone(S, r, a) == IsPy(r) /\ Canon(a) >= SysLen - 256 /\ WithData(S, Canon(a)) = {}
Declared(r) == {<<r.ro[i][1], r.ro[i][2]>> : i \in 1..Len(r.ro)}
ModelRo(S, r) == IF IsPy(r) THEN {<<S.ovl[k].start, S.ovl[k].end>> : k \in 1..Len(S.ovl)} ELSE S.ro
ProtectedBy(ops) == \E k \in 1..Len(ops) : ops[k].op \in Protecting

RECURSIVE ErrsFrom(_, _, _)
ErrsFrom(s, ops, k) == IF k > Len(ops) THEN <<>>
                       ELSE <<IF Accepts(s, ops[k]) THEN 0 ELSE 1>> \o ErrsFrom(ApplyOp(s, ops[k]), ops, k + 1)

ProbeClauses(S, r, p) ==
  LET a == p[1]  before == p[3]  after == p[4]  aliasAfter == p[5]  restored == p[6]  marker == p[7]
      ro == IsRO(S, a)
      declared == InRange(Declared(r), Phys(S, Canon(a)))
      mustHold == declared \/ (Canon(a) \in Window /\ ProtectedBy(r.ops))
  IN  (IF ~AliasZone(S, r, a) /\ before # ByteVal(ReadSrc(S, a)) THEN {"Content"} ELSE {})
      \cup (IF after # before /\ mustHold THEN {"RomImmutable"} ELSE {})
      \cup (IF after # before /\ ro /\ ~mustHold THEN {"ReadOnlyMapDiffers"} ELSE {})
      \cup (IF ~ro /\ after # marker /\ p[8] = a THEN {"RamWorks"} ELSE {})
      \cup (IF aliasAfter # after \/ (~ro /\ after # marker /\ p[8] # a) THEN {"AliasCanonical"} ELSE {})
      \cup (IF restored # before THEN {"Restore"} ELSE {})

RunBad(sid, j, r) ==
  LET S == ApplyAll(r.impl, r.ops)
      vecOk == \A i \in 1..3 : AliasZone(S, r, SysLen - 4 + i) \/ r.vec[i] = ByteVal(ReadSrc(S, SysLen - 4 + i))
  IN  UNION {{<<sid, j, c, r.probes[i][1]>> : c \in ProbeClauses(S, r, r.probes[i])} : i \in 1..Len(r.probes)}
      \cup (IF r.impl \in {"rs_rt", "py_emu"} /\ r.pc # PcVal(S.pc) THEN {<<sid, j, "ResetVector", <<r.pc, PcVal(S.pc)>>>>} ELSE {})
      \cup (IF ~vecOk THEN {<<sid, j, "VectorBytes", r.vec>>} ELSE {})
      \cup (IF <<r.imr, r.isr>> # <<S.imr, S.isr>> THEN {<<sid, j, "BootstrapImem", <<r.imr, r.isr, S.imr, S.isr>>>>} ELSE {})
      \cup (IF r.errs # ErrsFrom(Empty(r.impl), r.ops, 1) THEN {<<sid, j, "Rejected", r.errs>>} ELSE {})
      \cup (IF Declared(r) # ModelRo(S, r) THEN {<<sid, j, "ReadOnlyMap", Declared(r)>>} ELSE {})

\* two runs of one scenario (same probe list): where do the implementations differ, and does the model say so?
Cross(rec) ==
  IF Len(rec.runs) # 2 THEN {} ELSE
  LET x == rec.runs[1]  y == rec.runs[2]
      Sx == ApplyAll(x.impl, x.ops)  Sy == ApplyAll(y.impl, y.ops)
      I == 1..Len(x.probes)
      wr(p) == p[4] # p[3]
      dB == {x.probes[i][1] : i \in {k \in I : x.probes[k][3] # y.probes[k][3]}}
      \* (inside the Python alias zone the model does not say what is read: any difference there counts as described)
      mB == {x.probes[i][1] : i \in {k \in I : ByteVal(ReadSrc(Sx, x.probes[k][1])) # ByteVal(ReadSrc(Sy, x.probes[k][1]))
                                                 \/ AliasZone(Sx, x, x.probes[k][1]) \/ AliasZone(Sy, y, x.probes[k][1])}}
      dW == {x.probes[i][1] : i \in {k \in I : wr(x.probes[k]) # wr(y.probes[k])}}
      mW == {x.probes[i][1] : i \in {k \in I : IsRO(Sx, x.probes[k][1]) # IsRO(Sy, x.probes[k][1])}}
      dP == IF x.pc # y.pc THEN {<<x.pc, y.pc>>} ELSE {}
      mP == IF PcVal(Sx.pc) # PcVal(Sy.pc) THEN {<<PcVal(Sx.pc), PcVal(Sy.pc)>>} ELSE {}
  IN IF dB = {} /\ dW = {} /\ dP = {} /\ mB = {} /\ mW = {} /\ mP = {} THEN {}
     ELSE {<<rec.sid, dB, mB, dW, mW, dP, mP>>}

BadAll == UNION {UNION {RunBad(Obs[k].sid, j, Obs[k].runs[j]) : j \in 1..Len(Obs[k].runs)} : k \in 1..Len(Obs)}
CrossAll == UNION {Cross(Obs[k]) : k \in 1..Len(Obs)}
ASSUME PrintT(<<"JUDGE", Len(Obs), BadAll, CrossAll>>)

DInit == impl = "rs_rt" /\ st = Empty(impl) /\ pre = st /\ last = NoOp /\ acts = <<>> /\ gen = 0 /\ depth = 0
DNext == UNCHANGED vars
=============================================================================
