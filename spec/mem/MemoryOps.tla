----------------------------- MODULE MemoryOps -----------------------------
(* Byte-cell memory semantics shared by MemoryBus (model checking) and        *)
(* TraceMemory (validation of the real buses).  A memory is a function from   *)
(* alias classes to bytes; `cls` maps byte cells (addresses) to classes,      *)
(* `wr` says which classes accept writes, `nxt` gives the cell at address+1.  *)
EXTENDS Integers, Sequences, FiniteSets
ByteOf(v, i) == (v \div (256 ^ i)) % 256
\* cell reached from cell c after i increments (0 = no such cell)
RECURSIVE CellAt(_, _, _)
CellAt(nxt, c, i) == IF i = 0 \/ c = 0 THEN c ELSE CellAt(nxt, nxt[c], i - 1)
\* little-endian load of w bytes starting at cell c
LoadVal(mem, cls, nxt, c, w) ==
  LET f[i \in 0..w] == IF i = 0 THEN 0 ELSE f[i - 1] + mem[cls[CellAt(nxt, c, i - 1)]] * (256 ^ (i - 1)) IN f[w]
\* store = byte stores in ascending address order (a later byte wins if two cells share a class)
RECURSIVE StoreFrom(_, _, _, _, _, _, _, _)
StoreFrom(mem, cls, wr, nxt, c, w, v, i) ==
  IF i = w THEN mem
  ELSE LET cell == CellAt(nxt, c, i)
           k == cls[cell]
       IN StoreFrom(IF wr[k] THEN [mem EXCEPT ![k] = ByteOf(v, i)] ELSE mem, cls, wr, nxt, c, w, v, i + 1)
StoreVal(mem, cls, wr, nxt, c, w, v) == StoreFrom(mem, cls, wr, nxt, c, w, v, 0)
=============================================================================
