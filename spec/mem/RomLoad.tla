------------------------------ MODULE RomLoad ------------------------------
(* How ROM / system images of ANY length are placed into the 1 MiB external  *)
(* address space by the device loaders, which ranges become read-only, what  *)
(* the reset vector then reads, and that RAM outside keeps working.          *)
(*                                                                            *)
(* Models (one operator case per public call, in the shape of the code):     *)
(*   sc62015/core/src/pce500.rs   load_pce500_rom_window[_into_memory]        *)
(*                                load_pce500_system_image[_into_memory]      *)
(*                                configure_pce500_memory_map                 *)
(*                                seed_pce500_bootstrap_imem  (+ constants)   *)
(*   sc62015/core/src/iq7000.rs   load_iq7000_rom_image[_into_memory]         *)
(*   sc62015/core/src/device.rs   DeviceModel::configure_runtime (= window /  *)
(*                                system / rejected for iq-7000)              *)
(*   sc62015/core/src/lib.rs      CoreRuntime::load_rom(blob, start),         *)
(*                                power_on_reset (vector at SysLen-3)         *)
(*   sc62015/core/src/memory.rs   write_external_slice, load_external,        *)
(*                                mirror_internal_ram_address, read-only      *)
(*                                ranges in store()                           *)
(*   pce500/memory.py             PCE500Memory.load_rom (overlay, replaces    *)
(*                                the previous one), add_rom, reset           *)
(*   pce500/memory_bus.py         overlay resolution order, read-only rule    *)
(*   pce500/emulator.py           load_rom, reset, bootstrap_from_rom_image   *)
(*                                                                            *)
(* A memory is NOT a function over a million cells: it is the sequence of    *)
(* block copies and byte stores performed so far (later entries win), plus   *)
(* the Python overlay list; `ReadSrc` resolves an address to its SOURCE      *)
(* <<generation, index into that image>>, a literal byte, or Zero.  The same *)
(* operators are evaluated by TLC at a reduced geometry (exhaustively, see   *)
(* MCRomLoad) and at the real geometry on the records of the real loaders    *)
(* (JudgeRomLoad).                                                            *)
(*                                                                            *)
(* Left out on purpose: the memory-card slot and the LCD windows (C11/C15),  *)
(* multi-byte accesses that straddle a region edge (known C11 finding), the  *)
(* internal memory except IMR/ISR seeded by the bootstrap, Python RAM        *)
(* overlays (add_ram, C11), font-map / LCD side effects of configure_runtime. *)
EXTENDS Integers, Sequences, FiniteSets, TLC

CONSTANTS SysLen,      \* size of the external space / of a full system image (0x100000)
          WinStart,    \* ROM window start (0xC0000)
          WinLen,      \* ROM window length (0x40000)
          RamStart,    \* internal RAM window (0xB8000) ...
          RamLen,      \* ... and its length (0x8000)
          MirStart,    \* RAM mirror window of the PC-E500 runtime (0x80000 ..
          MirEnd,      \*   .. 0xBFFFF): address a reads RamStart + a % RamLen
          NoRamEnd,    \* the PC-E500 map declares 0 .. NoRamEnd (0x3FFFF) read-only as well
          AddrWrap     \* addresses are reduced modulo this (2^24) first

Min(a, b) == IF a < b THEN a ELSE b
Max(a, b) == IF a > b THEN a ELSE b

\* ---------------------------------------------------------------- sources and image bytes
Zero == <<-2, 0>>
Lit(v) == <<-1, v>>
IsImg(s) == s[1] >= 0
\* position-dependent image bytes (the same formula in checks/ext_devices.py and harness/rust/vh/src/romload.rs): a copy that
\* is shifted by anything but a multiple of 2^24, or truncated, or taken from another generation, is visible
ImgByte(g, i) == (i * 7 + (i \div 256) * 13 + (i \div 65536) * 29 + g * 101 + 3) % 256
ByteVal(s) == IF s = Zero THEN 0 ELSE IF s[1] = -1 THEN s[2] ELSE ImgByte(s[1], s[2])

\* ---------------------------------------------------------------- abstract memory
\* ext entry: [dst, len, g, src]  (g = -1: `len` = 1 and `src` is the literal byte stored)
\* ovl entry: [name, start, end, dlen, g, src]   Python ROM overlay: addresses start..end, backed by dlen bytes of image g
Empty(impl) == [ext |-> <<>>, ovl |-> <<>>, ro |-> {}, mirror |-> (impl = "rs_rt"),
                pc |-> <<Lit(0), Lit(0), Lit(0)>>, imr |-> 0, isr |-> 0, rej |-> 0]

Covers(e, a) == a >= e.dst /\ a < e.dst + e.len
RECURSIVE CellSrcFrom(_, _, _)
CellSrcFrom(ext, a, k) ==
  IF k = 0 THEN Zero
  ELSE IF Covers(ext[k], a) THEN (IF ext[k].g = -1 THEN Lit(ext[k].src) ELSE <<ext[k].g, ext[k].src + (a - ext[k].dst)>>)
  ELSE CellSrcFrom(ext, a, k - 1)
CellSrc(ext, a) == CellSrcFrom(ext, a, Len(ext))

Canon(a) == a % AddrWrap
Phys(st, a) == IF st.mirror /\ a >= MirStart /\ a <= MirEnd THEN RamStart + (a % RamLen) ELSE a

Containing(st, a) == {k \in 1..Len(st.ovl) : st.ovl[k].start <= a /\ a <= st.ovl[k].end}
WithData(st, a) == {k \in Containing(st, a) : a - st.ovl[k].start < st.ovl[k].dlen}
\* MemoryBus keeps the overlays sorted by (start, end, name) and takes the first one that yields a value
Before(o, p) == o.start < p.start \/ (o.start = p.start /\ o.end < p.end)
FirstOf(st, S) == CHOOSE k \in S : \A j \in S : j = k \/ Before(st.ovl[k], st.ovl[j]) \/ (~Before(st.ovl[j], st.ovl[k]) /\ k < j)

ReadSrc(st, a0) ==
  LET a == Canon(a0) IN
  IF WithData(st, a) # {} THEN LET o == st.ovl[FirstOf(st, WithData(st, a))] IN <<o.g, o.src + (a - o.start)>>
  ELSE CellSrc(st.ext, Phys(st, a))
InRange(rs, a) == \E r \in rs : r[1] <= a /\ a <= r[2]
IsRO(st, a0) == LET a == Canon(a0) IN Containing(st, a) # {} \/ InRange(st.ro, Phys(st, a))
StoreOp(st, a0, v) == IF IsRO(st, a0) THEN st
                      ELSE [st EXCEPT !.ext = Append(@, [dst |-> Phys(st, Canon(a0)), len |-> 1, g |-> -1, src |-> v])]

Window == WinStart..(WinStart + WinLen - 1)
VecAt(st, a) == <<ReadSrc(st, a), ReadSrc(st, a + 1), ReadSrc(st, a + 2)>>
PcVal(pc) == (ByteVal(pc[1]) + 256 * ByteVal(pc[2]) + 65536 * ByteVal(pc[3])) % SysLen     \* PC is 20 bits wide

\* ---------------------------------------------------------------- the loaders
\* op record: [op, g, n, src0, start]: the blob handed to the loader is bytes src0 .. src0+n-1 of image generation g
Pce500Ro == {<<0, NoRamEnd>>, <<WinStart, WinStart + WinLen - 1>>}
IqRo == {<<WinStart, WinStart + WinLen - 1>>}

\* load_pce500_rom_window_into_memory / load_iq7000_rom_image_into_memory: the LAST min(n, WinLen) bytes, placed at WinStart
WinSeg(o) == LET cut == Max(0, o.n - WinLen) IN [dst |-> WinStart, len |-> o.n - cut, g |-> o.g, src |-> o.src0 + cut]
AddSeg(ext, s) == IF s.len > 0 THEN Append(ext, s) ELSE ext
\* load_pce500_system_image_into_memory: a full image is copied 1:1 (only its first SysLen bytes), a shorter one is a ROM window
SysSeg(o) == IF o.n >= SysLen THEN [dst |-> 0, len |-> SysLen, g |-> o.g, src |-> o.src0] ELSE WinSeg(o)
\* CoreRuntime::load_rom(blob, start): truncated at the end of the external space
AtSeg(o) == LET e == Min(o.start + o.n, SysLen) IN [dst |-> o.start, len |-> Max(0, e - o.start), g |-> o.g, src |-> o.src0]

HasRom(st) == \E k \in 1..Len(st.ovl) : st.ovl[k].name = "rom"
PyResetPc(st) == IF HasRom(st) THEN VecAt(st, SysLen - 3) ELSE VecAt(st, SysLen - 6)   \* emulator.reset / RESET intrinsic

Accepts(st, o) == CASE o.op = "configure_iq" -> FALSE          \* CoreRuntime has no runtime settings for the IQ-7000
                    [] o.op = "py_bootstrap" -> o.n = SysLen   \* ValueError otherwise
                    [] OTHER -> TRUE

ApplyOp(st, o) ==
  IF ~Accepts(st, o) THEN [st EXCEPT !.rej = @ + 1] ELSE
  CASE o.op \in {"window", "configure_pce500"} -> [st EXCEPT !.ext = AddSeg(@, WinSeg(o)), !.ro = Pce500Ro]
    [] o.op \in {"system", "configure_jp"}     -> [st EXCEPT !.ext = AddSeg(@, SysSeg(o)), !.ro = Pce500Ro, !.imr = 67, !.isr = 0]
    [] o.op = "iq"                             -> [st EXCEPT !.ext = AddSeg(@, WinSeg(o)), !.ro = IqRo]
    [] o.op = "load_rom_at"                    -> [st EXCEPT !.ext = AddSeg(@, AtSeg(o))]
    [] o.op \in {"window_mem", "iq_mem"}       -> [st EXCEPT !.ext = AddSeg(@, WinSeg(o))]
    [] o.op = "system_mem"                     -> [st EXCEPT !.ext = AddSeg(@, SysSeg(o))]
    [] o.op = "map"                            -> [st EXCEPT !.ro = Pce500Ro]
    [] o.op = "seed"                           -> [st EXCEPT !.imr = 67, !.isr = 0]
    [] o.op = "reset"                          -> [st EXCEPT !.pc = VecAt(st, SysLen - 3), !.isr = 0]
    [] o.op = "store"                          -> StoreOp(st, o.start, o.n)
    \* PCE500Memory.load_rom: one overlay over the whole window whatever the length, replacing the previous one
    [] o.op = "py_load_rom" -> [st EXCEPT !.ovl = Append(SelectSeq(@, LAMBDA x : x.name # "rom"),
                                     [name |-> "rom", start |-> WinStart, end |-> SysLen - 1, dlen |-> o.n, g |-> o.g, src |-> o.src0])]
    \* PCE500Memory.add_rom / PCE500Emulator.load_rom(data, start): an overlay exactly as long as the data
    [] o.op = "py_add_rom"  -> [st EXCEPT !.ovl = Append(@, [name |-> "add", start |-> o.start, end |-> o.start + o.n - 1, dlen |-> o.n, g |-> o.g, src |-> o.src0])]
    \* PCE500Emulator.reset: RAM and internal memory zeroed, ROM overlays stay
    [] o.op = "py_reset"    -> LET z == [st EXCEPT !.ext = <<>>, !.imr = 0, !.isr = 0] IN [z EXCEPT !.pc = PyResetPc(z)]
    \* PCE500Emulator.bootstrap_from_rom_image: reset, RAM window copied from the image, IMR/ISR seeded, PC from SysLen-3
    [] o.op = "py_bootstrap" -> LET z == [st EXCEPT !.ext = <<[dst |-> RamStart, len |-> RamLen, g |-> o.g, src |-> o.src0 + RamStart]>>, !.imr = 67, !.isr = 0]
                                IN [z EXCEPT !.pc = VecAt(z, SysLen - 3)]
    [] OTHER -> st

RECURSIVE ApplyFrom(_, _, _)
ApplyFrom(st, ops, k) == IF k > Len(ops) THEN st ELSE ApplyFrom(ApplyOp(st, ops[k]), ops, k + 1)
ApplyAll(impl, ops) == ApplyFrom(Empty(impl), ops, 1)

OpsOf(impl) == CASE impl = "rs_rt"  -> {"window", "system", "iq", "load_rom_at", "reset", "store"}
                 [] impl = "rs_mem" -> {"window_mem", "system_mem", "iq_mem", "map", "seed", "store"}
                 [] impl = "py_mem" -> {"py_load_rom", "py_add_rom", "store"}
                 [] impl = "py_emu" -> {"py_load_rom", "py_add_rom", "py_reset", "py_bootstrap", "store"}
TailOps == {"window", "iq", "window_mem", "iq_mem", "configure_pce500"}        \* the last WinLen bytes land in the window
SysOps == {"system", "system_mem", "configure_jp"}
Protecting == {"window", "system", "iq", "map", "py_load_rom", "configure_pce500", "configure_jp"}   \* ... and make the window read-only

\* ---------------------------------------------------------------- state machine (one action per public call)
VARIABLES impl, st, pre, last, acts, gen, depth
vars == <<impl, st, pre, last, acts, gen, depth>>
CONSTANTS Impls, MaxDepth
NoOp == [op |-> "init", g |-> 0, n |-> 0, src0 |-> 0, start |-> 0]

Init == /\ impl \in Impls /\ st = Empty(impl) /\ pre = st /\ last = NoOp /\ acts = <<>> /\ gen = 0 /\ depth = 0

Do(o) == /\ depth < MaxDepth /\ o.op \in OpsOf(impl)
         /\ pre' = st /\ st' = ApplyOp(st, o) /\ last' = o /\ acts' = Append(acts, o)
         /\ depth' = depth + 1 /\ impl' = impl
         /\ gen' = IF o.op \in {"store", "reset", "map", "seed", "py_reset"} THEN gen ELSE gen + 1
Img(kind, n, s0, start) == [op |-> kind, g |-> gen, n |-> n, src0 |-> s0, start |-> start]
Ctl(kind) == [op |-> kind, g |-> 0, n |-> 0, src0 |-> 0, start |-> 0]
\* Rust: load_pce500_rom_window / load_iq7000_rom_image (runtime: these also configure the map) and their _into_memory forms
RomWindow(kind, n) == kind \in {"window", "iq", "window_mem", "iq_mem"} /\ Do(Img(kind, n, 0, 0))
\* Rust: load_pce500_system_image[_into_memory]
SystemImage(kind, n) == kind \in {"system", "system_mem"} /\ Do(Img(kind, n, 0, 0))
\* Rust: CoreRuntime::load_rom(blob, start)
LoadRomAt(n, start) == start \in 0..(SysLen - 1) /\ Do(Img("load_rom_at", n, 0, start))
\* Rust: configure_pce500_memory_map / seed_pce500_bootstrap_imem on a bare MemoryImage
MapOrSeed(kind) == kind \in {"map", "seed"} /\ Do(Ctl(kind))
\* Rust: CoreRuntime::power_on_reset;  Python: PCE500Emulator.reset
Reset(kind) == kind \in {"reset", "py_reset"} /\ Do(Ctl(kind))
\* Python: PCE500Memory.load_rom / PCE500Emulator.load_rom(data)
PyLoadRom(n) == n >= 0 /\ Do(Img("py_load_rom", n, 0, 0))
\* Python: PCE500Memory.add_rom / PCE500Emulator.load_rom(data, start)
PyAddRom(n, start) == start \in 0..(SysLen - 1) /\ Do(Img("py_add_rom", n, 0, start))
\* Python: PCE500Emulator.bootstrap_from_rom_image
PyBootstrap(n) == n >= 0 /\ Do(Img("py_bootstrap", n, 0, 0))
\* both: a byte store through the bus (MemoryImage::store / PCE500Memory.write_byte)
Store(a, v) == v \in 0..255 /\ Do([op |-> "store", g |-> 0, n |-> v, src0 |-> 0, start |-> a])

\* ---------------------------------------------------------------- properties
Cells == 0..(SysLen - 1)
Own(s) == {a \in Cells : Phys(s, a) = a}         \* addresses that are not mirror aliases
\* no image byte shows up at two addresses (the placement is injective)
ImgCells(s) == {a \in Own(s) : IsImg(ReadSrc(s, a))}
Injective == Cardinality({ReadSrc(st, a) : a \in ImgCells(st)}) = Cardinality(ImgCells(st))
\* a ROM-window loader touches nothing outside the window
InsideWindow == last.op \in TailOps \cup {"py_load_rom"} =>
                  \A a \in Own(st) \ Window : ReadSrc(st, a) = ReadSrc(pre, a)
\* tail alignment: the last byte of the file is the last byte of the window
TailAligned == (last.op \in TailOps /\ last.n >= WinLen) =>
                  \A k \in 0..(WinLen - 1) : ReadSrc(st, WinStart + k) = <<last.g, last.src0 + last.n - WinLen + k>>
\* a file shorter than the window starts at the window start; the Rust loaders leave the rest of the window as it was,
\* the Python overlay hides nothing there (the flat external array shows through)
ShortImage == (last.op \in TailOps \cup {"py_load_rom"} /\ last.n < WinLen) =>
                 /\ \A k \in 0..(last.n - 1) : ReadSrc(st, WinStart + k) = <<last.g, last.src0 + k>>
                 /\ \A k \in last.n..(WinLen - 1) :
                       ReadSrc(st, WinStart + k) = IF last.op = "py_load_rom" THEN CellSrc(st.ext, WinStart + k) ELSE ReadSrc(pre, WinStart + k)
\* the Python overlay keeps the FIRST WinLen bytes of a longer file (head, not tail)
PyHead == (last.op = "py_load_rom" /\ last.n >= WinLen) => \A k \in 0..(WinLen - 1) : ReadSrc(st, WinStart + k) = <<last.g, last.src0 + k>>
\* a full system image is copied one to one
SystemIdentity == (last.op \in SysOps /\ last.n >= SysLen) => \A a \in Own(st) : ReadSrc(st, a) = <<last.g, last.src0 + a>>
\* after a full image, reset reads its vector from the image: the last three bytes of a ROM file / of the first SysLen bytes
VectorFromImage ==
  (last.op = "reset" /\ Len(acts) >= 2) =>
     LET p == acts[Len(acts) - 1] IN
       /\ (p.op \in TailOps /\ p.n >= WinLen) => st.pc = <<<<p.g, p.src0 + p.n - 3>>, <<p.g, p.src0 + p.n - 2>>, <<p.g, p.src0 + p.n - 1>>>>
       /\ (p.op \in SysOps /\ p.n >= SysLen) => st.pc = <<<<p.g, p.src0 + SysLen - 3>>, <<p.g, p.src0 + SysLen - 2>>, <<p.g, p.src0 + SysLen - 1>>>>
\* once a configuring loader ran, the whole ROM window rejects stores, for good
Protected == (\E k \in 1..Len(acts) : acts[k].op \in Protecting) => \A a \in Window : IsRO(st, a)
RomImmutable == (last.op = "store" /\ IsRO(pre, last.start)) => \A a \in Cells : ReadSrc(st, a) = ReadSrc(pre, a)
\* RAM outside keeps working: the byte is read back, nothing else changes
RamWorks == (last.op = "store" /\ ~IsRO(pre, last.start)) =>
               /\ ReadSrc(st, last.start) = Lit(last.n)
               /\ \A b \in Cells : Phys(pre, b) # Phys(pre, Canon(last.start)) => ReadSrc(st, b) = ReadSrc(pre, b)
AliasCanonical == \A a \in Cells : ReadSrc(st, a + AddrWrap) = ReadSrc(st, a) /\ IsRO(st, a + AddrWrap) = IsRO(st, a)

\* closed form of the window placement, for every length (constant level, no state): address a of the window shows byte
\* max(0, n - WinLen) + (a - WinStart) of the file if that index exists, everything else is untouched
PlacementLaw(n) ==
  LET s == ApplyOp(Empty("rs_mem"), [op |-> "window_mem", g |-> 0, n |-> n, src0 |-> 0, start |-> 0])
      y == ApplyOp(Empty("rs_mem"), [op |-> "system_mem", g |-> 0, n |-> n, src0 |-> 0, start |-> 0])
      p == ApplyOp(Empty("py_mem"), [op |-> "py_load_rom", g |-> 0, n |-> n, src0 |-> 0, start |-> 0])
  IN \A a \in Cells :
       /\ ReadSrc(s, a) = IF a \in Window /\ a - WinStart < Min(n, WinLen) THEN <<0, Max(0, n - WinLen) + a - WinStart>> ELSE Zero
       /\ ReadSrc(y, a) = IF n >= SysLen THEN <<0, a>> ELSE ReadSrc(s, a)
       /\ ReadSrc(p, a) = IF a \in Window /\ a - WinStart < n THEN <<0, a - WinStart>> ELSE Zero
=============================================================================
