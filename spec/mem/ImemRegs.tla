------------------------------ MODULE ImemRegs ------------------------------
(* The 256-byte internal memory (0x100000-0x1000FF) as the CPU sees it: plain  *)
(* RAM, plus the offsets that a device intercepts.  Which offsets those are     *)
(* depends on the machine:                                                       *)
(*   rsmem   sc62015/core/src/memory.rs   MemoryImage::load / store              *)
(*   pymem   pce500/memory.py             bare PCE500Memory.read_byte/write_byte *)
(*   rsstub  sc62015/core/src/sio.rs      SioStub::handle_read / handle_write on *)
(*                                        a MemoryImage (UCR/USR/RXD/TXD)        *)
(*   rsrt    sc62015/core/src/lib.rs      CoreRuntime::step -> RuntimeBus::load / *)
(*                                        store (keyboard F0-F2, SSR / ON key)    *)
(*   rssio   the same after enable_sio_stub (DeviceModel::PcE500 runtime)        *)
(*   pyemu   pce500/emulator.py           PCE500Emulator: keyboard overlay        *)
(*           (keyboard_handler.py handle_register_read/write), IMEM access        *)
(*           callback -> peripherals/serial.py SerialAdapter (TXD writes),        *)
(*           press_key("KEY_ON")                                                  *)
(* One action per bus access (WriteImem, ReadImem) and per device-side call     *)
(* that changes what a later read returns (OnKey, SioRx, SioConsume, SioTxDone). *)
(*                                                                               *)
(* Left out on purpose: pressed matrix keys (KIL then depends on the strobes:    *)
(* property C14; here no key is down, so KIL reads 0), interrupt delivery        *)
(* (C12: on the runtime machines IMR is never written with its master bit set),  *)
(* timers writing ISR, the LCD, multi-byte accesses, RESET, and                  *)
(* SioStub::maybe_short_circuit (a PC-triggered ROM patch, not a bus access).    *)
EXTENDS Integers, Sequences, FiniteSets, TLC

KOL == 240  KOH == 241  KIL == 242  EOL == 243  EOH == 244  EIL == 245  EIH == 246
UCR == 247  USR == 248  RXD == 249  TXD == 250  IMR == 251  ISR == 252  SCR == 253  LCC == 254  SSR == 255
BH == 213      \* IOCS "logic register" (plain RAM) that the Rust SIO stub fills with its auto response
AutoResponse == 65
Machines == {"rsmem", "pymem", "rsstub", "rsrt", "rssio", "pyemu"}

HasKbd(m) == m \in {"rsrt", "rssio", "pyemu"}
HasSio(m) == m \in {"rsstub", "rssio"}          \* Rust SioStub in the path
PySerial(m) == m = "pyemu"                       \* Python SerialAdapter observes TXD writes
SsrOnk(m) == m \in {"rsrt", "rssio"}             \* SSR bit 3 reflects the ON key level
HasOnKey(m) == m \in {"rsrt", "rssio", "pyemu"}
KohMask(m) == IF m = "pyemu" THEN 15 ELSE 255    \* the Python matrix keeps four KOH bits
\* offsets whose accesses are routed to a device (everything else is RAM on that machine)
Routed(m) == (IF HasKbd(m) THEN {KOL, KOH, KIL} ELSE {}) \cup (IF HasSio(m) THEN {UCR, USR, RXD, TXD} ELSE {})
             \cup (IF PySerial(m) THEN {TXD} ELSE {}) \cup (IF SsrOnk(m) THEN {SSR} ELSE {})
\* ... and those of them that do not behave like a RAM cell even with no key down (see NonRamExact)
NonRamDoc(m) == (IF HasKbd(m) THEN {KIL} ELSE {}) \cup (IF m = "pyemu" THEN {KOH, TXD} ELSE {})
                \cup (IF HasSio(m) THEN {USR, RXD, TXD} ELSE {}) \cup (IF SsrOnk(m) THEN {SSR} ELSE {})
RamOffsets == 0..238       \* 0x00-0xEE: general-purpose internal RAM (0xEF.. are named hardware registers)

\* ---- byte arithmetic
BitAt(v, k) == (v \div (2 ^ k)) % 2
RECURSIVE AndFrom(_, _, _)
AndFrom(a, b, k) == IF k = 8 THEN 0 ELSE BitAt(a, k) * BitAt(b, k) * (2 ^ k) + AndFrom(a, b, k + 1)
And8(a, b) == AndFrom(a, b, 0)
Or8(a, b) == a + b - And8(a, b)
Clr8(a, m) == a - And8(a, m)

\* ---- abstract state: [imem, kol, koh, rxq, txq, onk]
\* SioStub::apply_status: TXR|TXE forced on, RXR follows the queue, error bits cleared
Status(usr, rxq) == Clr8(IF rxq = <<>> THEN Clr8(Or8(usr, 24), 32) ELSE Or8(Or8(usr, 24), 32), 7)
InitUsr(m) == IF HasSio(m) \/ m = "pyemu" THEN 24 ELSE 0      \* SioStub::init / power-on reset of the Python CPU
InitState(m, offs) == [imem |-> [o \in offs |-> IF o = USR THEN InitUsr(m) ELSE 0], kol |-> 0, koh |-> 0, rxq |-> <<>>, txq |-> <<>>, onk |-> FALSE]

WriteOp(m, s, o, v) ==
  IF HasKbd(m) /\ o = KOL THEN [s EXCEPT !.kol = v]
  ELSE IF HasKbd(m) /\ o = KOH THEN [s EXCEPT !.koh = And8(v, KohMask(m))]
  ELSE IF HasKbd(m) /\ o = KIL THEN s                                        \* input port: the write is dropped
  ELSE IF HasSio(m) /\ o = TXD THEN                                          \* SioStub::handle_write(TXD)
         LET q == Append(s.rxq, AutoResponse) IN
         [s EXCEPT !.imem = [@ EXCEPT ![TXD] = v, ![RXD] = AutoResponse, ![BH] = AutoResponse, ![USR] = Status(s.imem[USR], q)],
                   !.txq = Append(@, v), !.rxq = q]
  ELSE IF PySerial(m) /\ o = TXD THEN                                        \* SerialAdapter._mark_transmit_busy
         [s EXCEPT !.imem = [@ EXCEPT ![TXD] = v, ![USR] = Clr8(s.imem[USR], 24)], !.txq = Append(@, v)]
  ELSE [s EXCEPT !.imem[o] = v]

ReadOp(m, s, o) ==
  IF HasKbd(m) /\ o = KOL THEN [s |-> s, ret |-> s.kol]
  ELSE IF HasKbd(m) /\ o = KOH THEN [s |-> s, ret |-> s.koh]
  ELSE IF HasKbd(m) /\ o = KIL THEN [s |-> s, ret |-> 0]                     \* no key is down
  ELSE IF HasSio(m) /\ o = USR THEN LET u == Status(s.imem[USR], s.rxq) IN [s |-> [s EXCEPT !.imem[USR] = u], ret |-> u]
  ELSE IF HasSio(m) /\ o = RXD THEN                                          \* SioStub::consume_rx
         LET q == IF s.rxq = <<>> THEN <<>> ELSE Tail(s.rxq)
             im1 == IF q # <<>> THEN [s.imem EXCEPT ![RXD] = Head(q)] ELSE s.imem
         IN [s |-> [s EXCEPT !.rxq = q, !.imem = [im1 EXCEPT ![USR] = Status(s.imem[USR], q)]],
             ret |-> IF s.rxq = <<>> THEN 0 ELSE Head(s.rxq)]
  ELSE IF SsrOnk(m) /\ o = SSR THEN [s |-> s, ret |-> Or8(s.imem[SSR], IF s.onk THEN 8 ELSE 0)]
  ELSE [s |-> s, ret |-> s.imem[o]]

\* ON key: both machines raise ISR.ONKI; only the Rust runtime tracks the level (SSR bit 3) and clears ONKI on release
OnKeyOp(m, s, down) ==
  IF down THEN [s EXCEPT !.onk = TRUE, !.imem[ISR] = Or8(@, 8)]
  ELSE IF SsrOnk(m) THEN [s EXCEPT !.onk = FALSE, !.imem[ISR] = Clr8(@, 8)]
  ELSE [s EXCEPT !.onk = FALSE]
\* Python SerialAdapter.queue_receive / consume_received / complete_transmit
Latch(s, q) == LET usr == Clr8(s.imem[USR], 7) IN
               IF q = <<>> THEN [s EXCEPT !.rxq = q, !.imem[USR] = Clr8(usr, 32)]
               ELSE [s EXCEPT !.rxq = q, !.imem = [@ EXCEPT ![RXD] = Head(q), ![USR] = Or8(usr, 32)]]
SioRxOp(s, v) == Latch(s, Append(s.rxq, v))
SioConsumeOp(s) == IF s.rxq = <<>> THEN s ELSE Latch(s, Tail(s.rxq))
SioTxDoneOp(s) == IF s.txq = <<>> THEN s
                  ELSE LET q == Tail(s.txq) IN [s EXCEPT !.txq = q, !.imem[USR] = IF q # <<>> THEN Clr8(@, 24) ELSE Or8(@, 24)]

\* one recorded / generated step: [ev, off, v] -> [s, ret]
StepOp(m, s, e) ==
  CASE e.ev = "W" -> [s |-> WriteOp(m, s, e.off, e.v), ret |-> -1]
    [] e.ev = "R" -> ReadOp(m, s, e.off)
    [] e.ev = "OnKey" -> [s |-> OnKeyOp(m, s, e.v = 1), ret |-> -1]
    [] e.ev = "SioRx" -> [s |-> SioRxOp(s, e.v), ret |-> -1]
    [] e.ev = "SioConsume" -> [s |-> SioConsumeOp(s), ret |-> -1]
    [] e.ev = "SioTxDone" -> [s |-> SioTxDoneOp(s), ret |-> -1]
    [] OTHER -> [s |-> s, ret |-> -1]

\* ---------------------------------------------------------------- state machine
CONSTANTS MachineSet, Offs, Vals, MaxDepth, RecordActs
VARIABLES Machine,      \* which machine this behaviour is about (chosen initially, never changes)
          s, pre, last, ret, acts, depth
vars == <<Machine, s, pre, last, ret, acts, depth>>
Ev(k, o, v) == [ev |-> k, off |-> o, v |-> v]

Init == Machine \in MachineSet /\ s = InitState(Machine, Offs) /\ pre = s /\ last = Ev("Init", 0, 0) /\ ret = -1 /\ acts = <<>> /\ depth = 0
Do(e) == /\ depth < MaxDepth
         /\ LET r == StepOp(Machine, s, e) IN s' = r.s /\ ret' = r.ret
         /\ pre' = s /\ last' = e /\ depth' = depth + 1 /\ Machine' = Machine
         /\ acts' = IF RecordActs THEN Append(acts, e) ELSE acts
WriteImem(o, v) == o \in Offs /\ Do(Ev("W", o, v))
ReadImem(o) == o \in Offs /\ Do(Ev("R", o, 0))
OnKey(down) == HasOnKey(Machine) /\ Do(Ev("OnKey", 0, IF down THEN 1 ELSE 0))
SioRx(v) == PySerial(Machine) /\ Len(s.rxq) < 3 /\ Do(Ev("SioRx", 0, v))
SioConsume == PySerial(Machine) /\ Do(Ev("SioConsume", 0, 0))
SioTxDone == PySerial(Machine) /\ Do(Ev("SioTxDone", 0, 0))
Next == \/ \E o \in Offs, v \in Vals : WriteImem(o, v)
        \/ \E o \in Offs : ReadImem(o)
        \/ \E d \in BOOLEAN : OnKey(d)
        \/ \E v \in Vals : SioRx(v)
        \/ SioConsume \/ SioTxDone
Spec == Init /\ [][Next]_vars

\* ---------------------------------------------------------------- properties
Plain == Offs \ Routed(Machine)
View(m, st) == [o \in Offs |-> ReadOp(m, st, o).ret]          \* what one read of each offset would return
\* plain offsets behave as RAM: read-after-write, and nothing else changes - neither cells nor what any other offset reads
PlainReadAfterWrite ==
  (last.ev = "W" /\ last.off \in Plain) =>
     /\ s.imem[last.off] = last.v /\ ReadOp(Machine, s, last.off).ret = last.v
     /\ \A p \in Offs \ {last.off} : s.imem[p] = pre.imem[p] /\ View(Machine, s)[p] = View(Machine, pre)[p]
     /\ <<s.kol, s.koh, s.rxq, s.txq, s.onk>> = <<pre.kol, pre.koh, pre.rxq, pre.txq, pre.onk>>
PlainReadIsPure == (last.ev = "R" /\ last.off \in Plain) => (s = pre /\ ret = pre.imem[last.off])
\* a write to a read-only register (bit) does not change it
KilReadOnly == HasKbd(Machine) => ReadOp(Machine, s, KIL).ret = 0
UsrStatusBits == HasSio(Machine) => LET u == ReadOp(Machine, s, USR).ret IN
                    And8(u, 24) = 24 /\ And8(u, 7) = 0 /\ ((And8(u, 32) = 32) <=> (s.rxq # <<>>))
KohNibble == Machine = "pyemu" => s.koh < 16
SsrShowsOnKey == SsrOnk(Machine) => BitAt(ReadOp(Machine, s, SSR).ret, 3) = (IF s.onk THEN 1 ELSE BitAt(s.imem[SSR], 3))
\* the strobe latches are write-read registers
KolLatch == (HasKbd(Machine) /\ last.ev = "W" /\ last.off = KOL) => ReadOp(Machine, s, KOL).ret = last.v
\* the Rust stub answers every transmitted byte: as many responses are queued as bytes were sent and not yet read
SioAutoResponse == HasSio(Machine) => (\A i \in 1..Len(s.rxq) : s.rxq[i] = AutoResponse) /\ Len(s.rxq) <= Len(s.txq)
TypeOK == /\ \A o \in Offs : s.imem[o] \in 0..255
          /\ s.kol \in 0..255 /\ s.koh \in 0..255 /\ ret \in -1..255

\* ---- constant level: the documented set of non-RAM offsets is exact.  An offset deviates from a RAM cell on machine m if,
\* from one of the witness states, write-then-read does not return the value, or the write or the read changes what some
\* other offset reads
Deviates(m, st, o, v) ==
  LET w == WriteOp(m, st, o, v)  r == ReadOp(m, w, o) IN
    \/ r.ret # v
    \/ \E p \in Offs \ {o} : View(m, w)[p] # View(m, st)[p]
    \/ View(m, r.s) # View(m, w)
Witnesses(m) == LET i == InitState(m, Offs) IN
                {i, WriteOp(m, i, TXD, 7), OnKeyOp(m, i, TRUE), [i EXCEPT !.imem[SSR] = 8]}
NonRam(m) == {o \in Offs : \E st \in Witnesses(m), v \in {0, 90, 255} : Deviates(m, st, o, v)}
NonRamExact == \A m \in Machines : NonRam(m) = NonRamDoc(m) \cap Offs /\ NonRamDoc(m) \subseteq Routed(m)
=============================================================================
