-------------------------------- MODULE Uart --------------------------------
(* The serial (RS-232C) adapter of the Python machine                          *)
(* (pce500/peripherals/serial.py: SerialAdapter over the USR / RXD / TXD / UCR  *)
(* cells of the internal memory): receive queue with per-byte error flags,      *)
(* transmit queue, the six status bits of USR, the RXD latch, snapshot /        *)
(* restore.  ImemRegs.tla sees this adapter only through the internal-memory    *)
(* offsets; this module is the adapter's own state machine.  One action per     *)
(* public call: QueueRx (queue_receive), ConsumeRx (consume_received), TxWrite   *)
(* (handle_imem_access("TXD", "write")), TxDone (complete_transmit), Save        *)
(* (snapshot) and Restore (restore).  No listed property; runs inside C11.       *)
EXTENDS Naturals, Sequences, FiniteSets, TLC

CONSTANTS Vals,        \* byte values used
          MaxQ,        \* bound on either queue
          RecordActs

RXR == 32  TXE == 16  TXR == 8  FE == 4  OE == 2  PE == 1

VARIABLES usr,      \* set of status bits that are 1 (subset of {RXR, TXE, TXR, FE, OE, PE})
          rxd,      \* RXD cell
          rxq,      \* Seq of [v, pe, oe, fe]
          txq,      \* Seq of bytes
          saved,    \* latest snapshot: [ok, usr, rxq, txq] (ok = FALSE: none taken yet)
          ret,      \* value returned by the latest call: <<>> (None) or <<x>>
          last,     \* name of the latest action
          queued, consumed, sent, done,   \* ghost histories
          txTouched,                      \* ghost: has any transmit-side call or a restore happened
          acts

vars == <<usr, rxd, rxq, txq, saved, ret, last, queued, consumed, sent, done, txTouched, acts>>
Rec(a) == IF RecordActs THEN Append(acts, a) ELSE acts
ErrBits == {FE, OE, PE}
ErrOf(e) == (IF e.fe THEN {FE} ELSE {}) \cup (IF e.oe THEN {OE} ELSE {}) \cup (IF e.pe THEN {PE} ELSE {})

\* _latch_next_received on status u and queue q: new <<usr, rxd>>
Latch(u, d, q) == IF q = <<>> THEN <<(u \ ErrBits) \ {RXR}, d>>
                  ELSE <<((u \ ErrBits) \cup {RXR}) \cup ErrOf(Head(q)), Head(q).v>>
\* _update_transmit_status
TxStatus(u, q) == IF q # <<>> THEN u \ {TXR, TXE} ELSE u \cup {TXR, TXE}

Init == /\ usr = {} /\ rxd = 0 /\ rxq = <<>> /\ txq = <<>> /\ saved = [ok |-> FALSE, usr |-> {}, rxq |-> <<>>, txq |-> <<>>] /\ ret = <<>> /\ last = "Init"
        /\ queued = <<>> /\ consumed = <<>> /\ sent = <<>> /\ done = <<>> /\ txTouched = FALSE /\ acts = <<>>

QueueRx(e) ==
  /\ Len(rxq) < MaxQ
  /\ rxq' = Append(rxq, e) /\ queued' = Append(queued, e)
  /\ LET l == Latch(usr, rxd, rxq') IN usr' = l[1] /\ rxd' = l[2]
  /\ ret' = <<>> /\ last' = "QueueRx" /\ acts' = Rec([ev |-> "QueueRx", e |-> e])
  /\ UNCHANGED <<txq, saved, consumed, sent, done, txTouched>>

ConsumeRx ==
  /\ IF rxq = <<>>
     THEN ret' = <<>> /\ UNCHANGED <<usr, rxd, rxq, consumed>>
     ELSE /\ ret' = <<Head(rxq)>> /\ rxq' = Tail(rxq) /\ consumed' = Append(consumed, Head(rxq))
          /\ LET l == Latch(usr, rxd, Tail(rxq)) IN usr' = l[1] /\ rxd' = l[2]
  /\ last' = "ConsumeRx" /\ acts' = Rec([ev |-> "ConsumeRx"])
  /\ UNCHANGED <<txq, saved, queued, sent, done, txTouched>>

TxWrite(v) ==
  /\ Len(txq) < MaxQ
  /\ txq' = Append(txq, v) /\ sent' = Append(sent, v)
  /\ usr' = usr \ {TXR, TXE}                       \* _mark_transmit_busy
  /\ txTouched' = TRUE /\ ret' = <<>> /\ last' = "TxWrite" /\ acts' = Rec([ev |-> "TxWrite", v |-> v])
  /\ UNCHANGED <<rxd, rxq, saved, queued, consumed, done>>

TxDone ==
  /\ IF txq = <<>>
     THEN ret' = <<>> /\ UNCHANGED <<usr, txq, done, txTouched>>
     ELSE /\ ret' = <<Head(txq)>> /\ txq' = Tail(txq) /\ done' = Append(done, Head(txq))
          /\ usr' = TxStatus(usr, Tail(txq)) /\ txTouched' = TRUE
  /\ last' = "TxDone" /\ acts' = Rec([ev |-> "TxDone"])
  /\ UNCHANGED <<rxd, rxq, saved, queued, consumed, sent>>

Save ==
  /\ saved' = [ok |-> TRUE, usr |-> usr, rxq |-> rxq, txq |-> txq]
  /\ ret' = <<>> /\ last' = "Save" /\ acts' = Rec([ev |-> "Save"])
  /\ UNCHANGED <<usr, rxd, rxq, txq, queued, consumed, sent, done, txTouched>>

Restore ==
  /\ saved.ok
  /\ rxq' = saved.rxq /\ txq' = saved.txq
  /\ LET l == Latch(saved.usr, rxd, saved.rxq) IN usr' = TxStatus(l[1], saved.txq) /\ rxd' = l[2]
  /\ txTouched' = TRUE /\ ret' = <<>> /\ last' = "Restore" /\ acts' = Rec([ev |-> "Restore"])
  \* the ghost histories restart from the restored queues
  /\ queued' = saved.rxq /\ consumed' = <<>> /\ sent' = saved.txq /\ done' = <<>>
  /\ UNCHANGED saved

Bools == {TRUE, FALSE}
Entries == {[v |-> v, pe |-> p, oe |-> o, fe |-> f] : v \in Vals, p \in Bools, o \in Bools, f \in Bools}
Next == (\E e \in Entries : QueueRx(e)) \/ ConsumeRx \/ (\E v \in Vals : TxWrite(v)) \/ TxDone \/ Save \/ Restore
Spec == Init /\ [][Next]_vars

\* ------------------------------------------------------------------ laws
\* the receive-ready bit says whether a byte is waiting, RXD shows it, the error bits are those of that byte
RxReadyIffWaiting == (RXR \in usr) <=> (rxq # <<>>)
RxdIsHead == rxq # <<>> => rxd = Head(rxq).v
ErrBitsOfHead == (usr \cap ErrBits) = (IF rxq = <<>> THEN {} ELSE ErrOf(Head(rxq)))
\* once the transmit side has been used, "ready" and "empty" say whether the transmit queue is empty
TxCoherent == txTouched => (({TXR, TXE} \subseteq usr) <=> (txq = <<>>)) /\ (({TXR, TXE} \cap usr = {}) <=> (txq # <<>>))
\* bytes leave either queue in the order they entered, each once
RxFifo == consumed \o rxq = queued
TxFifo == done \o txq = sent
\* restoring the snapshot just taken changes nothing - provided the status was coherent (a pristine adapter is not: see PristineBusy)
RestoreIsIdentity == [][(last' = "Restore" /\ saved.ok /\ saved.usr = usr /\ saved.rxq = rxq /\ saved.txq = txq /\ txTouched)
                        => (usr' = usr /\ rxd' = rxd /\ rxq' = rxq /\ txq' = txq)]_vars
\* NOT a law (kept to show it): a pristine adapter claims neither "transmitter ready" nor "transmitter empty" although nothing is queued
PristineReady == ~txTouched => {TXR, TXE} \subseteq usr
TypeOK == usr \subseteq {RXR, TXE, TXR, FE, OE, PE} /\ Len(rxq) <= MaxQ /\ Len(txq) <= MaxQ
=============================================================================
