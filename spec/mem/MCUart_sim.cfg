SPECIFICATION Spec
CONSTANTS
  Vals <- V2
  MaxQ = 4
  RecordActs = TRUE
INVARIANT TypeOK
INVARIANT RxFifo
CHECK_DEADLOCK FALSE
