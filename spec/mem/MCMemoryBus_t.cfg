SPECIFICATION Spec
CONSTANTS
  Cells <- C6
  Class <- Cls6
  Writable <- Wr6
  Next1 <- Nx6
  Values = {0, 90, 1193046}
  MaxDepth = 5
INVARIANT LEComposition
INVARIANT AliasCoherent
PROPERTY ReadAfterWrite
PROPERTY Frame
PROPERTY RomImmutable
CHECK_DEADLOCK FALSE
