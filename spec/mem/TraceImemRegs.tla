--------------------------- MODULE TraceImemRegs ---------------------------
(* Trace validation for ImemRegs at full size (all 256 offsets, all byte      *)
(* values): recorded sequences of internal-memory reads / writes and device   *)
(* events on the six machines.  Every event logs                              *)
(*   ev ("Init" | "W" | "R" | "OnKey" | "SioRx" | "SioConsume" | "SioTxDone"), *)
(*   off, v, ret (value read, -1 otherwise) and delta = the bytes of the      *)
(*   machine's backing store (MemoryImage::internal_slice / the last 256      *)
(*   bytes of PCE500Memory.external_memory) that changed, as <<offset, value>> *)
(*   pairs; on machines with a keyboard offsets 0xF0-0xF2 are left out (the   *)
(*   strobe latches live in the keyboard object, not in the backing store).   *)
(* "Init" carries the machine name and the whole initial backing store.       *)
(* The specification predicts ret and delta with the operators of ImemRegs;   *)
(* a step it cannot explain is recorded with a clause and the specification   *)
(* state is resynchronised to the logged bytes (device latches keep the       *)
(* predicted value):                                                          *)
(*   PlainRAW      a byte written to a plain RAM offset (0x00-0xEE, not routed *)
(*                 to a device on this machine) is not what the backing store  *)
(*                 holds / what the next read returns - C11, first sentence    *)
(*   Frame         a plain access changed some other byte                      *)
(*   DeviceRet / DeviceEffect   a device register behaves differently from the *)
(*                 model (drift, never a verdict)                              *)
EXTENDS ImemRegs, Json, IOUtils

OffsAll == 0..255
TraceLog == ndJsonDeserialize(IOEnv.TRACE_FILE)
VARIABLES l, bad
tvars == <<vars, l, bad>>

TInit == /\ l = 1 /\ bad = {} /\ Machine = "rsmem" /\ s = InitState("rsmem", OffsAll) /\ pre = s
         /\ last = Ev("Init", 0, 0) /\ ret = -1 /\ acts = <<>> /\ depth = 0

Logged(e) == {<<e.delta[i][1], e.delta[i][2]>> : i \in 1..Len(e.delta)}
Hidden == IF HasKbd(Machine) THEN {KOL, KOH, KIL} ELSE {}
Predicted(p) == {<<o, p.imem[o]>> : o \in {x \in OffsAll \ Hidden : p.imem[x] # s.imem[x]}}
RECURSIVE ApplySeq(_, _, _)
ApplySeq(im, ds, i) == IF i > Len(ds) THEN im
                       ELSE IF ds[i][1] \in OffsAll /\ ds[i][2] \in 0..255 THEN ApplySeq([im EXCEPT ![ds[i][1]] = ds[i][2]], ds, i + 1)
                       ELSE ApplySeq(im, ds, i + 1)

Clause(e, r) ==
  LET o == e.off
      plainRam == e.ev \in {"W", "R"} /\ o \in RamOffsets /\ o \notin Routed(Machine)
      after == ApplySeq(s.imem, e.delta, 1)
  IN IF plainRam /\ e.ev = "W" /\ after[o] # e.v THEN "PlainRAW"
     ELSE IF plainRam /\ e.ev = "R" /\ e.ret # s.imem[o] THEN "PlainRAW"
     ELSE IF e.ret # r.ret THEN "DeviceRet"
     ELSE IF Logged(e) # Predicted(r.s) THEN (IF plainRam THEN "Frame" ELSE "DeviceEffect")
     ELSE "ok"

TNext ==
  /\ l <= Len(TraceLog) /\ l' = l + 1
  /\ UNCHANGED <<acts, depth>>
  /\ LET e == TraceLog[l] IN
     IF e.ev = "Init"
     THEN /\ Machine' = e.m
          /\ s' = [InitState(e.m, OffsAll) EXCEPT !.imem = [o \in OffsAll |-> e.init[o + 1]]]
          /\ pre' = s' /\ last' = Ev("Init", 0, 0) /\ ret' = -1 /\ bad' = bad
     ELSE LET ee == Ev(e.ev, e.off % 256, e.v % 256)
              r == StepOp(Machine, s, ee)
              cl == Clause(e, r)
          IN /\ Machine' = Machine /\ pre' = s /\ last' = ee /\ ret' = e.ret
             /\ s' = [r.s EXCEPT !.imem = ApplySeq(s.imem, e.delta, 1)]
             /\ bad' = IF cl = "ok" THEN bad
                       ELSE bad \cup {[tid |-> e.tid, line |-> l, clause |-> cl,
                                       detail |-> <<e.ev, e.off, e.v, e.ret, r.ret, Logged(e) \ Predicted(r.s), Predicted(r.s) \ Logged(e)>>]}
TSpec == TInit /\ [][TNext]_tvars
Done == l = Len(TraceLog) + 1
Report == Done => PrintT(<<"BAD", Cardinality(bad), bad>>)
=============================================================================
