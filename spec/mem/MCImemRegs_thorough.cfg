SPECIFICATION Spec
CONSTANTS
  MachineSet = {"rsmem", "pymem", "rsstub", "rsrt", "rssio", "pyemu"}
  Offs <- OffsMC
  Vals <- ValsMC
  MaxDepth = 3
  RecordActs = FALSE
INVARIANT TypeOK
INVARIANT PlainReadAfterWrite
INVARIANT PlainReadIsPure
INVARIANT KilReadOnly
INVARIANT UsrStatusBits
INVARIANT KohNibble
INVARIANT SsrShowsOnKey
INVARIANT KolLatch
INVARIANT SioAutoResponse
CHECK_DEADLOCK FALSE
