INIT DInit
NEXT DNext
CONSTANTS
  SysLen = 1048576
  WinStart = 786432
  WinLen = 262144
  RamStart = 753664
  RamLen = 32768
  MirStart = 524288
  MirEnd = 786431
  NoRamEnd = 262143
  AddrWrap = 16777216
  Impls = {"rs_rt"}
  MaxDepth = 0
