SPECIFICATION Spec
CONSTANTS
  Vals <- V1
  MaxQ = 1
  RecordActs = FALSE
INVARIANT PristineReady
CHECK_DEADLOCK FALSE
