----------------------------- MODULE TraceMemory -----------------------------
(* Trace validation for C11.  For every memory configuration the harness first *)
(* PROBES the implementation's alias structure on a palette of byte cells      *)
(* (write a marker through each cell, read all cells) and logs the raw         *)
(* "write through b is visible at c" matrix W in the Init event together with  *)
(* each cell's kind (internal 0x100000-0x1000FF / external / other) and its    *)
(* successor cell.  This specification                                          *)
(*  1. judges the probed structure: W must be an equivalence on writable cells *)
(*     (AliasCoherent), and no cell of the internal memory may share a class    *)
(*     with a cell of the external space (IntExtDisjoint); a cell the           *)
(*     configuration declares read-only must not be writable                    *)
(*     (RomWindowImmutable);                                                    *)
(*  2. replays seeded random Load/Store sequences (8/16/24 bit) against the     *)
(*     MemoryOps semantics instantiated with the probed classes: every loaded   *)
(*     value must be the little-endian composition of the class bytes           *)
(*     (ReadAfterWrite, Frame, RomImmutable, LEComposition all show up as a     *)
(*     wrong loaded value or a wrong final byte).                               *)
EXTENDS MemoryOps, TLC, Json, IOUtils
TraceLog == ndJsonDeserialize(IOEnv.TRACE_FILE)
VARIABLES l, bad, cls, wr, nxt, mem, n
tvars == <<l, bad, cls, wr, nxt, mem, n>>
TInit == l = 1 /\ bad = {} /\ cls = <<>> /\ wr = <<>> /\ nxt = <<>> /\ mem = <<>> /\ n = 0
Flag(e, c, d) == bad' = bad \cup {[tid |-> e.tid, line |-> l, clause |-> c, detail |-> d]}
SetOf(s) == {s[i] : i \in 1..Len(s)}

\* class of a cell = least cell index connected to it through W (W is given per cell as the list of cells it changes)
Vis(e, b) == SetOf(e.W[b])
ClassOf(e, b) == LET S == {c \in 1..e.n : b \in Vis(e, c) \/ c \in Vis(e, b) \/ c = b} IN CHOOSE m \in S : \A x \in S : m <= x
StructClause(e) ==
  LET N == 1..e.n IN
  IF \E b \in N : Vis(e, b) # {} /\ b \notin Vis(e, b) THEN <<"AliasCoherent-notreflexive", CHOOSE b \in N : Vis(e, b) # {} /\ b \notin Vis(e, b)>>
  ELSE IF \E b, c \in N : c \in Vis(e, b) /\ Vis(e, c) # Vis(e, b) THEN <<"AliasCoherent-notequivalence", CHOOSE b \in N : \E c \in N : c \in Vis(e, b) /\ Vis(e, c) # Vis(e, b)>>
  ELSE IF \E b \in N : \E c \in Vis(e, b) : {e.kind[b], e.kind[c]} = {"int", "ext"} THEN <<"IntExtDisjoint", CHOOSE b \in N : \E c \in Vis(e, b) : {e.kind[b], e.kind[c]} = {"int", "ext"}>>
  \* "writes to ROM or read-only windows never change what is read": a cell the CONFIGURATION declares read-only (ROM window,
  \* ROM overlay, read-only range) may not be writable in the probed structure, whatever backs it
  \* ... neither by a store at the cell itself nor by a store at any other cell (an alias of it outside the declared range)
  ELSE IF \E b \in N : e.ro[b] = 1 /\ (Vis(e, b) # {} \/ \E c \in N : b \in Vis(e, c))
       THEN <<"RomWindowImmutable", CHOOSE b \in N : e.ro[b] = 1 /\ (Vis(e, b) # {} \/ \E c \in N : b \in Vis(e, c))>>
  \* "no other location changes" / "every address is first reduced to its canonical form (24-bit wrap, documented RAM mirror
  \* window)": two cells of the external space (or two of the internal memory) may share a class only if their documented canonical addresses coincide
  \* (e.canon, computed by the harness from the configuration: 24-bit wrap, and the 32 KiB mirror of 0x80000-0xBFFFF where the
  \* configuration switches it on) - a coherent but undocumented alias (a window folded modulo its size, say) is still an alias
  ELSE IF \E b, c \in N : b # c /\ c \in Vis(e, b) /\ e.kind[b] = e.kind[c] /\ e.kind[b] \in {"ext", "int"} /\ e.canon[b] # e.canon[c]
       THEN <<"UndocumentedAlias", CHOOSE b \in N : \E c \in N : b # c /\ c \in Vis(e, b) /\ e.kind[b] = e.kind[c] /\ e.kind[b] \in {"ext", "int"} /\ e.canon[b] # e.canon[c]>>
  ELSE <<"ok", 0>>

TNext ==
  /\ l <= Len(TraceLog) /\ l' = l + 1
  /\ LET e == TraceLog[l] IN
     CASE e.ev = "Init" ->
            LET sc == StructClause(e) IN
            /\ n' = e.n
            /\ cls' = [b \in 1..e.n |-> ClassOf(e, b)]
            /\ wr' = [k \in 1..e.n |-> Vis(e, k) # {}]          \* indexed by class representative
            /\ nxt' = [b \in 1..e.n |-> e.nxt[b]]
            /\ mem' = [k \in 1..e.n |-> e.init[k]]
            /\ (IF sc[1] = "ok" THEN bad' = bad ELSE Flag(e, sc[1], <<sc[2], e.W[sc[2]], e.cfg>>))
       [] e.ev = "S" ->
            /\ mem' = StoreVal(mem, cls, wr, nxt, e.c, e.w, e.v)
            /\ bad' = bad /\ UNCHANGED <<cls, wr, nxt, n>>
       [] e.ev = "L" ->
            LET want == LoadVal(mem, cls, nxt, e.c, e.w) IN
            /\ (IF e.ret = want THEN bad' = bad /\ mem' = mem
                ELSE Flag(e, "LoadValue", <<e.c, e.w, e.ret, want>>) /\ mem' = mem)   \* keep the specification's own view: no cascades
            /\ UNCHANGED <<cls, wr, nxt, n>>
TSpec == TInit /\ [][TNext]_tvars
Done == l = Len(TraceLog) + 1
Report == Done => PrintT(<<"BAD", Cardinality(bad), bad>>)
=============================================================================
