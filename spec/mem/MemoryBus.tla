----------------------------- MODULE MemoryBus -----------------------------
(* The memory bus as a state machine over alias classes (property C11).      *)
(* The alias structure (24-bit wrap, RAM mirror window, overlays) is a        *)
(* parameter: `Class` maps byte cells to classes.  Whatever the structure,    *)
(* the bus must behave like memory:                                           *)
(*   ReadAfterWrite  a byte stored to a writable cell is what is loaded next  *)
(*   Frame           no class other than the ones addressed changes           *)
(*   RomImmutable    read-only classes never change                           *)
(*   LEComposition   multi-byte accesses = little-endian composition of bytes *)
(*   AliasCoherent   all cells of a class always load the same value          *)
EXTENDS MemoryOps, TLC
CONSTANTS Cells, Class, Writable, Next1, Values, MaxDepth
VARIABLES mem, ret, depth, last
vars == <<mem, ret, depth, last>>
Classes == {Class[c] : c \in Cells}
Init == mem = [k \in Classes |-> 0] /\ ret = -1 /\ depth = 0 /\ last = <<"Init">>
Fits(c, w) == CellAt(Next1, c, w - 1) # 0
Store(c, w, v) == /\ depth < MaxDepth /\ Fits(c, w)
                  /\ mem' = StoreVal(mem, Class, Writable, Next1, c, w, v) /\ ret' = -1
                  /\ depth' = depth + 1 /\ last' = <<"S", c, w, v>>
Load(c, w) == /\ depth < MaxDepth /\ Fits(c, w)
              /\ ret' = LoadVal(mem, Class, Next1, c, w) /\ mem' = mem
              /\ depth' = depth + 1 /\ last' = <<"L", c, w>>
Next == \E c \in Cells, w \in 1..3 : Load(c, w) \/ \E v \in Values : Store(c, w, v)
Spec == Init /\ [][Next]_vars

Touched(c, w) == {Class[CellAt(Next1, c, i)] : i \in 0..w-1}
ReadAfterWrite == [][(last'[1] = "S" /\ last'[3] = 1 /\ Writable[Class[last'[2]]]) => mem'[Class[last'[2]]] = last'[4] % 256]_vars
Frame == [][last'[1] = "S" => \A k \in Classes \ Touched(last'[2], last'[3]) : mem'[k] = mem[k]]_vars
RomImmutable == [][\A k \in Classes : ~Writable[k] => mem'[k] = mem[k]]_vars
LEComposition == (last[1] = "L") =>
   ret = LET c == last[2]  w == last[3]
             f[i \in 0..w] == IF i = 0 THEN 0 ELSE f[i - 1] + LoadVal(mem, Class, Next1, CellAt(Next1, c, i - 1), 1) * (256 ^ (i - 1)) IN f[w]
AliasCoherent == \A a, b \in Cells : Class[a] = Class[b] => LoadVal(mem, Class, Next1, a, 1) = LoadVal(mem, Class, Next1, b, 1)
=============================================================================
