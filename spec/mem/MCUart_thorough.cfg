SPECIFICATION Spec
CONSTANTS
  Vals <- V1
  MaxQ = 2
  RecordActs = FALSE
INVARIANT TypeOK
INVARIANT RxReadyIffWaiting
INVARIANT RxdIsHead
INVARIANT ErrBitsOfHead
INVARIANT TxCoherent
INVARIANT RxFifo
INVARIANT TxFifo
PROPERTY RestoreIsIdentity
CONSTRAINT Bounded4
CHECK_DEADLOCK FALSE
