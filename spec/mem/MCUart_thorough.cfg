SPECIFICATION Spec
CONSTANTS
  Vals <- V2
  MaxQ = 2
  RecordActs = FALSE
INVARIANT TypeOK
INVARIANT RxReadyIffWaiting
INVARIANT RxdIsHead
INVARIANT ErrBitsOfHead
INVARIANT TxCoherent
INVARIANT RxFifo
INVARIANT TxFifo
PROPERTY RestoreIsIdentity
CONSTRAINT Bounded3
CHECK_DEADLOCK FALSE
