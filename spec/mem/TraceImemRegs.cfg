SPECIFICATION TSpec
CONSTANTS
  MachineSet = {"rsmem", "pymem", "rsstub", "rsrt", "rssio", "pyemu"}
  Offs <- OffsAll
  Vals <- OffsAll
  MaxDepth = 0
  RecordActs = FALSE
INVARIANT Report
CHECK_DEADLOCK FALSE
