----------------------------- MODULE MCImemRegs -----------------------------
(* Exhaustive exploration of ImemRegs for all six machines over a palette of  *)
(* offsets: three plain RAM cells (0x00, 0x10, BH = 0xD5 - the cell the Rust  *)
(* SIO stub also writes), the RAM pointer BP (0xEC), every named register     *)
(* 0xF0-0xFF except EOL/EOH/EIH (EIL stands for the E port), and the values   *)
(* 0x00, 0x5A, 0xFF (all bits, the KOH nibble, the USR status bits).          *)
EXTENDS ImemRegs
OffsMC == {0, 16, BH, 236, KOL, KOH, KIL, EIL, UCR, USR, RXD, TXD, IMR, ISR, SCR, LCC, SSR}
ValsMC == {0, 90, 255}
ValsQ == {0, 255}
ASSUME NonRamOk == NonRamExact
=============================================================================
