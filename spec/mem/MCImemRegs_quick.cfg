SPECIFICATION Spec
CONSTANTS
  MachineSet = {"rsmem", "pymem", "rsstub", "rsrt", "rssio", "pyemu"}
  Offs <- OffsMC
  Vals <- ValsQ
  MaxDepth = 2
  RecordActs = TRUE
INVARIANT TypeOK
INVARIANT PlainReadAfterWrite
INVARIANT PlainReadIsPure
INVARIANT KilReadOnly
INVARIANT UsrStatusBits
INVARIANT KohNibble
INVARIANT SsrShowsOnKey
INVARIANT KolLatch
INVARIANT SioAutoResponse
CHECK_DEADLOCK FALSE
