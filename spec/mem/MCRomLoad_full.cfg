SPECIFICATION Spec
CONSTANTS
  SysLen = 64
  WinStart = 48
  WinLen = 16
  RamStart = 46
  RamLen = 2
  MirStart = 32
  MirEnd = 47
  NoRamEnd = 15
  AddrWrap = 1024
  Impls = {"rs_rt", "rs_mem", "py_mem", "py_emu"}
  MaxDepth = 2
INVARIANT Injective
INVARIANT InsideWindow
INVARIANT TailAligned
INVARIANT ShortImage
INVARIANT PyHead
INVARIANT SystemIdentity
INVARIANT VectorFromImage
INVARIANT Protected
INVARIANT RomImmutable
INVARIANT RamWorks
INVARIANT AliasCanonical
CHECK_DEADLOCK FALSE
