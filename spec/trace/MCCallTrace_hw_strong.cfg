SPECIFICATION Spec
CONSTANTS
  Hw = TRUE
  WellNested = TRUE
  MaxOpen = 5
  MaxIds = 4
  RecordActs = FALSE
INVARIANT DepthIsFrames
INVARIANT FlowsAreIrFrames
CHECK_DEADLOCK FALSE
