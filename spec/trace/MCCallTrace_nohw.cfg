SPECIFICATION Spec
CONSTANTS
  Hw = FALSE
  WellNested = TRUE
  MaxOpen = 5
  MaxIds = 4
  RecordActs = FALSE
INVARIANT TypeOK
INVARIANT DepthIsFrames
INVARIANT FlowsAreIrFrames
INVARIANT FlowIdsFresh
INVARIANT EventsShape
PROPERTY EndClosesInnermost
CHECK_DEADLOCK FALSE
