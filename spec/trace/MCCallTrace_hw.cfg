SPECIFICATION Spec
CONSTANTS
  Hw = TRUE
  WellNested = TRUE
  MaxOpen = 5
  MaxIds = 4
  RecordActs = FALSE
INVARIANT TypeOK
INVARIANT NeverNegative
INVARIANT FlowIdsFresh
INVARIANT FlowStackIsSubsequence
INVARIANT EventsShape
CHECK_DEADLOCK FALSE
