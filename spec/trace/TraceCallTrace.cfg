SPECIFICATION TSpec
CONSTANTS
  Hw = TRUE
  WellNested = FALSE
  MaxOpen = 100000
  MaxIds = 100000
  RecordActs = FALSE
INVARIANT Report
CHECK_DEADLOCK FALSE
