SPECIFICATION Spec
CONSTANTS
  Hw = TRUE
  WellNested = FALSE
  MaxOpen = 6
  MaxIds = 30
  RecordActs = TRUE
INVARIANT NeverNegative
INVARIANT FlowIdsFresh
INVARIANT EventsShape
CHECK_DEADLOCK FALSE
