--------------------------- MODULE TraceCallTrace ---------------------------
(* Recorded runs of the real tracer (PCE500Emulator constructed with tracing   *)
(* on, an observer registered with the global TraceDispatcher) against          *)
(* CallTrace.tla.  One Step event per executed instruction (or delivered        *)
(* hardware interrupt) with the class of the instruction, the function / flow   *)
(* events the observer received during the step and the tracer's three fields   *)
(* afterwards.  Each event takes the action of CallTrace.tla it names; the      *)
(* predicted events and fields are compared with the logged ones; after a       *)
(* mismatch the model continues from the logged fields so that one deviation is *)
(* reported once.  Init starts a fresh machine.                                 *)
EXTENDS CallTrace, Json, IOUtils

TraceLog == ndJsonDeserialize(IOEnv.TRACE_FILE)
VARIABLES l, bad, pending
tvars == <<vars, l, bad, pending>>

TInit == Init /\ l = 1 /\ bad = {} /\ pending = FALSE

SameOut(a, b) == Len(a) = Len(b) /\ \A i \in 1..Len(a) : a[i][1] = b[i][1] /\ a[i][2] = b[i][2]
Clause(e) ==
  IF ~SameOut(out, e.out) THEN "Events"
  ELSE IF depth # e.depth THEN "Depth"
  ELSE IF istack # e.istack THEN "FlowStack"
  ELSE IF nextId # e.next THEN "NextId"
  ELSE "ok"

TNext ==
  \/ /\ ~pending /\ l <= Len(TraceLog) /\ TraceLog[l].ev = "Init"
     /\ depth' = 0 /\ istack' = <<>> /\ nextId' = 1 /\ out' = <<>> /\ real' = <<>> /\ acts' = acts
     /\ l' = l + 1 /\ UNCHANGED <<bad, pending>>
  \/ /\ ~pending /\ l <= Len(TraceLog) /\ TraceLog[l].ev = "Step"
     /\ LET e == TraceLog[l] IN
          CASE e.k = "Call" -> Call
            [] e.k = "Ir" -> Ir
            [] e.k = "Hw" -> HwEnter
            [] e.k = "Ret" -> Ret(e.kind)
            [] OTHER -> Plain
     /\ pending' = TRUE /\ UNCHANGED <<l, bad>>
  \/ /\ pending
     /\ LET e == TraceLog[l]
            c == Clause(e)
        IN /\ bad' = IF c = "ok" THEN bad ELSE bad \cup {[tid |-> e.tid, line |-> l, clause |-> c, detail |-> <<e.k, out, e.out, depth, e.depth, istack, e.istack, nextId, e.next>>]}
           /\ depth' = e.depth /\ istack' = e.istack /\ nextId' = e.next
     /\ l' = l + 1 /\ pending' = FALSE /\ UNCHANGED <<out, real, acts>>

TSpec == TInit /\ [][TNext]_tvars
Done == l = Len(TraceLog) + 1 /\ ~pending
Report == Done => PrintT(<<"BAD", Cardinality(bad), bad>>)
=============================================================================
