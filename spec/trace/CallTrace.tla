------------------------------ MODULE CallTrace ------------------------------
(* The call-stack / interrupt-flow tracer of the Python machine                *)
(* (pce500/emulator.py: PCE500Emulator._trace_control_flow, call_depth,        *)
(* _interrupt_stack, _next_interrupt_id; pce500/tracing/dispatcher.py:         *)
(* TraceDispatcher.begin_function / end_function / begin_flow / end_flow).     *)
(* No listed property talks about it; C07 only demands that it never           *)
(* influences architectural results.  This module says what the tracer itself  *)
(* promises an observer.                                                        *)
(*                                                                              *)
(* Implementation-shaped layer: one action per instruction class the tracer     *)
(* looks at (Call, Ret(kind), Ir, Plain) plus HwEnter, the delivery of a        *)
(* hardware interrupt, which the tracer does NOT see (it emits instants only);  *)
(* state = the tracer's own three fields; `out` = the function / flow events    *)
(* emitted by the step, in order.                                               *)
(* Declarative layer: `real`, a ghost stack of the frames that are really open  *)
(* (call / ir / hw), and the laws an observer would expect:                     *)
(*   DepthIsFrames   call_depth = number of open frames the tracer announced    *)
(*   FlowsAreIrFrames  the open flows are exactly the open IR frames, in order   *)
(*   EndClosesInnermost  a FLOW_END names the flow of the frame that returns     *)
(*   FlowIdsFresh    flow ids are never reused                                   *)
(* With Hw = FALSE (no hardware interrupts) TLC proves all of them for well-     *)
(* nested programs; with Hw = TRUE it refutes the first three (a RETI leaving a  *)
(* hardware handler closes a frame and possibly a flow it never opened) - the    *)
(* configuration MCCallTrace_hw.cfg keeps that counterexample reproducible, and  *)
(* the weaker laws that survive (NeverNegative, FlowStackIsSubsequence,          *)
(* FlowIdsFresh, EventsShape) are checked there.                                 *)
EXTENDS Naturals, Sequences, FiniteSets, TLC

CONSTANTS Hw,          \* may hardware interrupts be delivered
          WellNested,  \* only returns that match the innermost open frame (programs that return properly)
          MaxOpen,     \* bound on open frames
          MaxIds,      \* bound on flow ids handed out
          RecordActs

VARIABLES depth,     \* PCE500Emulator.call_depth
          istack,    \* PCE500Emulator._interrupt_stack (flow ids)
          nextId,    \* PCE500Emulator._next_interrupt_id
          out,       \* events of the latest step: <<kind, arg>> with kind in fb / fe / lb / le
          real,      \* ghost: open frames, innermost last: [k |-> "call" | "ir" | "hw", id |-> flow id or 0]
          acts

vars == <<depth, istack, nextId, out, real, acts>>
Rec(a) == IF RecordActs THEN Append(acts, a) ELSE acts
Last(s) == s[Len(s)]
Front(s) == SubSeq(s, 1, Len(s) - 1)

Init == depth = 0 /\ istack = <<>> /\ nextId = 1 /\ out = <<>> /\ real = <<>> /\ acts = <<>>

Call == /\ Len(real) < MaxOpen
        /\ depth' = depth + 1 /\ out' = << <<"fb", "func">> >>
        /\ real' = Append(real, [k |-> "call", id |-> 0])
        /\ acts' = Rec([ev |-> "Call"]) /\ UNCHANGED <<istack, nextId>>

Ir == /\ Len(real) < MaxOpen /\ nextId <= MaxIds
      /\ depth' = depth + 1 /\ istack' = Append(istack, nextId) /\ nextId' = nextId + 1
      /\ out' = << <<"lb", nextId>>, <<"fb", "int">> >>
      /\ real' = Append(real, [k |-> "ir", id |-> nextId])
      /\ acts' = Rec([ev |-> "Ir"])

\* a hardware interrupt is delivered between two instructions: the tracer emits no function / flow event and keeps its fields
HwEnter == /\ Hw /\ Len(real) < MaxOpen
           /\ real' = Append(real, [k |-> "hw", id |-> 0]) /\ out' = <<>>
           /\ acts' = Rec([ev |-> "Hw"]) /\ UNCHANGED <<depth, istack, nextId>>

Matches(kind, fr) == IF kind = "RETI" THEN fr.k \in {"ir", "hw"} ELSE fr.k = "call"
Ret(kind) == /\ kind \in {"RET", "RETF", "RETI"}
             /\ WellNested => (real # <<>> /\ Matches(kind, Last(real)))
             /\ depth' = IF depth = 0 THEN 0 ELSE depth - 1
             /\ IF kind = "RETI" /\ istack # <<>>
                THEN istack' = Front(istack) /\ out' = << <<"fe", kind>>, <<"le", Last(istack)>> >>
                ELSE istack' = istack /\ out' = << <<"fe", kind>> >>
             /\ real' = IF real = <<>> THEN real ELSE Front(real)
             /\ acts' = Rec([ev |-> "Ret", kind |-> kind]) /\ UNCHANGED nextId

Plain == out' = <<>> /\ acts' = Rec([ev |-> "Plain"]) /\ UNCHANGED <<depth, istack, nextId, real>>

Next == Call \/ Ir \/ HwEnter \/ (\E k \in {"RET", "RETF", "RETI"} : Ret(k)) \/ Plain
Spec == Init /\ [][Next]_vars

\* ------------------------------------------------------------------ laws
Announced == SelectSeq(real, LAMBDA f : f.k # "hw")
IrIds == LET s == SelectSeq(real, LAMBDA f : f.k = "ir") IN [i \in 1..Len(s) |-> s[i].id]
\* strong laws (hold without hardware interrupts for well-nested programs)
DepthIsFrames == depth = Len(Announced)
FlowsAreIrFrames == istack = IrIds
EndClosesInnermost == [][\A i \in 1..Len(out') : out'[i][1] = "le" => (real # <<>> /\ Last(real).k = "ir" /\ Last(real).id = out'[i][2])]_vars
\* laws that hold always
NeverNegative == depth \in Nat
FlowIdsFresh == /\ \A i, j \in 1..Len(istack) : i < j => istack[i] < istack[j]
                /\ \A i \in 1..Len(istack) : istack[i] < nextId
IsSubseq(a, b) == \* a is a subsequence of b (both strictly increasing here)
  \A i \in 1..Len(a) : \E j \in 1..Len(b) : b[j] = a[i]
FlowStackIsSubsequence == IsSubseq(istack, IrIds) \/ ~WellNested
EventsShape == \/ out = <<>>
               \/ (Len(out) = 1 /\ out[1][1] \in {"fb", "fe"})
               \/ (Len(out) = 2 /\ out[1][1] = "lb" /\ out[2][1] = "fb")
               \/ (Len(out) = 2 /\ out[1][1] = "fe" /\ out[2][1] = "le")
TypeOK == depth \in Nat /\ nextId \in Nat /\ Len(real) <= MaxOpen
=============================================================================
