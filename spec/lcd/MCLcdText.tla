----------------------------- MODULE MCLcdText -----------------------------
(* Model-checking instances of LcdText at the real geometry (8 pages x 64    *)
(* columns per chip, 240 x 32 display, 40 x 4 cells): the palettes are small, *)
(* the display is not.                                                        *)
EXTENDS LcdText

\* palette font with every kind of ambiguity the lookup has to resolve
MCFont == << <<32, <<0, 0, 0, 0, 0>> >>,                 \* ' '
             <<33, <<124, 18, 17, 18, 124>> >>,           \* '!'
             <<34, <<3, 109, 110, 109, 3>> >>,            \* the inverse of '!': decodes as '!'
             <<35, <<1, 2, 4, 8, 16>> >>,                 \* '#'
             <<36, <<1, 2, 4, 8, 16>> >>,                 \* duplicate of '#': decodes as '#'
             <<37, <<0, 0, 0, 0, 0>> >>,                  \* blank and not ' ': never entered
             <<38, <<127, 127, 127, 127, 127>> >>,        \* the inverse of ' ': decodes as ' '
             <<39, <<0, 127, 127, 65, 0>> >> >>           \* the pattern of the '[' alias: the font entry wins
\* a 96-glyph font for -simulate (formula patterns, a few planted collisions)
SimPat(i) == IF i = 1 THEN <<0, 0, 0, 0, 0>>
             ELSE IF i = 40 THEN Inv(<<(7 * 37 + 3) % 128, (7 * 11 + 29) % 128, (7 * 53 + 7) % 128, (7 * 19 + 71) % 128, (7 * 101 + 13) % 128>>)   \* inverse of glyph 7
             ELSE IF i = 60 THEN <<0, 0, 0, 0, 0>>
             ELSE IF i = 70 THEN <<0, 40, 108, 108, 40>>                                                                                              \* the up-down arrow alias
             ELSE IF i = 80 THEN <<(12 * 37 + 3) % 128, (12 * 11 + 29) % 128, (12 * 53 + 7) % 128, (12 * 19 + 71) % 128, (12 * 101 + 13) % 128>>      \* duplicate of glyph 12
             ELSE <<(i * 37 + 3) % 128, (i * 11 + 29) % 128, (i * 53 + 7) % 128, (i * 19 + 71) % 128, (i * 101 + 13) % 128>>
SimFont == [i \in 1..96 |-> <<31 + i, SimPat(i)>>]

ASSUME PrintT(<<"FONT", FontGlyphs>>)

Junk == <<5, 5, 5, 5, 5>>
Hi(p) == [j \in 1..5 |-> p[j] + 128]                    \* the same glyph with the (ignored) eighth row inked
PatsSmall == {MCFont[2][2], MCFont[3][2], MCFont[4][2], Junk, Hi(MCFont[2][2])}
Pats == PatsSmall \cup {MCFont[i][2] : i \in 1..8} \cup {<<0, 40, 108, 108, 40>>, <<0, 65, 127, 127, 0>>}
\* cells in each of the four segments, the two cells that straddle a chip boundary (k = 10: x 60..65, k = 29: x 174..179),
\* the cells next to the left-chip fold at x = 120, the last cell
CellsSmall == {<<0, 0>>, <<1, 10>>, <<2, 20>>, <<3, 29>>, <<3, 39>>}
CellsMore == CellsSmall \cup {<<0, 19>>, <<2, 9>>, <<1, 28>>, <<3, 30>>, <<0, 11>>}
Lines == {0, 8, 3}
WatchCols == {0, 9, 10, 11, 19, 20, 28, 29, 30, 39}

OnState == [c \in Chips |-> [on |-> TRUE, busy |-> TRUE, start |-> 0, page |-> 0, y |-> 0]]
\* the same machine after the firmware has switched both chips on (history says so)
TInitOn ==
  /\ st = OnState
  /\ vram = [c \in Chips |-> [p \in 0..Pages-1 |-> [x \in 0..Width-1 |-> 0]]]
  /\ ret = -1 /\ depth = 0
  /\ shadow = [c \in Cells |-> BlankPat]
  /\ acts = IF RecordActs THEN << [ev |-> "OnOff", cs |-> 0, on |-> 1, ws |-> << <<8192, 63>> >>] >> ELSE <<>>
TInitBoth == TInit \/ TInitOn

NextOf(CS, PS) ==
  \/ \E c \in CS, p \in PS : PutGlyph(c[1], c[2], p)
  \/ \E c \in CS : ClearCell(c[1], c[2])
  \/ \E cs \in {4, 8}, l \in Lines : Scroll(cs, l)
  \/ \E cs \in {0, 4, 8}, on \in {0, 1} : OnOff(cs, on)
  \/ \E p \in {0, 5}, col \in {56, 63} : Poke(p, col, 255)
CellsTiny == {<<0, 0>>, <<1, 10>>, <<3, 29>>}
PatsTiny == {MCFont[2][2], MCFont[3][2], Junk}
SpecTiny == TInitBoth /\ [][NextOf(CellsTiny, PatsTiny)]_tvars
SpecSmall == TInitBoth /\ [][NextOf(CellsSmall, PatsSmall)]_tvars
SpecMore == TInitBoth /\ [][NextOf(CellsMore, Pats)]_tvars

\* The coverage run also takes single raw Lcd!Write steps (all chip selects, instruction and data, a read address) and checks
\* that the function WStep, out of which every cell-level action is folded, is Lcd!Write.  (Raw writes bypass `shadow`, so
\* this specification is not the one ShadowShown is checked on.)
RawAddrs == {8192, 8192 + 2, 8192 + 4, 8192 + 10, 8192 + 12, 8192 + 7, 40960 + 6}
RawVals == {63, 64 + 63, 184 + 5, 192 + 9, 165}
RawWrite(a, v) == Write(a, v) /\ UNCHANGED shadow
SpecCov == TInitBoth /\ [][NextOf(CellsSmall, PatsSmall) \/ \E a \in RawAddrs, v \in RawVals : RawWrite(a, v)]_tvars
WriteIsWStep == [][\A a \in RawAddrs, v \in RawVals :
                     Write(a, v) => LET s2 == WStep([st |-> st, vram |-> vram], a, v) IN st' = s2.st /\ vram' = s2.vram]_tvars

\* -simulate: any cell, any glyph of the 96-glyph font (plain, inverse video, eighth row inked) or junk, any start line.
\* TLC's simulator enumerates every successor before it picks one, so the parameters are drawn with RandomElement (seeded
\* by -seed) inside each disjunct: one successor per kind of action.
R(S) == {RandomElement(S)}        \* bound once by the quantifier below
NextSim ==
  \/ \E t \in R(0..3), k \in R(0..39), i \in R(1..96) : PutGlyph(t, k, SimPat(i))
  \/ \E t \in R(0..3), k \in R({0, 9, 10, 11, 19, 20, 28, 29, 30, 39}), i \in R(1..96) : PutGlyph(t, k, SimPat(i))
  \/ \E t \in R(0..3), k \in R(0..39), i \in R(1..96) : PutGlyph(t, k, Inv(SimPat(i)))
  \/ \E t \in R(0..3), k \in R(0..39), i \in R(1..96) : PutGlyph(t, k, Hi(SimPat(i)))
  \/ \E t \in R(0..3), k \in R(0..39), p \in R({Junk, <<0, 40, 108, 108, 0>>, <<0, 65, 127, 127, 0>>}) : PutGlyph(t, k, p)
  \/ \E t \in R(0..3), k \in R(0..39) : ClearCell(t, k)
  \/ \E cs \in R({0, 4, 8}), l \in R(0..63) : Scroll(cs, l)
  \/ \E cs \in R({0, 4, 8}), l \in R({0, 8, 16, 32}) : Scroll(cs, l)
  \/ \E cs \in R({0, 4, 8}), on \in R({0, 1}) : OnOff(cs, on)
  \/ \E p \in R(0..7), col \in R(56..63), v \in R({1, 127, 255}) : Poke(p, col, v)
SpecSim == TInitBoth /\ [][NextSim]_tvars

Watched == WatchedPixelsDecodeTheSame(WatchCols)
=============================================================================
