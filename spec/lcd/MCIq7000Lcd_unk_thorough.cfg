SPECIFICATION Spec
CONSTANTS
  Kind = "unknown"
  MaxDepth = 4
  RecordActs = FALSE
INVARIANT TypeOK
INVARIANT GlassShowsVram
PROPERTY WriteTouchesOneCell
PROPERTY ReadExportArePure
PROPERTY LoadRestores
PROPERTY RefusedLoadKeeps
CHECK_DEADLOCK FALSE
