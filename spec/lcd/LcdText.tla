------------------------------ MODULE LcdText ------------------------------
(* The PC-E500 display TEXT decoder, as a refinement layer on top of the     *)
(* HD61202 pair (Lcd.tla, property C15) and the VRAM-bit -> pixel function   *)
(* (PixelMap.tla).                                                            *)
(*                                                                            *)
(* Code modelled                                                              *)
(*   pce500/display/text_decoder.py : decode_display_text                     *)
(*   pce500/display/font.py         : _looks_like_jp_font, _font_lookup,      *)
(*                                    font_reverse_lookup                     *)
(*   pce500/display/controller_wrapper.py : HD61202Controller.get_display_buffer *)
(*   sc62015/core/src/lcd_text.rs   : Pce500FontMap::from_rom,               *)
(*                                    Pce500FontMap::from_pce500_rom,         *)
(*                                    insert_pce500_pattern, decode_display_text *)
(*   sc62015/core/src/pce500.rs     : pce500_font_map_from_rom,               *)
(*                                    ROM_ENGLISH_FONT_BASE_ADDR, ROM_JP_FONT_ATLAS_BASE_ADDR *)
(*   sc62015/core/src/lcd.rs        : LcdController::display_buffer / copy_region *)
(*                                                                            *)
(* Layers (each one checked against the one below by TLC):                    *)
(*   PixelMap!RefPixels     VRAM bit -> pixel (start line 0, both chips on)   *)
(*   Src                    pixel -> VRAM bit, walking the four segments the  *)
(*                          way both implementations do, with the start line  *)
(*                          (law SrcRefinesPixelMap: inverse of RefPixels)    *)
(*   VB / RowBytes          the same picture as one ink byte per display      *)
(*                          column and text row (laws VBIsPixels,             *)
(*                          RowViewIsCellView)                                *)
(*   Glyphs / Cand / FontMap  ROM bytes -> labelled glyphs -> pattern lookup  *)
(*                          (law FontLaw: how ambiguous glyphs resolve)       *)
(*   TextOf / TextVram      40 x 4 cells of 6 x 8 pixels -> text lines        *)
(*   the state machine      PutGlyph / ClearCell / Scroll / OnOff / Poke,     *)
(*                          each a sequence of Lcd writes (WStep = Lcd!Write  *)
(*                          as a function), with the intended screen `shadow` *)
(* The laws are stated here as operators and ASSUMEd in LcdTextLaws.tla, so   *)
(* that the judges, which only use the operators, do not pay for them on      *)
(* every start.                                                               *)
(*                                                                            *)
(* Ink polarity: both decoders set bit dy of a cell column when the display   *)
(* buffer holds 0 there, and both display buffers hold 0 where the VRAM bit   *)
(* is 1 - so a glyph column byte IS the VRAM byte (modulo the start line).    *)
(*                                                                            *)
(* Profiles.  The two display buffers differ in two documented ways; the      *)
(* reference reading HW applies the start line and honours display-off (an    *)
(* off chip shows as a solid block: buffer 0 = ink, which every font resolves *)
(* through the inverse-video entry of its space glyph).  NoStart is the       *)
(* Python buffer (start line ignored), NoOnOff the Rust buffer (on/off        *)
(* ignored).  NeutralProfilesAgree says when they must coincide.              *)
(*                                                                            *)
(* Left out: the perfetto LcdCharMatcher (streaming glyph detector), PC       *)
(* provenance of VRAM bytes, the IQ-7000 text decoders, Python's font caches  *)
(* (_FONT_LOOKUP_CACHE is keyed by id(memory) and 15 ROM bytes - probed by    *)
(* the check module, not modelled), glyph_columns/text_columns/glyph_bitmap.  *)
EXTENDS Lcd, FiniteSetsExt, SequencesExt

PM == INSTANCE PixelMap WITH dummy <- 0

CONSTANT FontGlyphs      \* the font of the state machine: sequence of <<char code, <<c1..c5>>>> in table order

\* ------------------------------------------------------------------ geometry
DW == 240                 \* display columns
TextRows == 4
TextCols == 40
CellW == 6                \* 5 glyph columns + 1 spacer
GlyphW == 5
P2 == <<1, 2, 4, 8, 16, 32, 64, 128, 256>>
Pow2(k) == P2[k + 1]
Bit(b, k) == (b \div Pow2(k)) % 2

\* which chip column feeds display column x: <<chip, column, lower half (pages 4..7, walked right-to-left)>>
Seg(x) == IF x < 64 THEN <<1, x, FALSE>>
          ELSE IF x < 120 THEN <<0, x - 64, FALSE>>
          ELSE IF x < 176 THEN <<0, 55 - (x - 120), TRUE>>
          ELSE <<1, 63 - (x - 176), TRUE>>
SegTab == [x \in 0..DW-1 |-> Seg(x)]

\* the VRAM bit <<chip, page, column, bit>> shown at pixel (x, y) when chip c scrolls by e[c].start lines
Src(x, y, e) ==
  LET s == SegTab[x]
      r == (y + (IF s[3] THEN 32 ELSE 0) + e[s[1]].start) % 64
  IN <<s[1], r \div 8, s[2], r % 8>>
Zero == [c \in Chips |-> [on |-> TRUE, start |-> 0]]

SrcRefinesPixelMap ==             \* (law, checked by LcdTextLaws) at start line 0 the segment walk is the inverse of PixelMap's reference map
  /\ \A v \in PM!Bits : \A px \in PM!RefPixels(v) : Src(px % DW, px \div DW, Zero) = v
  /\ \A x \in 0..DW-1, y \in 0..31 : (x + DW * y) \in PM!RefPixels(Src(x, y, Zero))

\* ------------------------------------------------------------------ profiles and the picture
HW      == [start |-> TRUE,  onoff |-> TRUE]
NoStart == [start |-> FALSE, onoff |-> TRUE]      \* pce500 HD61202Controller.get_display_buffer
NoOnOff == [start |-> TRUE,  onoff |-> FALSE]     \* sc62015-core LcdController::display_buffer
Eff(s, prof) == [c \in Chips |-> [on |-> s[c].on \/ ~prof.onoff, start |-> IF prof.start THEN s[c].start ELSE 0]]
OffByte == 255

\* pixel level: ink (1) or not (0) at pixel (x, y)
InkPix(vr, e, x, y) ==
  IF ~e[SegTab[x][1]].on THEN 1
  ELSE LET v == Src(x, y, e) IN Bit(vr[v[1]][v[2]][v[3]], v[4])

\* byte level: the eight pixels of display column x in text row t (bit dy = pixel row 8t+dy) - what
\* LcdController::display_vram_bytes / copy_vram_region compute
VB(vr, e, x, t) ==
  LET s == SegTab[x]
      c == s[1]
      r == (8 * t + (IF s[3] THEN 32 ELSE 0) + e[c].start) % 64
      p == r \div 8
      k == r % 8
  IN IF ~e[c].on THEN OffByte
     ELSE IF k = 0 THEN vr[c][p][s[2]]
     ELSE (vr[c][p][s[2]] \div Pow2(k)) + (vr[c][(p + 1) % 8][s[2]] % Pow2(k)) * Pow2(8 - k)

TestVram == [c \in Chips |-> [p \in 0..7 |-> [x \in 0..63 |-> (c * 131 + p * 37 + x * 11 + ((p * x) % 7) + 5 * ((x * x) % 13)) % 256]]]
TestEff(a, b, on0, on1) == [c \in Chips |-> [on |-> IF c = 0 THEN on0 ELSE on1, start |-> IF c = 0 THEN a ELSE b]]
VBIsPixels ==                     \* (law) the byte view is the pixel view, for aligned and unaligned start lines and off chips
  \A ab \in {<<0, 0>>, <<8, 8>>, <<3, 61>>, <<63, 29>>, <<40, 0>>}, on \in {<<TRUE, TRUE>>, <<FALSE, TRUE>>} :
    LET e == TestEff(ab[1], ab[2], on[1], on[2]) IN
    \A x \in 0..DW-1, t \in 0..TextRows-1, dy \in 0..7 : Bit(VB(TestVram, e, x, t), dy) = InkPix(TestVram, e, x, 8 * t + dy)

\* ------------------------------------------------------------------ font: ROM bytes -> labelled glyphs -> lookup
\* `rom` is the slice of the ROM image that starts at the Japanese atlas base (0xF21A5) and is 256 x 6 bytes long;
\* the English table (0xF2215, 96 x 6 bytes) lies inside it.
AtlasBase == 991653            \* 0xF21A5  ROM_JP_FONT_ATLAS_BASE_ADDR / JP_FONT_ATLAS_BASE
EnglishBase == 991765          \* 0xF2215  ROM_ENGLISH_FONT_BASE_ADDR / FONT_BASE
SentinelA == 992043            \* 0xF232B
SentinelWo == 992649           \* 0xF2589
RomAt(rom, a) == LET i == a - AtlasBase + 1 IN IF i >= 1 /\ i <= Len(rom) THEN rom[i] ELSE 0
PatAt(rom, a) == [k \in 1..GlyphW |-> RomAt(rom, a + k - 1) % 128]
LooksJp(rom) == PatAt(rom, SentinelA) = <<124, 18, 17, 18, 124>> /\ PatAt(rom, SentinelWo) = <<10, 74, 74, 42, 30>>
EnglishGlyphs(rom) == [i \in 1..96 |-> <<31 + i, PatAt(rom, EnglishBase + CellW * (i - 1))>>]
JpCodes == [i \in 1..95 |-> 31 + i] \o [i \in 1..63 |-> 160 + i] \o <<232, 236, 239>>
JpChar(code) == IF code <= 126 THEN code
                ELSE IF code <= 223 THEN 65377 + (code - 161)        \* U+FF61.. half-width katakana
                ELSE IF code = 232 THEN 10035 ELSE IF code = 236 THEN 9679 ELSE 47
JpGlyphs(rom) == [i \in 1..Len(JpCodes) |-> <<JpChar(JpCodes[i]), PatAt(rom, AtlasBase + CellW * JpCodes[i])>>]
\* what the product entry points do (font_reverse_lookup / pce500_font_map_from_rom); Pce500FontMap::from_rom with the
\* English base is EnglishGlyphs whatever the sentinels say
AutoGlyphs(rom) == IF LooksJp(rom) THEN JpGlyphs(rom) ELSE EnglishGlyphs(rom)

Inv(p) == [k \in 1..GlyphW |-> 127 - p[k]]
Blank(p) == \A k \in 1..GlyphW : p[k] = 0
Aliases == << <<8597, <<0, 40, 108, 108, 40>> >>, <<8597, <<0, 40, 108, 108, 0>> >>,
              <<91, <<0, 127, 127, 65, 0>> >>, <<93, <<0, 65, 127, 127, 0>> >> >>
\* blank glyphs are not entered, except under the label ' '
Kept(gl) == SelectSeq(gl \o Aliases, LAMBDA g : ~Blank(g[2]) \/ g[1] = 32)
\* insertion order: glyph 1, its inverse, glyph 2, its inverse, ...; the first entry of a pattern wins
Cand(gl) == LET K == Kept(gl) IN
  [n \in 1..2 * Len(K) |-> IF n % 2 = 1 THEN <<K[(n + 1) \div 2][2], K[(n + 1) \div 2][1]>> ELSE <<Inv(K[n \div 2][2]), K[n \div 2][1]>>]
FontMap(gl) == LET C == Cand(gl) IN
  [p \in {C[n][1] : n \in DOMAIN C} |-> C[Min({n \in DOMAIN C : C[n][1] = p})][2]]
Unknown == 63                  \* '?'
Resolve(fm, p) == IF p \in DOMAIN fm THEN fm[p] ELSE Unknown

\* font.py keeps the labelled glyphs in a dict keyed by the label: a later visible glyph with the same label replaces
\* the earlier one's pattern (Japanese layout: '/' at 0x2F and at 0xEF).  Alternative reading "dictlabels".
DictGlyphs(gl) ==
  LET V == SelectSeq(gl, LAMBDA g : ~Blank(g[2]) \/ g[1] = 32)
      first(i) == \A j \in 1..(i - 1) : V[j][1] # V[i][1]
      lastOf(i) == Max({j \in DOMAIN V : V[j][1] = V[i][1]})
      idx == SetToSortSeq({i \in DOMAIN V : first(i)}, <)
  IN [n \in DOMAIN idx |-> <<V[idx[n]][1], V[lastOf(idx[n])][2]>>]

\* the ambiguity law: a kept glyph decodes to the label of the first kept glyph that has the same pattern or the inverse
FontLaw(gl) == LET K == Kept(gl)  fm == FontMap(gl) IN
  \A i \in DOMAIN K : Resolve(fm, K[i][2]) = K[Min({j \in DOMAIN K : K[j][2] = K[i][2] \/ Inv(K[j][2]) = K[i][2]})][1]
                      /\ Resolve(fm, Inv(K[i][2])) = K[Min({j \in DOMAIN K : K[j][2] = Inv(K[i][2]) \/ K[j][2] = K[i][2]})][1]

\* ------------------------------------------------------------------ decoding
RStrip(s) == SubSeq(s, 1, Max({0} \cup {i \in DOMAIN s : s[i] # 32}))
\* B(x, t) is the ink byte at display column x, text row t; only 7 rows and 5 columns of a cell are looked at
CellPat(B(_, _), t, k) == [j \in 1..GlyphW |-> B(CellW * k + j - 1, t) % 128]
TextOf(B(_, _), fm) == [t \in 1..TextRows |-> RStrip([k \in 1..TextCols |-> Resolve(fm, CellPat(B, t - 1, k - 1))])]

\* the same, one text row at a time (what TLC evaluates: VB's page / shift are computed once per row and segment kind)
RowParams(e, t) == [c \in Chips |-> [lw \in BOOLEAN |-> LET r == (8 * t + (IF lw THEN 32 ELSE 0) + e[c].start) % 64 IN <<r \div 8, r % 8>>]]
RowBytes(vr, e, t) ==                 \* [x \in 0..239 |-> VB(vr, e, x, t)]
  LET rp == RowParams(e, t) IN
  [x \in 0..DW-1 |->
     LET s == SegTab[x]
         c == s[1]
         pk == rp[c][s[3]]
     IN IF ~e[c].on THEN OffByte
        ELSE IF pk[2] = 0 THEN vr[c][pk[1]][s[2]]
        ELSE (vr[c][pk[1]][s[2]] \div Pow2(pk[2])) + (vr[c][(pk[1] + 1) % 8][s[2]] % Pow2(pk[2])) * Pow2(8 - pk[2])]
LineOfRow(row, off, fm) ==            \* row[off + x] is the ink byte of display column x
  RStrip([k \in 1..TextCols |-> Resolve(fm, [j \in 1..GlyphW |-> row[off + CellW * (k - 1) + j - 1] % 128])])
TextVram(vr, s, prof, fm) == LET e == Eff(s, prof) IN [t \in 1..TextRows |-> LineOfRow(RowBytes(vr, e, t - 1), 0, fm)]
TextImage(img, fm) == [t \in 1..TextRows |-> LineOfRow(img[t], 1, fm)]          \* img: 4 rows of 240 ink bytes (JSON)
ImageVram(vr, s, prof) == LET e == Eff(s, prof) IN [t \in 1..TextRows |-> LET rb == RowBytes(vr, e, t - 1) IN [x \in 1..DW |-> rb[x - 1]]]

RowViewIsCellView ==                  \* (law) the row-at-a-time operators are the cell-at-a-time definitions
  \A ab \in {<<0, 0>>, <<3, 61>>, <<40, 8>>}, on \in {<<TRUE, TRUE>>, <<TRUE, FALSE>>} :
    LET e == TestEff(ab[1], ab[2], on[1], on[2])
        fm == FontMap(<< <<32, <<0, 0, 0, 0, 0>> >>, <<65, <<TestVram[1][0][0] % 128, TestVram[1][0][1] % 128, TestVram[1][0][2] % 128, TestVram[1][0][3] % 128, TestVram[1][0][4] % 128>> >> >>)
    IN /\ \A t \in 0..TextRows-1 : RowBytes(TestVram, e, t) = [x \in 0..DW-1 |-> VB(TestVram, e, x, t)]
       /\ [t \in 1..TextRows |-> LineOfRow(RowBytes(TestVram, e, t - 1), 0, fm)] = TextOf(LAMBDA x, t : VB(TestVram, e, x, t), fm)
       /\ TextImage([t \in 1..TextRows |-> [x \in 1..DW |-> VB(TestVram, e, x - 1, t - 1)]], fm) = TextOf(LAMBDA x, t : VB(TestVram, e, x, t), fm)

\* ------------------------------------------------------------------ the write protocol as a function (Lcd!Write without bookkeeping)
WStep(s, addr, v) ==
  LET sel == IF IsRead(addr) \/ ~InWindow(addr) THEN {} ELSE Selected(addr) IN
  IF IsData(addr)
  THEN [st |-> [c \in Chips |-> IF c \in sel THEN ChipDataWrite(s.st[c]) ELSE s.st[c]],
        vram |-> [c \in Chips |-> IF c \in sel THEN [s.vram[c] EXCEPT ![s.st[c].page][s.st[c].y] = v] ELSE s.vram[c]]]
  ELSE [st |-> [c \in Chips |-> IF c \in sel THEN ChipInstr(s.st[c], v) ELSE s.st[c]], vram |-> s.vram]
RECURSIVE Apply(_, _, _)
Apply(s, ws, i) == IF i > Len(ws) THEN s ELSE Apply(WStep(s, ws[i][1], ws[i][2]), ws, i + 1)

\* how a firmware puts six columns into cell (t, k): per chip involved, set page, set Y to the lowest chip column,
\* then data writes in ascending chip-column order (in the mirrored lower half that is right-to-left on the glass)
CsOf(c) == IF c = 0 THEN 8 ELSE 4
ColVal(pat, x, k) == IF x - CellW * k < GlyphW THEN pat[x - CellW * k + 1] ELSE 0
ChipPart(c, t, k, pat) ==
  LET xs == {x \in (CellW * k)..(CellW * k + CellW - 1) : SegTab[x][1] = c} IN
  IF xs = {} THEN <<>>
  ELSE LET lower == SegTab[CHOOSE x \in xs : TRUE][3]
           lo == Min({SegTab[x][2] : x \in xs})
           xOf(col) == CHOOSE x \in xs : SegTab[x][2] = col
       IN << <<8192 + CsOf(c), 184 + t + (IF lower THEN 4 ELSE 0)>>, <<8192 + CsOf(c), 64 + lo>> >>
          \o [i \in 1..Cardinality(xs) |-> <<8192 + CsOf(c) + 2, ColVal(pat, xOf(lo + i - 1), k)>>]
PutWrites(t, k, pat) == ChipPart(1, t, k, pat) \o ChipPart(0, t, k, pat)

\* ------------------------------------------------------------------ state machine
VARIABLE shadow            \* [<<t, k>> -> pattern]: what the firmware meant to show in each cell
tvars == <<vars, shadow>>
Cells == (0..TextRows-1) \X (0..TextCols-1)
BlankPat == <<0, 0, 0, 0, 0>>
MFont == FontMap(FontGlyphs)
Text(prof) == TextVram(vram, st, prof, MFont)

\* the text under the three readings (history only); where NeutralProfilesAgree says two readings coincide it is computed once
TextsOf(vr, s) == LET hw == TextVram(vr, s, HW, MFont) IN
         <<hw, IF \A c \in Chips : s[c].start = 0 THEN hw ELSE TextVram(vr, s, NoStart, MFont), IF \A c \in Chips : s[c].on THEN hw ELSE TextVram(vr, s, NoOnOff, MFont)>>
\* Behaviours for the spec -> code replay are emitted, not dumped (a state holds 1024 VRAM bytes), one line per state of a
\* RecordActs run: the history so far (event, arguments, the write sequence) and what the glass reads after it.  The history is
\* part of the state, so every path is emitted once; the check module reassembles complete behaviours from the prefixes.
Emit == (RecordActs /\ acts # <<>>) =>
          PrintT(<<"STEP", ToString(acts), ToString(TextsOf(vram, st)), [c \in Chips |-> st[c].on], [c \in Chips |-> st[c].start]>>)

TInit == Init /\ shadow = [c \in Cells |-> BlankPat]

Do(a, ws) ==
  /\ depth < MaxDepth
  /\ LET s2 == Apply([st |-> st, vram |-> vram], ws, 1) IN
     /\ st' = s2.st /\ vram' = s2.vram
     /\ acts' = IF RecordActs THEN Append(acts, a @@ [ws |-> ws]) ELSE acts
  /\ ret' = -1 /\ depth' = depth + 1

PutGlyph(t, k, pat) == Do([ev |-> "Put", t |-> t, k |-> k, pat |-> pat], PutWrites(t, k, pat))
                       /\ shadow' = [shadow EXCEPT ![<<t, k>>] = [j \in 1..GlyphW |-> pat[j] % 128]]
ClearCell(t, k) == Do([ev |-> "Clear", t |-> t, k |-> k], PutWrites(t, k, BlankPat)) /\ shadow' = [shadow EXCEPT ![<<t, k>>] = BlankPat]
Scroll(cs, line) == Do([ev |-> "Scroll", cs |-> cs, line |-> line], << <<8192 + cs, 192 + line>> >>) /\ UNCHANGED shadow     \* cs: 0 both, 4 right, 8 left
OnOff(cs, on) == Do([ev |-> "OnOff", cs |-> cs, on |-> on], << <<8192 + cs, 62 + on>> >>) /\ UNCHANGED shadow
\* a byte in the eight left-chip columns that no segment shows
Poke(p, col, v) == Do([ev |-> "Poke", p |-> p, col |-> col, v |-> v], << <<8192 + 8, 184 + p>>, <<8192 + 8, 64 + col>>, <<8192 + 10, v>> >>) /\ UNCHANGED shadow

\* ------------------------------------------------------------------ properties
Neutral == \A c \in Chips : st[c].on /\ st[c].start = 0
\* refinement: with both chips on and unscrolled the glass shows exactly the intended screen - the glyph that was put is
\* shown in its cell (as the font resolves it), and no other cell changed
ShadowShown == Neutral => Text(HW) = [t \in 1..TextRows |-> RStrip([k \in 1..TextCols |-> Resolve(MFont, shadow[<<t - 1, k - 1>>])])]
\* the three readings of the display buffer coincide where they must
NeutralProfilesAgree ==
  /\ (\A c \in Chips : st[c].on) => Text(HW) = Text(NoOnOff)
  /\ (\A c \in Chips : st[c].start = 0) => Text(HW) = Text(NoStart)
\* the text is a function of the visible picture: decoding the pixels that PixelMap's refinement Src shows (at any
\* start line, any on/off state) gives the text the byte walk gives; evaluated on the cells of WatchCols
WatchedPixelsDecodeTheSame(W) ==
  LET e == Eff(st, HW)
      PB(x, t) == LET b == [dy \in 0..7 |-> InkPix(vram, e, x, 8 * t + dy)] IN
                  b[0] + 2 * b[1] + 4 * b[2] + 8 * b[3] + 16 * b[4] + 32 * b[5] + 64 * b[6] + 128 * b[7]
  IN \A t \in 0..TextRows-1, k \in W :
       Resolve(MFont, CellPat(PB, t, k)) = Resolve(MFont, CellPat(LAMBDA x, tt : VB(vram, e, x, tt), t, k))
ShadowType == \A c \in Cells : \A j \in 1..GlyphW : shadow[c][j] \in 0..127
=============================================================================
