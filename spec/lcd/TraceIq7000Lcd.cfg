SPECIFICATION TSpec
CONSTANTS
  Kind = "iq7000-vram"
  MaxDepth = 0
  RecordActs = FALSE
INVARIANT Report
CHECK_DEADLOCK FALSE
