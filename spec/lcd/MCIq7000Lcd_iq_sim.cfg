SPECIFICATION Spec
CONSTANTS
  Kind = "iq7000-vram"
  MaxDepth = 14
  RecordActs = TRUE
INVARIANT TypeOK
INVARIANT Emit
CHECK_DEADLOCK FALSE
