SPECIFICATION SpecTiny
CONSTANTS
  Pages = 8
  Width = 64
  MaxDepth = 2
  RecordActs = TRUE
  FontGlyphs <- MCFont
INVARIANT Emit
CHECK_DEADLOCK FALSE
