SPECIFICATION SpecMore
CONSTANTS
  Pages = 8
  Width = 64
  MaxDepth = 2
  RecordActs = FALSE
  FontGlyphs <- MCFont
INVARIANT TypeOK
INVARIANT ShadowType
INVARIANT ShadowShown
INVARIANT NeutralProfilesAgree
INVARIANT Watched
CHECK_DEADLOCK FALSE
