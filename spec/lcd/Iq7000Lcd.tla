----------------------------- MODULE Iq7000Lcd -----------------------------
(* The display of the second device profile (IQ-7000): a RAM-backed VRAM of  *)
(* 8 pages x 96 columns behind two address windows, and - as the degenerate   *)
(* instance - the placeholder controller of an unknown display.               *)
(*                                                                            *)
(* Code modelled (sc62015/core/src/lcd.rs, Rust only - there is no Python     *)
(* counterpart):                                                              *)
(*   Iq7000LcdController::decode_vram_addr, and its LcdHal impl: handles,     *)
(*     read, write, read_placeholder, reset, display_buffer,                  *)
(*     display_vram_bytes, export_snapshot, load_snapshot                     *)
(*   UnknownLcdController's LcdHal impl (Kind = "unknown")                    *)
(*   LcdKind::parse / as_str, lcd_kind_from_snapshot_meta, create_lcd,        *)
(*     overlay_addr                                                           *)
(*                                                                            *)
(* Address decoding: the address is taken modulo 2^24; window A 0x4000-0x41FF *)
(* holds pages 0..3, window B 0x6000-0x61FF pages 4..7; inside a window the   *)
(* page stride is 0x80 and only the first 0x60 bytes of a stride are backed   *)
(* (the rest is claimed by handles() but dropped by write()).  Reads never    *)
(* return a value (the bytes live in RAM).  The glass: VRAM column c shows at  *)
(* x = 95 - c, pages 0..3 at x 0..95 and pages 4..7 side by side at           *)
(* x 120..215, bit 7 of a byte is the TOP pixel of its band, a set bit is a    *)
(* lit pixel (no inversion, unlike the HD61202 buffer).                       *)
(* A snapshot is the kind name plus the 768 bytes page by page; load accepts  *)
(* it only when the kind (default: the controller's own) and the length       *)
(* match, and leaves the VRAM alone otherwise.                                *)
(*                                                                            *)
(* Left out: the write provenance (vram_trace, display_write_capture), the    *)
(* perfetto glyph matcher, chip_display_buffer (constant zero), stats         *)
(* (constant default), UnknownLcdController.write_count (not observable).     *)
EXTENDS Integers, Sequences, FiniteSets, TLC

CONSTANTS Kind,            \* "iq7000-vram" | "unknown"
          MaxDepth, RecordActs

IQ == "iq7000-vram"
UNK == "unknown"
HD == "hd61202"
Cols == 96
Stride == 128
PagesPerBuf == 4
TotalPages == 2 * PagesPerBuf
WinA == 16384              \* 0x4000
WinB == 24576              \* 0x6000
WinLen == PagesPerBuf * Stride
Mask24(a) == a % 16777216

\* ---- pure functions of the address (kind as a parameter, so that the trace specification can serve both kinds)
InWin(a, base) == a >= base /\ a < base + WinLen
Handles(kind, addr) ==
  LET a == Mask24(addr) IN
  IF kind = IQ THEN InWin(a, WinA) \/ InWin(a, WinB)
  ELSE (a >= 8192 /\ a <= 12287) \/ (a >= 40960 /\ a <= 45055)
Decode(kind, addr) ==      \* <<page, column>> or <<>>
  LET a == Mask24(addr)
      base == IF InWin(a, WinA) THEN WinA ELSE WinB
      off == a - base
  IN IF kind # IQ \/ ~(InWin(a, WinA) \/ InWin(a, WinB)) THEN <<>>
     ELSE IF off % Stride >= Cols THEN <<>>
     ELSE <<(off \div Stride) + (IF base = WinA THEN 0 ELSE PagesPerBuf), off % Stride>>
ReadValue(kind, addr) == IF kind = UNK /\ Handles(kind, addr) /\ addr % 2 = 1 THEN 255 ELSE -1
Placeholder(kind, addr) == IF kind = UNK /\ Handles(kind, addr) /\ addr % 2 = 1 THEN 255 ELSE 0
PayloadLen(kind) == IF kind = IQ THEN TotalPages * Cols ELSE 0

\* ---- kinds
ParseKind(s) == IF s \in {HD, IQ, UNK} THEN s ELSE UNK           \* after trimming white space (done by the caller of this operator)
KindOfMeta(hasKind, s, default) == IF hasKind THEN ParseKind(s) ELSE default
LoadOk(kind, hasKind, s, len) == KindOfMeta(hasKind, s, kind) = kind /\ len = PayloadLen(kind)
OverlayAddr(off) == 8192 + (off % 4096)

\* ---- the glass
ZeroVram == [p \in 0..TotalPages-1 |-> [c \in 0..Cols-1 |-> 0]]
Rev8(b) == LET bit(k) == (b \div (2 ^ k)) % 2 IN
           128 * bit(0) + 64 * bit(1) + 32 * bit(2) + 16 * bit(3) + 8 * bit(4) + 4 * bit(5) + 2 * bit(6) + bit(7)
\* display_buffer as bytes: band t (rows 8t..8t+7, bit dy = row 8t+dy), display column x
Disp(kind, vr, t, x) ==
  IF kind # IQ THEN 0
  ELSE IF x < Cols THEN Rev8(vr[t][Cols - 1 - x])
  ELSE IF x >= 120 /\ x < 120 + Cols THEN Rev8(vr[t + PagesPerBuf][Cols - 1 - (x - 120)])
  ELSE 0
\* display_vram_bytes: page p, display column x
VBytes(kind, vr, p, x) == IF kind = IQ /\ x < Cols THEN vr[p][Cols - 1 - x] ELSE 0
\* pixel <<x, y>> lit by VRAM bit <<page, column, bit>>
PixelOf(p, c, b) == <<(IF p < PagesPerBuf THEN 0 ELSE 120) + Cols - 1 - c, (p % PagesPerBuf) * 8 + (7 - b)>>

ASSUME DecodeIsBijection ==      \* the backed addresses of the two windows are exactly the 768 cells, each once
  LET W == (WinA..(WinA + WinLen - 1)) \cup (WinB..(WinB + WinLen - 1))
      D == {a \in W : Decode(IQ, a) # <<>>}
  IN /\ Cardinality(D) = TotalPages * Cols
     /\ {Decode(IQ, a) : a \in D} = (0..TotalPages-1) \X (0..Cols-1)
     /\ \A a \in W : Handles(IQ, a)
     /\ \A a \in {WinA - 1, WinA + WinLen, WinB - 1, WinB + WinLen, 8192, 40960} : ~Handles(IQ, a) /\ Decode(IQ, a) = <<>>
     /\ \A a \in W : Decode(UNK, a) = <<>> /\ ~Handles(UNK, a)
ASSUME PixelMapIsInjective ==    \* every lit pixel is determined by exactly one VRAM bit; the picture stays inside 240 x 32
  LET B == (0..TotalPages-1) \X (0..Cols-1) \X (0..7)
      Img == {PixelOf(v[1], v[2], v[3]) : v \in B}
  IN Cardinality(Img) = Cardinality(B) /\ \A px \in Img : px[1] \in 0..239 /\ px[2] \in 0..31
ASSUME DispIsPixelOf ==          \* the byte view of the glass and the pixel map say the same (one bit set at a time)
  \A p \in {0, 3, 4, 7}, c \in {0, 1, 47, 95}, b \in 0..7 :
    LET vr == [ZeroVram EXCEPT ![p][c] = 2 ^ b]
        px == PixelOf(p, c, b)
    IN \A t \in 0..3, x \in 0..239 : Disp(IQ, vr, t, x) = (IF x = px[1] /\ t = px[2] \div 8 THEN 2 ^ (px[2] % 8) ELSE 0)

\* ------------------------------------------------------------------ state machine
VARIABLES vram,      \* [page -> [column -> byte]]
          snap,      \* the bundle written by the latest Export: [have, vram]
          ret,       \* value returned by the latest read (-1: none / not a read)
          ok,        \* result of the latest load (TRUE when the latest action was not a load)
          last,      \* name of the latest action
          acts, depth
vars == <<vram, snap, ret, ok, last, acts, depth>>

Sparse(vr) == {<<p * Cols + c, vr[p][c]>> : <<p, c>> \in {pc \in (0..TotalPages-1) \X (0..Cols-1) : vr[pc[1]][pc[2]] # 0}}
Obs == IF Kind = IQ THEN Sparse(vram') ELSE {}
Rec(a) == IF RecordActs THEN Append(acts, a @@ [nz |-> Obs, ret |-> ret', ok |-> ok']) ELSE acts
Step(name) == depth < MaxDepth /\ depth' = depth + 1 /\ last' = name        \* name: <<action>> or <<"Load", payload choice>>

Init == vram = ZeroVram /\ snap = [have |-> FALSE, vram |-> ZeroVram] /\ ret = -1 /\ ok = TRUE /\ last = <<"Init">> /\ acts = <<>> /\ depth = 0

Write(addr, v) ==
  /\ Step(<<"W">>)
  /\ LET d == Decode(Kind, addr) IN vram' = IF d = <<>> THEN vram ELSE [vram EXCEPT ![d[1]][d[2]] = v]
  /\ ret' = -1 /\ ok' = TRUE /\ UNCHANGED snap
  /\ acts' = Rec([ev |-> "W", addr |-> addr, v |-> v, handles |-> Handles(Kind, addr)])
Read(addr) ==
  /\ Step(<<"R">>)
  /\ ret' = ReadValue(Kind, addr) /\ ok' = TRUE /\ UNCHANGED <<vram, snap>>
  /\ acts' = Rec([ev |-> "R", addr |-> addr, handles |-> Handles(Kind, addr), placeholder |-> Placeholder(Kind, addr)])
Reset ==
  /\ Step(<<"Reset">>)
  /\ vram' = ZeroVram /\ ret' = -1 /\ ok' = TRUE /\ UNCHANGED snap
  /\ acts' = Rec([ev |-> "Reset"])
Export ==
  /\ Step(<<"Export">>)
  /\ snap' = [have |-> TRUE, vram |-> vram] /\ ret' = -1 /\ ok' = TRUE /\ UNCHANGED vram
  /\ acts' = Rec([ev |-> "Export", kind |-> Kind, len |-> PayloadLen(Kind)])
\* load the exported bundle, possibly damaged: kindsel "own" | "none" (no kind member) | another kind name | an unparsable name;
\* payload "snap" (as exported) | "short" (last byte missing) | "long" (one byte more) | "fill" (every byte 0xA5, right length)
Load(kindsel, payload) ==
  /\ Step(<<"Load", payload>>) /\ snap.have /\ ~(Kind = UNK /\ payload = "short")
  /\ LET len == IF payload = "short" THEN PayloadLen(Kind) - 1 ELSE IF payload = "long" THEN PayloadLen(Kind) + 1 ELSE PayloadLen(Kind)
         good == LoadOk(Kind, kindsel # "none", IF kindsel = "own" THEN Kind ELSE kindsel, len) /\ len >= 0
     IN /\ ok' = good
        /\ vram' = IF ~good \/ Kind # IQ THEN vram
                   ELSE IF payload = "fill" THEN [p \in 0..TotalPages-1 |-> [c \in 0..Cols-1 |-> 165]] ELSE snap.vram
  /\ ret' = -1 /\ UNCHANGED snap
  /\ acts' = Rec([ev |-> "Load", kindsel |-> kindsel, payload |-> payload])

\* complete behaviours for the spec -> code replay (printed with ToString: TLC's pretty printer is slow on nested values)
Emit == (RecordActs /\ depth = MaxDepth) => PrintT(<<"BEH", ToString(acts)>>)

\* ------------------------------------------------------------------ properties
TypeOK ==
  /\ \A p \in 0..TotalPages-1, c \in 0..Cols-1 : vram[p][c] \in 0..255
  /\ ret \in {-1, 255} /\ ok \in BOOLEAN
  /\ (Kind = UNK => vram = ZeroVram) /\ (Kind = IQ => ret = -1)
Changed == {pc \in (0..TotalPages-1) \X (0..Cols-1) : vram'[pc[1]][pc[2]] # vram[pc[1]][pc[2]]}
\* a write changes at most its own cell; reads and exports change nothing
WriteTouchesOneCell == [][last'[1] = "W" => Cardinality(Changed) <= 1]_vars
ReadExportArePure == [][last'[1] \in {"R", "Export"} => vram' = vram]_vars
\* export followed by load is the identity on the VRAM, whatever happened in between; a refused load changes nothing
LoadRestores == [][(last'[1] = "Load" /\ ok' /\ Kind = IQ) =>
                      vram' = (IF last'[2] = "fill" THEN [p \in 0..TotalPages-1 |-> [c \in 0..Cols-1 |-> 165]] ELSE snap.vram)]_vars
RefusedLoadKeeps == [][(last'[1] = "Load" /\ ~ok') => vram' = vram]_vars
\* in every reachable state the first and the last column of every page show (bit-reversed) where PixelOf puts them; the whole
\* picture of the real struct is compared with Disp by TraceIq7000Lcd (Obs events)
GlassShowsVram == \A p \in 0..TotalPages-1, c \in {0, 95} :
   Disp(Kind, vram, p % PagesPerBuf, (IF p < PagesPerBuf THEN 0 ELSE 120) + Cols - 1 - c) = (IF Kind = IQ THEN Rev8(vram[p][c]) ELSE 0)
=============================================================================
