-------------------------------- MODULE Lcd --------------------------------
(* Two HD61202 LCD column drivers behind the PC-E500 address decoding        *)
(* (pce500/display/hd61202.py + controller_wrapper.py + pipeline.py;         *)
(* sc62015-core lcd.rs).  Property C15.                                       *)
(*                                                                            *)
(* Address decoding (low nibble of an address in window 0x2000 / 0xA000):     *)
(*   bit0: 0 = write, 1 = read;  bit1: 0 = instruction, 1 = data;             *)
(*   bits 3..2: chip select 00 = both, 01 = right (chip 1), 10 = left (chip 0)*)
(*   11 = none.                                                               *)
(* Instruction byte: top two bits 00 on/off (bit0), 01 set Y (6 bits),        *)
(*   10 set page (3 bits), 11 start line (6 bits).                            *)
(* Data write stores at (page, y) and post-increments y modulo the width.     *)
(* Data read is buffered: returns column y-1 and advances y.  Status read:    *)
(*   bit7 busy, bit5 display off; reading status clears busy.                 *)
EXTENDS Integers, Sequences, FiniteSets, TLC

CONSTANTS Pages, Width,      \* geometry (8 x 64 on the real chip)
          MaxDepth, RecordActs

Chips == {0, 1}              \* 0 = left (CS1), 1 = right (CS2)

VARIABLES st,        \* [chip -> [on, busy, start, page, y]]
          vram,      \* [chip -> [page -> [col -> byte]]]   (pages 0..Pages-1, cols 0..Width-1)
          ret,       \* value returned by the latest read, or -1 (no value / not a read)
          acts, depth

vars == <<st, vram, ret, acts, depth>>
Rec(a) == IF RecordActs THEN Append(acts, a) ELSE acts

\* ---- address decoding
Lo(addr) == addr % 16
IsRead(addr) == Lo(addr) % 2 = 1
IsData(addr) == (Lo(addr) \div 2) % 2 = 1
CsBits(addr) == (Lo(addr) \div 4) % 4
Selected(addr) == CASE CsBits(addr) = 0 -> {0, 1}
                    [] CsBits(addr) = 1 -> {1}
                    [] CsBits(addr) = 2 -> {0}
                    [] OTHER -> {}
InWindow(addr) == (addr \div 4096) % 16 \in {2, 10}

\* ---- one chip
ChipInstr(s, v) ==
  LET op == v \div 64
      d == v % 64
  IN CASE op = 0 -> [s EXCEPT !.busy = TRUE, !.on = (d % 2 = 1)]
       [] op = 1 -> [s EXCEPT !.busy = TRUE, !.y = d % Width]
       [] op = 2 -> [s EXCEPT !.busy = TRUE, !.page = (d % 8) % Pages]
       [] OTHER  -> [s EXCEPT !.busy = TRUE, !.start = d]

ChipDataWrite(s) == [s EXCEPT !.busy = TRUE, !.y = (s.y + 1) % Width]
StatusOf(s) == (IF s.busy THEN 128 ELSE 0) + (IF s.on THEN 0 ELSE 32)

Init ==
  /\ st = [c \in Chips |-> [on |-> FALSE, busy |-> FALSE, start |-> 0, page |-> 0, y |-> 0]]
  /\ vram = [c \in Chips |-> [p \in 0..Pages-1 |-> [x \in 0..Width-1 |-> 0]]]
  /\ ret = -1 /\ acts = <<>> /\ depth = 0

Write(addr, v) ==
  /\ depth < MaxDepth /\ InWindow(addr)
  /\ LET sel == IF IsRead(addr) THEN {} ELSE Selected(addr)    \* a write to a read address is ignored
     IN IF IsData(addr)
        THEN /\ vram' = [c \in Chips |-> IF c \in sel THEN [vram[c] EXCEPT ![st[c].page][st[c].y] = v] ELSE vram[c]]
             /\ st' = [c \in Chips |-> IF c \in sel THEN ChipDataWrite(st[c]) ELSE st[c]]
        ELSE /\ st' = [c \in Chips |-> IF c \in sel THEN ChipInstr(st[c], v) ELSE st[c]]
             /\ vram' = vram
  /\ ret' = -1
  /\ acts' = Rec([ev |-> "W", addr |-> addr, v |-> v]) /\ depth' = depth + 1

Read(addr) ==
  /\ depth < MaxDepth /\ InWindow(addr)
  /\ LET sel == Selected(addr)
     IN IF ~IsRead(addr) \/ Cardinality(sel) # 1        \* write address, both or none: no value, no effect
        THEN ret' = -1 /\ st' = st
        ELSE LET c == CHOOSE x \in sel : TRUE
                 s == st[c]
             IN IF IsData(addr)
                THEN /\ ret' = vram[c][s.page][(s.y + Width - 1) % Width]
                     /\ st' = [st EXCEPT ![c].y = (s.y + 1) % Width]
                ELSE /\ ret' = StatusOf(s)
                     /\ st' = [st EXCEPT ![c].busy = FALSE]
  /\ vram' = vram
  /\ acts' = Rec([ev |-> "R", addr |-> addr]) /\ depth' = depth + 1

\* ------------------------------------------------------------- properties
TypeOK ==
  /\ \A c \in Chips : st[c].page \in 0..Pages-1 /\ st[c].y \in 0..Width-1 /\ st[c].start \in 0..63
  /\ \A c \in Chips, p \in 0..Pages-1, x \in 0..Width-1 : vram[c][p][x] \in 0..255
  /\ ret \in -1..255

ReadsNeverTouchVram == [][ret' # -1 => vram' = vram]_vars
\* a step changes at most one VRAM byte per chip, and only on selected chips
Changed(c) == {<<p, x>> \in (0..Pages-1) \X (0..Width-1) : vram'[c][p][x] # vram[c][p][x]}
OneBytePerChip == [][\A c \in Chips : Cardinality(Changed(c)) <= 1]_vars
\* a buffered data read returns what the last data write at that cell stored
StatusBits == ret # -1 => TRUE
=============================================================================
