---------------------------- MODULE LcdTextLaws ----------------------------
(* The constant-level obligations of LcdText, evaluated once per campaign    *)
(* (run with MCLcdText_cov.cfg and -coverage 1, which also shows that every   *)
(* action of the state machine is taken):                                     *)
(*   SrcRefinesPixelMap  the segment walk is the inverse of PixelMap!RefPixels *)
(*   VBIsPixels          the byte view of the glass is the pixel view, at     *)
(*                       aligned and unaligned start lines, with a chip off   *)
(*   RowViewIsCellView   the row-at-a-time operators TLC evaluates are the    *)
(*                       cell-at-a-time definitions                           *)
(*   FontLaw             how ambiguous glyphs resolve (both palette fonts)    *)
EXTENDS MCLcdText
ASSUME SrcRefinesPixelMap
ASSUME VBIsPixels
ASSUME RowViewIsCellView
ASSUME FontLaw(MCFont) /\ FontLaw(SimFont) /\ FontLaw(<<>>)
\* the palette font really has the ambiguities it is meant to have
ASSUME LET fm == FontMap(MCFont) IN
       /\ Resolve(fm, MCFont[3][2]) = 33 /\ Resolve(fm, MCFont[5][2]) = 35 /\ Resolve(fm, MCFont[7][2]) = 32
       /\ Resolve(fm, MCFont[8][2]) = 39 /\ Resolve(fm, <<0, 65, 127, 127, 0>>) = 93 /\ Resolve(fm, Junk) = Unknown
       /\ Resolve(fm, <<0, 40, 108, 108, 40>>) = 8597 /\ Resolve(fm, BlankPat) = 32
ASSUME PrintT(<<"LAWS", "ok">>)
=============================================================================
