SPECIFICATION Spec
CONSTANTS
  Kind = "unknown"
  MaxDepth = 14
  RecordActs = TRUE
INVARIANT TypeOK
INVARIANT Emit
CHECK_DEADLOCK FALSE
