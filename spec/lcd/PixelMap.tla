------------------------------ MODULE PixelMap ------------------------------
(* The VRAM-bit -> pixel function of the stitched 240 x 32 PC-E500 display   *)
(* (start line 0, both chips on), and the predicates of C15's second         *)
(* sentence.  Constant-level: TLC evaluates the ASSUMEs, first on the        *)
(* reference map below, then on the map extracted from each implementation   *)
(* (every one of the 2 x 8 x 64 x 8 VRAM bits probed through the real code). *)
(*   right chip (1), pages 0-3: columns 0..63   -> x = col                   *)
(*   left  chip (0), pages 0-3: columns 0..55   -> x = 64 + col              *)
(*   left  chip (0), pages 4-7: columns 0..55   -> x = 120 + (55 - col)      *)
(*   right chip (1), pages 4-7: columns 0..63   -> x = 176 + (63 - col)      *)
(*   y = (page % 4) * 8 + bit;  left-chip columns 56..63 are not visible.    *)
EXTENDS Integers, Sequences, FiniteSets, FiniteSetsExt, TLC, Json, IOUtils

W == 240
H == 32
Bits == {<<c, p, x, b>> : c \in {0, 1}, p \in 0..7, x \in 0..63, b \in 0..7}

RefPixels(v) ==    \* set of pixels (as x + 240*y) determined by VRAM bit v = <<chip, page, col, bit>>
  LET c == v[1]  p == v[2]  x == v[3]  b == v[4]
      y == (p % 4) * 8 + b
  IN IF c = 1 THEN (IF p < 4 THEN {x + W * y} ELSE {176 + (63 - x) + W * y})
     ELSE IF x > 55 THEN {}
     ELSE (IF p < 4 THEN {64 + x + W * y} ELSE {120 + (55 - x) + W * y})

\* predicates over an arbitrary map M : Bits -> SUBSET pixel ids
EveryPixelExactlyOneBit(M(_)) ==
  LET images == UNION {M(v) : v \in Bits}
      total == Cardinality(UNION {{<<v, px>> : px \in M(v)} : v \in Bits})
  IN /\ images = 0..(W * H - 1)          \* every pixel has a pre-image
     /\ total = W * H                    \* and the pre-images do not overlap
OneColumnPerByte(M(_)) ==
  \A c \in {0, 1}, p \in 0..7, x \in 0..63 :
     LET px == UNION {M(<<c, p, x, b>>) : b \in 0..7}
     IN /\ Cardinality(px) <= 8
        /\ \A a, d \in px : a % W = d % W

ASSUME RefOk == EveryPixelExactlyOneBit(RefPixels) /\ OneColumnPerByte(RefPixels)

\* ---- the map extracted from an implementation: ndjson lines [chip, page, col, bit, [[x,y],...]]
Obs == IF "TRACE_FILE" \in DOMAIN IOEnv THEN ndJsonDeserialize(IOEnv.TRACE_FILE) ELSE <<>>
ObsIndex(v) == 1 + ((v[1] * 8 + v[2]) * 64 + v[3]) * 8 + v[4]
ObsPixels(v) == LET r == Obs[ObsIndex(v)] IN {r[5][i][1] + W * r[5][i][2] : i \in 1..Len(r[5])}
ObsWellFormed == Len(Obs) = 8192 /\ \A v \in Bits : LET r == Obs[ObsIndex(v)] IN <<r[1], r[2], r[3], r[4]>> = v

\* ---- one chip switched off (ONLY_CHIP = "0" | "1" names the chip that stays on; TRACE_FILE2 = the same implementation's map
\* with both chips on): a pixel is determined by a VRAM bit OF ITS OWN CHIP, so what the chip that is on shows does not depend
\* on the other chip's on/off state
Both == IF "TRACE_FILE2" \in DOMAIN IOEnv THEN ndJsonDeserialize(IOEnv.TRACE_FILE2) ELSE <<>>
BothPixels(v) == LET r == Both[ObsIndex(v)] IN {r[5][i][1] + W * r[5][i][2] : i \in 1..Len(r[5])}
OnChip == IF "ONLY_CHIP" \in DOMAIN IOEnv THEN (IF IOEnv.ONLY_CHIP = "0" THEN 0 ELSE 1) ELSE -1
OwnChipOnly == {v \in Bits : v[1] = OnChip /\ ObsPixels(v) # BothPixels(v)}

Verdict ==
  IF Obs = <<>> THEN <<"PIXELMAP", "reference-only">>
  ELSE IF OnChip >= 0 THEN (IF ~ObsWellFormed \/ Len(Both) # 8192 THEN <<"PIXELMAP", "malformed">>
                            ELSE <<"PIXELMAP", IF OwnChipOnly = {} THEN "ok" ELSE "OwnChipOnly", "ok", OwnChipOnly>>)
  ELSE IF ~ObsWellFormed THEN <<"PIXELMAP", "malformed">>
  ELSE <<"PIXELMAP",
         IF EveryPixelExactlyOneBit(ObsPixels) THEN "ok" ELSE "EveryPixelExactlyOneBit",
         IF OneColumnPerByte(ObsPixels) THEN "ok" ELSE "OneColumnPerByte",
         {v \in Bits : ObsPixels(v) # RefPixels(v)}>>
ASSUME PrintT(Verdict)
VARIABLE dummy
DInit == dummy = 0
DNext == dummy' = dummy
=============================================================================
