SPECIFICATION SpecSmall
CONSTANTS
  Pages = 2
  Width = 4
  MaxDepth = 4
  RecordActs = FALSE
INVARIANT TypeOK
PROPERTY ReadsNeverTouchVram
PROPERTY OneBytePerChip
CHECK_DEADLOCK FALSE
