SPECIFICATION SpecCov
CONSTANTS
  Pages = 8
  Width = 64
  MaxDepth = 2
  RecordActs = FALSE
  FontGlyphs <- MCFont
INVARIANT TypeOK
INVARIANT ShadowType
PROPERTY WriteIsWStep
CHECK_DEADLOCK FALSE
