INIT DInit
NEXT DNext
