--------------------------- MODULE TraceIq7000Lcd ---------------------------
(* Trace validation (code -> spec) for Iq7000Lcd: recorded call sequences on *)
(* the real Box<dyn LcdHal> made by create_lcd (kind "iq7000-vram" or         *)
(* "unknown").  Every event logs its arguments, what the call returned and    *)
(* the controller's VRAM after the call as the sparse list of non-zero        *)
(* payload pages of export_snapshot (rows: <<page, 96 bytes>>).  A step the specification cannot explain *)
(* is collected with the clause that differed, and the specification state is *)
(* resynchronised to the logged state (verdicts are total, never first-       *)
(* failure).  Events:                                                         *)
(*   Init {kind}            W {addr, v, handles, rows}                        *)
(*   R {addr, ret, handles, placeholder, rows}      Reset {rows}              *)
(*   Export {kind, len, cols, ppb, buffers, prows, rows}                      *)
(*   Load {haskind, kindstr (trimmed), len, prows (the payload), ok, rows}    *)
(*   Obs {image: 4 x 240 bytes of display_buffer, vbytes: 8 x 240 of display_vram_bytes} *)
(*   Parse {s (trimmed), got, made}   MetaKind {haskind, s, default, got}      *)
(*   Overlay {off, got}     - the pure helpers LcdKind::parse/as_str, create_lcd, lcd_kind_from_snapshot_meta, overlay_addr *)
EXTENDS Iq7000Lcd, Json, IOUtils

TraceLog == ndJsonDeserialize(IOEnv.TRACE_FILE)
VARIABLES l, bad, kind
tvars == <<vars, l, bad, kind>>

\* a logged VRAM: the non-zero pages as <<page, <<96 bytes>>>> (no recursion: TLC's Java stack is small)
ZeroRow == [c \in 0..Cols-1 |-> 0]
RowsToVram(rows) ==
  [p \in 0..TotalPages-1 |->
     LET hit == {i \in DOMAIN rows : rows[i][1] = p} IN
     IF hit = {} THEN ZeroRow
     ELSE LET r == rows[CHOOSE i \in hit : TRUE][2] IN [c \in 0..Cols-1 |-> IF c + 1 <= Len(r) THEN r[c + 1] % 256 ELSE 0]]
Logged(k, rows) == IF k = IQ THEN RowsToVram(rows) ELSE ZeroVram
B(x) == x = 1

\* prediction for event e in the current state
PredVram(e) ==
  IF e.ev = "W" THEN LET d == Decode(kind, e.addr) IN IF d = <<>> THEN vram ELSE [vram EXCEPT ![d[1]][d[2]] = e.v]
  ELSE IF e.ev = "Reset" THEN ZeroVram
  ELSE IF e.ev = "Load" THEN (IF LoadOk(kind, B(e.haskind), e.kindstr, e.len) /\ kind = IQ THEN RowsToVram(e.prows) ELSE vram)
  ELSE vram

Clause(e) ==
  IF e.ev = "W" THEN (IF B(e.handles) # Handles(kind, e.addr) THEN "Handles"
                      ELSE IF Logged(kind, e.rows) # PredVram(e) THEN "VramContents" ELSE "ok")
  ELSE IF e.ev = "R" THEN (IF e.ret # ReadValue(kind, e.addr) THEN "ReturnValue"
                           ELSE IF e.placeholder # Placeholder(kind, e.addr) THEN "Placeholder"
                           ELSE IF B(e.handles) # Handles(kind, e.addr) THEN "Handles"
                           ELSE IF Logged(kind, e.rows) # vram THEN "VramContents" ELSE "ok")
  ELSE IF e.ev = "Reset" THEN (IF Logged(kind, e.rows) # ZeroVram THEN "VramContents" ELSE "ok")
  ELSE IF e.ev = "Export" THEN (IF e.kind # kind \/ (kind = IQ /\ <<e.cols, e.ppb, e.buffers>> # <<Cols, PagesPerBuf, 2>>) THEN "ExportMeta"
                                ELSE IF e.len # PayloadLen(kind) THEN "ExportLength"
                                ELSE IF Logged(kind, e.prows) # vram THEN "ExportPayload"
                                ELSE IF Logged(kind, e.rows) # vram THEN "VramContents" ELSE "ok")
  ELSE IF e.ev = "Load" THEN (IF B(e.ok) # LoadOk(kind, B(e.haskind), e.kindstr, e.len) THEN "LoadAccepted"
                              ELSE IF Logged(kind, e.rows) # PredVram(e) THEN "VramContents" ELSE "ok")
  ELSE IF e.ev = "Obs" THEN (IF \E t \in 0..3, x \in 0..239 : e.image[t + 1][x + 1] # Disp(kind, vram, t, x) THEN "DisplayBuffer"
                             ELSE IF \E p \in 0..TotalPages-1, x \in 0..239 : e.vbytes[p + 1][x + 1] # VBytes(kind, vram, p, x) THEN "DisplayVramBytes"
                             ELSE "ok")
  ELSE IF e.ev = "Parse" THEN (IF e.got # ParseKind(e.s) \/ e.made # ParseKind(e.s) THEN "ParseKind" ELSE "ok")          \* made: create_lcd(parse(s)).kind()
  ELSE IF e.ev = "MetaKind" THEN (IF e.got # KindOfMeta(B(e.haskind), e.s, e.default) THEN "KindOfMeta" ELSE "ok")
  ELSE IF e.ev = "Overlay" THEN (IF e.got # OverlayAddr(e.off) THEN "OverlayAddr" ELSE "ok")
  ELSE "UnknownEvent"

TInit == Init /\ l = 1 /\ bad = {} /\ kind = IQ
TNext ==
  /\ l <= Len(TraceLog) /\ l' = l + 1
  /\ UNCHANGED <<snap, ret, ok, last, acts, depth>>
  /\ LET e == TraceLog[l] IN
     IF e.ev = "Init"
     THEN vram' = ZeroVram /\ kind' = e.kind /\ bad' = bad
     ELSE LET cl == Clause(e) IN
          /\ kind' = kind
          /\ vram' = IF "rows" \in DOMAIN e THEN Logged(kind, e.rows) ELSE vram
          /\ bad' = IF cl = "ok" THEN bad
                    ELSE bad \cup {[tid |-> e.tid, line |-> l, clause |-> cl, detail |-> <<e.ev, IF "addr" \in DOMAIN e THEN e.addr ELSE -1>>]}
TSpec == TInit /\ [][TNext]_tvars
Done == l = Len(TraceLog) + 1
Report == Done => PrintT(<<"BAD", Cardinality(bad), bad>>)
=============================================================================
