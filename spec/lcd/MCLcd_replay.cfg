SPECIFICATION SpecSmall
CONSTANTS
  Pages = 2
  Width = 4
  MaxDepth = 2
  RecordActs = TRUE
INVARIANT TypeOK
PROPERTY OneBytePerChip
CHECK_DEADLOCK FALSE
