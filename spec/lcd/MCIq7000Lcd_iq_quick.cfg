SPECIFICATION SpecSmall
CONSTANTS
  Kind = "iq7000-vram"
  MaxDepth = 3
  RecordActs = FALSE
INVARIANT TypeOK
INVARIANT GlassShowsVram
PROPERTY WriteTouchesOneCell
PROPERTY ReadExportArePure
PROPERTY LoadRestores
PROPERTY RefusedLoadKeeps
CHECK_DEADLOCK FALSE
