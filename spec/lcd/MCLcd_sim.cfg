SPECIFICATION SpecSim
CONSTANTS
  Pages = 8
  Width = 64
  MaxDepth = 60
  RecordActs = TRUE
INVARIANT TypeOK
CHECK_DEADLOCK FALSE
