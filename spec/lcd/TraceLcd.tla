------------------------------ MODULE TraceLcd ------------------------------
(* Trace validation for C15 at full geometry: recorded read/write sequences  *)
(* on pce500 HD61202Controller (Python) and sc62015-core LcdController       *)
(* (Rust).  Every event logs address, value, returned value, the per-chip    *)
(* registers after the call and the VRAM bytes that changed.  The HD61202    *)
(* protocol IS the property, so any step the specification cannot explain is *)
(* recorded as a violation (clause = what differed) and the specification    *)
(* state is resynchronised to the logged state.                              *)
EXTENDS Lcd, Json, IOUtils

TraceLog == ndJsonDeserialize(IOEnv.TRACE_FILE)
VARIABLES l, bad
tvars == <<vars, l, bad>>

B(x) == x = 1
TInit == Init /\ l = 1 /\ bad = {}

\* what the specification predicts for event e from the current state
PredSel(e) == IF e.ev = "W" THEN (IF IsRead(e.addr) THEN {} ELSE Selected(e.addr)) ELSE {}
PredSt(e) ==
  IF e.ev = "W"
  THEN [c \in Chips |-> IF c \in PredSel(e) THEN (IF IsData(e.addr) THEN ChipDataWrite(st[c]) ELSE ChipInstr(st[c], e.v)) ELSE st[c]]
  ELSE LET sel == Selected(e.addr) IN
       IF ~IsRead(e.addr) \/ Cardinality(sel) # 1 THEN st
       ELSE LET c == CHOOSE x \in sel : TRUE IN
            IF IsData(e.addr) THEN [st EXCEPT ![c].y = (st[c].y + 1) % Width] ELSE [st EXCEPT ![c].busy = FALSE]
PredRet(e) ==
  IF e.ev = "W" THEN -1
  ELSE LET sel == Selected(e.addr) IN
       IF ~IsRead(e.addr) \/ Cardinality(sel) # 1 THEN -1
       ELSE LET c == CHOOSE x \in sel : TRUE IN
            IF IsData(e.addr) THEN vram[c][st[c].page][(st[c].y + Width - 1) % Width] ELSE StatusOf(st[c])
PredDelta(e) ==
  IF e.ev = "W" /\ IsData(e.addr)
  THEN {<<c, st[c].page, st[c].y, e.v>> : c \in {x \in PredSel(e) : vram[x][st[x].page][st[x].y] # e.v}}
  ELSE {}

LoggedDelta(e) == {<<e.delta[i][1], e.delta[i][2], e.delta[i][3], e.delta[i][4]>> : i \in 1..Len(e.delta)}
\* the logged registers exactly as logged (compared with the prediction) ...
RawSt(e) == [c \in Chips |-> [on |-> B(e.st[c + 1].on), start |-> e.st[c + 1].start, page |-> e.st[c + 1].page, y |-> e.st[c + 1].y,
                              busy |-> IF e.st[c + 1].busy = -1 THEN PredSt(e)[c].busy ELSE B(e.st[c + 1].busy)]]
\* ... and clamped into the type domain for resynchronisation (the trace specification must stay total on any log)
LoggedSt(e) == [c \in Chips |-> [RawSt(e)[c] EXCEPT !.start = RawSt(e)[c].start % 64, !.page = RawSt(e)[c].page % Pages, !.y = RawSt(e)[c].y % Width]]
InRange(d) == d[1] \in Chips /\ d[2] \in 0..Pages-1 /\ d[3] \in 0..Width-1

Clause(e) ==
  IF e.ret # PredRet(e) THEN "ReturnValue"
  ELSE IF \E c \in Chips : RawSt(e)[c] # PredSt(e)[c] THEN "ChipRegisters"
  ELSE IF LoggedDelta(e) # PredDelta(e) THEN "VramContents"
  ELSE "ok"

RECURSIVE ApplySeq(_, _, _)
ApplySeq(vr, ds, i) == IF i > Len(ds) THEN vr
                       ELSE IF ~InRange(ds[i]) THEN ApplySeq(vr, ds, i + 1)
                       ELSE ApplySeq([vr EXCEPT ![ds[i][1]][ds[i][2]][ds[i][3]] = ds[i][4] % 256], ds, i + 1)

TNext ==
  /\ l <= Len(TraceLog) /\ l' = l + 1
  /\ UNCHANGED <<acts, depth>>
  /\ LET e == TraceLog[l] IN
     IF e.ev = "Init"
     THEN /\ st' = [c \in Chips |-> [on |-> FALSE, busy |-> FALSE, start |-> 0, page |-> 0, y |-> 0]]
          /\ vram' = [c \in Chips |-> [p \in 0..Pages-1 |-> [x \in 0..Width-1 |-> 0]]]
          /\ ret' = -1 /\ bad' = bad
     ELSE LET cl == Clause(e) IN
          /\ ret' = e.ret
          /\ st' = LoggedSt(e)
          /\ vram' = ApplySeq(vram, e.delta, 1)
          /\ bad' = IF cl = "ok" THEN bad
                    ELSE bad \cup {[tid |-> e.tid, line |-> l, clause |-> cl,
                                    detail |-> <<e.ev, e.addr, e.ret, PredRet(e), PredDelta(e), LoggedDelta(e)>>]}

TSpec == TInit /\ [][TNext]_tvars
Done == l = Len(TraceLog) + 1
Report == Done => PrintT(<<"BAD", Cardinality(bad), bad>>)
=============================================================================
