---------------------------- MODULE JudgeLcdText ----------------------------
(* Batch judge (code -> spec) for the display text decoder: every line of    *)
(* TEXT_FILE is one synthetic font ROM slice with a list of cases; a case is  *)
(* one controller state (on / start line per chip, 2 x 8 x 64 VRAM bytes)     *)
(* with what each implementation showed for it:                               *)
(*   impl  "py"   decode_display_text(HD61202Controller, memory)              *)
(*         "rs"   decode_display_text(LcdController, Pce500FontMap::from_rom(rom, ROM_ENGLISH_FONT_BASE_ADDR, ROM_WINDOW_START)) *)
(*         "rsp"  the same with pce500_font_map_from_rom(rom) (the product entry, which looks for the Japanese layout) *)
(*   lines the decoded text (code points), image the implementation's own     *)
(*   display buffer as 4 x 240 ink bytes, optionally prev (the image before   *)
(*   the action) and ndata (how many chip data writes the action made).       *)
(* Clauses (LcdText operators only):                                          *)
(*   TextOfImage      lines = TextImage(image, font map)  - the decoder is a  *)
(*                    function of the visible picture and the font            *)
(*   ImageOfVram      image = ImageVram(vram, st, HW)                         *)
(*   ColumnsPerWrite  an action with n data writes changes at most n display  *)
(*                    columns and at most 8n pixels (C15, third sentence)     *)
(* A failing observation is re-judged under the named alternative readings    *)
(* (nostart, noonoff, dictlabels); the tag of the reading that explains it is *)
(* part of the verdict.  Verdicts are collected, never first-failure.         *)
EXTENDS LcdText, Json, IOUtils

Recs == IF "TEXT_FILE" \in DOMAIN IOEnv THEN ndJsonDeserialize(IOEnv.TEXT_FILE) ELSE <<>>

VramOf(flat) == [c \in Chips |-> [p \in 0..7 |-> [x \in 0..63 |-> flat[c * 512 + p * 64 + x + 1]]]]
StOf(js) == [c \in Chips |-> [on |-> js[c + 1].on = 1, start |-> js[c + 1].start]]

GlyphsFor(impl, rom) == IF impl = "rs" THEN EnglishGlyphs(rom) ELSE AutoGlyphs(rom)

ChangedCols(a, b) == {x \in 1..DW : \E t \in 1..TextRows : a[t][x] # b[t][x]}
ChangedPixels(a, b) ==
  LET xs == ChangedCols(a, b)
      cnt(x, t) == Cardinality({dy \in 0..7 : Bit(a[t][x], dy) # Bit(b[t][x], dy)})
  IN FoldSet(LAMBDA x, acc : acc + cnt(x, 1) + cnt(x, 2) + cnt(x, 3) + cnt(x, 4), 0, xs)

\* verdicts of one observation: set of <<clause, tag>>
Verdicts(rom, fmE, fmA, fmD, vr, s, o) ==
  LET fm == IF o.impl = "rs" THEN fmE ELSE fmA
      textBad == o.lines # TextImage(o.image, fm)
      textTag == IF o.impl = "py" /\ o.lines = TextImage(o.image, fmD) THEN "dictlabels" ELSE "none"
      imgBad == o.image # ImageVram(vr, s, HW)
      imgTag == IF o.image = ImageVram(vr, s, NoStart) THEN "nostart"
                ELSE IF o.image = ImageVram(vr, s, NoOnOff) THEN "noonoff" ELSE "none"
      colBad == "prev" \in DOMAIN o /\ (Cardinality(ChangedCols(o.prev, o.image)) > o.ndata \/ ChangedPixels(o.prev, o.image) > 8 * o.ndata)
  IN (IF textBad THEN {<<"TextOfImage", textTag>>} ELSE {})
     \cup (IF imgBad THEN {<<"ImageOfVram", imgTag>>} ELSE {})
     \cup (IF colBad THEN {<<"ColumnsPerWrite", "none">>} ELSE {})

BadOfRec(r) ==
  LET fmE == FontMap(EnglishGlyphs(r.rom))
      fmA == IF LooksJp(r.rom) THEN FontMap(JpGlyphs(r.rom)) ELSE fmE
      fmD == FontMap(DictGlyphs(AutoGlyphs(r.rom)))
  IN UNION {LET cs == r.cases[ci]
                vr == VramOf(cs.vram)
                s == StOf(cs.st)
            IN UNION {{<<r.id, ci, cs.obs[oi].impl, v[1], v[2]>> : v \in Verdicts(r.rom, fmE, fmA, fmD, vr, s, cs.obs[oi])} : oi \in DOMAIN cs.obs}
            : ci \in DOMAIN r.cases}
     \cup (IF FontLaw(AutoGlyphs(r.rom)) THEN {} ELSE {<<r.id, 0, "model", "FontLaw", "none">>})

Bad == UNION {BadOfRec(Recs[i]) : i \in DOMAIN Recs}
NObs == FoldSet(LAMBDA i, acc : acc + FoldSet(LAMBDA ci, a2 : a2 + Len(Recs[i].cases[ci].obs), 0, DOMAIN Recs[i].cases), 0, DOMAIN Recs)
ASSUME PrintT(<<"JUDGE", Len(Recs), NObs, Bad>>)

JFont == <<>>
JInit == TInit
JNext == UNCHANGED tvars
=============================================================================
