SPECIFICATION SpecSmall
CONSTANTS
  Kind = "unknown"
  MaxDepth = 2
  RecordActs = TRUE
INVARIANT TypeOK
INVARIANT Emit
INVARIANT GlassShowsVram
PROPERTY WriteTouchesOneCell
PROPERTY ReadExportArePure
PROPERTY LoadRestores
PROPERTY RefusedLoadKeeps
CHECK_DEADLOCK FALSE
