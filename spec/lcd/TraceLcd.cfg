SPECIFICATION TSpec
CONSTANTS
  Pages = 8
  Width = 64
  MaxDepth = 0
  RecordActs = FALSE
INVARIANT Report
CHECK_DEADLOCK FALSE
