INIT JInit
NEXT JNext
CONSTANTS
  Pages = 8
  Width = 64
  MaxDepth = 0
  RecordActs = FALSE
  FontGlyphs <- JFont
CHECK_DEADLOCK FALSE
