SPECIFICATION SpecSim
CONSTANTS
  Pages = 8
  Width = 64
  MaxDepth = 40
  RecordActs = TRUE
  FontGlyphs <- SimFont
INVARIANT Emit
CHECK_DEADLOCK FALSE
