------------------------------- MODULE MCLcd -------------------------------
EXTENDS Lcd
\* representative addresses: all 16 low-nibble decodings in window 0x2000, plus a few in 0xA000 and mid-window
Addrs == {8192 + n : n \in 0..15} \cup {40960 + 2, 40960 + 7, 8192 + 256 + 6, 8192 + 4080 + 9}
AddrsSmall == {8192 + n : n \in 0..15}
\* value classes: on/off, set Y (incl. one beyond the reduced width), set page, start line, plain data
Vals == {0, 1, 62, 63, 64, 65, 64 + 63, 128, 129, 128 + 63, 192, 192 + 5, 165, 255}
ValsSmall == {1, 64 + 3, 64 + 63, 129, 192 + 5, 165, 255}
Next == (\E a \in Addrs, v \in Vals : Write(a, v)) \/ (\E a \in Addrs : Read(a))
NextSmall == (\E a \in AddrsSmall, v \in ValsSmall : Write(a, v)) \/ (\E a \in AddrsSmall : Read(a))
NextFull == (\E a \in {8192 + n : n \in 0..15} \cup {40960 + n : n \in 0..15} \cup {8192 + 16 * 37 + n : n \in 0..15}, v \in 0..255 : Write(a, v))
            \/ (\E a \in {8192 + n : n \in 0..15} \cup {40960 + n : n \in 0..15} : Read(a))
ValsSim == Vals \cup {2, 3, 31, 66, 90, 100, 120, 127, 130, 133, 135, 184, 185, 190, 191, 200, 222, 240, 254, 17, 85, 170, 204, 51}
NextSim == (\E a \in Addrs \cup {40960 + n : n \in 0..15}, v \in ValsSim : Write(a, v)) \/ (\E a \in Addrs \cup {40960 + n : n \in 0..15} : Read(a))
SpecSim == Init /\ [][NextSim]_vars
Spec == Init /\ [][Next]_vars
SpecSmall == Init /\ [][NextSmall]_vars
SpecFull == Init /\ [][NextFull]_vars
=============================================================================
