---------------------------- MODULE MCIq7000Lcd ----------------------------
(* Model-checking instance of Iq7000Lcd at the real geometry over an address *)
(* palette that has every decoding class: first / last backed byte of a page, *)
(* the unbacked tail of a stride, the last claimed address of each window,    *)
(* the neighbours outside, the HD61202 windows (claimed by the unknown        *)
(* controller only), and aliases above 2^24.                                  *)
EXTENDS Iq7000Lcd
Addrs == {16384, 16384 + 95, 16384 + 96, 16384 + 127, 16384 + 128, 16384 + 3 * 128 + 95, 16384 + 511, 16384 + 512, 16383,
          24576, 24576 + 3 * 128 + 95, 24576 + 511, 24576 + 512, 24575,
          8192, 8193, 40961, 45055, 12288,
          16777216 + 16384, 16777216 + 8193, 16777216 + 24576 + 95}
AddrsSmall == {16384, 16384 + 95, 16384 + 96, 16384 + 511, 16384 + 512, 24576, 24576 + 3 * 128 + 95, 24575, 8193, 40960, 16777216 + 16384 + 128}
Vals == {0, 165, 255}
ValsSmall == {165, 255}
KindSels == {"own", "none", IQ, UNK, HD, "weird"}
Payloads == {"snap", "short", "long", "fill"}
NextOf(AS, VS) ==
  \/ \E a \in AS, v \in VS : Write(a, v)
  \/ \E a \in AS : Read(a)
  \/ Reset \/ Export
  \/ \E k \in KindSels, p \in Payloads : Load(k, p)
Spec == Init /\ [][NextOf(Addrs, Vals)]_vars
SpecSmall == Init /\ [][NextOf(AddrsSmall, ValsSmall)]_vars
=============================================================================
