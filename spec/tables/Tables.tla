------------------------------- MODULE Tables -------------------------------
(* C17: every copy of the architecture's tables and constants says the same    *)
(* thing.  The harness dumps each copy from the live artefact (Python decoder   *)
(* table, Binary Ninja architecture/view definitions, Python emulator, Rust     *)
(* core tables and constants, behaviourally probed register masks and reset /   *)
(* interrupt vectors) into one JSON document in a normalised vocabulary; TLC    *)
(* evaluates the equalities.  Pairwise disagreement between live copies is a    *)
(* violation; disagreement with the reference copy (SC62015Table) is drift.     *)
EXTENDS Integers, Sequences, FiniteSets, TLC, Json, IOUtils, SC62015Table

Doc == JsonDeserialize(IOEnv.TRACE_FILE)

\* ---- reference rows in the normalised vocabulary: <<kind, p1, p2>>
RegBits(r) == CASE r \in {"A", "B", "IL", "IH", "F", "IMR"} -> 8 [] r \in {"BA", "I"} -> 16 [] OTHER -> 24
Norm(a) ==
  CASE a.k = "Reg" -> <<"Reg", a.r, RegBits(a.r)>>
    [] a.k = "Imm8" -> <<"Imm", "", 8>>
    [] a.k = "Imm16" -> <<"Imm", "", 16>>
    [] a.k = "Imm20" -> <<"Imm", "", 20>>
    [] a.k = "Off" -> <<"Off", "", 0>>
    [] a.k = "IMem" -> <<"IMem", "", IF a.w = 3 THEN 20 ELSE 8 * a.w>>
    [] a.k = "EAddr" -> <<"EAddr", "", a.w>>
    [] a.k = "R3" -> <<"R3", "", 0>>
    [] a.k = "RPair" -> <<"RPair", "", a.size>>
    [] a.k = "EReg" -> IF a.allowed = {2, 3} THEN <<"ERegPostPre", "", 0>> ELSE <<"EReg", "", a.w>>
    [] a.k = "EIMem" -> <<"EIMem", "", a.w>>
    [] a.k = "RIMemOff" -> <<"RIMemOff", a.order, 0>>
    [] a.k = "EIMemOff" -> <<"EIMemOff", a.order, 0>>
RefRow(o) == LET r == OpRows[o + 1] IN
  [name |-> r.tname, cond |-> r.cond, rev |-> IF r.rev THEN 1 ELSE 0, ops |-> [i \in 1..Len(r.ops) |-> Norm(r.ops[i])]]
RefPre == {<<r[1], r[2], r[3]>> : r \in PreRows}
SetOf(s) == {s[i] : i \in 1..Len(s)}

\* ---- opcode table: Python live copy vs Rust live copy vs reference
OpcodeBad == {o \in 0..255 : Doc.opcodes.py[o + 1] # Doc.opcodes.rs[o + 1]}
OpcodeDrift == {o \in 0..255 : Doc.opcodes.py[o + 1] = Doc.opcodes.rs[o + 1] /\ Doc.opcodes.py[o + 1] # RefRow(o)}
PreBad == SetOf(Doc.pre.py) # SetOf(Doc.pre.rs)
PreDrift == ~PreBad /\ SetOf(Doc.pre.py) # RefPre
SingleBad == SetOf(Doc.single.py) # SetOf(Doc.single.rs)
SingleDrift == ~SingleBad /\ SetOf(Doc.single.py) # SingleAddressable

\* ---- generic groups: [name, copies: <<[who, v], ...>>]; all copies must be equal
GroupBad == {Doc.groups[i].name : i \in {j \in 1..Len(Doc.groups) :
               \E a, b \in 1..Len(Doc.groups[j].copies) : Doc.groups[j].copies[a].v # Doc.groups[j].copies[b].v}}

\* ---- Binary Ninja view segments: pairwise disjoint, inside the address space, internal RAM where the lifter puts it
SegOverlap(view) ==
  LET S == view.segments  n == Len(S) IN
  {<<view.name, "overlap", S[p[1]].name, S[p[2]].name>> :
      p \in {q \in (1..n) \X (1..n) : q[1] < q[2] /\ S[q[1]].start < S[q[2]].start + S[q[2]].length /\ S[q[2]].start < S[q[1]].start + S[q[1]].length}}
SegOutside(view) ==
  LET S == view.segments IN
  {<<view.name, "outside", S[i].name>> : i \in {j \in 1..Len(S) : S[j].start < 0 \/ S[j].length <= 0 \/ S[j].start + S[j].length > Doc.address_space_size}}
SegInternal(view) ==
  LET S == view.segments IN
  IF \E i \in 1..Len(S) : S[i].name = "Internal RAM" /\ S[i].start = Doc.internal_memory_start /\ S[i].length = Doc.internal_memory_length
  THEN {} ELSE {<<view.name, "internal-ram-misplaced">>}
SegAll == UNION {SegOverlap(Doc.views[i]) \cup SegOutside(Doc.views[i]) \cup SegInternal(Doc.views[i]) : i \in 1..Len(Doc.views)}

ASSUME PrintT(<<"TABLES", OpcodeBad, OpcodeDrift, <<PreBad, PreDrift, SingleBad, SingleDrift>>, GroupBad, SegAll>>)
VARIABLE dummy
DInit == dummy = 0
DNext == dummy' = dummy
=============================================================================
