INIT DInit
NEXT DNext
