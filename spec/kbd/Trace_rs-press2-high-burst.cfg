SPECIFICATION TSpec
CONSTANTS
  Keys <- TK
  KeyCol <- TCol
  KeyRow <- TRow
  PressTh = 2
  ReleaseTh = 6
  RepDelay = 24
  RepInterval = 6
  Cap = 8
  ActiveHigh = TRUE
  StrobeVals = {}
  MaxDepth = 0
  RecordActs = FALSE
INVARIANT Report
CHECK_DEADLOCK FALSE
