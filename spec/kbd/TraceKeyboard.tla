---------------------------- MODULE TraceKeyboard ----------------------------
(* Trace validation for C14.  Recorded runs of the Python KeyboardMatrix /     *)
(* PCE500KeyboardHandler and of the Rust KeyboardMatrix (+ the KEYI path of    *)
(* write_fifo_to_memory) are checked event by event.  The property clauses are *)
(* evaluated on the implementation's own observations (returned KIL value,     *)
(* events it enqueued, its FIFO contents, the KEYI status bit) against the     *)
(* MONITORS, which are driven only by the logged inputs.  Independently the    *)
(* step is compared with the automaton of Keyboard.tla (ModelMismatch = drift).*)
(* The automaton state is resynchronised from the logged per-key state.        *)
EXTENDS Keyboard, Json, IOUtils

TraceLog == ndJsonDeserialize(IOEnv.TRACE_FILE)
VARIABLES l, bad, pfifo, pisr, evc   \* evc: are the event clauses evaluated in this trace (events observable at every step)
tvars == <<vars, l, bad, pfifo, pisr, evc>>

Kind(b) == IF b >= 128 THEN "R" ELSE "P"
FifoOf(s) == [i \in 1..Len(s) |-> <<s[i] % 128, Kind(s[i])>>]
EvsOf(s) == [i \in 1..Len(s) |-> <<s[i][1], IF s[i][2] = 1 THEN "R" ELSE "P">>]
RowsOf(v) == IF v < 0 THEN {-1} ELSE {r \in 0..7 : Bit(v, r) = 1}
B(x) == x = 1
LoggedKs(e) == [k \in Keys |-> IF \E i \in 1..Len(e.states) : e.states[i][1] = k
                               THEN LET s == CHOOSE x \in {e.states[i] : i \in 1..Len(e.states)} : x[1] = k
                                    IN [pressed |-> B(s[2]), deb |-> B(s[3]), pt |-> s[4], rt |-> s[5], rep |-> s[6]]
                               ELSE ks[k]]

TInit == Init /\ l = 1 /\ bad = {} /\ pfifo = <<>> /\ pisr = 0 /\ evc = TRUE
Flag(e, c, d) == bad' = bad \cup {[tid |-> e.tid, line |-> l, clause |-> c, detail |-> d]}

\* monitors after this event (inputs only + the events the implementation reported)
MonAfter(e, evs) ==
  CASE e.ev \in {"Tick", "ReadKIL"} -> [k \in Keys |-> MonTick(mon[k], k, kol, koh, EvKind(evs, k))]
    [] e.ev = "Press"   -> IF mon[e.k].held THEN mon ELSE [mon EXCEPT ![e.k].held = TRUE, ![e.k].hs = 0, ![e.k].se = 0, ![e.k].last = IF @ = "rep" THEN "P" ELSE @]
    [] e.ev = "Release" -> IF ~mon[e.k].held THEN mon ELSE [mon EXCEPT ![e.k].held = FALSE, ![e.k].hs = 0, ![e.k].sr = 0]
    [] e.ev = "WriteKOL" -> [k \in Keys |-> IF Strobed(k, e.v, koh) THEN mon[k] ELSE [mon[k] EXCEPT !.hs = 0]]
    [] e.ev = "WriteKOH" -> [k \in Keys |-> IF Strobed(k, kol, e.v) THEN mon[k] ELSE [mon[k] EXCEPT !.hs = 0]]
    [] e.ev = "Inject"  -> [mon EXCEPT ![e.k] = [@ EXCEPT !.held = (e.rel = 0), !.hs = IF e.rel = 1 THEN 0 ELSE PressTh, !.sr = IF e.rel = 1 THEN ReleaseTh ELSE 0,
                                                          !.se = 0, !.last = IF e.rel = 1 THEN "R" ELSE "P", !.ab = IF e.rel = 1 THEN ReleaseTh ELSE 0]]
    [] OTHER -> mon
HistAfter(e, evs) ==
  IF e.ev = "Inject" THEN [hist EXCEPT ![e.k] = Append(@, "I")]
  ELSE IF e.ev \in {"Tick", "ReadKIL"} THEN HistAdd(hist, evs) ELSE hist
KolAfter(e) == IF e.ev = "WriteKOL" THEN e.v ELSE kol
KohAfter(e) == IF e.ev = "WriteKOH" THEN e.v ELSE koh

PropClause(e, evs, m2, h2, f2) ==
  LET rows == RowsOf(e.ret)
      l2 == KolAfter(e)  h == KohAfter(e)
  IN IF e.ev = "ReadKIL" /\ \E r \in rows : r # -1 /\ ~\E k \in Keys : KeyRow[k] = r /\ Strobed(k, l2, h) /\ (m2[k].held \/ m2[k].sr < ReleaseTh) THEN "KilSound"
     ELSE IF e.ev = "ReadKIL" /\ e.ret >= 0 /\ \E k \in Keys : m2[k].held /\ Strobed(k, l2, h) /\ m2[k].hs >= PressTh /\ KeyRow[k] \notin rows THEN "KilComplete"
     ELSE IF evc /\ \E k \in Keys : ~OrderOk(h2[k], "up") THEN "EventOrder"
     ELSE IF evc /\ e.ev \in {"Tick", "ReadKIL"} /\ \E k \in Keys : EvKind(evs, k) = "P" /\
                ((mon[k].last = "P" /\ mon[k].se + 1 # RepDelay) \/ (mon[k].last = "rep" /\ mon[k].se + 1 # RepInterval)) THEN "Cadence"
     ELSE IF evc /\ RepInterval > 0 /\ \E k \in Keys : m2[k].held /\
                ((m2[k].last = "P" /\ RepDelay > 0 /\ m2[k].se >= RepDelay) \/ (m2[k].last = "rep" /\ m2[k].se >= RepInterval)) THEN "Cadence"
     ELSE IF evc /\ \E k \in Keys : ~m2[k].held /\ m2[k].last \in {"P", "rep"} /\ m2[k].sr >= ReleaseTh THEN "ReleaseFollows"
     ELSE IF evc /\ e.ev \in {"Tick", "ReadKIL"} /\ \E k \in Keys : EvKind(evs, k) = "R" /\ mon[k].ab + 1 < ReleaseTh THEN "ReleaseJustified"
     ELSE IF Len(f2) > Cap THEN "FifoBounded"
     ELSE IF evc /\ e.ev # "Consume" /\ ~IsSuffix(f2, pfifo \o evs) /\ ~(e.ev = "ReadKIL" /\ f2 = <<>>) THEN "DropsOldestOnly"
     ELSE IF e.isr >= 0 /\ Bit(e.isr, 2) = 1 /\ Bit(pisr, 2) = 0 /\ ~(e.kbirq = 1 /\ (Len(f2) > 0 \/ Len(evs) > 0)) THEN "KeyiGated"
     ELSE "ok"

\* what the automaton of Keyboard.tla predicts for this event
PredEvs(e) == IF e.ev \in {"Tick", "ReadKIL"} THEN TickEvents(ks, kol, koh)
              ELSE IF e.ev = "Inject" THEN << <<e.k, IF e.rel = 1 THEN "R" ELSE "P">> >> ELSE <<>>
PredRet(e) == IF e.ev = "ReadKIL"
              THEN LET ks2 == TickStates(ks, kol, koh) IN {KeyRow[k] : k \in {x \in Keys : Strobed(x, kol, koh) /\ (ks2[x].deb \/ (ks2[x].pressed /\ ks2[x].pt + 1 >= PressTh))}}
              ELSE {-1}

TNext ==
  /\ l <= Len(TraceLog) /\ l' = l + 1 /\ UNCHANGED <<acts, depth>>
  /\ LET e == TraceLog[l] IN
     IF e.ev = "Init"
     THEN /\ ks' = [k \in Keys |-> K0] /\ kol' = Inactive /\ koh' = Inactive /\ fifo' = <<>> /\ ret' = {-1} /\ newev' = <<>>
          /\ mon' = [k \in Keys |-> M0] /\ hist' = [k \in Keys |-> <<>>] /\ lastact' = "Init"
          /\ bad' = bad /\ pfifo' = <<>> /\ pisr' = 0 /\ evc' = (e.evc = 1)
     ELSE LET evs == EvsOf(e.events)
              f2 == FifoOf(e.fifo)
              m2 == MonAfter(e, evs)
              h2 == HistAfter(e, evs)
              pc == PropClause(e, evs, m2, h2, f2)
              mm == IF pc # "ok" THEN pc
                    ELSE IF evc /\ {evs[i] : i \in 1..Len(evs)} # {PredEvs(e)[i] : i \in 1..Len(PredEvs(e))} THEN "ModelMismatch-events"
                    ELSE IF e.ev = "ReadKIL" /\ RowsOf(e.ret) # PredRet(e) THEN "ModelMismatch-kil"
                    ELSE "ok"
          IN /\ (IF mm = "ok" THEN bad' = bad ELSE Flag(e, mm, <<e.ev, e.k, e.v, e.ret, e.events, e.fifo, [k \in Keys |-> <<m2[k].held, m2[k].hs, m2[k].sr, m2[k].se, m2[k].last>>], [k \in Keys |-> <<ks[k].deb, ks[k].rep>>]>>))
             /\ mon' = (IF pc = "EventOrder" \/ pc = "Cadence" \/ pc = "ReleaseFollows"
                        THEN [k \in Keys |-> [m2[k] EXCEPT !.se = 0, !.last = IF m2[k].held THEN m2[k].last ELSE "R"]] ELSE m2)
             /\ hist' = (IF pc = "EventOrder" THEN [k \in Keys |-> <<>>] ELSE h2)
             /\ ks' = LoggedKs(e) /\ kol' = KolAfter(e) /\ koh' = KohAfter(e)
             /\ fifo' = f2 /\ newev' = evs /\ ret' = RowsOf(e.ret) /\ lastact' = e.ev
             /\ pfifo' = f2 /\ pisr' = (IF e.isr >= 0 THEN e.isr ELSE pisr) /\ evc' = evc

TSpec == TInit /\ [][TNext]_tvars
Done == l = Len(TraceLog) + 1
Report == Done => PrintT(<<"BAD", Cardinality(bad), bad>>)
=============================================================================
