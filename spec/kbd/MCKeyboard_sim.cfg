SPECIFICATION Spec
CONSTANTS
  Keys <- KP
  KeyCol <- PCol
  KeyRow <- PRow
  PressTh = 2
  ReleaseTh = 2
  RepDelay = 3
  RepInterval = 2
  Cap = 7
  ActiveHigh = TRUE
  StrobeVals <- StrobesHigh
  MaxDepth = 60
  RecordActs = TRUE
INVARIANT KilSound
INVARIANT KilComplete
INVARIANT EventOrder
INVARIANT NoSkippedRepeat
INVARIANT FifoBounded
INVARIANT ReleaseFollows
PROPERTY Cadence
PROPERTY ReleaseJustified
PROPERTY DropsOldestOnly
CHECK_DEADLOCK FALSE
