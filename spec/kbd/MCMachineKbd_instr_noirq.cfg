SPECIFICATION Spec
CONSTANTS
  ScanOn = "instr"
  Periods = {1}
  ImrVals <- ImrTiny
  KbIrq = FALSE
  Cap = 3
  PressTh = 2
  ReleaseTh = 2
  RepDelay = 3
  RepInterval = 2
  MaxDepth = 9
  MaxNest = 2
  RecordActs = FALSE
INVARIANT TypeOK
INVARIANT LatchHasCause
INVARIANT FifoBounded
INVARIANT EventOrder
INVARIANT NoLatePress
PROPERTY KeyiGated
PROPERTY FifoLaw
PROPERTY EventsFromScans
PROPERTY ScanNeedsFiring
PROPERTY DebounceInScans
PROPERTY DeliverOnlyIfEnabled
CHECK_DEADLOCK FALSE
