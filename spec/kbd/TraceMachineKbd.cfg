SPECIFICATION TSpec
INVARIANT Report
CHECK_DEADLOCK FALSE
