SPECIFICATION Spec
CONSTANTS
  Keys <- KP
  KeyCol <- PCol
  KeyRow <- PRow
  PressTh = 2
  ReleaseTh = 6
  RepDelay = 24
  RepInterval = 6
  Cap = 8
  ActiveHigh = TRUE
  StrobeVals <- StrobesHigh
  MaxDepth = 120
  RecordActs = TRUE
INVARIANT KilSound
INVARIANT KilComplete
INVARIANT EventOrder
INVARIANT NoSkippedRepeat
INVARIANT FifoBounded
INVARIANT ReleaseFollows
PROPERTY Cadence
PROPERTY ReleaseJustified
PROPERTY DropsOldestOnly
CHECK_DEADLOCK FALSE
