------------------------------ MODULE MachineKbd ------------------------------
(* The keyboard matrix INSIDE the machine: the composition of the abstract CPU /  *)
(* interrupt controller / main timer of machine/Machine.tla with the per-key       *)
(* automaton of KeyAutomaton.tla, the event queue and the key-interrupt latch.     *)
(* (pce500/emulator.py: step, _tick_timers, _scan_keyboard_per_instruction,        *)
(*  _handle_imem_access (ISR write), the _key_irq_latched re-assertion at the top   *)
(*  of step; sc62015-core lib.rs: CoreRuntime::step, refresh_key_irq_latch,         *)
(*  tick_timers_and_keyboard; timer.rs: tick_timers_with_keyboard.)                 *)
(*                                                                                  *)
(* Keyboard.tla (property C14) specifies the matrix as an object driven by explicit *)
(* ScanTick calls.  Here nobody calls ScanTick: the MACHINE decides when the matrix *)
(* is scanned, and the two machines decide differently -                            *)
(*   ScanOn = "instr" (Python): once at the end of every executed instruction       *)
(*       (handlers included) and once per halted step; the request is latched       *)
(*       whenever the queue is non-empty and keyboard interrupts are enabled;       *)
(*       firmware clearing ISR.KEYI with the key source unmasked drains the queue   *)
(*       and drops the latch;                                                       *)
(*   ScanOn = "mti" (Rust): once per main-timer firing outside handlers; a latch    *)
(*       is created only by fresh events, re-asserted at every step outside         *)
(*       handlers, and dropped by the return from a KEY delivery (which also        *)
(*       acknowledges the status bit).                                              *)
(* The sentences of C14 that only make sense at this level - "the key interrupt is  *)
(* raised only when events are pending and keyboard interrupts are enabled", queue  *)
(* order and per-key event order as the FIRMWARE sees them - are stated below as    *)
(* properties that hold under BOTH disciplines, so that the same clauses can judge  *)
(* recorded runs of either machine (TraceMachineKbd.tla).  The model's behaviours   *)
(* are scripts for both real machines.                                              *)
(* Left out: the sub timer and WAIT (Machine.tla), the frame (Interrupts.tla), KIL  *)
(* reads (Keyboard.tla), more than one key, the Python machine's single pending     *)
(* flag (a recorded C12 finding).                                                   *)
EXTENDS Integers, Sequences, FiniteSets, TLC, KeyAutomaton

CONSTANTS ScanOn,       \* "instr" | "mti"
          Periods,      \* candidate main-timer periods (0 = off)
          ImrVals, KbIrq, Cap, MaxDepth, MaxNest, RecordActs

Src == {0, 1, 2, 3}          \* MTI STI KEY ONK
Bit(v, i) == (v \div (2 ^ i)) % 2
BitsOf(v) == {i \in Src : Bit(v, i) = 1}

VARIABLES imr, isr, power, saved,   \* saved: stack of [imr, src] pushed at delivery (innermost last)
          cyc, pm, nm,
          key, strobe,              \* the one key (KeyAutomaton state; key.pressed = physically held) and whether its column is strobed
          fifo, latch,              \* queue of "P" / "R"; key-interrupt latch
          newev, scans, fired,      \* what the latest step did: events queued, number of scans, main timer fired
          hs,                       \* consecutive scans that saw the key held on a strobed column (saturates at PressTh)
          hist, acts, depth, last

vars == <<imr, isr, power, saved, cyc, pm, nm, key, strobe, fifo, latch, newev, scans, fired, hs, hist, acts, depth, last>>
Rec(a) == IF RecordActs THEN Append(acts, a) ELSE acts
Deliverable(m, s) == Bit(m, 7) = 1 /\ (BitsOf(m) \cap s) # {}
\* both machines prefer the key source when it is enabled and pending
SrcOf(m, s) == LET e == BitsOf(m) \cap s IN IF 2 \in e THEN 2 ELSE CHOOSE x \in e : \A y \in e : x <= y
Enq(q, ev) == IF ev = "" THEN q ELSE LET all == Append(q, ev) IN IF Len(all) > Cap THEN Tail(all) ELSE all
Min(a, b) == IF a < b THEN a ELSE b

RECURSIVE Push(_, _, _)
Push(next, c, p) == IF c >= next THEN Push(next + p, c, p) ELSE next
FiresAt(c, n) == pm > 0 /\ c >= n

Init == /\ imr = 0 /\ isr = {} /\ power = "run" /\ saved = <<>> /\ cyc = 0
        /\ pm \in Periods /\ nm = pm
        /\ key = K0 /\ strobe = FALSE /\ fifo = <<>> /\ latch = FALSE
        /\ newev = <<>> /\ scans = 0 /\ fired = FALSE /\ hs = 0 /\ hist = <<>>
        /\ acts = (IF RecordActs THEN <<[ev |-> "TimerCfg", pm |-> pm, ps |-> 0]>> ELSE <<>>)
        /\ depth = 0 /\ last = "Init"

Alphabet == {[k |-> "NOP"], [k |-> "HALT"]}
            \cup {[k |-> "SETIMR", v |-> v] : v \in ImrVals}
            \cup {[k |-> "CLRISR", m |-> {i}] : i \in {0, 2}}
            \cup {[k |-> "STROBE", v |-> v] : v \in {0, 1}}
            \cup (IF saved # <<>> THEN {[k |-> "RETI"]} ELSE {})

\* one state record threaded through a step
St == [imr |-> imr, isr |-> isr, power |-> power, saved |-> saved, key |-> key, strobe |-> strobe, fifo |-> fifo, latch |-> latch,
       ev |-> <<>>, scans |-> 0]

\* one scan of the matrix by the machine
ScanInstr(s) ==      \* Python: latch from events OR a non-empty queue
  LET r == TickKey(s.key, s.strobe)
      q == Enq(s.fifo, r.ev)
      l == KbIrq /\ (r.ev # "" \/ q # <<>>)
  IN [s EXCEPT !.key = r.s, !.fifo = q, !.ev = IF r.ev = "" THEN @ ELSE Append(@, r.ev), !.scans = @ + 1,
               !.latch = @ \/ l, !.isr = IF l THEN @ \cup {2} ELSE @]
ScanMti(s) ==        \* Rust: latch from fresh events only
  LET r == TickKey(s.key, s.strobe)
      q == Enq(s.fifo, r.ev)
  IN [s EXCEPT !.key = r.s, !.fifo = q, !.ev = IF r.ev = "" THEN @ ELSE Append(@, r.ev), !.scans = @ + 1,
               !.latch = @ \/ (KbIrq /\ r.ev # "")]

\* the instruction itself
Exec(ins, s) ==
  CASE ins.k = "SETIMR" -> [s EXCEPT !.imr = ins.v]
    [] ins.k = "CLRISR" ->
         IF ScanOn = "instr" /\ 2 \in ins.m /\ 2 \in s.isr /\ Bit(s.imr, 7) = 1 /\ Bit(s.imr, 2) = 1
         THEN [s EXCEPT !.isr = @ \ ins.m, !.fifo = <<>>, !.latch = FALSE]       \* firmware acknowledges an unmasked key request: queue drained
         ELSE [s EXCEPT !.isr = @ \ ins.m]
    [] ins.k = "STROBE" -> [s EXCEPT !.strobe = (ins.v = 1)]
    [] ins.k = "HALT"   -> [s EXCEPT !.power = "halt"]
    [] ins.k = "RETI"   ->
         LET top == s.saved[Len(s.saved)]
             rest == SubSeq(s.saved, 1, Len(s.saved) - 1)
         IN IF ScanOn = "mti"
            THEN [s EXCEPT !.imr = top.imr, !.saved = rest, !.isr = @ \ {top.src},          \* acknowledge at return
                           !.latch = IF top.src = 2 THEN FALSE ELSE @]
            ELSE [s EXCEPT !.imr = top.imr, !.saved = rest]
    [] OTHER            -> s

Deliver(s) == [s EXCEPT !.saved = Append(@, [imr |-> s.imr, src |-> SrcOf(s.imr, s.isr)]), !.imr = s.imr - 128, !.power = "run"]
Reassert(s) == IF s.latch /\ s.saved = <<>> THEN [s EXCEPT !.isr = @ \cup {2}] ELSE s

Commit(s, c2, n2, f) ==
  /\ imr' = s.imr /\ isr' = s.isr /\ power' = s.power /\ saved' = s.saved
  /\ key' = s.key /\ strobe' = s.strobe /\ fifo' = s.fifo /\ latch' = s.latch
  /\ newev' = s.ev /\ scans' = s.scans /\ fired' = f /\ cyc' = c2 /\ nm' = n2
  /\ hs' = IF s.scans = 0 THEN hs ELSE IF s.key.pressed /\ s.strobe THEN Min(PressTh, hs + s.scans) ELSE 0      \* only a scan can see the key
  /\ hist' = hist \o s.ev

Bound(name, a) == depth < MaxDepth /\ depth' = depth + 1 /\ acts' = Rec(a) /\ last' = name /\ UNCHANGED pm

\* --- Python discipline: re-assert, deliver-check, tick at the cycle the step starts with, execute, scan
InstrRun(ins, s0) ==
  LET s1 == Reassert(s0) IN
  IF Deliverable(s1.imr, s1.isr) /\ Len(s1.saved) < MaxNest
  THEN Commit(ScanInstr(Deliver(s1)), cyc + 1, nm, FALSE)                    \* the handler's leading NOP runs in this step
  ELSE LET f == s1.saved = <<>> /\ FiresAt(cyc, nm)
           s2 == IF f THEN [s1 EXCEPT !.isr = @ \cup {0}] ELSE s1
       IN Commit(ScanInstr(Exec(ins, s2)), cyc + 1, IF f THEN Push(nm, cyc, pm) ELSE nm, f)
\* --- Rust discipline: re-assert, execute, tick the counted cycle (scan on a firing), deliver
MtiRun(ins, s0) ==
  LET s1 == Exec(ins, Reassert(s0))
      c2 == cyc + 1
      f == s1.saved = <<>> /\ FiresAt(c2, nm)
      s2 == IF f THEN ScanMti([s1 EXCEPT !.isr = @ \cup {0}]) ELSE s1
      s3 == IF s2.saved = <<>> /\ s2.latch THEN [s2 EXCEPT !.isr = @ \cup {2}] ELSE s2      \* tick_timers_with_keyboard asserts an active latch
      s4 == IF s3.power = "run" /\ Deliverable(s3.imr, s3.isr) /\ Len(s3.saved) < MaxNest THEN Deliver(s3) ELSE s3
  IN Commit(s4, c2, IF f THEN Push(nm, c2, pm) ELSE nm, f)

StepRun(ins) == /\ power = "run" /\ ins \in Alphabet
                /\ Bound("Step", [ev |-> "Step", ins |-> ins])
                /\ IF ScanOn = "instr" THEN InstrRun(ins, St) ELSE MtiRun(ins, St)

\* a halted CPU: the idle cycle is ticked (and, in the Python discipline, the matrix scanned); any status bit wakes it
StepHalt ==
  /\ power = "halt"
  /\ Bound("StepHalt", [ev |-> "Step", ins |-> [k |-> "IDLE"]])
  /\ IF ScanOn = "instr"
     THEN LET f == saved = <<>> /\ FiresAt(cyc, nm)
              s1 == ScanInstr(Reassert(IF f THEN [St EXCEPT !.isr = @ \cup {0}] ELSE St))
          IN IF s1.isr # {}
             THEN LET s2 == [s1 EXCEPT !.power = "run"] IN
                  IF Deliverable(s2.imr, s2.isr) /\ Len(s2.saved) < MaxNest
                  THEN Commit(ScanInstr(Deliver(s2)), cyc + 1, IF f THEN Push(nm, cyc, pm) ELSE nm, f)
                  ELSE Commit(ScanInstr(s2), cyc + 1, IF f THEN Push(nm, cyc, pm) ELSE nm, f)     \* the woken CPU runs the next NOP
             ELSE Commit(s1, cyc + 1, IF f THEN Push(nm, cyc, pm) ELSE nm, f)
     ELSE LET s0 == Reassert(St) IN
          IF s0.isr # {} THEN MtiRun([k |-> "NOP"], [s0 EXCEPT !.power = "run"])
          ELSE LET c2 == cyc + 1
                   f == saved = <<>> /\ FiresAt(c2, nm)
                   s2 == IF f THEN ScanMti([s0 EXCEPT !.isr = @ \cup {0}]) ELSE s0
                   s3 == IF s2.saved = <<>> /\ s2.latch THEN [s2 EXCEPT !.isr = @ \cup {2}] ELSE s2
                   s4 == IF Deliverable(s3.imr, s3.isr) /\ Len(s3.saved) < MaxNest THEN Deliver(s3) ELSE s3
               IN Commit(s4, c2, IF f THEN Push(nm, c2, pm) ELSE nm, f)

\* the environment: the one key goes down / up between two instructions
Env(name, a, k2) == /\ Bound(name, a) /\ key' = k2 /\ hs' = 0 /\ newev' = <<>> /\ scans' = 0 /\ fired' = FALSE
                    /\ UNCHANGED <<imr, isr, power, saved, cyc, nm, strobe, fifo, latch, hist>>
Press   == ~key.pressed /\ Env("Press", [ev |-> "Key", press |-> 1], [key EXCEPT !.pressed = TRUE, !.pt = 0, !.rt = 0, !.rep = RepDelay])
Release == key.pressed /\ Env("Release", [ev |-> "Key", press |-> 0], [key EXCEPT !.pressed = FALSE, !.rt = 0])

Next == (\E ins \in Alphabet : StepRun(ins)) \/ StepHalt \/ Press \/ Release
Spec == Init /\ [][Next]_vars

\* ------------------------------------------------------------- properties (all hold under both disciplines)
Stepped == last' \in {"Step", "StepHalt"}
\* C14: "the key interrupt is raised only when events are pending and keyboard interrupts are enabled"
KeyiGated == [][(2 \notin isr /\ 2 \in isr') => (KbIrq /\ (fifo' # <<>> \/ newev' # <<>>))]_vars
LatchHasCause == latch => (KbIrq /\ fifo # <<>>)
\* C14 as the firmware sees the queue: bounded, oldest dropped first, nothing reordered; drained only by the firmware's acknowledge
IsPrefix(s, t) == Len(s) <= Len(t) /\ \A i \in 1..Len(s) : s[i] = t[i]
FifoLaw == [][Stepped => \/ \E j \in 0..Len(fifo) : /\ fifo' = SubSeq(fifo, j + 1, Len(fifo)) \o newev'
                                                   /\ (j > 0 => Len(fifo') = Cap)
                         \/ (ScanOn = "instr" /\ IsPrefix(fifo', newev'))]_vars          \* drained by the acknowledge, then the end-of-instruction scan
FifoBounded == Len(fifo) <= Cap
\* C14: per key a press event first, repeats while held, one release afterwards
RECURSIVE OrderOk(_, _)
OrderOk(h, down) == IF h = <<>> THEN TRUE ELSE IF Head(h) = "P" THEN OrderOk(Tail(h), TRUE) ELSE down /\ OrderOk(Tail(h), FALSE)
EventOrder == OrderOk(hist, FALSE)
\* events come out of scans, and (Rust discipline) scans come out of main-timer firings outside handlers
EventsFromScans == [][Len(newev') <= scans']_vars
ScanNeedsFiring == [][(ScanOn = "mti" /\ scans' > 0) => fired']_vars
\* C14 "always shows it / produces one press event once held for the debounce interval", counted in the machine's own scans
DebounceInScans == [][(Stepped /\ newev' # <<>> /\ newev'[1] = "P" /\ ~key.deb) => hs + scans' >= PressTh]_vars
NoLatePress == (key.pressed /\ strobe /\ hs >= PressTh) => key.deb
\* C12 at this level: a delivery needs the master enable, the source's mask bit and its status bit
DeliverOnlyIfEnabled == [][Len(saved') > Len(saved) => LET t == saved'[Len(saved')] IN Bit(t.imr, 7) = 1 /\ Bit(t.imr, t.src) = 1 /\ imr' = t.imr - 128]_vars
TypeOK == cyc \in Nat /\ nm \in Nat /\ isr \subseteq Src /\ Len(saved) <= MaxNest /\ hs \in 0..PressTh
=============================================================================
