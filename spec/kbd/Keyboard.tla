------------------------------ MODULE Keyboard ------------------------------
(* The PC-E500 keyboard matrix: per-key debounce/repeat automaton, column     *)
(* strobe registers KOL/KOH, key-input register KIL, event FIFO.              *)
(* (pce500/keyboard_matrix.py + keyboard_handler.py; sc62015-core keyboard.rs)*)
(* Property C14.                                                              *)
(*                                                                            *)
(* Two layers:                                                                *)
(*  - the implementation-shaped automaton (key state, FIFO) with one action   *)
(*    per public call: Press, Release, WriteKOL, WriteKOH, ScanTick, ReadKIL  *)
(*    (which scans, then reports debounced-or-about-to-debounce keys), Inject,*)
(*    Consume (the firmware draining the queue);                              *)
(*  - MONITORS driven only by the inputs (who is physically held, which       *)
(*    columns are strobed, tick counts), from which the property clauses are  *)
(*    stated without reference to the automaton's private counters.           *)
EXTENDS Integers, Sequences, FiniteSets, TLC, KeyAutomaton

CONSTANTS Keys,          \* set of key ids; Col(k), Row(k) below
          KeyCol, KeyRow, \* [Keys -> 0..10], [Keys -> 0..7]
          \* PressTh, ReleaseTh, RepDelay, RepInterval (ticks; RepInterval = 0 disables repeats) are declared in KeyAutomaton
          Cap,           \* FIFO capacity (events held)
          ActiveHigh,    \* column polarity
          StrobeVals,    \* values written to KOL (KOH is kept inactive in the small model)
          MaxDepth, RecordActs

VARIABLES ks,      \* [Keys -> [pressed, deb, pt, rt, rep]]
          kol, koh,
          fifo,    \* Seq of <<key, kind>>, kind \in {"P", "R"}  (a repeat is another "P")
          ret,     \* value returned by the latest ReadKIL (set of rows) or {-1}
          newev,   \* events enqueued by the latest action
          mon,     \* [Keys -> [held, hs, sr, se, last, n]] monitors, see below
          hist,    \* [Keys -> Seq of kinds]  per-key event history
          acts, depth, lastact

vars == <<ks, kol, koh, fifo, ret, newev, mon, hist, acts, depth, lastact>>
Rec(a) == IF RecordActs THEN Append(acts, a) ELSE acts

Bit(v, i) == (v \div (2 ^ i)) % 2
ColActive(c, l, h) == LET b == IF c < 8 THEN Bit(l, c) ELSE Bit(h, c - 8) IN IF ActiveHigh THEN b = 1 ELSE b = 0
Strobed(k, l, h) == ColActive(KeyCol[k], l, h)
Inactive == IF ActiveHigh THEN 0 ELSE 255

\* monitors: held = physically down; hs = consecutive ticks held on a strobed column; sr = ticks since physical release
\* (ReleaseTh = "long ago"); se = held-and-strobed ticks since this key's last press/repeat event; last = kind of its last event
\* ab = consecutive scan ticks on which the key was NOT held on a strobed column (ReleaseTh = "long ago")
M0 == [held |-> FALSE, hs |-> 0, sr |-> ReleaseTh, se |-> 0, last |-> "none", ab |-> ReleaseTh]

Init ==
  /\ ks = [k \in Keys |-> K0] /\ kol = Inactive /\ koh = Inactive
  /\ fifo = <<>> /\ ret = {-1} /\ newev = <<>>
  /\ mon = [k \in Keys |-> M0] /\ hist = [k \in Keys |-> <<>>]
  /\ acts = <<>> /\ depth = 0 /\ lastact = "Init"

\* keys are scanned in a fixed order (ascending id); events are enqueued in that order
RECURSIVE SeqOfSet(_)
SeqOfSet(S) == IF S = {} THEN <<>> ELSE LET m == CHOOSE x \in S : \A y \in S : x <= y IN <<m>> \o SeqOfSet(S \ {m})
KeySeq == SeqOfSet(Keys)
TickEvents(st, l, h) == LET raw == [i \in 1..Len(KeySeq) |-> <<KeySeq[i], TickKey(st[KeySeq[i]], Strobed(KeySeq[i], l, h)).ev>>]
                        IN SelectSeq(raw, LAMBDA e : e[2] # "")
TickStates(st, l, h) == [k \in Keys |-> TickKey(st[k], Strobed(k, l, h)).s]

Enqueue(q, evs) == LET all == q \o evs IN IF Len(all) > Cap THEN SubSeq(all, Len(all) - Cap + 1, Len(all)) ELSE all

\* monitors advance on every scan (ScanTick and ReadKIL)
MonTick(m, k, l, h, evk) ==
  LET on == m.held /\ Strobed(k, l, h) IN
  [m EXCEPT !.hs = IF on THEN m.hs + 1 ELSE 0,
            !.sr = IF m.held THEN 0 ELSE (IF m.sr < ReleaseTh THEN m.sr + 1 ELSE m.sr),
            !.se = IF evk # "" THEN 0 ELSE (IF on THEN m.se + 1 ELSE m.se),
            !.ab = IF on THEN 0 ELSE (IF m.ab < ReleaseTh THEN m.ab + 1 ELSE m.ab),
            !.last = IF evk = "" THEN m.last ELSE (IF evk = "R" THEN "R" ELSE (IF m.last \in {"P", "rep"} THEN "rep" ELSE "P"))]
EvKind(evs, k) == IF \E i \in 1..Len(evs) : evs[i][1] = k THEN (CHOOSE e \in {evs[i] : i \in 1..Len(evs)} : e[1] = k)[2] ELSE ""
HistAdd(hh, evs) == [k \in Keys |-> IF EvKind(evs, k) = "" THEN hh[k] ELSE Append(hh[k], EvKind(evs, k))]

Scan(isRead) ==
  LET evs == TickEvents(ks, kol, koh)
      ks2 == TickStates(ks, kol, koh)
  IN /\ ks' = ks2
     /\ fifo' = Enqueue(fifo, evs) /\ newev' = evs
     /\ mon' = [k \in Keys |-> MonTick(mon[k], k, kol, koh, EvKind(evs, k))]
     /\ hist' = HistAdd(hist, evs)
     /\ ret' = IF isRead
               THEN {KeyRow[k] : k \in {x \in Keys : Strobed(x, kol, koh) /\ (ks2[x].deb \/ (ks2[x].pressed /\ ks2[x].pt + 1 >= PressTh))}}
               ELSE {-1}

Step(name, a) == depth < MaxDepth /\ depth' = depth + 1 /\ acts' = Rec(a) /\ lastact' = name

Press(k) ==
  /\ Step("Press", [ev |-> "Press", k |-> k]) /\ ~ks[k].pressed
  /\ ks' = [ks EXCEPT ![k] = [@ EXCEPT !.pressed = TRUE, !.pt = 0, !.rt = 0, !.rep = RepDelay]]
  \* a physical re-press (bounce within the release window) restarts the repeat cadence with the initial delay
  /\ mon' = [mon EXCEPT ![k].held = TRUE, ![k].hs = 0, ![k].se = 0, ![k].last = IF @ = "rep" THEN "P" ELSE @]
  /\ newev' = <<>> /\ ret' = {-1} /\ UNCHANGED <<kol, koh, fifo, hist>>
\* the host reports a key that is already held once more (host auto-repeat): not an input change - the key keeps its place in
\* the debounce / repeat cycle (pce500 KeyboardMatrix.press_key returns early; the Rust matrix restarts the debounce - a
\* recorded finding)
PressAgain(k) ==
  /\ Step("Press", [ev |-> "Press", k |-> k]) /\ ks[k].pressed
  /\ newev' = <<>> /\ ret' = {-1} /\ UNCHANGED <<ks, mon, kol, koh, fifo, hist>>
Release(k) ==
  /\ Step("Release", [ev |-> "Release", k |-> k]) /\ ks[k].pressed
  /\ ks' = [ks EXCEPT ![k] = [@ EXCEPT !.pressed = FALSE, !.rt = 0]]
  /\ mon' = [mon EXCEPT ![k].held = FALSE, ![k].hs = 0, ![k].sr = 0]
  /\ newev' = <<>> /\ ret' = {-1} /\ UNCHANGED <<kol, koh, fifo, hist>>
WriteKOL(v) ==
  /\ Step("WriteKOL", [ev |-> "WriteKOL", v |-> v]) /\ v # kol
  /\ kol' = v /\ mon' = [k \in Keys |-> IF Strobed(k, v, koh) THEN mon[k] ELSE [mon[k] EXCEPT !.hs = 0]]
  /\ newev' = <<>> /\ ret' = {-1} /\ UNCHANGED <<ks, koh, fifo, hist>>
ScanTick == Step("ScanTick", [ev |-> "Tick"]) /\ Scan(FALSE) /\ UNCHANGED <<kol, koh>>
ReadKIL == Step("ReadKIL", [ev |-> "ReadKIL"]) /\ Scan(TRUE) /\ UNCHANGED <<kol, koh>>
Inject(k, rel) ==
  /\ Step("Inject", [ev |-> "Inject", k |-> k, rel |-> rel])
  /\ ks' = [ks EXCEPT ![k] = IF rel THEN K0 ELSE [pressed |-> TRUE, deb |-> TRUE, pt |-> PressTh, rt |-> 0, rep |-> RepDelay]]
  /\ LET e == <<k, IF rel THEN "R" ELSE "P">> IN
     /\ fifo' = Enqueue(fifo, <<e>>) /\ newev' = <<e>> /\ hist' = [hist EXCEPT ![k] = Append(@, "I")]
  /\ mon' = [mon EXCEPT ![k] = [@ EXCEPT !.held = ~rel, !.hs = IF rel THEN 0 ELSE PressTh, !.sr = IF rel THEN ReleaseTh ELSE 0, !.se = 0, !.last = IF rel THEN "R" ELSE "P",
                                          !.ab = IF rel THEN ReleaseTh ELSE 0]]
  /\ ret' = {-1} /\ UNCHANGED <<kol, koh>>
Consume ==
  /\ Step("Consume", [ev |-> "Consume"]) /\ fifo # <<>>
  /\ fifo' = <<>> /\ newev' = <<>> /\ ret' = {-1} /\ UNCHANGED <<ks, kol, koh, mon, hist>>

Next == \/ \E k \in Keys : Press(k) \/ PressAgain(k) \/ Release(k)
        \/ \E v \in StrobeVals : WriteKOL(v)
        \/ ScanTick \/ ReadKIL \/ Consume
        \/ \E k \in Keys, r \in BOOLEAN : Inject(k, r)
Spec == Init /\ [][Next]_vars

\* ------------------------------------------------------------- properties
\* C14: KIL never shows row r unless a key of row r on a strobed column is held or was released < ReleaseTh ticks ago
KilSound == \A r \in ret : r = -1 \/ \E k \in Keys : KeyRow[k] = r /\ Strobed(k, kol, koh) /\ (mon[k].held \/ mon[k].sr < ReleaseTh)
\* C14: ... and always shows it once such a key has been held (on a strobed column) for the debounce interval
KilComplete == (ret # {-1}) => \A k \in Keys : (mon[k].held /\ Strobed(k, kol, koh) /\ mon[k].hs >= PressTh) => KeyRow[k] \in ret
\* C14: per key: a press event first, repeats while held, exactly one release after, in that order (injected events "I" restart the pattern)
RECURSIVE OrderOk(_, _)
OrderOk(h, st) ==   \* st \in {"up", "down"}
  IF h = <<>> THEN TRUE
  ELSE LET x == Head(h) IN
       IF x = "I" THEN OrderOk(Tail(h), "any")
       ELSE IF st = "any" THEN OrderOk(Tail(h), IF x = "P" THEN "down" ELSE "up")
       ELSE IF x = "P" THEN OrderOk(Tail(h), "down")
       ELSE st = "down" /\ OrderOk(Tail(h), "up")
EventOrder == \A k \in Keys : OrderOk(hist[k], "up")
\* C14: repeats come RepDelay ticks after the press event and every RepInterval ticks after that (ticks on which the
\* key is held on a strobed column), and are not skipped
Cadence == [][\A k \in Keys :
               /\ (EvKind(newev', k) = "P" /\ lastact' \in {"ScanTick", "ReadKIL"} /\ mon[k].last = "P") => mon[k].se + 1 = RepDelay
               /\ (EvKind(newev', k) = "P" /\ lastact' \in {"ScanTick", "ReadKIL"} /\ mon[k].last = "rep") => mon[k].se + 1 = RepInterval]_vars
NoSkippedRepeat == RepInterval > 0 => \A k \in Keys :
               /\ (mon[k].last = "P" /\ mon[k].held) => mon[k].se < RepDelay \/ RepDelay = 0
               /\ (mon[k].last = "rep" /\ mon[k].held) => mon[k].se < RepInterval
\* C14: "... and one release event afterwards": once a key with an outstanding press event is let go, its release
\* event arrives within the release interval
ReleaseFollows == \A k \in Keys : (~mon[k].held /\ mon[k].last \in {"P", "rep"}) => mon[k].sr < ReleaseTh
\* C14: "... and one release event AFTERWARDS": a scan produces a release event only for a key that has not been seen (held
\* on a strobed column) for the whole release interval - never for a key that is being held and scanned
ReleaseJustified == [][\A k \in Keys : (EvKind(newev', k) = "R" /\ lastact' \in {"ScanTick", "ReadKIL"}) => mon[k].ab + 1 >= ReleaseTh]_vars
\* C14: the queue never exceeds its capacity and only ever drops its oldest entries
FifoBounded == Len(fifo) <= Cap
IsSuffix(s, t) == Len(s) <= Len(t) /\ \A i \in 1..Len(s) : s[i] = t[Len(t) - Len(s) + i]
DropsOldestOnly == [][lastact' # "Consume" => IsSuffix(fifo', fifo \o newev')]_vars
=============================================================================
