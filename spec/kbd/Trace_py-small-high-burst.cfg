SPECIFICATION TSpec
CONSTANTS
  Keys <- TK
  KeyCol <- TCol
  KeyRow <- TRow
  PressTh = 2
  ReleaseTh = 2
  RepDelay = 3
  RepInterval = 2
  Cap = 7
  ActiveHigh = TRUE
  StrobeVals = {}
  MaxDepth = 0
  RecordActs = FALSE
INVARIANT Report
CHECK_DEADLOCK FALSE
