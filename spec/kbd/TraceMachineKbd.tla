--------------------------- MODULE TraceMachineKbd ---------------------------
(* The keyboard inside the machine (MachineKbd.tla) judged on recorded          *)
(* step-by-step runs of the whole machines (Rust CoreRuntime, Python             *)
(* PCE500Emulator).  The events are those of machine/TraceMachine.tla (one Step  *)
(* per call of step(1) with the observable state before and after) extended by   *)
(* kf = the queued event bytes, oldest first (bit 7 = release), kl = the key-     *)
(* interrupt latch, envk = the matrix keys the host pressed / released just       *)
(* before the step, kev (if kevk = 1) = the events queued during the step,        *)
(* before the step, rse = status bits the instruction raised itself; the Init     *)
(* event carries kbirq (keyboard interrupts enabled) and cap (events the queue    *)
(* holds).  The clauses are the properties of MachineKbd.tla that TLC shows to    *)
(* hold under the Python discipline (scan per instruction) and the Rust one (scan *)
(* per main-timer firing); they do not depend on when the machine scans.          *)
EXTENDS Integers, Sequences, FiniteSets, TLC, Json, IOUtils

TraceLog == ndJsonDeserialize(IOEnv.TRACE_FILE)
Bit(v, i) == (v \div (2 ^ i)) % 2

VARIABLES l, bad,
          kbirq, cap,
          held,     \* matrix codes physically held (from the script)
          seen,     \* codes held at some point since their last event (a press event must have a cause)
          down      \* codes whose latest queued event was a press / repeat
vars == <<l, bad, kbirq, cap, held, seen, down>>

TInit == l = 1 /\ bad = {} /\ kbirq = 1 /\ cap = 8 /\ held = {} /\ seen = {} /\ down = {}

IsSuffix(s, t) == Len(s) <= Len(t) /\ \A i \in 1..Len(s) : s[i] = t[Len(t) - Len(s) + i]
IsPrefix(s, t) == Len(s) <= Len(t) /\ \A i \in 1..Len(s) : s[i] = t[i]
\* the smallest number of oldest entries dropped such that the rest of the old queue leads the new one
Dropped(f, g) == CHOOSE j \in 0..Len(f) : IsPrefix(SubSeq(f, j + 1, Len(f)), g) /\ \A i \in 0..(j - 1) : ~IsPrefix(SubSeq(f, i + 1, Len(f)), g)
NewEvents(f, g) == LET j == Dropped(f, g) IN SubSeq(g, Len(f) - j + 1, Len(g))

RECURSIVE OrderClause(_, _)
\* per key: a release event only for a key whose latest event was a press
OrderClause(evs, dn) ==
  IF evs = <<>> THEN "ok"
  ELSE LET b == Head(evs)  c == b % 128 IN
       IF b >= 128 THEN (IF c \in dn THEN OrderClause(Tail(evs), dn \ {c}) ELSE "EventOrder")
       ELSE OrderClause(Tail(evs), dn \cup {c})
RECURSIVE DownAfter(_, _)
DownAfter(evs, dn) == IF evs = <<>> THEN dn ELSE LET b == Head(evs) IN DownAfter(Tail(evs), IF b >= 128 THEN dn \ {b % 128} ELSE dn \cup {b % 128})

Flag(e, c, which) == bad' = bad \cup {[tid |-> e.tid, line |-> l, clause |-> c, detail |-> <<which, e.kind, e.pre, e.post>>]}

TNext ==
  /\ l <= Len(TraceLog) /\ l' = l + 1
  /\ LET e == TraceLog[l] IN
     IF e.ev = "Init" THEN bad' = bad /\ kbirq' = e.kbirq /\ cap' = e.cap /\ held' = {} /\ seen' = {} /\ down' = {}
     ELSE LET f == e.pre.kf  g == e.post.kf
              j == Dropped(f, g)
              \* events queued during the step: noted by the harness as they are queued where it can (kevk = 1: the Python machine can
              \* queue and drain an event within one step), otherwise what the queue gained
              new == IF e.kevk = 1 THEN e.kev ELSE NewEvents(f, g)
              envs == {e.envk[i] : i \in 1..Len(e.envk)}
              pressedNow == {p[1] : p \in {q \in envs : q[2] = 1}}
              releasedNow == {p[1] : p \in {q \in envs : q[2] = 0}}
              h2 == (held \cup pressedNow) \ releasedNow
              cause == seen \cup held \cup pressedNow
              keyiRose == Bit(e.pre.isr, 2) = 0 /\ Bit(e.post.isr, 2) = 1 /\ Bit(e.rse, 2) = 0
              consumes == (e.kind = "CLRISR" /\ Bit(e.clr, 2) = 1) \/ e.kind = "READKIL" \/ e.kind = "OFF"
              oc == OrderClause(new, down)
              c == IF Len(g) > cap THEN "FifoBounded"
                   \* C14: only ever drops its oldest entries - and only when full, or when the firmware drains it
                   \* (what is left of the old queue, then the new events, is always a suffix of old ++ new; the machine's own
                   \* consumers - KIL read, acknowledge of an unmasked key request - drain the queue completely)
                   ELSE IF e.kevk = 1 /\ ~IsSuffix(g, f \o new) THEN "DropsOldestOnly"
                   ELSE IF e.kevk = 0 /\ j > 0 /\ ~(Len(g) = cap \/ (consumes /\ j = Len(f))) THEN "DropsOldestOnly"
                   \* C14: the key interrupt is raised only when events are pending and keyboard interrupts are enabled
                   ELSE IF keyiRose /\ ~(kbirq = 1 /\ (Len(g) > 0 \/ Len(new) > 0 \/ Len(f) > 0)) THEN "KeyiGated"
                   \* C14: per key a press first ... one release afterwards
                   ELSE IF oc # "ok" THEN oc
                   \* a press event needs a key that is, or was since its last event, physically held
                   ELSE IF \E i \in 1..Len(new) : new[i] < 128 /\ new[i] \notin cause THEN "PressHasCause"
                   ELSE "ok"
          IN /\ (IF c # "ok" THEN Flag(e, c, <<f, g>>) ELSE bad' = bad)
             /\ held' = h2
             /\ seen' = ((seen \cup held \cup pressedNow) \ {new[i] % 128 : i \in {k \in 1..Len(new) : new[k] >= 128}}) \cup h2
             /\ down' = DownAfter(new, down)
             /\ UNCHANGED <<kbirq, cap>>

TSpec == TInit /\ [][TNext]_vars
Done == l = Len(TraceLog) + 1
Report == Done => PrintT(<<"BAD", Cardinality(bad), bad>>)
=============================================================================
