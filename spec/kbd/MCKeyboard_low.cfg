SPECIFICATION Spec
CONSTANTS
  Keys <- KP2
  KeyCol <- PCol
  KeyRow <- PRow
  PressTh = 2
  ReleaseTh = 2
  RepDelay = 3
  RepInterval = 2
  Cap = 3
  ActiveHigh = FALSE
  StrobeVals <- StrobesLow
  MaxDepth = 7
  RecordActs = FALSE
INVARIANT KilSound
INVARIANT KilComplete
INVARIANT EventOrder
INVARIANT NoSkippedRepeat
INVARIANT FifoBounded
INVARIANT ReleaseFollows
PROPERTY Cadence
PROPERTY ReleaseJustified
PROPERTY DropsOldestOnly
CHECK_DEADLOCK FALSE
