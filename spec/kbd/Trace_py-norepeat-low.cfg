SPECIFICATION TSpec
CONSTANTS
  Keys <- TK
  KeyCol <- TCol
  KeyRow <- TRow
  PressTh = 3
  ReleaseTh = 4
  RepDelay = 3
  RepInterval = 0
  Cap = 7
  ActiveHigh = FALSE
  StrobeVals = {}
  MaxDepth = 0
  RecordActs = FALSE
INVARIANT Report
CHECK_DEADLOCK FALSE
