------------------------------ MODULE TKeys12 ------------------------------
EXTENDS TraceKeyboard
\* the burst palette: twelve keys on ten columns, so that more events than the queue holds can be produced by ONE scan tick
TK == {0, 1, 8, 9, 18, 27, 35, 44, 52, 61, 70, 80}
TCol == [k \in TK |-> k \div 8]
TRow == [k \in TK |-> k % 8]
=============================================================================
