----------------------------- MODULE MCKeyboard -----------------------------
EXTENDS Keyboard
\* three keys: 1 and 2 share column 0 (rows 0,1); 3 is on column 1 and shares row 0 with key 1
K3 == {1, 2, 3}
Col3 == (1 :> 0) @@ (2 :> 0) @@ (3 :> 1)
Row3 == (1 :> 0) @@ (2 :> 1) @@ (3 :> 0)
K2 == {1, 3}
\* palette ids = matrix codes (column * 8 + row): 0 = (0,0), 1 = (0,1), 8 = (1,0)
KP == {0, 1, 8}
KP2 == {0, 8}
PCol == [k \in KP |-> k \div 8]
PRow == [k \in KP |-> k % 8]
StrobesHigh == {0, 1, 2, 3}
StrobesLow == {255, 254, 253, 252}
=============================================================================
