------------------------------- MODULE TKeys -------------------------------
EXTENDS TraceKeyboard
\* key palette used by the trace drivers: matrix code = column * 8 + row
TK == {0, 1, 8, 9, 27, 80}
TCol == [k \in TK |-> k \div 8]
TRow == [k \in TK |-> k % 8]
=============================================================================
