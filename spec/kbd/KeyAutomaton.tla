---------------------------- MODULE KeyAutomaton ----------------------------
(* The per-key debounce / repeat automaton of the keyboard matrix, shared by   *)
(* Keyboard.tla (the matrix on its own, property C14) and MachineKbd.tla (the  *)
(* matrix scanned by the machine).                                             *)
(* (pce500/keyboard_matrix.py KeyboardMatrix._update_key_state;                *)
(*  sc62015-core keyboard.rs KeyboardMatrix::scan_tick)                        *)
EXTENDS Integers

CONSTANTS PressTh, ReleaseTh, RepDelay, RepInterval   \* ticks; RepInterval = 0 disables repeats

K0 == [pressed |-> FALSE, deb |-> FALSE, pt |-> 0, rt |-> 0, rep |-> 0]

\* ---- the per-key automaton for one scan tick; returns the new key state and the event kind ("", "P", "R")
TickKey(s, strobed) ==
  IF s.pressed /\ strobed THEN
     IF ~s.deb THEN
        IF s.pt + 1 >= PressTh
        THEN [s |-> [s EXCEPT !.deb = TRUE, !.pt = PressTh, !.rt = 0, !.rep = RepDelay], ev |-> "P"]
        ELSE [s |-> [s EXCEPT !.pt = s.pt + 1], ev |-> ""]
     ELSE IF RepInterval > 0 THEN
             LET r == IF s.rep > 0 THEN s.rep - 1 ELSE 0 IN
             IF r <= 0 THEN [s |-> [s EXCEPT !.rt = 0, !.rep = RepInterval], ev |-> "P"]
             ELSE [s |-> [s EXCEPT !.rt = 0, !.rep = r], ev |-> ""]
          ELSE [s |-> [s EXCEPT !.rt = 0], ev |-> ""]
  ELSE LET s1 == [s EXCEPT !.pt = 0] IN
       IF s.deb THEN
          IF s.rt + 1 >= ReleaseTh
          THEN [s |-> [s1 EXCEPT !.deb = FALSE, !.rt = 0, !.rep = 0], ev |-> "R"]
          ELSE [s |-> [s1 EXCEPT !.rt = s.rt + 1], ev |-> ""]
       ELSE [s |-> (IF ~s.pressed THEN [s1 EXCEPT !.rep = 0] ELSE s1), ev |-> ""]
=============================================================================
