----------------------------- MODULE JudgeHistory -----------------------------
(* C07: an instruction's effect depends only on architectural state.           *)
(* SC62015Sem has only architectural variables (registers, flags, memory,      *)
(* power); a recorded step is explainable by it only if nothing else           *)
(* influenced the result.  The judge receives GROUPS of runs that start from   *)
(* the same architectural state and the same bytes and differ only in what the *)
(* core did before (scratch registers, call bookkeeping, earlier instructions, *)
(* earlier emulator objects, decoder caches), or in how a run was split, and   *)
(* names the first architectural component in which a run differs from the     *)
(* group's reference run (the fresh one):                                      *)
(*   [id, group, kind, impl, variant, regs (after), len, err, pw, fin (pairs)] *)
(* Clauses: SameError, SameLength, SamePC, SameRegister, SameFlags, SamePower, *)
(* SameMemory, SameSteps (number of steps of a split / twin run).              *)
EXTENDS Integers, Sequences, FiniteSets, TLC, Json, IOUtils
Obs == ndJsonDeserialize(IOEnv.TRACE_FILE)
Groups == {Obs[k].group : k \in 1..Len(Obs)}
Ref(k) == Obs[Obs[k].ref]              \* every record carries the index of its group's fresh run
Diff(a, b) ==
  IF a.err # b.err THEN "SameError"
  ELSE IF a.nsteps # b.nsteps THEN "SameSteps"
  ELSE IF a.len # b.len THEN "SameLength"
  ELSE IF a.regs.PC # b.regs.PC THEN "SamePC"
  ELSE IF \E n \in {"BA", "I", "X", "Y", "U", "S"} : a.regs[n] # b.regs[n] THEN "SameRegister"
  ELSE IF a.regs.F # b.regs.F THEN "SameFlags"
  ELSE IF a.pw # b.pw THEN "SamePower"
  ELSE IF a.fin # b.fin THEN "SameMemory"
  ELSE "ok"
BadSet == {<<Obs[k].id, Diff(Ref(k), Obs[k])>> : k \in {j \in 1..Len(Obs) : Obs[j].variant # "fresh" /\ Diff(Ref(j), Obs[j]) # "ok"}}
ASSUME PrintT(<<"JUDGE", Len(Obs), Cardinality(Groups), BadSet>>)
VARIABLE dummy
DInit == dummy = 0
DNext == dummy' = dummy
=============================================================================
