------------------------------ MODULE JudgeAlu ------------------------------
(* C04: complete operand tables of the 8-bit operations.  One record per      *)
(* (operation form, first operand a, carry-in c):                              *)
(*   [id, mn, a, c, bs (the second operands tried, in order), res (destination *)
(*    after, per b), fc, fz (flags after, per b)]                              *)
(* TLC evaluates SC62015Sem.Alu8 for every b and compares.  Clauses:           *)
(*   Value (destination), Carry, Zero.  Compare/test forms must leave the      *)
(*   destination alone; SWAP's carry is not defined by the README.             *)
EXTENDS SC62015Sem, Json, IOUtils
Obs == ndJsonDeserialize(IOEnv.TRACE_FILE)
NoStore == {"CMP", "TEST"}
Check(r, j) ==
  LET b == r.bs[j]
      e == Alu8(r.mn, r.a, b, r.c)
      ev == IF r.mn \in NoStore THEN r.a ELSE e[1]
  IN IF r.res[j] # ev THEN "Value"
     ELSE IF r.mn # "SWAP" /\ r.fc[j] # e[2] THEN "Carry"
     ELSE IF r.mn # "PMDF" /\ r.fz[j] # e[3] THEN "Zero"
     ELSE IF r.mn = "PMDF" /\ r.fz[j] # r.z THEN "Zero"
     ELSE "ok"
BadOf(r) == LET js == {i \in 1..Len(r.bs) : Check(r, i) # "ok"} IN
            IF js = {} THEN {} ELSE LET j == CHOOSE j \in js : \A k \in js : j <= k IN {<<r.id, j, Check(r, j), Cardinality(js)>>}
BadSet == UNION {BadOf(Obs[k]) : k \in 1..Len(Obs)}
Count == LET RECURSIVE Sum(_) Sum(k) == IF k = 0 THEN 0 ELSE Len(Obs[k].bs) + Sum(k - 1) IN Sum(Len(Obs))
ASSUME PrintT(<<"JUDGE", Count, BadSet>>)
VARIABLE dummy
DInit == dummy = 0
DNext == dummy' = dummy
=============================================================================
