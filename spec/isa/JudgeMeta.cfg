INIT DInit
NEXT DNext
