----------------------------- MODULE JudgeEncode -----------------------------
(* C02: TLC judges recorded decode -> encode -> decode round trips of the real *)
(* decoder/encoder.  One record per accepted base string b:                    *)
(*   [id, b, len, reenc, len2, text_same, il_same, reenc2_same, text_none, exc]*)
(* Property clauses (on the observation alone):                                *)
(*   ReencodeExact    : encode(decode(b)) = b[1..len]   (prefix byte and ignored bits included) *)
(*   SecondDecodeSame : decoding the re-encoded bytes gives the same length, text and lifted IL  *)
(*   NotDemoted       : the text callback does not turn an accepted instruction into data        *)
(*   NoError          : neither direction raises                                                 *)
(* RefLength compares the consumed length with SC62015Format (drift).          *)
EXTENDS SC62015Format, Json, IOUtils
Obs == ndJsonDeserialize(IOEnv.TRACE_FILE)
Clause(r) ==
  IF r.exc = 1 THEN "NoError"
  ELSE IF r.reenc # SubSeq(r.b, 1, r.len) THEN "ReencodeExact"
  ELSE IF r.len2 # r.len \/ r.text_same # 1 \/ r.il_same # 1 \/ r.reenc2_same # 1 THEN "SecondDecodeSame"
  ELSE IF r.text_none = 1 THEN "NotDemoted"
  ELSE "ok"
Ref(r) == LET d == Decode(r.b) IN IF d.fate # "ok" THEN "RefAccept" ELSE IF d.len # r.len THEN "RefLength" ELSE "ok"
BadSet == {<<Obs[k].id, Clause(Obs[k])>> : k \in {j \in 1..Len(Obs) : Clause(Obs[j]) # "ok"}}
Drift == {<<Obs[k].id, Ref(Obs[k])>> : k \in {j \in 1..Len(Obs) : Clause(Obs[j]) = "ok" /\ Ref(Obs[j]) # "ok"}}
ASSUME PrintT(<<"JUDGE", Len(Obs), BadSet, Drift>>)
VARIABLE dummy
DInit == dummy = 0
DNext == dummy' = dummy
=============================================================================
