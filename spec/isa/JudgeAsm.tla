------------------------------- MODULE JudgeAsm -------------------------------
(* C09: disassembled text reassembles to an equivalent instruction.            *)
(* CanonEnc(b) is the canonical reading of an encoding under the format           *)
(* specification and the README's prefix rules: class, mnemonic, condition and *)
(* the resolved operands (registers, addressing calculations, values with the  *)
(* ignored bits dropped).  Two encodings are EQUIVALENT iff CanonEnc agrees - a   *)
(* different but equivalent prefix byte, or different don't-care bits, do not  *)
(* matter; a different length, operand value or addressing calculation does.   *)
(* One ndjson record per accepted byte string:                                 *)
(*   [id, b, n, ok (assembler accepted the text), b2, n2, same_text,           *)
(*    same_il, ok3 (second round accepted), b3, n3]                            *)
(* Clauses: Assembles, Equivalent, SameText, SameLift, SecondRoundAssembles,   *)
(* Stable (second round reproduces the first round's bytes).                   *)
EXTENDS SC62015Sem, Json, IOUtils
Obs == ndJsonDeserialize(IOEnv.TRACE_FILE)
CanonOp(o) == IF o.k = "Imm" /\ o.w = 3 THEN [o EXCEPT !.v = @ % M20]
              ELSE IF o.k = "EAddr" THEN [o EXCEPT !.v = @ % M20] ELSE o
CanonEnc(bs) == LET d == Decode(bs) IN
             IF d.fate # "ok" THEN [fate |-> d.fate]
             ELSE LET r == Resolve(d) IN [fate |-> "ok", cls |-> r.cls, mn |-> r.mn, cond |-> r.cond, ops |-> [i \in DOMAIN r.ops |-> CanonOp(r.ops[i])]]
Verdict(r) ==
  LET c1 == CanonEnc(SubSeq(r.b, 1, r.n)) IN
  IF c1.fate # "ok" THEN "RefAccept"
  ELSE IF r.ok = 0 THEN "Assembles"
  ELSE IF CanonEnc(SubSeq(r.b2, 1, r.n2)) # c1 THEN "Equivalent"
  ELSE IF r.same_text = 0 THEN "SameText"
  ELSE IF r.same_il = 0 THEN "SameLift"
  ELSE IF r.ok3 = 0 THEN "SecondRoundAssembles"
  ELSE IF SubSeq(r.b3, 1, r.n3) # SubSeq(r.b2, 1, r.n2) THEN "Stable"
  ELSE "ok"
BadSet == {<<Obs[k].id, Verdict(Obs[k])>> : k \in {j \in 1..Len(Obs) : Verdict(Obs[j]) \notin {"ok", "RefAccept"}}}
Skipped == {<<Obs[k].id, "RefAccept">> : k \in {j \in 1..Len(Obs) : Verdict(Obs[j]) = "RefAccept"}}
ASSUME PrintT(<<"JUDGE", Len(Obs), BadSet, Skipped>>)
VARIABLE dummy
DInit == dummy = 0
DNext == dummy' = dummy
=============================================================================
