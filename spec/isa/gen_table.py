#!/venv/bin/python
"""One-off transcription helper (NOT run by any check): dumps the opcode table of the pinned commit in the
normalised operand-shape vocabulary as a TLA+ module (SC62015Table.tla).  The generated module is committed
and is from then on the *reference copy*: checks compare the live Python and Rust tables against it, they
never regenerate it.  Vocabulary (operand atoms):
  Reg(r) fixed register | Imm8 Imm16 Imm20 | Off(+/-) | IMem(w) | EAddr(w) | R3 | RPair(size)
  EReg(w, allowed modes) | EIMem(w) | RIMemOff(order, allowed) | EIMemOff(order)
"""
import os, sys
os.environ["FORCE_BINJA_MOCK"] = "1"
sys.path.insert(0, "/repo")
from binja_test_mocks import binja_api  # noqa
from sc62015.pysc62015.instr import OPCODES
from sc62015.pysc62015.instr import opcodes as O
from sc62015.pysc62015.instr import instructions as I


def atom(op):
    n = type(op).__name__
    if n in ("Reg", "RegIL", "RegB", "RegF", "RegIMR", "RegPC"):
        return f'[k |-> "Reg", r |-> "{op.reg}"]' if not hasattr(op.reg, "value") else f'[k |-> "Reg", r |-> "{op.reg.value}"]'
    if n == "Imm8":
        return '[k |-> "Imm8"]'
    if n == "Imm16":
        return '[k |-> "Imm16"]'
    if n == "Imm20":
        return '[k |-> "Imm20"]'
    if n == "ImmOffset":
        return f'[k |-> "Off", s |-> "{op.sign}"]'
    if n in ("IMem8", "IMem16", "IMem20"):
        return f'[k |-> "IMem", w |-> {op.width()}]'
    if n == "EMemAddr":
        return f'[k |-> "EAddr", w |-> {op.width()}]'
    if n == "Reg3":
        return '[k |-> "R3"]'
    if n == "RegPair":
        return f'[k |-> "RPair", size |-> {op.size}]'
    if n == "EMemReg":
        al = op.allowed_modes
        modes = "{0, 2, 3, 8, 12}" if al is None else "{" + ", ".join(str(m.value) for m in al) + "}"
        return f'[k |-> "EReg", w |-> {op.width}, allowed |-> {modes}]'
    if n == "EMemIMem":
        return f'[k |-> "EIMem", w |-> {op._width}]'
    if n == "RegIMemOffset":
        al = op.allowed_modes
        modes = "{0, 2, 3, 8, 12}" if al is None else "{" + ", ".join(str(m.value) for m in al) + "}"
        return f'[k |-> "RIMemOff", order |-> "{op.order.name}", allowed |-> {modes}]'
    if n == "EMemIMemOffset":
        return f'[k |-> "EIMemOff", order |-> "{op.order.name}"]'
    raise SystemExit(f"unknown operand {n}")


rows = []
for o in range(256):
    d = OPCODES[o]
    cls, opts = d if isinstance(d, tuple) else (d, O.Opts())
    name = opts.name or cls.__name__.split("_")[0]
    kind = "PRE" if cls is I.PRE else ("UNK" if cls is I.UnknownInstruction else "INS")
    # the mnemonic as the instruction's name() reports it
    cond = opts.cond or ""
    if cls is I.JP_Abs:
        mn = name + cond
    elif cls is I.JP_Rel:
        mn = "JR" + cond
    elif kind == "PRE":
        mn = f"PRE{o:02x}"
    elif kind == "UNK":
        mn = f"??? ({o:02X})"
    else:
        mn = name
    ops = ", ".join(atom(op) for op in (opts.ops or []))
    tname = opts.name or cls.__name__
    rows.append(f'  [kind |-> "{kind}", cls |-> "{cls.__name__}", tname |-> "{tname}", mn |-> "{mn}", cond |-> "{cond}", rev |-> {"TRUE" if opts.ops_reversed else "FALSE"}, ops |-> <<{ops}>>]')

single = sorted(O.SINGLE_ADDRESSABLE_OPCODES)
pre = sorted(O.PRE_BY_OPCODE)
names = {"(n)": "N", "(BP+n)": "BP_N", "(PX+n)": "PX_N", "(PY+n)": "PY_N", "(BP+PX)": "BP_PX", "(BP+PY)": "BP_PY"}
prerows = ", ".join(f'<<{p}, "{names[O.PRE_BY_OPCODE[p].latch.first.value]}", "{names[O.PRE_BY_OPCODE[p].latch.second.value]}">>' for p in pre)
out = f'''---------------------------- MODULE SC62015Table ----------------------------
(* Reference copy of the SC62015 opcode table, PRE table and single-addressable  *)
(* set, transcribed once at the pinned commit (spec/isa/gen_table.py) and checked *)
(* against README.md's opcode overview.  Row o+1 describes opcode o.             *)
OpRows == <<
{(",%s" % chr(10)).join(rows)}
>>
\\* <<PRE byte, first-operand calculation, second-operand calculation>>
PreRows == {{ {prerows} }}
SingleAddressable == {{ {", ".join(str(s) for s in single)} }}
=============================================================================
'''
open("/verif/spec/isa/SC62015Table.tla", "w").write(out)
print("rows", len(rows))
