SPECIFICATION Spec
INVARIANT LenBounds
INVARIANT PrefixClosed
INVARIANT NoPrePre
INVARIANT FusionAdds
CHECK_DEADLOCK FALSE
