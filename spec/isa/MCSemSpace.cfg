SPECIFICATION Spec
CONSTANTS
  PreSet <- PreAll
  B2Set <- B2All
INVARIANT ResolveTotal
INVARIANT DenoteCoversExec
INVARIANT LengthIsStatic
INVARIANT CanonOfTruncation
CHECK_DEADLOCK FALSE
