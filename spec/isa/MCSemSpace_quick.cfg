SPECIFICATION Spec
CONSTANTS
  PreSet <- PreQuick
  B2Set <- B2Quick
INVARIANT ResolveTotal
INVARIANT DenoteCoversExec
INVARIANT LengthIsStatic
INVARIANT CanonOfTruncation
CHECK_DEADLOCK FALSE
