----------------------------- MODULE TempDefUse -----------------------------
(* C07, the mechanism behind it: "every lift writes a scratch register before   *)
(* reading it", so nothing left in TEMP0..TEMP13 by an earlier instruction can  *)
(* reach an architectural result.  The lifted IL of every distinct instruction  *)
(* shape is exported as a control-flow graph                                     *)
(*   Progs[p][k] = [rd (temps read by node k), wr (temps written), succ (next    *)
(*                  nodes; 0 = leaves the instruction)]                          *)
(* and TLC explores every path of every graph, carrying the set of temps         *)
(* written so far.  DefBeforeUse must hold at every node of every path.          *)
EXTENDS Integers, Sequences, FiniteSets, TLC, Json, IOUtils
Progs == JsonDeserialize(IOEnv.TRACE_FILE)
VARIABLES p, pc, defd
vars == <<p, pc, defd>>
SetOf(s) == {s[i] : i \in DOMAIN s}
Init == p \in 1..Len(Progs) /\ pc = 1 /\ defd = {}
Node == Progs[p][pc]
Next == /\ pc # 0 /\ pc <= Len(Progs[p])
        /\ \E n \in SetOf(Node.succ) : pc' = n
        /\ defd' = defd \cup SetOf(Node.wr)
        /\ p' = p
Spec == Init /\ [][Next]_vars
DefBeforeUse == (pc # 0 /\ pc <= Len(Progs[p])) => SetOf(Node.rd) \subseteq defd
=============================================================================
