SPECIFICATION Spec
CONSTANTS
  MaxDepth = 3
  MaxActs = 5
INVARIANT StackShape
PROPERTY ReturnLaw
CHECK_DEADLOCK FALSE
