SPECIFICATION Spec
CONSTANTS
  MaxDepth = 2
  MaxActs = 7
INVARIANT StackShape
PROPERTY ReturnLaw
CHECK_DEADLOCK FALSE
