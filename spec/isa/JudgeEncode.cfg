INIT DInit
NEXT DNext
