------------------------------ MODULE JudgeMeta ------------------------------
(* C05 (first half): the branch metadata handed to Binary Ninja against where   *)
(* execution actually goes.  One ndjson record per (instruction, address,       *)
(* state):                                                                      *)
(*   [id, b, n, regs (PC = address), mem, ilen, br (seq of [t, tgt]; tgt = -1   *)
(*    when the branch has no target), post (registers after), fin (final        *)
(*    contents of written bytes), err]                                          *)
(* Clauses (MetaAgrees):                                                        *)
(*   InfoLength            reported length = length of the format specification *)
(*   UnconditionalTarget   an UnconditionalBranch target is the PC reached      *)
(*   TakenTarget           a TrueBranch target is the PC reached when the       *)
(*                         condition holds                                      *)
(*   FallThroughTarget     a FalseBranch target is the PC reached when it does  *)
(*                         not hold                                             *)
(*   CallTarget            a CallDestination is the PC reached                  *)
(*   CallReturnAddress     the return address a call / software interrupt       *)
(*                         leaves on the stack is address + length              *)
(*   NoBranchFallsThrough  no branch reported => PC reached = address + length  *)
(*                         (a software interrupt counts as a call that returns   *)
(*                         there) - equivalently: an instruction that goes       *)
(*                         elsewhere reports a branch                           *)
(* all modulo the 20-bit program counter.                                       *)
EXTENDS SC62015Sem, Json, IOUtils
Obs == ndJsonDeserialize(IOEnv.TRACE_FILE)
EmptyF == [x \in {} |-> 0]
MapOf(ps) == [a \in {ps[i][1] : i \in DOMAIN ps} |-> ps[CHOOSE i \in DOMAIN ps : ps[i][1] = a][2]]
St0(r) == [r |-> r.regs, m |-> MapOf(r.mem), w |-> EmptyF, pw |-> "running"]
Verdict(r) ==
  LET d == Decode(SubSeq(r.b, 1, r.n)) IN
  IF d.fate # "ok" THEN <<"RefAccept", "">>
  ELSE IF r.err = 1 THEN <<"NoError", "">>
  ELSE
  LET ins == Resolve(d)
      st0 == St0(r)
      addr == r.regs.PC
      next == (addr + d.len) % M20
      taken == CondHolds(st0, ins.cond)
      pcA == r.post.PC
      fin == MapOf(r.fin)
      Mem(a) == IF a \in DOMAIN fin THEN fin[a] ELSE Rd(st0, a)         \* memory after the instruction
      sA == r.post.S
      brs == {r.br[i] : i \in DOMAIN r.br}
      wrong(t, cl) == {b \in brs : b.t = t /\ b.tgt # -1 /\ b.tgt % M20 # pcA}
      retNear == Mem(sA % M20) + 256 * Mem((sA + 1) % M20)
      retFar == Mem(sA % M20) + 256 * Mem((sA + 1) % M20) + 65536 * Mem((sA + 2) % M20)
      retIr == Mem((sA + 2) % M20) + 256 * Mem((sA + 3) % M20) + 65536 * Mem((sA + 4) % M20)
  IN IF r.ilen # d.len THEN <<"InfoLength", r.ilen>>
     ELSE IF wrong("UnconditionalBranch", 0) # {} THEN <<"UnconditionalTarget", pcA>>
     ELSE IF taken /\ wrong("TrueBranch", 0) # {} THEN <<"TakenTarget", pcA>>
     ELSE IF ~taken /\ wrong("FalseBranch", 0) # {} THEN <<"FallThroughTarget", pcA>>
     ELSE IF wrong("CallDestination", 0) # {} THEN <<"CallTarget", pcA>>
     ELSE IF ins.cls = "CALL" /\ ins.ops[1].w = 2 /\ ~Unspecified(st0, ins) /\ retNear # next % 65536 THEN <<"CallReturnAddress", retNear>>
     ELSE IF ins.cls = "CALL" /\ ins.ops[1].w = 3 /\ ~Unspecified(st0, ins) /\ retFar % M20 # next THEN <<"CallReturnAddress", retFar>>
     ELSE IF ins.cls = "IR" /\ ~Unspecified(st0, ins) /\ retIr % M20 # next THEN <<"CallReturnAddress", retIr>>
     ELSE IF brs = {} /\ ins.cls # "IR" /\ pcA # next THEN <<"NoBranchFallsThrough", pcA>>
     ELSE <<"ok", "">>
Verdicts == [k \in 1..Len(Obs) |-> Verdict(Obs[k])]
BadSet == {<<Obs[k].id, Verdicts[k][1], Verdicts[k][2]>> : k \in {j \in 1..Len(Obs) : Verdicts[j][1] \notin {"ok", "RefAccept"}}}
Skipped == {<<Obs[k].id, Verdicts[k][1]>> : k \in {j \in 1..Len(Obs) : Verdicts[j][1] = "RefAccept"}}
ASSUME PrintT(<<"JUDGE", Len(Obs), BadSet, Skipped>>)
VARIABLE dummy
DInit == dummy = 0
DNext == dummy' = dummy
=============================================================================
