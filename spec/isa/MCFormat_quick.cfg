SPECIFICATION Spec
CONSTANT B2Set <- B2Quick
INVARIANT LenBounds
INVARIANT PrefixClosed
INVARIANT NoPrePre
INVARIANT FusionAdds
CHECK_DEADLOCK FALSE
