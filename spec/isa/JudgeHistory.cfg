INIT DInit
NEXT DNext
