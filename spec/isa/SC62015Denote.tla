--------------------------- MODULE SC62015Denote ---------------------------
(* C03: what the DISASSEMBLY TEXT of an instruction says it touches.           *)
(* Denote(mn, ops, st) maps a mnemonic and operand ASTs parsed from the        *)
(* rendered token stream (not from the bytes) plus the machine state to        *)
(*   rd   - memory bytes read as data                                          *)
(*   wr   - memory bytes written                                               *)
(*   ad   - memory bytes read to form addresses (BP/PX/PY, pointer cells)      *)
(*   regw - registers that may change                                          *)
(* under the documented addressing rules: direct, BP/PX/PY-relative internal   *)
(* memory, absolute, register-indirect with pre-decrement / post-increment /   *)
(* offset, memory-indirect with offset; the width implied by the mnemonic and, *)
(* for counted instructions, the range implied by I.  Locations implied by the *)
(* mnemonic rather than an operand (stack, IMR, the system registers of        *)
(* HALT/OFF/RESET, the interrupt vector) are part of the denotation.           *)
(*                                                                             *)
(* Operand ASTs from text:                                                     *)
(*   [k:"Reg", r]  [k:"Imm", v]  [k:"IMem", mode, n]  [k:"EAddr", v]           *)
(*   [k:"EReg", r, mode (0 plain, 2 ++, 3 --, 8 +off, 12 -off), off]           *)
(*   [k:"EIMem", imode, n, mode (0, 128 +off, 192 -off), off]                  *)
EXTENDS SC62015Sem

HasReg(ops) == \E i \in DOMAIN ops : ops[i].k = "Reg"
FirstReg(ops) == ops[CHOOSE i \in DOMAIN ops : ops[i].k = "Reg" /\ \A j \in DOMAIN ops : ops[j].k = "Reg" => i <= j].r
\* width implied by the mnemonic (and, for plain MV/EX/arithmetic, by the register named)
DWidth(mn, ops) ==
  CASE mn \in {"MVW", "EXW", "CMPW"} -> 2
    [] mn \in {"MVP", "EXP", "CMPP", "JP"} -> 3
    [] mn \in {"MVL", "MVLD", "EXL", "ADCL", "SBCL", "DADL", "DSBL", "DSLL", "DSRL"} -> 1
    [] OTHER -> IF HasReg(ops) THEN RegW(FirstReg(ops)) ELSE 1

Moves == {"MV", "MVW", "MVP"}
Rmw2 == {"ADD", "SUB", "ADC", "SBC", "AND", "OR", "XOR", "PMDF"}
Rmw1 == {"INC", "DEC", "ROR", "ROL", "SHR", "SHL", "SWAP"}
Cmps == {"CMP", "CMPW", "CMPP", "TEST"}
Exs == {"EX", "EXW", "EXP"}
CountedMn == {"MVL", "MVLD", "EXL", "ADCL", "SBCL", "DADL", "DSBL", "DSLL", "DSRL"}
DownMn == {"MVLD", "DADL", "DSBL", "DSLL"}

\* bytes of a memory operand: cnt bytes from its effective address, walking in direction dir
Bytes(st, o, cnt, dir) == IF ~IsMem(o) THEN {} ELSE LET a == XA(st, o) IN {Nx(a, dir * i) : i \in 0..(cnt - 1)}
\* cells read to form the address
ModeCells(mode) == CASE mode = "N" -> {} [] mode = "BP_N" -> {BPa} [] mode = "PX_N" -> {PXa} [] mode = "PY_N" -> {PYa}
                     [] mode = "BP_PX" -> {BPa, PXa} [] mode = "BP_PY" -> {BPa, PYa}
AddrCells(st, o) ==
  CASE o.k = "IMem" -> ModeCells(o.mode)
    [] o.k = "EIMem" -> LET p == IAddr(st, o.imode, o.n) IN ModeCells(o.imode) \cup {p, Nx(p, 1), Nx(p, 2)}
    [] OTHER -> {}
PtrRegs(o) == IF o.k = "EReg" /\ o.mode \in {2, 3} THEN {o.r} ELSE {}
RegOf(o) == IF o.k = "Reg" THEN {IF o.r \in {"A", "B"} THEN "BA" ELSE IF o.r \in {"IL", "IH"} THEN "I" ELSE o.r} ELSE {}
SRange(a, n) == {(a + i) % M20 : i \in 0..(n - 1)}

Denote(mn, tops, st) ==
  LET W == DWidth(mn, tops)
      ops == [i \in DOMAIN tops |-> [w |-> W] @@ tops[i]]
      n == Len(ops)
      o1 == ops[1]
      o2 == ops[2]
      I == st.r.I
      dir(o) == IF mn \in DownMn \/ (mn \in CountedMn /\ o.k = "EReg" /\ o.mode = 3) THEN -1 ELSE 1
      cnt == IF mn \in CountedMn THEN I ELSE W
      B(o) == Bytes(st, o, cnt, dir(o))
      ad == UNION {AddrCells(st, ops[i]) : i \in 1..n}
      pr == UNION {PtrRegs(ops[i]) : i \in 1..n}
      S == st.r.S
      U == st.r.U
      none == [rd |-> {}, wr |-> {}, ad |-> ad, regw |-> pr]
  IN
  CASE mn \in Moves -> [rd |-> B(o2), wr |-> B(o1), ad |-> ad, regw |-> pr \cup RegOf(o1)]
    [] mn \in Rmw2 -> [rd |-> B(o1) \cup B(o2), wr |-> B(o1), ad |-> ad, regw |-> RegOf(o1)]
    [] mn \in Rmw1 -> [rd |-> B(o1), wr |-> B(o1), ad |-> ad, regw |-> RegOf(o1)]
    [] mn \in Cmps -> [rd |-> B(o1) \cup B(o2), wr |-> {}, ad |-> ad, regw |-> {}]
    [] mn \in Exs -> [rd |-> B(o1) \cup B(o2), wr |-> B(o1) \cup B(o2), ad |-> ad, regw |-> RegOf(o1) \cup RegOf(o2)]
    [] mn \in {"MVL", "MVLD"} -> [rd |-> B(o2), wr |-> B(o1), ad |-> ad, regw |-> pr \cup {"I"}]
    [] mn = "EXL" -> [rd |-> B(o1) \cup B(o2), wr |-> B(o1) \cup B(o2), ad |-> ad, regw |-> {"I"}]
    [] mn \in {"ADCL", "SBCL", "DADL", "DSBL"} -> [rd |-> B(o1) \cup B(o2), wr |-> B(o1), ad |-> ad, regw |-> {"I"}]
    [] mn \in {"DSLL", "DSRL"} -> [rd |-> B(o1), wr |-> B(o1), ad |-> ad, regw |-> {"I"}]
    [] mn = "WAIT" -> [none EXCEPT !.regw = {"I"}]
    [] mn = "JP" -> [rd |-> IF n = 1 THEN B(o1) ELSE {}, wr |-> {}, ad |-> ad, regw |-> {}]
    [] mn = "CALL" -> [rd |-> {}, wr |-> SRange(S - 2, 2), ad |-> {}, regw |-> {"S"}]
    [] mn = "CALLF" -> [rd |-> {}, wr |-> SRange(S - 3, 3), ad |-> {}, regw |-> {"S"}]
    [] mn = "RET" -> [rd |-> SRange(S, 2), wr |-> {}, ad |-> {}, regw |-> {"S"}]
    [] mn = "RETF" -> [rd |-> SRange(S, 3), wr |-> {}, ad |-> {}, regw |-> {"S"}]
    [] mn = "RETI" -> [rd |-> SRange(S, 5), wr |-> {IMRa}, ad |-> {}, regw |-> {"S"}]
    [] mn = "IR" -> [rd |-> {IMRa} \cup SRange(IntVector, 3), wr |-> SRange(S - 5, 5) \cup {IMRa}, ad |-> {}, regw |-> {"S"}]
    [] mn = "PUSHU" -> LET w == RegW(o1.r) IN
                       [rd |-> IF o1.r = "IMR" THEN {IMRa} ELSE {}, wr |-> SRange(U - w, w) \cup (IF o1.r = "IMR" THEN {IMRa} ELSE {}),
                        ad |-> {}, regw |-> {"U"}]
    [] mn = "POPU" -> LET w == RegW(o1.r) IN
                      [rd |-> SRange(U, w), wr |-> IF o1.r = "IMR" THEN {IMRa} ELSE {}, ad |-> {}, regw |-> {"U"} \cup RegOf(o1)]
    [] mn = "PUSHS" -> [rd |-> {}, wr |-> SRange(S - 1, 1), ad |-> {}, regw |-> {"S"}]
    [] mn = "POPS" -> [rd |-> SRange(S, 1), wr |-> {}, ad |-> {}, regw |-> {"S"}]
    [] mn \in {"HALT", "OFF"} -> [rd |-> {USRa, SSRa}, wr |-> {USRa, SSRa}, ad |-> {}, regw |-> {}]
    [] mn = "RESET" -> [rd |-> {LCCa, USRa, SSRa} \cup SRange(IntVector, 3) \cup SRange(ResetVector, 3),
                        wr |-> {LCCa, UCRa, ISRa, SCRa, USRa, SSRa}, ad |-> {}, regw |-> {}]
    [] OTHER -> none       \* NOP TCL SC RC JR JPF conditional jumps
=============================================================================
