----------------------------- MODULE JudgeDenote -----------------------------
(* C03: the locations the lifted IL touches (recorded through the Memory       *)
(* callbacks while the emulator executes one instruction) against the          *)
(* denotation of the RENDERED text.  One ndjson record per execution:           *)
(*   [id, b, n, mn, ops (parsed from the token stream), regs, mem,             *)
(*    rd (every address read), wr (every address written), pc, len,            *)
(*    post (registers after)]                                                  *)
(* Clauses: ReadsDenoted (a denoted data byte or address cell was not read),   *)
(* ReadsOnlyDenoted (a byte outside the instruction's own bytes was read that   *)
(* the text does not denote), WritesDenoted / WritesOnlyDenoted,                *)
(* RegistersOnlyDenoted (a register the text does not name changed).            *)
EXTENDS SC62015Denote, Json, IOUtils
Obs == ndJsonDeserialize(IOEnv.TRACE_FILE)
EmptyF == [x \in {} |-> 0]
MapOf(ps) == [a \in {ps[i][1] : i \in DOMAIN ps} |-> ps[CHOOSE i \in DOMAIN ps : ps[i][1] = a][2]]
St0(r) == [r |-> r.regs, m |-> MapOf(r.mem), w |-> EmptyF, pw |-> "running"]
SetOf(s) == {s[i] : i \in DOMAIN s}
CoreD(r, ops, st0) ==
  LET dn == Denote(r.mn, ops, st0)
      rd == SetOf(r.rd)
      wr == SetOf(r.wr)
      window == {(r.regs.PC + i) % M20 : i \in 0..9}        \* the instruction's own bytes and the decoder's look-ahead
      \* the reset vector: the README does not say which one RESET uses, either may be read
      want == IF r.mn = "RESET" THEN dn.rd \ (SRange(IntVector, 3) \cup SRange(ResetVector, 3)) ELSE dn.rd
      changed == {x \in {"BA", "I", "X", "Y", "U", "S"} : r.post[x] # r.regs[x]}
  IN IF (want \cup dn.ad) \ (rd \cup window) # {} THEN <<"ReadsDenoted", CHOOSE a \in (want \cup dn.ad) \ (rd \cup window) : TRUE>>
     ELSE IF rd \ (dn.rd \cup dn.ad \cup window) # {} THEN <<"ReadsOnlyDenoted", CHOOSE a \in rd \ (dn.rd \cup dn.ad \cup window) : TRUE>>
     ELSE IF dn.wr \ wr # {} THEN <<"WritesDenoted", CHOOSE a \in dn.wr \ wr : TRUE>>
     ELSE IF wr \ dn.wr # {} THEN <<"WritesOnlyDenoted", CHOOSE a \in wr \ dn.wr : TRUE>>
     ELSE IF changed \ dn.regw # {} THEN <<"RegistersOnlyDenoted", CHOOSE x \in changed \ dn.regw : TRUE>>
     ELSE <<"ok", "">>
Verdict(r) ==
  LET d == Decode(SubSeq(r.b, 1, r.n)) IN
  IF d.fate # "ok" THEN <<"RefAccept", "">>
  ELSE IF Unspecified(St0(r), Resolve(d)) THEN <<"unspec", "">>
  ELSE IF r.err = 1 THEN <<"NoError", "">>
  ELSE CoreD(r, r.ops, St0(r))
Verdicts == [k \in 1..Len(Obs) |-> Verdict(Obs[k])]
\* characterisation of a failure: would the recorded accesses be the denotation of the instruction read WITHOUT its prefix
\* (aspre0), or with the second-operand calculation applied to a lone internal-memory operand (assecond)?  The alternative
\* operand ASTs come from the format specification (the bytes), the mnemonic stays the rendered one.
Tag(r) ==
  LET d == Decode(SubSeq(r.b, 1, r.n))
      st0 == St0(r)
      alt0 == Resolve([d EXCEPT !.pre = -1])
      alt2 == ResolveWith(d, Mode2(d), Mode2(d))
      t1 == IF d.pre # -1 /\ (CoreD(r, alt0.ops, st0)[1] = "ok" \/ SelfMod(st0, alt0)) THEN <<"aspre0">> ELSE <<>>
      t2 == IF d.pre # -1 /\ (CoreD(r, alt2.ops, st0)[1] = "ok" \/ SelfMod(st0, alt2)) THEN <<"assecond">> ELSE <<>>
      t4 == IF ImemEdge(st0, Resolve(d)) THEN <<"edge">> ELSE <<>>
  IN t1 \o t2 \o t4
BadSet == {<<Obs[k].id, Verdicts[k][1], Verdicts[k][2], Tag(Obs[k])>> : k \in {j \in 1..Len(Obs) : Verdicts[j][1] \notin {"ok", "unspec", "RefAccept"}}}
Skipped == {<<Obs[k].id, Verdicts[k][1]>> : k \in {j \in 1..Len(Obs) : Verdicts[j][1] \in {"unspec", "RefAccept"}}}
ASSUME PrintT(<<"JUDGE", Len(Obs), BadSet, Skipped>>)
VARIABLE dummy
DInit == dummy = 0
DNext == dummy' = dummy
=============================================================================
