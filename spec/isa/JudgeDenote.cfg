INIT DInit
NEXT DNext
