----------------------------- MODULE SC62015Sem -----------------------------
(* Executable semantics of the SC62015 instruction set, written from the      *)
(* instruction tables of sc62015/pysc62015/README.md ("Opcode Information      *)
(* Details", the PRE table, the register table and the HALT/OFF/RESET table).  *)
(* One operator, Exec(st, ins), maps an architectural state and one resolved   *)
(* instruction to the architectural state after it.  Nothing but              *)
(* architectural state exists here (registers, flags, memory, power state):    *)
(* that is what makes a recorded step "explainable" (C04, C07), what the       *)
(* branch metadata is compared with (C05) and what Denote (C03) is derived     *)
(* from.                                                                       *)
(*                                                                             *)
(* Rows of the README whose function column is operational are transcribed     *)
(* literally.  Rows that are only descriptive (DSLL/DSRL, the register source  *)
(* of DADL/DSBL, EX with overlapping operands, the page used by RET) follow    *)
(* the implementation at the pinned commit and are marked (T) below; they      *)
(* detect regressions but are not independent evidence.  States the README     *)
(* does not cover at all (pointer arithmetic leaving the 1 MiB space, I = 0    *)
(* for counted instructions, a register that is both destination and           *)
(* auto-modified pointer, invalid BCD digits) are reported by Unspecified and  *)
(* skipped by the judges.                                                      *)
EXTENDS SC62015Format, Bitwise

IMEM == 1048576                      \* internal memory lives at 0x100000 + n in the flat space both cores use
M20 == 1048576
BPa == IMEM + 236
PXa == IMEM + 237
PYa == IMEM + 238
UCRa == IMEM + 247
USRa == IMEM + 248
IMRa == IMEM + 251
ISRa == IMEM + 252
SCRa == IMEM + 253
LCCa == IMEM + 254
SSRa == IMEM + 255
IntVector == 1048570                 \* 0xFFFFA
ResetVector == 1048573               \* 0xFFFFD

\* default contents of memory the harness did not set explicitly (same function in both harness buses)
Hash(a) == (((a * 73) % 256) ^^ ((a \div 128) % 256)) ^^ 90

\* ---------------------------------------------------------------- state
\* st = [r |-> [BA, I, X, Y, U, S, PC, F], m |-> explicit pre-state bytes, w |-> bytes written so far, pw |-> power]
Canon(a) == IF a >= IMEM THEN IMEM + ((a - IMEM) % 256) ELSE a % M20
Nx(a, i) == IF a >= IMEM THEN IMEM + ((a - IMEM + i) % 256) ELSE (a + i) % M20
Rd(st, a) == LET c == Canon(a) IN
             IF c \in DOMAIN st.w THEN st.w[c] ELSE IF c \in DOMAIN st.m THEN st.m[c] ELSE Hash(c)
Wr(st, a, v) == [st EXCEPT !.w = (Canon(a) :> (v % 256)) @@ @]
RdN(st, a, n) == IF n = 1 THEN Rd(st, a)
                 ELSE IF n = 2 THEN Rd(st, a) + 256 * Rd(st, Nx(a, 1))
                 ELSE Rd(st, a) + 256 * Rd(st, Nx(a, 1)) + 65536 * Rd(st, Nx(a, 2))
WrN(st, a, n, v) == IF n = 1 THEN Wr(st, a, v)
                    ELSE IF n = 2 THEN Wr(Wr(st, a, v), Nx(a, 1), v \div 256)
                    ELSE Wr(Wr(Wr(st, a, v), Nx(a, 1), v \div 256), Nx(a, 2), v \div 65536)

RegW(n) == IF n \in {"A", "B", "IL", "IH", "F", "IMR"} THEN 1 ELSE IF n \in {"BA", "I"} THEN 2 ELSE 3
RegBits(n) == IF RegW(n) = 1 THEN 8 ELSE IF RegW(n) = 2 THEN 16 ELSE 20
GetR(st, n) ==
  CASE n = "A" -> st.r.BA % 256
    [] n = "B" -> st.r.BA \div 256
    [] n = "IL" -> st.r.I % 256
    [] n = "IH" -> st.r.I \div 256
    [] n = "IMR" -> Rd(st, IMRa)
    [] OTHER -> st.r[n]
SetR(st, n, v) ==
  CASE n = "A" -> [st EXCEPT !.r.BA = (@ \div 256) * 256 + (v % 256)]
    [] n = "B" -> [st EXCEPT !.r.BA = (v % 256) * 256 + (@ % 256)]
    [] n = "IL" -> [st EXCEPT !.r.I = v % 256]                      \* README: "if r1 = IL then IH <- 0"
    [] n = "IH" -> [st EXCEPT !.r.I = (v % 256) * 256 + (@ % 256)]
    [] n \in {"BA", "I"} -> [st EXCEPT !.r[n] = v % 65536]
    [] n = "F" -> [st EXCEPT !.r.F = v % 256]
    [] n = "IMR" -> Wr(st, IMRa, v)
    [] OTHER -> [st EXCEPT !.r[n] = v % M20]                        \* X Y U S PC: 20 significant bits (C08)
FC(st) == st.r.F % 2
FZ(st) == (st.r.F \div 2) % 2
SetC(st, c) == [st EXCEPT !.r.F = (@ \div 2) * 2 + c]
SetZ(st, z) == [st EXCEPT !.r.F = (@ \div 4) * 4 + 2 * z + (@ % 2)]
SetCZ(st, c, z) == [st EXCEPT !.r.F = (@ \div 4) * 4 + 2 * z + c]
B2N(b) == IF b THEN 1 ELSE 0

\* ---------------------------------------------------------------- resolving a decoded instruction
\* The README's PRE table: the first internal-memory address byte of an instruction uses the row ("first") calculation,
\* the second one the column ("second") calculation; without a prefix every (n) is (BP+n).
Mode1(d) == IF d.pre = -1 THEN "BP_N" ELSE PreFirst(d.pre)
Mode2(d) == IF d.pre = -1 THEN "BP_N" ELSE PreSecond(d.pre)
MnWidth(mn) == IF mn = "MVW" THEN 2 ELSE IF mn = "MVP" THEN 3 ELSE 1
BearsIMem(f) == f.k \in {"IMem", "EIMem", "RIMemOff", "EIMemOff"}

\* expand one decoded field into logical operand ASTs; m1/m2 are the modes available to it
Expand(f, mn, m1, m2) ==
  CASE f.k = "Reg" -> << [k |-> "Reg", r |-> f.r] >>
    [] f.k = "R3" -> << [k |-> "Reg", r |-> f.r] >>
    [] f.k = "Imm" -> << [k |-> "Imm", w |-> f.w, v |-> IF f.w = 3 THEN (f.v % 65536) + 65536 * f.hi ELSE f.v] >>
    [] f.k = "Off" -> << [k |-> "Off", s |-> f.s, v |-> f.v] >>
    [] f.k = "IMem" -> << [k |-> "IMem", w |-> f.w, n |-> f.n, mode |-> m1] >>
    [] f.k = "EAddr" -> << [k |-> "EAddr", w |-> f.w, v |-> f.v] >>
    [] f.k = "EReg" -> << [k |-> "EReg", w |-> f.w, r |-> f.r, mode |-> f.mode, off |-> f.off] >>
    [] f.k = "EIMem" -> << [k |-> "EIMem", w |-> f.w, n |-> f.n, imode |-> m1, mode |-> f.mode, off |-> f.off] >>
    [] f.k = "RPair" -> LET nm(c) == IF mn \in {"MV", "EX"} /\ c < 4 THEN (IF c % 2 = 0 THEN "BA" ELSE "I") ELSE RegName(c)
                        IN << [k |-> "Reg", r |-> nm(f.c1)], [k |-> "Reg", r |-> nm(f.c2)] >>
    [] f.k = "RIMemOff" ->
         LET im == [k |-> "IMem", w |-> MnWidth(mn), n |-> f.n, mode |-> m1]
             er == [k |-> "EReg", w |-> MnWidth(mn), r |-> f.r, mode |-> f.mode, off |-> f.off]
         IN IF f.order = "DEST_IMEM" THEN <<im, er>> ELSE <<er, im>>
    [] f.k = "EIMemOff" ->
         IF f.order = "DEST_INT_MEM"
         THEN << [k |-> "IMem", w |-> MnWidth(mn), n |-> f.n1, mode |-> m1],
                 [k |-> "EIMem", w |-> MnWidth(mn), n |-> f.n2, imode |-> m2, mode |-> f.mode, off |-> f.off] >>
         ELSE << [k |-> "EIMem", w |-> MnWidth(mn), n |-> f.n1, imode |-> m1, mode |-> f.mode, off |-> f.off],
                 [k |-> "IMem", w |-> MnWidth(mn), n |-> f.n2, mode |-> m2] >>

ResolveWith(d, m1, m2) ==
  LET fs == d.ops
      firstBears == Len(fs) >= 1 /\ BearsIMem(fs[1])
      ops == IF Len(fs) = 0 THEN <<>>
             ELSE IF Len(fs) = 1 THEN Expand(fs[1], d.mn, m1, m2)
             ELSE Expand(fs[1], d.mn, m1, m2)
                  \o Expand(fs[2], d.mn, IF firstBears THEN m2 ELSE m1, m2)
  IN [cls |-> d.cls, mn |-> d.mn, cond |-> d.cond, op |-> d.op, len |-> d.len, ops |-> ops]
Resolve(d) == ResolveWith(d, Mode1(d), Mode2(d))

\* ---------------------------------------------------------------- operands
IAddr(st, mode, n) ==
  LET bp == Rd(st, BPa)  px == Rd(st, PXa)  py == Rd(st, PYa) IN
  IMEM + ((CASE mode = "N" -> n
            [] mode = "BP_N" -> bp + n
            [] mode = "PX_N" -> px + n
            [] mode = "PY_N" -> py + n
            [] mode = "BP_PX" -> bp + px
            [] mode = "BP_PY" -> bp + py) % 256)
\* raw (unwrapped) effective address of a memory operand; pre-decrement already applied, post-increment not yet
EA(st, o) ==
  CASE o.k = "IMem" -> IAddr(st, o.mode, o.n)
    [] o.k = "EAddr" -> o.v
    [] o.k = "EReg" -> LET b == GetR(st, o.r) IN
                       (CASE o.mode = 3 -> b - o.w
                          [] o.mode = 8 -> b + o.off
                          [] o.mode = 12 -> b - o.off
                          [] OTHER -> b)
    [] o.k = "EIMem" -> LET p == RdN(st, IAddr(st, o.imode, o.n), 3) IN
                        (CASE o.mode = 128 -> p + o.off
                           [] o.mode = 192 -> p - o.off
                           [] OTHER -> p)
IsMem(o) == o.k \in {"IMem", "EAddr", "EReg", "EIMem"}
\* external addresses are taken modulo 2^20 (raw addresses outside 0..2^20-1 are Unspecified)
XA(st, o) == LET a == EA(st, o) IN IF o.k = "IMem" THEN a ELSE a % M20
Load(st, o) == CASE o.k = "Reg" -> GetR(st, o.r)
                 [] o.k = "Imm" -> o.v
                 [] OTHER -> RdN(st, XA(st, o), o.w)
Store(st, o, v) == IF o.k = "Reg" THEN SetR(st, o.r, v) ELSE WrN(st, XA(st, o), o.w, v)
\* pointer side effect of an operand, by n bytes
Bump(st, o, n) == IF o.k = "EReg" /\ o.mode = 2 THEN SetR(st, o.r, GetR(st, o.r) + n)
                  ELSE IF o.k = "EReg" /\ o.mode = 3 THEN SetR(st, o.r, GetR(st, o.r) - n)
                  ELSE st
OpBits(o) == IF o.k = "Reg" THEN RegBits(o.r) ELSE 8 * o.w

\* ---------------------------------------------------------------- arithmetic cores
\* each returns <<result, carry, zero>>
Add(a, b, c, bits) == LET s == a + b + c  m == 2 ^ bits IN <<s % m, B2N(s >= m), B2N(s % m = 0)>>
Sub(a, b, c, bits) == LET m == 2 ^ bits  s == a - b - c IN <<s % m, B2N(s < 0), B2N(s % m = 0)>>
BcdAdd(a, b, c) ==
  LET lo0 == (a % 16) + (b % 16) + c
      lo == IF lo0 > 9 THEN lo0 + 6 ELSE lo0
      hi0 == (a \div 16) + (b \div 16) + (lo \div 16)
      hi == IF hi0 > 9 THEN hi0 + 6 ELSE hi0
      res == (hi % 16) * 16 + (lo % 16)
  IN <<res, hi \div 16, B2N(res = 0)>>
BcdSub(a, b, c) ==
  LET lo0 == (a % 16) - (b % 16) - c
      lo == IF lo0 < 0 THEN lo0 + 10 ELSE lo0
      hi0 == (a \div 16) - (b \div 16) - B2N(lo0 < 0)
      hi == IF hi0 < 0 THEN hi0 + 10 ELSE hi0
      res == hi * 16 + lo
  IN <<res, B2N(hi0 < 0), B2N(res = 0)>>
IsBcd(v) == v % 16 <= 9 /\ v \div 16 <= 9
Alu8(mn, a, b, c) ==
  CASE mn = "ADD" -> Add(a, b, 0, 8)
    [] mn = "ADC" -> Add(a, b, c, 8)
    [] mn = "SUB" -> Sub(a, b, 0, 8)
    [] mn = "SBC" -> Sub(a, b, c, 8)
    [] mn = "CMP" -> Sub(a, b, 0, 8)
    [] mn = "AND" -> <<a & b, c, B2N((a & b) = 0)>>
    [] mn = "TEST" -> <<a & b, c, B2N((a & b) = 0)>>
    [] mn = "OR" -> <<a | b, c, B2N((a | b) = 0)>>
    [] mn = "XOR" -> <<a ^^ b, c, B2N((a ^^ b) = 0)>>
    [] mn = "ROR" -> LET r == (a \div 2) + 128 * (a % 2) IN <<r, a % 2, B2N(r = 0)>>
    [] mn = "ROL" -> LET r == ((a * 2) % 256) + (a \div 128) IN <<r, a \div 128, B2N(r = 0)>>
    [] mn = "SHR" -> LET r == (a \div 2) + 128 * c IN <<r, a % 2, B2N(r = 0)>>
    [] mn = "SHL" -> LET r == ((a * 2) % 256) + c IN <<r, a \div 128, B2N(r = 0)>>
    [] mn = "SWAP" -> LET r == (a % 16) * 16 + (a \div 16) IN <<r, c, B2N(r = 0)>>
    [] mn = "PMDF" -> <<(a + b) % 256, c, 0>>
    [] mn = "INC" -> <<(a + 1) % 256, c, B2N((a + 1) % 256 = 0)>>
    [] mn = "DEC" -> <<(a - 1) % 256, c, B2N((a - 1) % 256 = 0)>>
    [] mn = "ADCL" -> Add(a, b, c, 8)
    [] mn = "SBCL" -> Sub(a, b, c, 8)
    [] mn = "DADL" -> BcdAdd(a, b, c)
    [] mn = "DSBL" -> BcdSub(a, b, c)
    [] mn = "DSLL" -> LET r == (a % 16) * 16 IN <<r, c, B2N(r = 0)>>
    [] mn = "DSRL" -> LET r == a \div 16 IN <<r, c, B2N(r = 0)>>

\* ---------------------------------------------------------------- counted loops (README: "Loop I times")
\* block move: k bytes from s to d, stepping ds / ss per byte, one byte at a time in order
RECURSIVE MoveLoop(_, _, _, _, _, _)
MoveLoop(st, d, s, ds, ss, k) ==
  IF k = 0 THEN st ELSE MoveLoop(Wr(st, d, Rd(st, s)), Nx(d, ds), Nx(s, ss), ds, ss, k - 1)
RECURSIVE ExLoop(_, _, _, _)
ExLoop(st, d, s, k) ==
  IF k = 0 THEN st
  ELSE LET a == Rd(st, d)  b == Rd(st, s) IN ExLoop(Wr(Wr(st, d, b), s, a), Nx(d, 1), Nx(s, 1), k - 1)
\* multi-byte arithmetic: kind in ADCL SBCL DADL DSBL; s = -1 means the register source A (value av)
\* acc = <<carry, zero accumulator>>
RECURSIVE ArithLoop(_, _, _, _, _, _, _, _, _)
ArithLoop(st, kind, d, s, av, step, c, zacc, k) ==
  IF k = 0 THEN SetCZ(st, c, B2N(zacc = 0))
  ELSE LET a == Rd(st, d)
           b == IF s = -1 THEN av ELSE Rd(st, s)
           r == (CASE kind = "ADCL" -> Add(a, b, c, 8)
                   [] kind = "SBCL" -> Sub(a, b, c, 8)
                   [] kind = "DADL" -> BcdAdd(a, b, c)
                   [] kind = "DSBL" -> BcdSub(a, b, c))
           \* (T) the register source of DADL/DSBL supplies the first byte only, 0 afterwards
           av2 == IF kind \in {"DADL", "DSBL"} THEN 0 ELSE av
       IN ArithLoop(Wr(st, d, r[1]), kind, Nx(d, step), IF s = -1 THEN -1 ELSE Nx(s, step), av2, step, r[2], zacc + r[1], k - 1)
\* (T) decimal digit shifts.  The README only describes them ("multi-byte, addrs dec./inc.").  Both cores, and the pinned
\* tests, move the low digit of each byte up (DSLL) / the high digit down (DSRL) and hand THE SAME digit on to the next byte
\* (a true multi-digit shift would hand on the other one); that is what is transcribed here.
RECURSIVE DShiftLoop(_, _, _, _, _, _)
DShiftLoop(st, left, a, carry, zacc, k) ==
  IF k = 0 THEN SetZ(st, B2N(zacc = 0))
  ELSE LET t == Rd(st, a)
           s == IF left THEN (t % 16) * 16 + carry ELSE (t \div 16) + 16 * carry
           nc == IF left THEN t % 16 ELSE t \div 16
       IN DShiftLoop(Wr(st, a, s), left, Nx(a, IF left THEN -1 ELSE 1), nc, zacc + s, k - 1)

\* ---------------------------------------------------------------- Exec
Page(a) == (a \div 65536) * 65536
CondHolds(st, cond) ==
  CASE cond = "" -> TRUE
    [] cond = "Z" -> FZ(st) = 1
    [] cond = "NZ" -> FZ(st) = 0
    [] cond = "C" -> FC(st) = 1
    [] cond = "NC" -> FC(st) = 0
LowPower(st) == Wr(Wr(st, USRa, (Rd(st, USRa) \div 64) * 64 + 24), SSRa, Rd(st, SSRa) | 4)

\* st0: state with PC already advanced past the instruction; pc: address of the instruction
ExecBody(st0, ins, pc) ==
  LET o1 == ins.ops[1]
      o2 == ins.ops[2]
      n == Len(ins.ops)
      I == st0.r.I
      c == FC(st0)
      cls == ins.cls
  IN
  CASE cls \in {"NOP", "TCL"} -> st0
    [] cls = "WAIT" -> SetR(st0, "I", 0)
    [] cls = "SC" -> SetC(st0, 1)
    [] cls = "RC" -> SetC(st0, 0)
    [] cls = "HALT" -> [LowPower(st0) EXCEPT !.pw = "halted"]
    [] cls = "OFF" -> [LowPower(st0) EXCEPT !.pw = "off"]
    [] cls = "RESET" ->
         LET s1 == Wr(st0, LCCa, Rd(st0, LCCa) % 128)
             s2 == Wr(Wr(Wr(s1, UCRa, 0), ISRa, 0), SCRa, 0)
             s3 == LowPower(s2)              \* README: USR bits 0-2/5 reset, USR bits 3,4 and SSR bit 2 set
         IN SetR(s3, "PC", RdN(s3, ResetVector, 3))
    [] cls = "JP_Abs" ->
         IF ~CondHolds(st0, ins.cond) THEN st0
         ELSE IF o1.k = "Imm" /\ o1.w = 2 THEN SetR(st0, "PC", Page(pc) + o1.v)
         ELSE IF o1.k = "Imm" THEN SetR(st0, "PC", o1.v)
         ELSE IF o1.k = "IMem" THEN SetR(st0, "PC", RdN(st0, EA(st0, o1), 3))
         ELSE SetR(st0, "PC", GetR(st0, o1.r))
    [] cls = "JP_Rel" ->
         IF ~CondHolds(st0, ins.cond) THEN st0
         ELSE SetR(st0, "PC", IF o1.s = "+" THEN pc + ins.len + o1.v ELSE pc + ins.len - o1.v)
    [] cls = "CALL" ->
         IF o1.w = 2
         THEN LET s == st0.r.S - 2 IN SetR(SetR(WrN(st0, s % M20, 2, (pc + ins.len) % 65536), "S", s), "PC", Page(pc) + o1.v)
         ELSE LET s == st0.r.S - 3 IN SetR(SetR(WrN(st0, s % M20, 3, (pc + ins.len) % M20), "S", s), "PC", o1.v)
    [] cls = "RET" ->          \* (T) the page is that of the PC after the fetch
         SetR(SetR(st0, "PC", Page(st0.r.PC) + RdN(st0, st0.r.S, 2)), "S", st0.r.S + 2)
    [] cls = "RETF" -> SetR(SetR(st0, "PC", RdN(st0, st0.r.S, 3)), "S", st0.r.S + 3)
    [] cls = "RETI" ->
         LET s == st0.r.S
             s1 == Wr(st0, IMRa, Rd(st0, s))
             s2 == SetR(s1, "F", Rd(st0, Nx(s, 1)))
         IN SetR(SetR(s2, "PC", RdN(st0, Nx(s, 2), 3)), "S", s + 5)
    [] cls = "IR" ->
         LET s == (st0.r.S - 5) % M20
             imr == Rd(st0, IMRa)
             s1 == WrN(Wr(Wr(st0, s, imr), Nx(s, 1), st0.r.F), Nx(s, 2), 3, st0.r.PC)
             s2 == Wr(s1, IMRa, imr % 128)
         IN SetR(SetR(s2, "S", st0.r.S - 5), "PC", RdN(s2, IntVector, 3))
    [] cls = "PUSHU" ->
         LET w == RegW(o1.r)
             u == st0.r.U - w
             s1 == SetR(WrN(st0, u % M20, w, GetR(st0, o1.r)), "U", u)
         IN IF o1.r = "IMR" THEN Wr(s1, IMRa, Rd(s1, IMRa) % 128) ELSE s1
    [] cls = "POPU" ->
         LET w == RegW(o1.r) IN SetR(SetR(st0, o1.r, RdN(st0, st0.r.U, w)), "U", st0.r.U + w)
    [] cls = "PUSHS" -> LET s == st0.r.S - 1 IN SetR(Wr(st0, s % M20, st0.r.F), "S", s)
    [] cls = "POPS" -> SetR(SetR(st0, "F", Rd(st0, st0.r.S)), "S", st0.r.S + 1)
    [] cls = "MV" ->
         IF n = 1 THEN st0      \* never: every MV has two logical operands
         ELSE LET v == Load(st0, o2)
                  s1 == Store(st0, o1, v)
              IN Bump(Bump(s1, o1, o1.w), o2, IF IsMem(o2) THEN o2.w ELSE 0)
    [] cls \in {"ADD", "SUB", "ADC", "SBC"} ->
         LET bits == OpBits(o1)
             a == Load(st0, o1)
             b == Load(st0, o2)
             r == (CASE cls = "ADD" -> Add(a, b, 0, bits) [] cls = "ADC" -> Add(a, b, c, bits)
                     [] cls = "SUB" -> Sub(a, b, 0, bits) [] cls = "SBC" -> Sub(a, b, c, bits))
         IN SetCZ(Store(st0, o1, r[1]), r[2], r[3])
    [] cls \in {"AND", "OR", "XOR"} ->
         LET r == Alu8(cls, Load(st0, o1), Load(st0, o2), c) IN SetZ(Store(st0, o1, r[1]), r[3])
    [] cls = "TEST" -> SetZ(st0, Alu8("TEST", Load(st0, o1), Load(st0, o2), c)[3])
    [] cls \in {"CMP", "CMPW", "CMPP"} ->
         LET bits == IF cls = "CMP" THEN 8 ELSE IF cls = "CMPW" THEN 16 ELSE 24
             r == Sub(Load(st0, o1), Load(st0, o2), 0, bits)
         IN SetCZ(st0, r[2], r[3])
    [] cls \in {"INC", "DEC"} ->
         LET bits == OpBits(o1)
             v == (IF cls = "INC" THEN Load(st0, o1) + 1 ELSE Load(st0, o1) - 1) % (2 ^ bits)
         IN SetZ(Store(st0, o1, v), B2N(v = 0))
    [] cls \in {"ROR", "ROL", "SHR", "SHL"} ->
         LET r == Alu8(cls, Load(st0, o1), 0, c) IN SetCZ(Store(st0, o1, r[1]), r[2], r[3])
    [] cls = "SWAP" -> LET r == Alu8("SWAP", Load(st0, o1), 0, c) IN SetZ(Store(st0, o1, r[1]), r[3])
    [] cls = "PMDF" -> Store(st0, o1, Alu8("PMDF", Load(st0, o1), Load(st0, o2), c)[1])
    [] cls = "EX" ->
         LET a == Load(st0, o1)  b == Load(st0, o2) IN Store(Store(st0, o1, b), o2, a)
    [] cls = "EXL" -> SetR(ExLoop(st0, EA(st0, o1), EA(st0, o2), I), "I", 0)
    [] cls \in {"MVL", "MVLD"} ->
         LET down == cls = "MVLD"
             d == XA(st0, o1)
             s == XA(st0, o2)
             \* a pre-decrement operand is walked downwards ("[--d] <- [s++]" / "[d++] <- [--s]"), everything else upwards
             ds == IF down \/ (o1.k = "EReg" /\ o1.mode = 3) THEN -1 ELSE 1
             ss == IF down \/ (o2.k = "EReg" /\ o2.mode = 3) THEN -1 ELSE 1
             \* first byte of a pre-decrement operand is at r3 - 1
             d0 == IF o1.k = "EReg" /\ o1.mode = 3 THEN (GetR(st0, o1.r) - 1) % M20 ELSE d
             s0 == IF o2.k = "EReg" /\ o2.mode = 3 THEN (GetR(st0, o2.r) - 1) % M20 ELSE s
             s1 == MoveLoop(st0, d0, s0, ds, ss, I)
         IN SetR(Bump(Bump(s1, o1, I), o2, I), "I", 0)
    [] cls \in {"ADCL", "SBCL"} ->
         SetR(ArithLoop(st0, cls, EA(st0, o1), IF o2.k = "Reg" THEN -1 ELSE EA(st0, o2), IF o2.k = "Reg" THEN GetR(st0, o2.r) ELSE 0,
                        1, c, 0, I), "I", 0)
    [] cls \in {"DADL", "DSBL"} ->
         SetR(ArithLoop(st0, cls, EA(st0, o1), IF o2.k = "Reg" THEN -1 ELSE EA(st0, o2), IF o2.k = "Reg" THEN GetR(st0, o2.r) ELSE 0,
                        -1, c, 0, I), "I", 0)
    [] cls = "DSLL" -> SetR(DShiftLoop(st0, TRUE, EA(st0, o1), 0, 0, I), "I", 0)
    [] cls = "DSRL" -> SetR(DShiftLoop(st0, FALSE, EA(st0, o1), 0, 0, I), "I", 0)

Exec(st, ins) == ExecBody(SetR(st, "PC", st.r.PC + ins.len), ins, st.r.PC)

\* flags whose value after the instruction the README defines (SWAP marks C as affected without saying how;
\* HALT and OFF leave both flags undefined)
FlagsDefined(ins) == IF ins.cls \in {"HALT", "OFF"} THEN {} ELSE IF ins.cls = "SWAP" THEN {"Z"} ELSE {"C", "Z"}

Counted == {"WAIT", "EXL", "MVL", "MVLD", "ADCL", "SBCL", "DADL", "DSBL", "DSLL", "DSRL"}

\* does a walk over an internal-memory operand pass the ends of the 256-byte internal memory?  (defined here as wrapping
\* inside it; reported as a tag so that findings about the edge can be told apart from findings about the operation)
ImemEdge(st, ins) ==
  LET n == Len(ins.ops)
      walkDown == ins.cls \in {"MVLD", "DADL", "DSBL", "DSLL"}
      cnt(o) == IF ins.cls \in {"WAIT", "EXL", "MVL", "MVLD", "ADCL", "SBCL", "DADL", "DSBL", "DSLL", "DSRL"} THEN st.r.I ELSE o.w
      e(o) == EA(st, o) - IMEM
  IN ins.cls \in {"EXL", "MVL", "MVLD", "ADCL", "SBCL", "DADL", "DSBL", "DSLL", "DSRL"} /\
     \E i \in 1..n : ins.ops[i].k = "IMem" /\ (IF walkDown THEN e(ins.ops[i]) - (cnt(ins.ops[i]) - 1) < 0
                                                          ELSE e(ins.ops[i]) + cnt(ins.ops[i]) - 1 > 255)

\* ---------------------------------------------------------------- what the README does not define
\* raw external addresses an operand touches (n bytes from its effective address, in walking direction)
\* an instruction that stores several times and overwrites BP/PX/PY while one of its operands is addressed through them
\* (the README does not say whether the addresses are formed before the first store)
SelfMod(st, ins) ==
  LET n == Len(ins.ops)
      cnt(o) == IF ins.cls \in Counted THEN st.r.I ELSE IF IsMem(o) THEN o.w ELSE 0
      dir(o) == IF ins.cls = "MVLD" \/ ins.cls \in {"DADL", "DSBL", "DSLL"} \/ (o.k = "EReg" /\ o.mode = 3 /\ ins.cls # "MV") THEN -1 ELSE 1
      cellsOf(mode) == CASE mode = "N" -> {} [] mode = "BP_N" -> {BPa} [] mode = "PX_N" -> {PXa} [] mode = "PY_N" -> {PYa}
                         [] mode = "BP_PX" -> {BPa, PXa} [] mode = "BP_PY" -> {BPa, PYa}
      used == UNION {IF ins.ops[i].k = "IMem" THEN cellsOf(ins.ops[i].mode) ELSE IF ins.ops[i].k = "EIMem" THEN cellsOf(ins.ops[i].imode) ELSE {} : i \in 1..n}
      written(o) == IF o.k = "IMem" THEN LET a == EA(st, o) IN {Nx(a, dir(o) * j) : j \in 0..(cnt(o) - 1)} ELSE {}
  IN /\ ins.cls \in {"EX", "EXL", "MVL", "MVLD", "ADCL", "SBCL", "DADL", "DSBL", "DSLL", "DSRL"}
     /\ (written(ins.ops[1]) \cup (IF ins.cls \in {"EX", "EXL"} THEN written(ins.ops[2]) ELSE {})) \cap used # {}

RawRange(st, o, cnt, dir) ==
  IF o.k \in {"EAddr", "EReg", "EIMem"} THEN LET a == EA(st, o) IN {a, a + dir * (cnt - 1)} ELSE {}
PtrCells(st, o) == IF o.k = "EIMem" THEN LET p == RdN(st, IAddr(st, o.imode, o.n), 3) IN {p} ELSE {}
Unspecified(st, ins) ==
  LET n == Len(ins.ops)
      cnt(o) == IF ins.cls \in Counted THEN st.r.I ELSE IF IsMem(o) THEN o.w ELSE 0
      dir(o) == IF ins.cls = "MVLD" \/ ins.cls \in {"DADL", "DSBL", "DSLL"} \/ (o.k = "EReg" /\ o.mode = 3 /\ ins.cls # "MV") THEN -1 ELSE 1
      raw == UNION {RawRange(st, ins.ops[i], cnt(ins.ops[i]), dir(ins.ops[i])) \cup PtrCells(st, ins.ops[i]) : i \in 1..n}
      autoRegs == {ins.ops[i].r : i \in {j \in 1..n : ins.ops[j].k = "EReg" /\ ins.ops[j].mode \in {2, 3}}}
      plainRegs == {ins.ops[i].r : i \in {j \in 1..n : ins.ops[j].k = "Reg"}}
      stackLow == (CASE ins.cls \in {"CALL", "IR", "PUSHS"} -> st.r.S < 5
                     [] ins.cls = "PUSHU" -> st.r.U < 3
                     [] ins.cls \in {"RET", "RETF", "RETI", "POPS"} -> st.r.S > M20 - 6
                     [] ins.cls = "POPU" -> st.r.U > M20 - 4
                     [] OTHER -> FALSE)
      \* packed-BCD arithmetic on bytes that are not packed BCD
      bcdBad == /\ ins.cls \in {"DADL", "DSBL"}
                /\ \/ \E i \in 0..(st.r.I - 1) : ~IsBcd(Rd(st, Nx(EA(st, ins.ops[1]), -i)))
                   \/ ins.ops[2].k = "Reg" /\ ~IsBcd(GetR(st, ins.ops[2].r))
                   \/ ins.ops[2].k # "Reg" /\ \E i \in 0..(st.r.I - 1) : ~IsBcd(Rd(st, Nx(EA(st, ins.ops[2]), -i)))
  IN \/ \E a \in raw : a < 0 \/ a >= M20
     \/ bcdBad
     \/ SelfMod(st, ins)
     \/ ins.cls \in Counted /\ st.r.I = 0
     \/ autoRegs \cap plainRegs # {}
     \/ stackLow
=============================================================================
