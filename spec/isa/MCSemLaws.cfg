SPECIFICATION Spec
CONSTANT B8 = {0, 9, 16, 153, 255}
INVARIANT ExTwice
INVARIANT ExwTwice
INVARIANT PushPop
INVARIANT PushPopF
INVARIANT AdclIsAddition
INVARIANT SbclIsSubtraction
INVARIANT AddThenSub
INVARIANT RorRol
INVARIANT ShrShl
INVARIANT SwapTwice
INVARIANT IncDec
INVARIANT CmpIsSubFlags
INVARIANT MvlCopies
INVARIANT DadlIsDecimal
INVARIANT DsblIsDecimal
INVARIANT CallRet
INVARIANT NoStrayWrites
CHECK_DEADLOCK FALSE
