INIT DInit
NEXT DNext
