--------------------------- MODULE SC62015Format ---------------------------
(* The SC62015 instruction FORMAT: which byte strings are instructions, how    *)
(* long they are, their mnemonic and their decoded operand fields (including   *)
(* the bits an operand ignores but must retain).  Executable reference for     *)
(* properties C01 (decode total / deterministic / consistent), C02 (encode is  *)
(* the inverse of decode), C09 (text round trip) and the decoder front end of  *)
(* SC62015Sem.  Written from README.md (opcode overview, register encoding,    *)
(* PRE table) and the operand grammar of the decoder; the 256-row table lives  *)
(* in SC62015Table.                                                            *)
(*                                                                             *)
(* Fates of a decode attempt (the implementation's exception classes):         *)
(*   "ok" | "short" (ran out of bytes) | "invalid" (bad register/mode bits) |  *)
(*   "assert" (mode not allowed for this opcode).  All non-ok fates are clean   *)
(*   rejections as far as the property is concerned.                            *)
EXTENDS Integers, Sequences, FiniteSets, TLC, SC62015Table

Row(o) == OpRows[o + 1]
IsPre(o) == Row(o).kind = "PRE"
EModes == {0, 2, 3, 8, 12}          \* simple, post-inc, pre-dec, +offset, -offset (high nibble of the register byte)
IModes == {0, 128, 192}             \* [(n)], [(m)+n], [(m)-n]
RegName(i) == <<"A", "IL", "BA", "I", "X", "Y", "U", "S">>[i + 1]

Have(bs, p, n) == p + n - 1 <= Len(bs)
LE2(bs, p) == bs[p] + 256 * bs[p + 1]
LE3(bs, p) == bs[p] + 256 * bs[p + 1] + 65536 * bs[p + 2]

Short == [fate |-> "short", n |-> 0, f |-> <<>>]
Bad(ft) == [fate |-> ft, n |-> 0, f |-> <<>>]
Ok(n, f) == [fate |-> "ok", n |-> n, f |-> f]

\* decode one operand atom at position p of bs
AtomDecode(a, bs, p) ==
  CASE a.k = "Reg"   -> Ok(0, [k |-> "Reg", r |-> a.r])
    [] a.k = "Imm8"  -> IF Have(bs, p, 1) THEN Ok(1, [k |-> "Imm", w |-> 1, v |-> bs[p]]) ELSE Short
    [] a.k = "Off"   -> IF Have(bs, p, 1) THEN Ok(1, [k |-> "Off", s |-> a.s, v |-> bs[p]]) ELSE Short
    [] a.k = "IMem"  -> IF Have(bs, p, 1) THEN Ok(1, [k |-> "IMem", w |-> a.w, n |-> bs[p]]) ELSE Short
    [] a.k = "Imm16" -> IF Have(bs, p, 2) THEN Ok(2, [k |-> "Imm", w |-> 2, v |-> LE2(bs, p)]) ELSE Short
    [] a.k = "Imm20" -> IF Have(bs, p, 3) THEN Ok(3, [k |-> "Imm", w |-> 3, v |-> LE3(bs, p) % 1048576, hi |-> bs[p + 2]]) ELSE Short
    [] a.k = "EAddr" -> IF Have(bs, p, 3) THEN Ok(3, [k |-> "EAddr", w |-> a.w, v |-> LE3(bs, p) % 1048576, hi |-> bs[p + 2]]) ELSE Short
    [] a.k = "R3"    -> IF Have(bs, p, 1) THEN Ok(1, [k |-> "R3", r |-> RegName(bs[p] % 8), raw |-> bs[p]]) ELSE Short
    [] a.k = "RPair" -> IF ~Have(bs, p, 1) THEN Short
                        ELSE IF (bs[p] \div 128) % 2 = 1 \/ (bs[p] \div 8) % 2 = 1 THEN Bad("invalid")
                        ELSE Ok(1, [k |-> "RPair", size |-> a.size, c1 |-> (bs[p] \div 16) % 8, c2 |-> bs[p] % 8, raw |-> bs[p]])
    [] a.k = "EReg"  -> IF ~Have(bs, p, 1) THEN Short
                        ELSE LET b == bs[p]  m == b \div 16 IN
                             IF b % 8 < 4 THEN Bad("invalid")
                             ELSE IF m \notin EModes THEN Bad("invalid")
                             ELSE IF m \notin a.allowed THEN Bad("assert")
                             ELSE IF m \in {8, 12} THEN (IF Have(bs, p, 2) THEN Ok(2, [k |-> "EReg", w |-> a.w, r |-> RegName(b % 8), mode |-> m, off |-> bs[p + 1], raw |-> b]) ELSE Short)
                             ELSE Ok(1, [k |-> "EReg", w |-> a.w, r |-> RegName(b % 8), mode |-> m, off |-> 0, raw |-> b])
    [] a.k = "EIMem" -> IF ~Have(bs, p, 2) THEN Short      \* mode byte and the internal address are read before the mode is checked
                        ELSE LET m == bs[p] IN
                             IF m \notin IModes THEN Bad("invalid")
                             ELSE IF m # 0 THEN (IF Have(bs, p, 3) THEN Ok(3, [k |-> "EIMem", w |-> a.w, mode |-> m, n |-> bs[p + 1], off |-> bs[p + 2]]) ELSE Short)
                             ELSE Ok(2, [k |-> "EIMem", w |-> a.w, mode |-> 0, n |-> bs[p + 1], off |-> 0])
    [] a.k = "RIMemOff" ->
                        IF ~Have(bs, p, 1) THEN Short
                        ELSE LET b == bs[p]  m == b \div 16 IN
                             IF b % 8 < 4 THEN Bad("invalid")
                             ELSE IF ~Have(bs, p, 2) THEN Short
                             ELSE IF m \notin EModes THEN Bad("invalid")
                             ELSE IF m \notin a.allowed THEN Bad("assert")
                             ELSE IF m \in {8, 12} THEN (IF Have(bs, p, 3) THEN Ok(3, [k |-> "RIMemOff", order |-> a.order, r |-> RegName(b % 8), mode |-> m, n |-> bs[p + 1], off |-> bs[p + 2], raw |-> b]) ELSE Short)
                             ELSE Ok(2, [k |-> "RIMemOff", order |-> a.order, r |-> RegName(b % 8), mode |-> m, n |-> bs[p + 1], off |-> 0, raw |-> b])
    [] a.k = "EIMemOff" ->
                        IF ~Have(bs, p, 3) THEN Short
                        ELSE LET m == bs[p] IN
                             IF m \notin IModes THEN Bad("invalid")
                             ELSE IF m # 0 THEN (IF Have(bs, p, 4) THEN Ok(4, [k |-> "EIMemOff", order |-> a.order, mode |-> m, n1 |-> bs[p + 1], n2 |-> bs[p + 2], off |-> bs[p + 3]]) ELSE Short)
                             ELSE Ok(3, [k |-> "EIMemOff", order |-> a.order, mode |-> 0, n1 |-> bs[p + 1], n2 |-> bs[p + 2], off |-> 0])

Reverse(s) == [i \in 1..Len(s) |-> s[Len(s) + 1 - i]]

\* decode the atoms in coding order starting at p; returns fate, bytes consumed, fields (in coding order)
RECURSIVE AtomsDecode(_, _, _, _, _)
AtomsDecode(as, i, bs, p, acc) ==
  IF i > Len(as) THEN [fate |-> "ok", n |-> p, f |-> acc]
  ELSE LET r == AtomDecode(as[i], bs, p) IN
       IF r.fate # "ok" THEN [fate |-> r.fate, n |-> p, f |-> acc]
       ELSE AtomsDecode(as, i + 1, bs, p + r.n, Append(acc, r.f))

\* one raw instruction at position p (no prefix fusion)
Decode1(bs, p) ==
  IF ~Have(bs, p, 1) THEN [fate |-> "short", len |-> 0]
  ELSE LET o == bs[p]
           row == Row(o)
           coding == IF row.rev THEN Reverse(row.ops) ELSE row.ops
           r == AtomsDecode(coding, 1, bs, p + 1, <<>>)
       IN IF r.fate # "ok" THEN [fate |-> r.fate, len |-> 0, op |-> o]
          ELSE [fate |-> "ok", len |-> r.n - p, op |-> o, mn |-> row.mn, kind |-> row.kind, cls |-> row.cls, cond |-> row.cond,
                ops |-> IF row.rev THEN Reverse(r.f) ELSE r.f]      \* logical operand order

\* one instruction with prefix fusion.  fate "lone" = an addressing prefix that cannot fuse.
Decode(bs) ==
  LET i1 == Decode1(bs, 1) IN
  IF i1.fate # "ok" THEN [fate |-> i1.fate, len |-> 0]
  ELSE IF i1.kind # "PRE" THEN [i1 EXCEPT !.fate = "ok"] @@ [pre |-> -1]
  ELSE LET i2 == Decode1(bs, 2) IN
       IF i2.fate = "ok" /\ i2.kind # "PRE" THEN [i2 EXCEPT !.len = i2.len + 1] @@ [pre |-> i1.op]
       ELSE [fate |-> "lone", len |-> 1, mn |-> i1.mn, op |-> i1.op]

Valid(bs) == Decode(bs).fate = "ok"
Length(bs) == Decode(bs).len

\* ---- addressing-mode choice of a prefix (README: rows = first operand, columns = second)
PreFirst(p) == (CHOOSE r \in PreRows : r[1] = p)[2]
PreSecond(p) == (CHOOSE r \in PreRows : r[1] = p)[3]
UsesPre(f) == f.k = "IMem" \/ f.k = "EIMemV"
=============================================================================
