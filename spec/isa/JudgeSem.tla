------------------------------ MODULE JudgeSem ------------------------------
(* C04 (and the per-step oracle of C07): TLC judges recorded one-instruction   *)
(* executions against SC62015Sem.Exec.  One ndjson record per execution:        *)
(*   [id, b (8 bytes), n, regs, mem (pairs addr,value: explicit pre-state),     *)
(*    post: [regs, len, err, pw], fin (pairs: final contents of every address   *)
(*    the implementation wrote)]                                                *)
(* Verdict(r) = <<clause, detail>>; clause "ok" | "unspec" (README does not     *)
(* define the case) | a failing clause:                                         *)
(*   NoError, Length, NextPC, ResultReg / FrameReg (a register the              *)
(*   specification leaves alone changed), FlagValue / FlagPreserved (flag the   *)
(*   README marks '-' changed), FlagsHigh (bits 2-7 of F), ResultMem / FrameMem *)
(*   (a location the specification does not write changed), Power.              *)
(* RefAccept: the implementation executed bytes the format specification        *)
(* rejects (drift, C01's business).                                             *)
EXTENDS SC62015Sem, Json, IOUtils
Obs == ndJsonDeserialize(IOEnv.TRACE_FILE)
EmptyF == [x \in {} |-> 0]
MapOf(ps) == [a \in {ps[i][1] : i \in DOMAIN ps} |-> ps[CHOOSE i \in DOMAIN ps : ps[i][1] = a][2]]
St0(r) == [r |-> r.regs, m |-> MapOf(r.mem), w |-> EmptyF, pw |-> "running"]

CAffected == {"ADD", "SUB", "ADC", "SBC", "ADCL", "SBCL", "DADL", "DSBL", "CMP", "CMPW", "CMPP", "ROR", "ROL", "SHR", "SHL",
              "SC", "RC", "SWAP", "RETI", "POPS", "HALT", "OFF"}
ZAffected == (CAffected \ {"SC", "RC"}) \cup {"AND", "OR", "XOR", "TEST", "INC", "DEC", "DSLL", "DSRL"}
RestoresF(ins) == ins.cls \in {"RETI", "POPS"} \/ (ins.cls = "POPU" /\ ins.ops[1].r = "F")

\* verdict for record r under the reading "instruction ins executed from st0"
Core(r, d, ins, st0) ==
  IF Unspecified(st0, ins) THEN <<"unspec", "">>
  ELSE IF r.post.err = 1 THEN <<"NoError", "">>
  ELSE
  LET st1 == Exec(st0, ins)
      fin == MapOf(r.fin)
      po == r.post.regs
      badRegs == {n \in {"BA", "I", "X", "Y", "U", "S"} : st1.r[n] # po[n]}
      pcOk == IF ins.cls = "RESET"      \* the README does not say where the reset vector is
              THEN po.PC \in {RdN(st1, IntVector, 3) % M20, RdN(st1, ResetVector, 3) % M20}
              ELSE st1.r.PC = po.PC
      fd == FlagsDefined(ins)
      cBad == "C" \in fd /\ FC(st1) # po.F % 2
      zBad == "Z" \in fd /\ FZ(st1) # (po.F \div 2) % 2
      addrs == DOMAIN st1.w \cup DOMAIN fin
      badMem == {a \in addrs : Rd(st1, a) # (IF a \in DOMAIN fin THEN fin[a] ELSE Rd(st0, a))}
  IN IF r.post.len # d.len THEN <<"Length", "">>
     ELSE IF ~pcOk THEN <<"NextPC", <<st1.r.PC, po.PC>> >>
     ELSE IF badRegs # {} THEN LET n == CHOOSE n \in badRegs : TRUE IN <<IF st1.r[n] = st0.r[n] THEN "FrameReg" ELSE "ResultReg", <<n, st1.r[n], po[n]>> >>
     ELSE IF cBad THEN <<IF ins.cls \in CAffected \/ RestoresF(ins) THEN "FlagValue" ELSE "FlagPreserved", "C">>
     ELSE IF zBad THEN <<IF ins.cls \in ZAffected \/ RestoresF(ins) THEN "FlagValue" ELSE "FlagPreserved", "Z">>
     ELSE IF ~RestoresF(ins) /\ st1.r.F \div 4 # po.F \div 4 THEN <<"FlagsHigh", "">>      \* only C and Z of a restored F are architectural
     ELSE IF badMem # {} THEN LET a == CHOOSE a \in badMem : TRUE IN <<IF a \in DOMAIN st1.w THEN "ResultMem" ELSE "FrameMem", <<a, Rd(st1, a), IF a \in DOMAIN fin THEN fin[a] ELSE Rd(st0, a)>> >>
     ELSE IF (st1.pw = "running") # (r.post.pw = "run") THEN <<"Power", "">>
     ELSE <<"ok", "">>

\* Block moves with block lengths of tens of thousands of bytes (record field huge = 1): the byte-by-byte semantics is not
\* unrolled; what is judged is what does not depend on the bytes moved - the counter ends at 0, an auto-modified pointer has
\* moved by exactly I, nothing else changed, flags are preserved, and the number of distinct external locations written
\* (field nw) is I when the destination is external and 0 otherwise.
BlockCore(r, d, ins, st0) ==
  LET I0 == st0.r.I
      s1 == SetR(Bump(Bump(st0, ins.ops[1], I0), ins.ops[2], I0), "I", 0)
      po == r.post.regs
      badRegs == {n \in {"BA", "I", "X", "Y", "U", "S"} : s1.r[n] # po[n]}
      dstExt == ins.ops[1].k \in {"EAddr", "EReg", "EIMem"}
      \* an external range that runs over either end of the 1 MiB space is left open, exactly as in Core (Unspecified)
      odir(o) == IF o.k = "EReg" /\ o.mode = 3 THEN -1 ELSE 1
      rawBad == \E i \in 1..Len(ins.ops) : \E a \in RawRange(st0, ins.ops[i], I0, odir(ins.ops[i])) \cup PtrCells(st0, ins.ops[i]) : a < 0 \/ a >= M20
  IN IF rawBad THEN <<"unspec", "">>
     ELSE IF ins.cls # "MVL" \/ r.post.err = 1 THEN <<"NoError", "">>
     ELSE IF r.post.len # d.len THEN <<"Length", "">>
     ELSE IF po.PC # (st0.r.PC + d.len) % M20 THEN <<"NextPC", <<(st0.r.PC + d.len) % M20, po.PC>> >>
     ELSE IF badRegs # {} THEN LET n == CHOOSE n \in badRegs : TRUE IN <<IF s1.r[n] = st0.r[n] THEN "FrameReg" ELSE "ResultReg", <<n, s1.r[n], po[n]>> >>
     ELSE IF po.F % 4 # st0.r.F % 4 THEN <<"FlagPreserved", "CZ">>
     ELSE IF r.nw # (IF dstExt THEN I0 ELSE 0) THEN <<"ResultMem", <<"external locations written", IF dstExt THEN I0 ELSE 0, r.nw>> >>
     ELSE <<"ok", "">>

Verdict(r) ==
  LET d == Decode(SubSeq(r.b, 1, r.n)) IN
  IF d.fate # "ok" THEN <<"RefAccept", "">>
  ELSE IF r.huge = 1 THEN BlockCore(r, d, Resolve(d), St0(r))
  ELSE Core(r, d, Resolve(d), St0(r))
Verdicts == [k \in 1..Len(Obs) |-> Verdict(Obs[k])]
\* Characterisation of a failing record (evaluated for failures only): which alternative reading of the instruction explains
\* what the implementation did?  Used to tell recorded findings apart from anything else that may go wrong with the same opcode.
\*   aspre0      - behaves as if the addressing prefix were absent
\*   assecond    - a lone internal-memory operand takes the second-operand calculation of the prefix
\*   cin-cleared - behaves as if the carry flag had been 0 on entry
\*   edge        - the walk over an internal-memory operand passes the ends of the internal memory
Explains(v) == v[1] = "ok"
Tag(r) ==
  IF r.huge = 1 THEN <<>> ELSE          \* (no alternative readings for the block records: they are not unrolled)
  LET d == Decode(SubSeq(r.b, 1, r.n))
      st0 == St0(r)
      st0c == [st0 EXCEPT !.r.F = (@ \div 2) * 2]
      alt0 == Resolve([d EXCEPT !.pre = -1])
      alt2 == ResolveWith(d, Mode2(d), Mode2(d))
      \* SelfMod: under that reading the instruction overwrites its own addressing registers, which the README leaves open
      t1 == IF d.pre # -1 /\ (Explains(Core(r, d, alt0, st0)) \/ SelfMod(st0, alt0)) THEN <<"aspre0">> ELSE <<>>
      t2 == IF d.pre # -1 /\ (Explains(Core(r, d, alt2, st0)) \/ SelfMod(st0, alt2)) THEN <<"assecond">> ELSE <<>>
      t3 == IF st0.r.F % 2 = 1 /\ Explains(Core(r, d, Resolve(d), st0c)) THEN <<"cin-cleared">> ELSE <<>>
      t4 == IF ImemEdge(st0, Resolve(d)) THEN <<"edge">> ELSE <<>>
  IN t1 \o t2 \o t3 \o t4          \* every reading that explains the record (SelfMod: the README leaves that reading open)
BadSet == {<<Obs[k].id, Verdicts[k][1], Verdicts[k][2], Tag(Obs[k])>> : k \in {j \in 1..Len(Obs) : Verdicts[j][1] \notin {"ok", "unspec", "RefAccept"}}}
Skipped == {<<Obs[k].id, Verdicts[k][1]>> : k \in {j \in 1..Len(Obs) : Verdicts[j][1] \in {"unspec", "RefAccept"}}}
ASSUME PrintT(<<"JUDGE", Len(Obs), BadSet, Skipped>>)
VARIABLE dummy
DInit == dummy = 0
DNext == dummy' = dummy
=============================================================================
