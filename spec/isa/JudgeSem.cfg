INIT DInit
NEXT DNext
