INIT DInit
NEXT DNext
