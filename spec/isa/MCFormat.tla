------------------------------ MODULE MCFormat ------------------------------
(* Model-level checks of the format specification over the complete          *)
(* structural space: optional prefix x opcode x second byte, remaining bytes  *)
(* from a small palette.                                                      *)
EXTENDS SC62015Format
PreBytes == {r[1] : r \in PreRows}
Palette == {0, 255}
CONSTANT B2Set
B2All == 0..255
B2Quick == {0, 1, 3, 4, 5, 7, 8, 12, 15, 20, 36, 39, 52, 54, 68, 86, 112, 119, 128, 132, 135, 140, 148, 165, 192, 196, 198, 207, 228, 247, 255, 32, 33, 50, 191}
VARIABLES pre, op, b2, fill, stage
vars == <<pre, op, b2, fill, stage>>
Bytes == (IF pre = -1 THEN <<>> ELSE <<pre>>) \o <<op, b2, fill, fill, fill, fill, fill>>
\* one initial state per opcode; the step fans out over prefix x second byte x fill so that TLC's workers share the space
Init == op \in 0..255 /\ pre = -1 /\ b2 = 0 /\ fill = 0 /\ stage = 0
PreChoice == {-1} \cup PreBytes
Next == /\ stage = 0 /\ stage' = 1 /\ op' = op
        /\ pre' \in PreChoice /\ b2' \in B2Set /\ fill' \in Palette
Spec == Init /\ [][Next]_vars

D == Decode(Bytes)
LenBounds == D.fate = "ok" => D.len >= 1 /\ D.len <= 7 /\ D.len <= Len(Bytes)
\* the decision and the length depend on no byte beyond the length: truncating to len gives the same result,
\* truncating to len-1 is rejected as too short
PrefixClosed == D.fate = "ok" =>
   /\ Decode(SubSeq(Bytes, 1, D.len)) = D
   /\ Decode(SubSeq(Bytes, 1, D.len - 1)).fate \in {"short", "lone"}
\* a prefix never fuses with a prefix
NoPrePre == (pre # -1 /\ IsPre(op)) => D.fate = "lone"
\* fused length = 1 + unprefixed length, same mnemonic
FusionAdds == (pre # -1 /\ ~IsPre(op)) =>
   LET u == Decode(Tail(Bytes)) IN (u.fate = "ok" <=> D.fate = "ok") /\ (u.fate = "ok" => D.len = u.len + 1 /\ D.mn = u.mn /\ D.ops = u.ops)
=============================================================================
