------------------------------ MODULE MCFormat ------------------------------
(* Model-level checks of the format specification over the complete          *)
(* structural space: optional prefix x opcode x second byte, remaining bytes  *)
(* from a small palette.                                                      *)
EXTENDS SC62015Format
PreBytes == {r[1] : r \in PreRows}
Palette == {0, 255}
VARIABLES pre, op, b2, fill
vars == <<pre, op, b2, fill>>
Bytes == (IF pre = -1 THEN <<>> ELSE <<pre>>) \o <<op, b2, fill, fill, fill, fill, fill>>
Init == pre \in {-1} \cup PreBytes /\ op \in 0..255 /\ b2 \in 0..255 /\ fill \in Palette
Next == UNCHANGED vars
Spec == Init /\ [][Next]_vars

D == Decode(Bytes)
LenBounds == D.fate = "ok" => D.len >= 1 /\ D.len <= 7 /\ D.len <= Len(Bytes)
\* the decision and the length depend on no byte beyond the length: truncating to len gives the same result,
\* truncating to len-1 is rejected as too short
PrefixClosed == D.fate = "ok" =>
   /\ Decode(SubSeq(Bytes, 1, D.len)) = D
   /\ Decode(SubSeq(Bytes, 1, D.len - 1)).fate \in {"short", "lone"}
\* a prefix never fuses with a prefix
NoPrePre == (pre # -1 /\ IsPre(op)) => D.fate = "lone"
\* fused length = 1 + unprefixed length, same mnemonic
FusionAdds == (pre # -1 /\ ~IsPre(op)) =>
   LET u == Decode(Tail(Bytes)) IN (u.fate = "ok" <=> D.fate = "ok") /\ (u.fate = "ok" => D.len = u.len + 1 /\ D.mn = u.mn /\ D.ops = u.ops)
=============================================================================
