----------------------------- MODULE MCSemSpace -----------------------------
(* Model-level checks of the semantic layers over the complete STRUCTURAL space *)
(* of encodings (optional prefix x opcode x second byte, remaining bytes from a  *)
(* palette), evaluated in a generic machine state:                              *)
(*   ResolveTotal      every accepted encoding resolves to 0..2 operand ASTs and *)
(*                     Exec / Denote / Unspecified are defined on it            *)
(*   DenoteCoversExec  (C03, on the model) the bytes Exec writes are exactly the *)
(*                     bytes Denote says the text writes, and no register        *)
(*                     changes that Denote does not name                         *)
(*   CanonOfTruncation (C09, on the model) the canonical reading depends on the  *)
(*                     instruction's own bytes only                             *)
(*   LengthIsStatic    the PC after a non-branching instruction is address +    *)
(*                     decoded length                                           *)
EXTENDS SC62015Denote
CONSTANTS PreSet, B2Set
PreBytes == {r[1] : r \in PreRows}
B2Quick == {0, 1, 3, 4, 5, 7, 8, 12, 15, 20, 36, 39, 52, 54, 68, 86, 112, 119, 128, 132, 135, 140, 148, 165, 192, 196, 198, 207, 228, 247, 255, 32, 33, 50, 191}
B2All == 0..255
PreQuick == {-1, 48, 37, 54, 35}
PreAll == {-1} \cup PreBytes
Palette == {1, 254}
VARIABLES pre, op, b2, fill, stage
vars == <<pre, op, b2, fill, stage>>
Enc == (IF pre = -1 THEN <<>> ELSE <<pre>>) \o <<op, b2, fill, 17, fill, 34, fill>>
Init == op \in 0..255 /\ pre = -1 /\ b2 = 0 /\ fill = 1 /\ stage = 0
Next == /\ stage = 0 /\ stage' = 1 /\ op' = op
        /\ pre' \in PreSet /\ b2' \in B2Set /\ fill' \in Palette
Spec == Init /\ [][Next]_vars

EmptyF == [x \in {} |-> 0]
\* a generic state: every internal cell explicit and small enough that three consecutive cells form a 20-bit pointer
Generic == [r |-> [BA |-> 4660, I |-> 2, X |-> 131072, Y |-> 196608, U |-> 589824, S |-> 786176, PC |-> 16384, F |-> 1],
            m |-> [a \in IMEM..(IMEM + 255) |-> IF a = BPa THEN 16 ELSE IF a = PXa THEN 32 ELSE IF a = PYa THEN 48 ELSE ((a - IMEM) * 7) % 11],
            w |-> EmptyF, pw |-> "running"]
D == Decode(Enc)
Ins == Resolve(D)
Applicable == D.fate = "ok" /\ D.kind = "INS" /\ ~Unspecified(Generic, Ins)
ResolveTotal == D.fate = "ok" /\ D.kind = "INS" => Len(Ins.ops) \in 0..2 /\ Unspecified(Generic, Ins) \in BOOLEAN
After == Exec(Generic, Ins)
Dn == Denote(D.mn, Ins.ops, Generic)
Changed == {n \in {"BA", "I", "X", "Y", "U", "S"} : After.r[n] # Generic.r[n]}
DenoteCoversExec == Applicable => /\ DOMAIN After.w = Dn.wr
                                  /\ Changed \subseteq Dn.regw
LengthIsStatic == (Applicable /\ Ins.cls \notin {"JP_Abs", "JP_Rel", "CALL", "RET", "RETF", "RETI", "IR", "RESET"}) => After.r.PC = (16384 + D.len) % M20
CanonOfTruncation == D.fate = "ok" /\ D.kind = "INS" => Resolve(Decode(SubSeq(Enc, 1, D.len))).ops = Ins.ops
=============================================================================
