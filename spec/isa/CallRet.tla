------------------------------- MODULE CallRet -------------------------------
(* C05 (second half): the pairing laws.  A near or far call followed by the    *)
(* matching return, and a software interrupt followed by return-from-          *)
(* interrupt, resume at the instruction after the call and restore the stack   *)
(* pointer (and, for IR/RETI, the flags and the interrupt mask) exactly,       *)
(* whatever stack-neutral body runs in between.                                *)
(*                                                                             *)
(* The model runs an abstract machine of exactly the state the law talks       *)
(* about: pc, s, f (C and Z), imr, and a stack of frames.  Every action is ONE  *)
(* instruction placed at the current pc; the replay harness puts the           *)
(* corresponding bytes there, executes them on the real cores and compares      *)
(* (pc, s, f, imr) with the values recorded in acts after every action.        *)
EXTENDS Integers, Sequences, TLC
CONSTANTS MaxDepth,          \* call nesting
          MaxActs            \* length of a behaviour
M20 == 1048576
Page(a) == (a \div 65536) * 65536
Vector == 20480              \* 0x05000: the harness stores this at the interrupt vector 0xFFFFA
StartSites == {16384, 131056, 1048320}          \* 0x4000, 0x1FFF0 (a far call here crosses into the next page), 0xFFF00
NearTargets == {256, 32768, 65280}              \* mn of CALL mn: 0x0100 0x8000 0xFF00
FarTargets == {512, 196352, 983040}             \* 0x00200 0x2FF00 0xF0000
ImrValues == {85, 213}                          \* 0x55, 0xD5 (bit 7 set: IR must clear it, RETI must bring it back)

VARIABLES pc, s, f, imr, frames, data, acts
vars == <<pc, s, f, imr, frames, data, acts>>

Log(a, arg, npc, ns, nf, nimr) == acts' = Append(acts, [a |-> a, arg |-> arg, pc |-> npc, s |-> ns, f |-> nf, imr |-> nimr])

Init == /\ pc \in StartSites /\ s = 786176 /\ f \in {0, 3} /\ imr \in ImrValues      \* s = 0xBFF00
        /\ frames = <<>> /\ data = <<>> /\ acts = <<[a |-> "Start", arg |-> 0, pc |-> pc, s |-> s, f |-> f, imr |-> imr]>>

CanGrow == Len(acts) < MaxActs /\ Len(frames) < MaxDepth
\* CALL mn: 3 bytes; the next instruction must lie in the same 64 KiB page for the near return to find it
Call(t) == /\ CanGrow /\ Page(pc + 3) = Page(pc)
           /\ frames' = Append(frames, [k |-> "near", ret |-> pc + 3, s0 |-> s, f0 |-> f, imr0 |-> imr, d0 |-> Len(data)])
           /\ pc' = Page(pc) + t /\ s' = s - 2 /\ UNCHANGED <<f, imr, data>>
           /\ Log("Call", t, pc', s', f, imr)
CallF(t) == /\ CanGrow
            /\ frames' = Append(frames, [k |-> "far", ret |-> (pc + 4) % M20, s0 |-> s, f0 |-> f, imr0 |-> imr, d0 |-> Len(data)])
            /\ pc' = t /\ s' = s - 3 /\ UNCHANGED <<f, imr, data>>
            /\ Log("CallF", t, pc', s', f, imr)
Ir == /\ CanGrow
      /\ frames' = Append(frames, [k |-> "int", ret |-> (pc + 1) % M20, s0 |-> s, f0 |-> f, imr0 |-> imr, d0 |-> Len(data)])
      /\ pc' = Vector + 256 * Len(frames)        \* the harness rewrites the vector before each IR so that handlers do not overlap
      /\ s' = s - 5 /\ imr' = imr % 128 /\ UNCHANGED <<f, data>>
      /\ Log("Ir", pc', pc', s', f, imr')
\* ---- stack-neutral body instructions
Body(k) ==
  /\ Len(acts) < MaxActs /\ frames # <<>>
  /\ CASE k = "NOP" -> pc' = pc + 1 /\ UNCHANGED <<s, f, imr, data>>
       [] k = "SC" -> pc' = pc + 1 /\ f' = (f \div 2) * 2 + 1 /\ UNCHANGED <<s, imr, data>>
       [] k = "RC" -> pc' = pc + 1 /\ f' = (f \div 2) * 2 /\ UNCHANGED <<s, imr, data>>
       [] k = "SETIMR" -> pc' = pc + 4 /\ imr' = 170 /\ UNCHANGED <<s, f, data>>           \* 32 CC FB AA : MV (IMR),AA
       [] k = "PUSHF" -> Len(data) < 2 /\ pc' = pc + 1 /\ s' = s - 1 /\ data' = Append(data, f) /\ UNCHANGED <<f, imr>>
       [] k = "POPF" -> Len(data) > frames[Len(frames)].d0 /\ pc' = pc + 1 /\ s' = s + 1 /\ f' = data[Len(data)]
                        /\ data' = SubSeq(data, 1, Len(data) - 1) /\ UNCHANGED imr
  /\ UNCHANGED frames
  /\ Log(k, 0, pc', s', f', imr')
\* ---- a computed jump inside the callee, done with the stack: MV BA,t ; MV [--S],BA ; RET  (three instructions, stack-neutral,
\* no frame opened or closed: the RET consumes what the body itself pushed and lands at t in the current page)
Dispatch(t) ==
  /\ Len(acts) < MaxActs /\ frames # <<>> /\ Len(data) = frames[Len(frames)].d0 /\ Page(pc + 5) = Page(pc)
  /\ pc' = Page(pc) + t /\ UNCHANGED <<s, f, imr, data, frames>>
  /\ Log("Dispatch", t, pc', s, f, imr)
\* ---- returns: enabled only when the body was stack-neutral
Top == frames[Len(frames)]
Neutral == frames # <<>> /\ Len(data) = Top.d0
Ret == /\ Neutral /\ Top.k = "near" /\ Len(acts) < MaxActs /\ Page(pc) = Page(Top.ret) /\ Page(pc + 1) = Page(pc)
       /\ pc' = Top.ret /\ s' = Top.s0 /\ frames' = SubSeq(frames, 1, Len(frames) - 1) /\ UNCHANGED <<f, imr, data>>
       /\ Log("Ret", 0, pc', s', f, imr)
RetF == /\ Neutral /\ Top.k = "far" /\ Len(acts) < MaxActs
        /\ pc' = Top.ret /\ s' = Top.s0 /\ frames' = SubSeq(frames, 1, Len(frames) - 1) /\ UNCHANGED <<f, imr, data>>
        /\ Log("RetF", 0, pc', s', f, imr)
RetI == /\ Neutral /\ Top.k = "int" /\ Len(acts) < MaxActs
        /\ pc' = Top.ret /\ s' = Top.s0 /\ f' = Top.f0 /\ imr' = Top.imr0
        /\ frames' = SubSeq(frames, 1, Len(frames) - 1) /\ UNCHANGED data
        /\ Log("RetI", 0, pc', s', f', imr')
Next == \/ \E t \in NearTargets : Call(t)
        \/ \E t \in FarTargets : CallF(t)
        \/ Ir
        \/ \E k \in {"NOP", "SC", "RC", "SETIMR", "PUSHF", "POPF"} : Body(k)
        \/ \E t \in NearTargets : Dispatch(t + 64)
        \/ Ret \/ RetF \/ RetI
Spec == Init /\ [][Next]_vars

\* ---- the laws, as properties of the model (the replay shows the cores follow the model)
\* stack discipline: the stack pointer is determined by the open frames and pushed data
StackShape == LET fs(i) == IF frames[i].k = "near" THEN 2 ELSE IF frames[i].k = "far" THEN 3 ELSE 5
                  RECURSIVE Sum(_)
                  Sum(i) == IF i = 0 THEN 0 ELSE fs(i) + Sum(i - 1)
              IN s = 786176 - Sum(Len(frames)) - Len(data)
\* a matched return resumes after the call with the caller's stack pointer (and F, IMR for an interrupt)
ReturnLaw == [][ (Len(frames') < Len(frames)) =>
                   /\ pc' = Top.ret /\ s' = Top.s0
                   /\ (Top.k = "int" => f' = Top.f0 /\ imr' = Top.imr0) ]_vars
=============================================================================
