SPECIFICATION Spec
CONSTANTS
  MaxDepth = 2
  MaxActs = 14
CHECK_DEADLOCK FALSE
