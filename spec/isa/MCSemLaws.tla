----------------------------- MODULE MCSemLaws -----------------------------
(* Model-level sanity of SC62015Sem, independent of any implementation: algebraic *)
(* laws the README semantics must satisfy, checked by TLC over a product palette  *)
(* of machine states (every combination is an initial state; the laws are         *)
(* invariants).  A transcription error in Exec / Alu8 / the loops shows up here    *)
(* before it can be blamed on - or hidden by - the code.                           *)
EXTENDS SC62015Sem
CONSTANT B8          \* byte palette of the two operand cells
VARIABLE st
EmptyF == [x \in {} |-> 0]
Bytes8 == B8
Mk(ba, i, f, bp, m1, m2, m3, m4) ==
  [r |-> [BA |-> ba, I |-> i, X |-> 8192, Y |-> 12288, U |-> 36864, S |-> 40960, PC |-> 16384, F |-> f],
   m |-> (BPa :> bp) @@ (PXa :> 32) @@ (PYa :> 48) @@ ((IMEM + 16) :> m1) @@ ((IMEM + 17) :> m2) @@ ((IMEM + 32) :> m3) @@ ((IMEM + 33) :> m4),
   w |-> EmptyF, pw |-> "running"]
Init == st \in {Mk(ba, i, f, bp, m1, m2, m3, m4) : ba \in {0, 255, 4660, 65535}, i \in {1, 2}, f \in 0..3, bp \in {0},
                                                 m1 \in Bytes8, m2 \in {0, 153, 255}, m3 \in Bytes8, m4 \in {0, 1, 255}}
Next == UNCHANGED st
Spec == Init /\ [][Next]_st

Ins(bs) == Resolve(Decode(bs))
Run(s, bs) == Exec(s, Ins(bs))
\* architectural equality: registers, flags, and the contents of every location either state wrote
Same(a, b) == /\ a.r = b.r
              /\ \A x \in DOMAIN a.w \cup DOMAIN b.w : Rd(a, x) = Rd(b, x)
SameBut(a, b, regs) == /\ \A n \in DOMAIN a.r : n \in regs \/ a.r[n] = b.r[n]
                       /\ \A x \in DOMAIN a.w \cup DOMAIN b.w : Rd(a, x) = Rd(b, x)
Val16(s, off) == Rd(s, IMEM + off) + 256 * Rd(s, IMEM + off + 1)

\* EX (m),(n) twice is the identity (32 C0 10 20: both operands direct); EXW as well
ExTwice == LET a == Run(st, <<50, 192, 16, 32>>) IN SameBut(Run(a, <<50, 192, 16, 32>>), st, {"PC"})
ExwTwice == LET a == Run(st, <<50, 193, 16, 32>>) IN SameBut(Run(a, <<50, 193, 16, 32>>), st, {"PC"})
\* PUSHU BA ; POPU BA restores BA and U and leaves the flags alone
PushPop == LET a == Run(Run(st, <<42>>), <<58>>) IN a.r.BA = st.r.BA /\ a.r.U = st.r.U /\ a.r.F = st.r.F
\* PUSHS F ; POPS F restores F and S
PushPopF == LET a == Run(Run(st, <<79>>), <<95>>) IN a.r.F = st.r.F /\ a.r.S = st.r.S
\* ADCL (10),(20) over I bytes is multi-precision addition: value, carry out, zero flag, I = 0
AdclIsAddition ==
  LET a == Run(st, <<50, 84, 16, 32>>)
      n == st.r.I
      v1 == IF n = 1 THEN Rd(st, IMEM + 16) ELSE Val16(st, 16)
      v2 == IF n = 1 THEN Rd(st, IMEM + 32) ELSE Val16(st, 32)
      sum == v1 + v2 + FC(st)
      m == 256 ^ n
      got == IF n = 1 THEN Rd(a, IMEM + 16) ELSE Val16(a, 16)
  IN got = sum % m /\ FC(a) = (IF sum >= m THEN 1 ELSE 0) /\ FZ(a) = (IF sum % m = 0 THEN 1 ELSE 0) /\ a.r.I = 0
\* SBCL is multi-precision subtraction
SbclIsSubtraction ==
  LET a == Run(st, <<50, 92, 16, 32>>)
      n == st.r.I
      v1 == IF n = 1 THEN Rd(st, IMEM + 16) ELSE Val16(st, 16)
      v2 == IF n = 1 THEN Rd(st, IMEM + 32) ELSE Val16(st, 32)
      d == v1 - v2 - FC(st)
      m == 256 ^ n
      got == IF n = 1 THEN Rd(a, IMEM + 16) ELSE Val16(a, 16)
  IN got = d % m /\ FC(a) = (IF d < 0 THEN 1 ELSE 0) /\ FZ(a) = (IF d % m = 0 THEN 1 ELSE 0)
\* ADC A,n ; SBC A,n with the carry cleared in between returns A (one byte)
AddThenSub == LET a == Run(Run(Run(st, <<80, 37>>), <<159>>), <<88, 37>>)      \* ADC A,25h ; RC ; SBC A,25h
              IN a.r.BA % 256 = (st.r.BA + FC(st)) % 256
\* ROR then ROL is the identity on A; SHR then SHL restores A when the carry that went out comes back in
RorRol == LET a == Run(Run(st, <<228>>), <<230>>) IN a.r.BA = st.r.BA
ShrShl == LET a == Run(Run(st, <<244>>), <<246>>) IN a.r.BA = st.r.BA
\* SWAP twice is the identity on A
SwapTwice == LET a == Run(Run(st, <<238>>), <<238>>) IN a.r.BA = st.r.BA
\* INC then DEC restores the byte and never touches the carry
IncDec == LET a == Run(Run(st, <<50, 109, 16>>), <<50, 125, 16>>) IN Rd(a, IMEM + 16) = Rd(st, IMEM + 16) /\ FC(a) = FC(st)
\* CMP never writes; its flags are those of SUB
CmpIsSubFlags == LET a == Run(st, <<50, 183, 16, 32>>)          \* CMP (10),(20)
                     b == Run(st, <<50, 74, 16>>)                 \* (placeholder: SUB A,(10) is a different operand pair)
                 IN DOMAIN a.w = {} /\ FC(a) = (IF Rd(st, IMEM + 16) < Rd(st, IMEM + 32) THEN 1 ELSE 0)
                    /\ FZ(a) = (IF Rd(st, IMEM + 16) = Rd(st, IMEM + 32) THEN 1 ELSE 0)
\* MVL (10),(20) copies I bytes and leaves the source alone; I = 0 afterwards
MvlCopies == LET a == Run(st, <<50, 203, 16, 32>>) IN
             /\ \A k \in 0..(st.r.I - 1) : Rd(a, IMEM + 16 + k) = Rd(st, IMEM + 32 + k)
             /\ a.r.I = 0 /\ a.r.F = st.r.F
\* DADL on valid packed BCD is decimal addition (one byte)
BcdVal(v) == (v \div 16) * 10 + (v % 16)
DadlIsDecimal ==
  (st.r.I = 1 /\ IsBcd(Rd(st, IMEM + 16)) /\ IsBcd(Rd(st, IMEM + 32))) =>
    LET a == Run(st, <<50, 196, 16, 32>>)
        sum == BcdVal(Rd(st, IMEM + 16)) + BcdVal(Rd(st, IMEM + 32)) + FC(st)
    IN BcdVal(Rd(a, IMEM + 16)) = sum % 100 /\ FC(a) = (IF sum >= 100 THEN 1 ELSE 0) /\ IsBcd(Rd(a, IMEM + 16))
DsblIsDecimal ==
  (st.r.I = 1 /\ IsBcd(Rd(st, IMEM + 16)) /\ IsBcd(Rd(st, IMEM + 32))) =>
    LET a == Run(st, <<50, 212, 16, 32>>)
        d == BcdVal(Rd(st, IMEM + 16)) - BcdVal(Rd(st, IMEM + 32)) - FC(st)
    IN BcdVal(Rd(a, IMEM + 16)) = d % 100 /\ FC(a) = (IF d < 0 THEN 1 ELSE 0) /\ IsBcd(Rd(a, IMEM + 16))
\* CALL then RET comes back to the next instruction with S restored (same page)
CallRet == LET a == Run(st, <<4, 0, 80>>)                 \* CALL 5000h
               b == Run(a, <<6>>)
           IN a.r.PC = 20480 /\ a.r.S = st.r.S - 2 /\ b.r.PC = st.r.PC + 3 /\ b.r.S = st.r.S
\* the frame condition of a register-only instruction: nothing is written to memory
NoStrayWrites == DOMAIN Run(st, <<64, 1>>).w = {} /\ DOMAIN Run(st, <<253, 69>>).w = {}
=============================================================================
