----------------------------- MODULE JudgeParity -----------------------------
(* C06: TLC judges recorded pairs of one-instruction executions (Python core,  *)
(* Rust core) from identical architectural states.                              *)
(*   [id, b (8 bytes), n, py: [regs, len, err, pw], rs: [...], memdiff, ...]    *)
(* Clauses: SameRegisters (BA I X Y U S), SameFlags (carry and zero), SamePC,          *)
(* SamePower, SameLength, SameMemory (final contents of every written           *)
(* location), NoError.  RefLength compares the consumed length with the format  *)
(* specification (drift).                                                       *)
EXTENDS SC62015Format, Json, IOUtils
Obs == ndJsonDeserialize(IOEnv.TRACE_FILE)
RegNames == {"BA", "I", "X", "Y", "U", "S"}
Clause(r) ==
  IF r.py.err # r.rs.err THEN "NoError"
  ELSE IF r.py.err = 1 THEN "ok"
  ELSE IF r.py.len # r.rs.len THEN "SameLength"
  ELSE IF r.py.regs.PC # r.rs.regs.PC THEN "SamePC"
  ELSE IF \E n \in RegNames : r.py.regs[n] # r.rs.regs[n] THEN "SameRegisters"
  ELSE IF r.py.regs.F % 4 # r.rs.regs.F % 4 THEN "SameFlags"      \* carry = bit 0, zero = bit 1
  ELSE IF r.py.pw # r.rs.pw THEN "SamePower"
  ELSE IF Len(r.memdiff) > 0 THEN "SameMemory"
  ELSE "ok"
Ref(r) == LET d == Decode(SubSeq(r.b, 1, r.n)) IN
          IF r.py.err = 1 THEN "ok" ELSE IF d.fate # "ok" THEN "RefAccept" ELSE IF d.len # r.py.len THEN "RefLength" ELSE "ok"
BadSet == {<<Obs[k].id, Clause(Obs[k])>> : k \in {j \in 1..Len(Obs) : Clause(Obs[j]) # "ok"}}
Drift == {<<Obs[k].id, Ref(Obs[k])>> : k \in {j \in 1..Len(Obs) : Clause(Obs[j]) = "ok" /\ Ref(Obs[j]) # "ok"}}
ASSUME PrintT(<<"JUDGE", Len(Obs), BadSet, Drift>>)
VARIABLE dummy
DInit == dummy = 0
DNext == dummy' = dummy
=============================================================================
