----------------------------- MODULE JudgeParity -----------------------------
(* C06: TLC judges recorded pairs of one-instruction executions (Python core,  *)
(* Rust core) from identical architectural states.                              *)
(*   [id, b (8 bytes), n, py: [regs, len, err, pw], rs: [...], memdiff, ...]    *)
(* Clauses: SameRegisters (BA I X Y U S), SameFlags (carry and zero), SamePC,          *)
(* SamePower, SameLength, SameMemory (final contents of every written           *)
(* location), NoError.  RefLength compares the consumed length with the format  *)
(* specification (drift).                                                       *)
EXTENDS SC62015Format, Json, IOUtils
Obs == ndJsonDeserialize(IOEnv.TRACE_FILE)
RegSeq == <<"BA", "I", "X", "Y", "U", "S">>
\* every component in which the two cores differ, joined with "+" (the registers by name: SameRegisters-I-X), so that a recorded
\* divergence in one component does not hide a new one in another
RECURSIVE RegPart(_, _)
RegPart(r, i) == IF i > Len(RegSeq) THEN ""
                 ELSE (IF r.py.regs[RegSeq[i]] # r.rs.regs[RegSeq[i]] THEN "-" \o RegSeq[i] ELSE "") \o RegPart(r, i + 1)
Join(a, b) == IF a = "" THEN b ELSE IF b = "" THEN a ELSE a \o "+" \o b
Clause(r) ==
  IF r.py.err # r.rs.err THEN "NoError"
  ELSE IF r.py.err = 1 THEN "ok"
  ELSE LET rp == RegPart(r, 1)
           parts == Join(Join(Join(Join(Join(IF r.py.len # r.rs.len THEN "SameLength" ELSE "",
                                             IF r.py.regs.PC # r.rs.regs.PC THEN "SamePC" ELSE ""),
                                        IF rp # "" THEN "SameRegisters" \o rp ELSE ""),
                                   IF r.py.regs.F % 4 # r.rs.regs.F % 4 THEN "SameFlags" ELSE ""),      \* carry = bit 0, zero = bit 1
                              IF r.py.pw # r.rs.pw THEN "SamePower" ELSE ""),
                         IF Len(r.memdiff) > 0 THEN "SameMemory" ELSE "")
       IN IF parts = "" THEN "ok" ELSE parts
Ref(r) == LET d == Decode(SubSeq(r.b, 1, r.n)) IN
          IF r.py.err = 1 THEN "ok" ELSE IF d.fate # "ok" THEN "RefAccept" ELSE IF d.len # r.py.len THEN "RefLength" ELSE "ok"
BadSet == {<<Obs[k].id, Clause(Obs[k])>> : k \in {j \in 1..Len(Obs) : Clause(Obs[j]) # "ok"}}
Drift == {<<Obs[k].id, Ref(Obs[k])>> : k \in {j \in 1..Len(Obs) : Clause(Obs[j]) = "ok" /\ Ref(Obs[j]) # "ok"}}
ASSUME PrintT(<<"JUDGE", Len(Obs), BadSet, Drift>>)
VARIABLE dummy
DInit == dummy = 0
DNext == dummy' = dummy
=============================================================================
