SPECIFICATION Spec
CONSTANT B8 = {0, 1, 9, 15, 16, 127, 128, 153, 154, 254, 255}
INVARIANT ExTwice
INVARIANT ExwTwice
INVARIANT PushPop
INVARIANT PushPopF
INVARIANT AdclIsAddition
INVARIANT SbclIsSubtraction
INVARIANT AddThenSub
INVARIANT RorRol
INVARIANT ShrShl
INVARIANT SwapTwice
INVARIANT IncDec
INVARIANT CmpIsSubFlags
INVARIANT MvlCopies
INVARIANT DadlIsDecimal
INVARIANT DsblIsDecimal
INVARIANT CallRet
INVARIANT NoStrayWrites
CHECK_DEADLOCK FALSE
