----------------------------- MODULE JudgeDecode -----------------------------
(* C01: TLC judges recorded decode attempts of the four real consumers          *)
(* (Binary Ninja info / text / low-level-IL callbacks, emulator fetch).          *)
(* One record per base byte string b (7 bytes: structural part + fill):          *)
(*   [id, b, o: <<row, ...>>]   row = <<ctx, n, ia, il, ta, tl, tm, la, ll, fa, fl, fm, exc>>*)
(*   ctx 0: the buffer is b itself                (n = 7)                         *)
(*   ctx 1..3: the buffer is b[1..L] followed by tail k (L = length reported in ctx 0)*)
(*       tail 1 = a valid instruction, tail 2 = bytes whose own decode is rejected,*)
(*       tail 3 = bytes whose own decode trips an operand-mode assertion          *)
(*   ctx 4: the buffer is b truncated to n bytes                                  *)
(*   ctx 5: the buffer is b again, decoded after an adversarial decode history    *)
(*   ctx 6: the buffer is b[1..L] followed by one of ALL two-byte instruction     *)
(*       heads (opcode x second byte, zero fill) - the follower campaign          *)
(*   ia/ta/la/fa = accepted (1/0) by info/text/IL/fetch (fa = -1: not applicable),*)
(*   il/tl/ll/fl = reported lengths, tm/fm = mnemonic strings, exc = 1 if any     *)
(*   consumer raised instead of returning.                                        *)
(* Property clauses are evaluated on the observations alone; Reference* clauses   *)
(* compare with SC62015Format (reported as drift by the harness).                 *)
EXTENDS SC62015Format, Json, IOUtils

Obs == ndJsonDeserialize(IOEnv.TRACE_FILE)

TailK(k) == CASE k = 1 -> <<8, 18>> [] k = 2 -> <<76, 136>> [] k = 3 -> <<86, 4, 0, 0>> [] OTHER -> <<>>

Base(r) == CHOOSE row \in {r.o[i] : i \in 1..Len(r.o)} : row[1] = 0
L0(r) == Base(r)[4]

RowClause(r, row) ==
  LET ctx == row[1]  n == row[2]  ia == row[3]  il == row[4]  ta == row[5]  tl == row[6]  tm == row[7]
      la == row[8]  ll == row[9]  fa == row[10]  fl == row[11]  fm == row[12]  exc == row[13]
      b0 == Base(r)
  IN IF exc = 1 THEN "NoUnexpectedError"
     ELSE IF ia = 1 /\ ~(il >= 1 /\ il <= n) THEN "LenBounds"
     ELSE IF ia = 1 /\ ~(ta = 1 /\ la = 1 /\ tl = il /\ ll = il) THEN "ConsumersAgree"
     ELSE IF ia = 1 /\ fa # -1 /\ ~(fa = 1 /\ fl = il /\ fm = tm) THEN "ConsumersAgree"
     ELSE IF ctx \in {1, 2, 3, 6} /\ <<ia, il, ta, tl, tm, la, ll>> # <<b0[3], b0[4], b0[5], b0[6], b0[7], b0[8], b0[9]>> THEN "IndependentOfLaterBytes"
     ELSE IF ctx \in {1, 2, 3, 6} /\ fa # -1 /\ b0[10] # -1 /\ <<fa, fl, fm>> # <<b0[10], b0[11], b0[12]>> THEN "IndependentOfLaterBytes"
     ELSE IF ctx = 4 /\ b0[3] = 1 /\ n >= b0[4] /\ <<ia, il, ta, tl, tm, la, ll>> # <<b0[3], b0[4], b0[5], b0[6], b0[7], b0[8], b0[9]>> THEN "IndependentOfLaterBytes"
     ELSE IF ctx = 4 /\ b0[3] = 1 /\ n < b0[4] /\ ia = 1 THEN "IndependentOfLaterBytes"
     ELSE IF ctx = 5 /\ row # [b0 EXCEPT ![1] = 5] THEN "IndependentOfHistory"
     ELSE "ok"

\* comparison with the reference format specification (drift, not a property verdict)
BufferOf(r, row) == IF row[1] = 0 \/ row[1] = 5 THEN r.b
                    ELSE IF row[1] = 4 THEN SubSeq(r.b, 1, row[2])
                    ELSE SubSeq(r.b, 1, L0(r)) \o TailK(row[1])
RefClause(r, row) ==
  LET d == Decode(BufferOf(r, row)) IN
  IF (row[3] = 1) # (d.fate = "ok") THEN "RefAccept"
  ELSE IF row[3] = 1 /\ row[4] # d.len THEN "RefLength"
  ELSE IF row[3] = 1 /\ row[7] # d.mn THEN "RefMnemonic"
  ELSE IF row[3] = 0 /\ row[5] = 1 /\ ~(d.fate = "lone" /\ row[6] = 1) THEN "RefTextOnlyAccept"
  ELSE "ok"

BadRows(r) == {<<i, RowClause(r, r.o[i])>> : i \in {j \in 1..Len(r.o) : RowClause(r, r.o[j]) # "ok"}}
DriftRows(r) == {<<i, RefClause(r, r.o[i])>> : i \in {j \in 1..Len(r.o) : RowClause(r, r.o[j]) = "ok" /\ RefClause(r, r.o[j]) # "ok"}}

Drift == UNION {{<<Obs[k].id, x[1], x[2]>> : x \in DriftRows(Obs[k])} : k \in 1..Len(Obs)}
BadAll == UNION {{<<Obs[k].id, x[1], x[2]>> : x \in BadRows(Obs[k])} : k \in 1..Len(Obs)}
ASSUME PrintT(<<"JUDGE", Len(Obs), BadAll, Drift>>)
VARIABLE dummy
DInit == dummy = 0
DNext == dummy' = dummy
=============================================================================
