INIT DInit
NEXT DNext
