INIT DInit
NEXT DNext
