SPECIFICATION Spec
INVARIANT DefBeforeUse
CHECK_DEADLOCK FALSE
