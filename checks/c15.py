"""C15 - LCD controllers follow the HD61202 protocol and map VRAM to pixels one-to-one.

spec/lcd/Lcd.tla       two HD61202 chips behind the address decoding (reduced geometry for exhaustive TLC)
spec/lcd/TraceLcd.tla  validation of recorded read/write sequences at full geometry (Python + Rust)
spec/lcd/PixelMap.tla  the VRAM-bit -> pixel function and its one-to-one / one-column predicates
"""
from __future__ import annotations

import json
import random
from pathlib import Path
from typing import Any, Dict, List, Tuple

import vlib
from vlib import CheckRun, MachineryError, SPEC, run_tlc, tlc_expect_ok, Vh

LEVEL = "model_checking"
SD = SPEC / "lcd"


class PyLcd:
    def __init__(self):
        from pce500.display.controller_wrapper import HD61202Controller
        self.c = HD61202Controller()
        self.prev = self._vram()

    def _vram(self):
        return [[list(row) for row in chip.vram] for chip in self.c.chips]

    def _proj(self, ret):
        # every other step the controller is observed through its snapshot API (get_snapshot(): what the state capture, the
        # display tools and the save-state path see) instead of the chip objects; the two views must be the same machine
        self.nstep = getattr(self, "nstep", 0) + 1
        snap = None
        if self.nstep % 2 == 0 and hasattr(self.c, "get_snapshot"):
            try:
                snap = self.c.get_snapshot()
            except Exception:      # noqa: BLE001
                snap = None
        if snap is not None and len(getattr(snap, "chips", ())) == 2:
            cur = [[list(row) for row in ch.vram] for ch in snap.chips]
            delta = []
            for ci in range(2):
                for p in range(8):
                    rp, rc = self.prev[ci][p], cur[ci][p]
                    if rp != rc:
                        for x in range(64):
                            if rp[x] != rc[x]:
                                delta.append([ci, p, x, rc[x]])
            self.prev = cur
            st = [{"on": int(ch.on), "start": ch.start_line, "page": ch.page, "y": ch.y_address, "busy": -1} for ch in snap.chips]
            return {"ret": -1 if ret is None else int(ret), "st": st, "delta": delta}
        cur = self._vram()
        delta = []
        for ci in range(2):
            for p in range(8):
                rp, rc = self.prev[ci][p], cur[ci][p]
                if rp != rc:
                    for x in range(64):
                        if rp[x] != rc[x]:
                            delta.append([ci, p, x, rc[x]])
        self.prev = cur
        st = [{"on": int(ch.state.on), "start": ch.state.start_line, "page": ch.state.page, "y": ch.state.y_address, "busy": int(ch.state.busy)} for ch in self.c.chips]
        return {"ret": -1 if ret is None else int(ret), "st": st, "delta": delta}

    def write(self, addr, v):
        self.c.write(addr, v, cpu_pc=0)
        return self._proj(None)

    def read(self, addr):
        return self._proj(self.c.read(addr, cpu_pc=0))


class PyLcdBus(PyLcd):
    """The same controller reached the way the CPU reaches it: through PCE500Memory's LCD overlays, with non-zero RAM lying under
    both windows.  A shadow controller (driven directly) only tells whether a read strobe is driven at all; for an undriven strobe
    the bus falls back to the RAM byte, which is reported as 'no value' (-1) like the controller's None."""

    def __init__(self):
        from pce500.display.controller_wrapper import HD61202Controller
        from pce500.memory import PCE500Memory
        self.c = HD61202Controller()
        self.shadow = HD61202Controller()
        self.m = PCE500Memory()
        self.m.set_lcd_controller(self.c)
        for a in list(range(0x2000, 0x2010)) + list(range(0xA000, 0xB000)):
            self.m.external_memory[a] = 0x80 | ((a * 7 + 0x25) & 0x7F) or 0xA5
        self.prev = self._vram()

    def write(self, addr, v):
        self.shadow.write(addr, v, cpu_pc=0)
        self.m.write_byte(addr, v)
        return self._proj(None)

    def read(self, addr):
        driven = self.shadow.read(addr, cpu_pc=0)
        got = self.m.read_byte(addr)
        return self._proj(None if driven is None else got)


class RsLcd:
    def __init__(self, vh: Vh, capture: bool = False):
        self.vh = vh
        vh.call("lcd.new", capture=bool(capture))

    def _fix(self, r):
        for c in r["st"]:
            c["on"] = int(bool(c["on"]))
            c["busy"] = -1
        return r

    def write(self, addr, v):
        return self._fix(self.vh.call("lcd.write", addr=addr, v=v))

    def read(self, addr):
        return self._fix(self.vh.call("lcd.read", addr=addr))


def drive_one(impl: str, acts: List[Dict[str, Any]], vh: Vh, tid: int) -> List[Dict[str, Any]]:
    lcd = PyLcd() if impl == "py" else (PyLcdBus() if impl == "pybus" else RsLcd(vh, capture=impl.endswith("+cap")))
    impl = impl.split("+")[0]
    ev = [{"tid": tid, "ev": "Init", "impl": impl}]
    for a in acts:
        if a["ev"] == "W":
            r = lcd.write(a["addr"], a["v"])
            ev.append({"tid": tid, "ev": "W", "addr": a["addr"], "v": a["v"], **r})
        else:
            r = lcd.read(a["addr"])
            ev.append({"tid": tid, "ev": "R", "addr": a["addr"], "v": 0, **r})
    return ev


def drive_shard(shard_id: int, items, extra):
    vh = Vh()
    events, meta = [], {}
    tid = shard_id * 10_000_000
    try:
        for k, acts in enumerate(items):
            per = {}
            # every other sequence also runs on a Rust controller whose display-write capture is switched on (an observer of the
            # data writes that the front ends use; the protocol must not notice it)
            impls = (("py", "rs") + (("rs+cap",) if k % 2 else ())) if extra != "bus" else ("pybus",)
            for impl in impls:
                tid += 1
                meta[tid] = {"impl": impl.split("+")[0], "variant": impl, "acts": acts}
                e = drive_one(impl, acts, vh, tid)
                per[impl] = e
                events.extend(e)
    finally:
        vh.close()
    return events, meta


def _shape(b, meta) -> str:
    """Structural class of a rejected step (used as the known-finding key)."""
    d = b["detail"]
    if d[0] == "W" and d[1] & 1:
        return "write-at-read-address"
    if any(a["ev"] == "W" and a["addr"] & 1 for a in meta["acts"]):
        return "after-write-at-read-address"
    return "protocol"


def campaign(cr: CheckRun, items, tag: str, extra=None) -> None:
    if not items:
        return
    ntr, nev, bad = vlib.trace_campaign("C15", SD, "TraceLcd", "TraceLcd.cfg", items, drive_shard, tag, extra=extra)
    for b, meta in bad:
        shape = _shape(b, meta)
        cr.violation(f"{b['clause']}:{meta['impl']}:{shape}", f"{meta['impl']} LCD: {b['clause']} differs from the HD61202 protocol ({shape}) at step {b['line']}: {b['detail']}",
                     {"impl": meta["impl"], "variant": meta.get("variant", meta["impl"]), "acts": meta["acts"], "clause": b["clause"], "detail": b["detail"], "shape": shape})
    cr.cov["traces_validated_against_impl"] += ntr
    cr.cov["evaluations"] += nev
    cr.cov.setdefault("campaigns", []).append({"name": tag, "traces": ntr, "events": nev, "rejected_steps": len(bad)})
    cr.add_sample({"campaign": tag, "acts": items[len(items) // 2][:8]})


def random_sequences(seed: int, n: int, length: int):
    rnd = random.Random(seed)
    out = []
    for k in range(n):
        acts = []
        odd_writes = (k % 10 == 0)   # one sequence in ten also writes at read addresses / reads at write addresses
        for _ in range(length):
            base = rnd.choice([0x2000, 0xA000])
            mid = rnd.choice([0, 0, 0, rnd.randrange(0, 0x100) << 4])
            lo = rnd.randrange(16)
            addr = base | mid | lo
            r = rnd.random()
            if r < 0.25:
                if not odd_writes:
                    addr |= 1
                acts.append({"ev": "R", "addr": addr})
                continue
            if not odd_writes:
                addr &= ~1
            if False:
                pass
            else:
                # bias toward meaningful protocol use
                if rnd.random() < 0.5:
                    v = rnd.choice([0x3E, 0x3F, 0x40 | rnd.randrange(64), 0xB8 | rnd.randrange(8), 0xC0 | rnd.randrange(64)])
                else:
                    v = rnd.randrange(256)
                acts.append({"ev": "W", "addr": addr, "v": v})
        out.append(acts)
    return out


# ------------------------------------------------------------------ the picture is a function of the protocol state
def _display_job(arg):
    """A controller that renders after every step against a fresh controller that replays the same accesses and renders once:
    the 240x32 picture must be the same (it is determined by the chips' on/off flags, start lines and VRAM - not by what
    was rendered before).  Both objects are of the same class; reset() and a second controller in the process are part of it."""
    seqs = arg
    vlib.setup_repo_imports()
    from pce500.display.controller_wrapper import HD61202Controller
    bad = []
    warm = HD61202Controller()                 # a used controller object, reused for every sequence via reset()
    for si, acts in enumerate(seqs):
        warm.reset()
        fresh = HD61202Controller()
        for k, a in enumerate(acts):
            for c in (warm, fresh):
                if a["ev"] == "W":
                    c.write(a["addr"], a["v"], cpu_pc=0)
                else:
                    c.read(a["addr"], cpu_pc=0)
            warm.get_display_buffer()          # the used object renders after every access
        got = warm.get_display_buffer()
        want = fresh.get_display_buffer()
        if (got != want).any():
            ys, xs = (got != want).nonzero()
            bad.append((si, int(len(xs)), [int(xs[0]), int(ys[0])], acts))
    return len(seqs), bad


def display_determined(cr: CheckRun) -> None:
    n = 160 if cr.tier == "quick" else 3000
    seqs = random_sequences(cr.seed + 31, n, 40)
    # make sure chips are switched on and off individually and filled before / after
    rnd = random.Random(cr.seed + 32)
    for acts in seqs:
        for _ in range(6):
            pos = rnd.randrange(len(acts) + 1)
            acts.insert(pos, {"ev": "W", "addr": 0x2000 | rnd.choice([0x0, 0x4, 0x8]), "v": rnd.choice([0x3E, 0x3F, 0x3F])})
    nsh = min(vlib.NCPU, 16)
    res = vlib.pmap(_display_job, [seqs[i::nsh] for i in range(nsh)])
    for nseq, bad in res:
        cr.cov["evaluations"] += nseq
        for (si, npx, first, acts) in bad:
            cr.violation("DisplayDetermined:py", f"py display: after {len(acts)} accesses a controller that rendered after every access shows {npx} pixels "
                         f"differently from a fresh controller given the same accesses (first at x,y = {first})", {"impl": "py", "clause": "DisplayDetermined", "acts": acts})
    cr.cov["display_determined_sequences"] = sum(r[0] for r in res)


# ------------------------------------------------------------------ pixel map

def _py_pixelmap_job(arg):
    """Extract the Python pixel map for a slice of VRAM bytes (base byte 0xFF = all pixels off)."""
    base, todo, off_chip = arg
    vlib.setup_repo_imports()
    from pce500.display.controller_wrapper import HD61202Controller
    c = HD61202Controller()
    c.write(0x2000, 0x3F, cpu_pc=0)
    for page in range(8):
        c.write(0x2000, 0x80 | page, cpu_pc=0)
        c.write(0x2000, 0x40, cpu_pc=0)
        for _ in range(64):
            c.write(0x2002, base, cpu_pc=0)
    if off_chip is not None:
        c.write(0x2000 | (0x8 if off_chip == 0 else 0x4), 0x3E, cpu_pc=0)       # switch one chip off again
    baseline = c.get_display_buffer().copy()
    out = []
    for (chip, page, col) in todo:
        cs = 0x8 if chip == 0 else 0x4
        for bit in range(8):
            c.write(0x2000 | cs, 0x80 | page, cpu_pc=0)
            c.write(0x2000 | cs, 0x40 | col, cpu_pc=0)
            c.write(0x2002 | cs, base ^ (1 << bit), cpu_pc=0)
            buf = c.get_display_buffer()
            ys, xs = (buf != baseline).nonzero()
            out.append([chip, page, col, bit, [[int(x), int(y)] for x, y in zip(xs, ys)]])
            c.write(0x2000 | cs, 0x40 | col, cpu_pc=0)
            c.write(0x2002 | cs, base, cpu_pc=0)
    return out


def _extract_map(impl: str, base: int, start: int, off_chip):
    if impl == "py":
        todo = [(chip, page, col) for chip in range(2) for page in range(8) for col in range(64)]
        shards = [todo[i : i + 64] for i in range(0, len(todo), 64)]
        res = vlib.pmap(_py_pixelmap_job, [(base, sh, off_chip) for sh in shards])
        return [r for part in res for r in part]
    vh = Vh()
    try:
        kw = {} if off_chip is None else {"off_chip": off_chip}
        return vh.call("lcd.pixelmap", base=base, start=start, **kw)["map"]
    finally:
        vh.close()


def one_chip_on(cr: CheckRun, impl: str, base: int, both: List[Any]) -> None:
    """the pixel maps with one chip switched off: what the chip that is on shows must not depend on the other chip's state"""
    d = vlib.scratch("C15")
    bf = d / f"pixelmap-{impl}-both.ndjson"
    vlib.write_ndjson(bf, both)
    for on_chip in (0, 1):
        table = _extract_map(impl, base, 0, 1 - on_chip)
        tf = d / f"pixelmap-{impl}-only{on_chip}.ndjson"
        vlib.write_ndjson(tf, table)
        res = run_tlc(SD, "PixelMap", "PixelMap.cfg", workers=1, env={"TRACE_FILE": str(tf), "TRACE_FILE2": str(bf), "ONLY_CHIP": str(on_chip)},
                      tag=f"C15-pixelmap-{impl}-only{on_chip}", jvm=["-Xss256m"], heap="4g", timeout=900)
        verdict = None
        for v in res.printed():
            if isinstance(v, tuple) and v and v[0] == "PIXELMAP":
                verdict = v
        if verdict is None or len(verdict) < 4:
            raise MachineryError(f"PixelMap (one chip on) judgement failed ({impl}): {verdict}\n{res.out[-1500:]}")
        tf.unlink()
        cr.cov["evaluations"] += len(table)
        cr.cov.setdefault("pixelmaps", []).append({"impl": impl, "base": base, "only_chip_on": on_chip, "bits_probed": len(table), "own_chip_only": verdict[1]})
        if verdict[1] != "ok":
            ex = sorted(verdict[3])[:3]
            cr.violation(f"PixelMap:OwnChipOnly:{impl}", f"{impl} display: with only chip {on_chip} switched on, {len(verdict[3])} of its VRAM bits no longer determine the pixels "
                         f"they determine when both chips are on (e.g. <<chip, page, column, bit>> = {ex})", {"impl": impl, "base": base, "start": 0, "clause": "OwnChipOnly", "on_chip": on_chip})
    bf.unlink()


def pixelmap(cr: CheckRun, impl: str, base: int, start: int = 0) -> None:
    table = _extract_map(impl, base, start, None)
    if start == 0 and base == 0xFF:
        one_chip_on(cr, impl, base, table)
    d = vlib.scratch("C15")
    tf = d / f"pixelmap-{impl}-{base}-{start}.ndjson"
    vlib.write_ndjson(tf, table)
    res = run_tlc(SD, "PixelMap", "PixelMap.cfg", workers=1, env={"TRACE_FILE": str(tf)}, tag=f"C15-pixelmap-{impl}-{base}-{start}", jvm=["-Xss256m"], heap="4g", timeout=900)
    verdict = None
    for v in res.printed():
        if isinstance(v, tuple) and v and v[0] == "PIXELMAP":
            verdict = v
    if verdict is None or len(verdict) < 4:
        raise MachineryError(f"PixelMap judgement failed ({impl}): {verdict}\n{res.out[-1500:]}")
    tf.unlink()
    cr.cov["evaluations"] += len(table)
    cr.cov.setdefault("pixelmaps", []).append({"impl": impl, "base": base, "start_line": start, "bits_probed": len(table),
                                               "one_to_one": verdict[1], "one_column": verdict[2], "differs_from_reference": len(verdict[3])})
    aligned = start % 8 == 0
    if verdict[1] != "ok":
        cr.violation(f"PixelMap:{verdict[1]}:{impl}", f"{impl} display: not every pixel is determined by exactly one VRAM bit (base={base:#x}, start_line={start})",
                     {"impl": impl, "base": base, "start": start, "clause": verdict[1]})
    if verdict[2] != "ok" and aligned:
        cr.violation(f"PixelMap:{verdict[2]}:{impl}", f"{impl} display: a VRAM byte maps to more than 8 pixels or more than one display column (base={base:#x}, start_line={start})",
                     {"impl": impl, "base": base, "start": start, "clause": verdict[2]})
    if len(verdict[3]) and start == 0:
        cr.add_drift(f"action=PixelMap impl={impl} {len(verdict[3])} VRAM bits map to other pixels than the reference layout, e.g. {list(verdict[3])[:3]}")


def run(cr: CheckRun) -> None:
    vlib.setup_repo_imports()
    vlib.build_vh()
    quick = cr.tier == "quick"
    cfg = "MCLcd_quick.cfg" if quick else "MCLcd_thorough.cfg"
    res = run_tlc(SD, "MCLcd", cfg, workers=vlib.NCPU, extra=["-coverage", "1"], tag="C15-" + cfg, timeout=3400, heap="12g")
    if res.invariant_violated:
        raise MachineryError(f"Lcd model violates {res.invariant_violated}")
    tlc_expect_ok(res, cfg)
    cr.add_tlc(cfg, res)
    # reference pixel map predicates (ASSUME RefOk)
    res = run_tlc(SD, "PixelMap", "PixelMap.cfg", workers=1, tag="C15-pixelmap-ref", jvm=["-Xss256m"], heap="4g", timeout=600)
    if "Assumption" in res.out and "is false" in res.out:
        raise MachineryError("reference pixel map violates its own predicates")
    tlc_expect_ok(res, "PixelMap reference")
    # spec -> code: reduced-geometry behaviours are valid full-geometry command sequences
    vals, res = vlib.dump_behaviours(SD, "MCLcd", "MCLcd_replay.cfg", "C15", var="acts", coverage=False)
    tlc_expect_ok(res, "replay")
    cr.add_tlc("replay-model", res)
    items = [[dict(a) for a in v] for v in vals if len(v) >= 1]
    if quick:
        items = items[:: max(1, len(items) // 6000)]
    cr.mark("tlc")
    campaign(cr, items, "exhaustive-replay")
    cr.mark("exhaustive-replay")
    sims, res = vlib.sim_behaviours(SD, "MCLcd", "MCLcd_sim.cfg", 300 if quick else 5000, 60, cr.seed, "C15", var="acts")
    sitems = [[dict(a) for a in v] for v in sims if len(v) >= 1]
    campaign(cr, sitems, "simulate-full-geometry")
    cr.mark("simulate")
    rnd = random_sequences(cr.seed, 400 if quick else 6000, 120)
    campaign(cr, rnd, "random")
    cr.mark("random")
    # the same sequences through the memory bus (addresses inside the two overlay windows: 0x2000-0x200F and 0xA000-0xAFFF)
    def on_bus(acts):
        out = []
        for a in acts:
            a = dict(a)
            if (a["addr"] & 0xF000) == 0x2000:
                a["addr"] = 0x2000 | (a["addr"] & 0x0F)
            out.append(a)
        return out
    campaign(cr, [on_bus(x) for x in rnd[: (200 if quick else 2000)]], "random-through-the-memory-bus", extra="bus")
    display_determined(cr)
    cr.mark("display-determined")
    # pixel maps: complete enumeration of all 8192 VRAM bits on both implementations
    pixelmap(cr, "rs", 0xFF)
    cr.mark("pixelmap-rs")
    pixelmap(cr, "py", 0xFF)
    cr.mark("pixelmap-py")
    if not quick:
        pixelmap(cr, "rs", 0x00)
        pixelmap(cr, "py", 0x00)
        for start in (8, 32, 5, 63):
            pixelmap(cr, "rs", 0xFF, start)
    cr.cov["distinct_nontrivial"] = len({json.dumps(b, sort_keys=True) for b in items + sitems + rnd})
    cr.cov["rule"] = "distinct read/write sequences in the LCD windows executed on both implementations; plus 8192 VRAM bits probed per pixel map"
    cr.cov["exhaustive"] = False
    # growth beyond the HD61202 pair: the display TEXT decoders of both implementations as a refinement layer over PixelMap
    # (LcdText.tla) and the second device profile's display (Iq7000Lcd.tla); only C15's "a single data write changes at most the
    # eight pixels of one display column" is a verdict there (key ColumnsPerWrite:...), the rest is drift
    from checks import ext_lcdtext
    ext_lcdtext.campaign(cr, quick)
    cr.mark("text decoder + IQ-7000 display (LcdText, Iq7000Lcd)")
    cr.cov["trusted_base"] = ["vh harness (lcd.rs, lcdtext.rs, iqlcd.rs)", "TLC", "lib/vlib.py"]
    cr.assumptions += [
        "addresses are restricted to the LCD windows 0x2000-0x2FFF / 0xA000-0xAFFF (the property's quantifier); the Rust handles() gate is applied as the runtime bus does",
        "busy is observable on the Rust side only through status reads",
        "pixel-map predicates are per VRAM byte (a chip-select-both write is two chip writes); 'one display column' is required at page-aligned start lines, one-to-one at every start line probed",
    ]


def replay(path: str) -> int:
    vlib.setup_repo_imports()
    vlib.build_vh()
    rec = json.loads(Path(path).read_text())["replay"]
    if rec.get("clause") == "DisplayDetermined":
        n, bad = _display_job([rec["acts"]])
        for b in bad:
            print("DisplayDetermined fails:", b[1], "pixels differ, first at", b[2])
        return 1 if bad else 0
    if "acts" not in rec:
        cr = CheckRun("C15", "quick", 0, LEVEL)
        pixelmap(cr, rec["impl"], rec["base"], rec.get("start", 0))
        for v in cr.violations:
            print("VIOLATION", v.key, v.desc)
        return 1 if cr.violations else 0
    vh = Vh()
    try:
        ev = drive_one(rec.get("variant") or rec["impl"], rec["acts"], vh, 1)
    finally:
        vh.close()
    bad = vlib.tlc_judge_trace("C15", SD, "TraceLcd", "TraceLcd.cfg", ev, "replay")
    for b in bad:
        print("REJECTED", b)
    return 1 if bad else 0


def selftest(seed: int) -> int:
    vlib.setup_repo_imports()
    vlib.build_vh()
    acts = [{"ev": "W", "addr": 0x2000, "v": 0x3F}, {"ev": "W", "addr": 0x2008, "v": 0x45}, {"ev": "W", "addr": 0x200A, "v": 0x5A},
            {"ev": "R", "addr": 0x200B}, {"ev": "R", "addr": 0x2009}]
    vh = Vh()
    try:
        ev = drive_one("py", acts, vh, 1)
    finally:
        vh.close()
    ok = True
    if vlib.tlc_judge_trace("C15", SD, "TraceLcd", "TraceLcd.cfg", ev, "self0"):
        print("selftest: pristine trace rejected"); ok = False
    bad = json.loads(json.dumps(ev))
    bad[3]["st"][0]["y"] = 5  # post-increment lost
    if not vlib.tlc_judge_trace("C15", SD, "TraceLcd", "TraceLcd.cfg", bad, "self1"):
        print("selftest: corrupted trace accepted"); ok = False
    dropped = ev[:3] + ev[4:]
    if not vlib.tlc_judge_trace("C15", SD, "TraceLcd", "TraceLcd.cfg", dropped, "self2"):
        print("selftest: dropped event accepted"); ok = False
    print("selftest C15:", "ok" if ok else "FAILED")
    return 0 if ok else 2
