"""C04 - lifted IL computes the documented result and flags for every operand value, and changes nothing else.

spec/isa/SC62015Sem.tla   executable semantics written from the README instruction tables (Exec, Alu8, Unspecified)
spec/isa/JudgeSem.tla     TLC judges every recorded one-instruction execution of the Python core: post in Exec(pre)
                          (destination, C/Z where the README defines them, pointer / counter / stack side effects) and
                          the frame condition (every other register, flag and written location)
spec/isa/JudgeAlu.tla     TLC judges complete (a, b, carry) tables of the 8-bit operations in every operand form

code -> spec: (A) every documented structural encoding x seeded random / boundary states (counted instructions with block
lengths 1..8, overlapping and wrapping internal ranges, BCD instructions on valid digits), (B) complete 2^17 operand
tables per 8-bit operation form (quick: two forms complete + a stratified 1/16 sample of the others).
"""
from __future__ import annotations

import json
import random
import sys
from pathlib import Path
from typing import Any, Dict, List, Optional, Tuple

import vlib
from vlib import CheckRun, MachineryError, SPEC, run_tlc

LEVEL = "model_checking"
SD = SPEC / "isa"
PRE_SET = {0x21, 0x22, 0x23, 0x24, 0x25, 0x26, 0x27, 0x30, 0x31, 0x32, 0x33, 0x34, 0x35, 0x36, 0x37}
IMEM = 0x100000
# opcodes whose second byte is a register byte with an addressing-mode nibble
EREG_OPS = set(range(0x90, 0x98)) | set(range(0xB0, 0xB8)) | {0xE0, 0xE1, 0xE2, 0xE3, 0xE8, 0xE9, 0xEA, 0xEB, 0x56, 0x5E}
TWO_IMEM_COUNTED = [0xCB, 0xCF, 0xC3, 0x54, 0x5C, 0xC4, 0xD4]


def _imports():
    sys.path.insert(0, str(vlib.VERIF / "harness" / "py"))
    vlib.setup_repo_imports()
    import exec_harness as eh
    import isa_enum as en
    return eh, en


# block moves between the internal memory and an external operand (register-indirect / absolute / memory-indirect): the only
# counted instructions whose documented meaning extends to block lengths above 256
BLOCK_OPS = {0xD3, 0xDB, 0xE3, 0xEB, 0x56, 0x5E, 0xF3, 0xFB}


def make_state(en, enc: bytes, st_seed: int, variant: str) -> Dict[str, Any]:
    rnd = random.Random(st_seed)
    st = en.state_for(enc, rnd)
    op = en.opcode_of(enc)
    if variant == "wide" and op not in en.BCD_OPS:
        # boundary values in every register, boundary bytes in the data cells
        for r, top in (("BA", 0xFFFF), ("I", 0xFFFF), ("X", 0xFFFFF), ("Y", 0xFFFFF), ("U", 0xFFFFF), ("S", 0xFFFFF)):
            if r == "I" and op in en.COUNTED_OPS:
                continue
            st["regs"][r] = rnd.choice([0, 1, 0xFF, 0x100, 0xFFFF, 0x10000, 0xFFFFF, 0x7FFFF, 0x80000, 0xFFFE, 0x8000]) & top
        for off in range(0, 0xE0, 1):
            if off not in st["imem"] and rnd.random() < 0.5:
                st["imem"][off] = rnd.choice([0x00, 0xFF, 0x01, 0x80, 0x7F, 0xFE])
    if variant == "long" and op in en.COUNTED_OPS:
        st["regs"]["I"] = rnd.choice([5, 7, 8])
    if variant == "block" and op in BLOCK_OPS:
        # block lengths that need both bytes of I (the internal operand then sweeps the whole internal memory once or twice)
        st["regs"]["I"] = rnd.choice([0x100, 0x101, 0x1FF, 0x200, 0x234])
        for r in ("X", "Y", "U"):                       # keep the external walk inside the address space and away from the code
            st["regs"][r] = rnd.choice([0x20000, 0x30400, 0x7F000]) + rnd.randrange(0x100)
    if variant == "huge" and op in BLOCK_OPS:
        # tens of thousands of bytes: judged by BlockCore (counter, pointer, flags, number of external locations written)
        st["regs"]["I"] = rnd.choice([0x8000, 0x8001, 0xFFFF, 0xC123])
        for r in ("X", "Y", "U"):
            st["regs"][r] = 0x40000 + rnd.randrange(0x100)
    return st


def observe(eh, en, rid: int, enc: bytes, st_seed: int, variant: str = "") -> Dict[str, Any]:
    st = make_state(en, enc, st_seed, variant)
    regs, mem = en.build_case(enc, st)
    p = eh.run(regs, mem, 1, hashed=True)
    s = p["steps"][0]
    pm = p["_mem"]
    fin = sorted({a: pm.mem[a] for a, _ in s["writes"]}.items())
    huge = 1 if variant == "huge" else 0
    return {"id": rid, "b": list(enc) + [0] * (8 - len(enc)), "n": len(enc), "regs": regs, "mem": mem,
            "post": {"regs": s["regs"], "len": s["len"], "err": 1 if s["err"] else 0, "pw": "run" if s["power"].startswith("run") else "low"},
            "fin": [] if huge else [[a, v] for a, v in fin], "seed": st_seed, "variant": variant, "errtext": s["err"] or "",
            "huge": huge, "nw": len({a for a, _ in fin if a < 0x100000}) if huge else 0}


def tags(rec: Dict[str, Any], edge: str, detail: str = "") -> str:
    b = rec["b"]
    pre = b[0] in PRE_SET
    op = b[1] if pre else b[0]
    t = ["p" if pre else "n"]
    k = 2 if pre else 1
    if op in EREG_OPS:
        t.append(f"m{b[k] >> 4:X}")
    import isa_enum as en
    if op in en.COUNTED_OPS:
        t.append("i1" if rec["regs"]["I"] == 1 else "iN")
    if op == 0xDC:
        t.append("hi" if b[rec["n"] - 1] > 0x0F else "lo")     # MVP (k),lmn : is the high nibble of l in use?
    if op in (0xFF, 0xDE, 0xDF) and detail.startswith("<<10"):
        try:
            t.append(f"a{int(detail.strip('<>').split(',')[0]) - IMEM:02X}")    # which system register
        except ValueError:
            pass
    if edge:
        t.append(edge)
    return f"op{op:02X}:" + ",".join(t)


def _fmt(x) -> str:
    if isinstance(x, tuple):
        return "<<" + ", ".join(_fmt(y) for y in x) + ">>"
    return str(x)


def judge(shard_id: int, recs: List[Dict[str, Any]], module: str = "JudgeSem"):
    d = vlib.scratch("C04")
    tf = d / f"{module}-{shard_id}.ndjson"
    vlib.write_ndjson(tf, [{k: v for k, v in r.items() if k not in ("errtext", "seed", "variant")} for r in recs])
    res = run_tlc(SD, module, f"{module}.cfg", workers=1, env={"TRACE_FILE": str(tf)}, tag=f"C04-{module}-{shard_id}", jvm=["-Xss128m"], heap="3g", timeout=3000)
    verdict = None
    for v in res.printed():
        if isinstance(v, tuple) and v and v[0] == "JUDGE":
            verdict = v
    if verdict is None:
        raise MachineryError(f"{module} did not complete (shard {shard_id}):\n{res.out[-2000:]}")
    tf.unlink()
    return verdict


def _job_a(arg):
    shard_id, items = arg
    eh, en = _imports()
    recs = [observe(eh, en, rid, enc, seed, variant) for (rid, enc, seed, variant) in items]
    v = judge(shard_id, recs)
    byid = {r["id"]: r for r in recs}
    bad = []
    for x in v[2]:
        r = byid[int(x[0])]
        bad.append((str(x[1]), tags(r, "+".join(str(t) for t in x[3]), _fmt(x[2])), _fmt(x[2]), {"kind": "exec", "bytes": r["b"][: r["n"]], "seed": r["seed"], "variant": r["variant"]},
                    r["post"], r["errtext"]))
    skipped: Dict[str, int] = {}
    for x in v[3]:
        skipped[str(x[1])] = skipped.get(str(x[1]), 0) + 1
    return len(recs), bad[:4000], len(bad), skipped


# ------------------------------------------------------------------------------------------------ (B) operand tables
# (mnemonic, opcode, destination kind, source kind); kinds: A, IL, M (internal cell (10) under PRE 32), E (external [020000]), n, N (internal cell (20))
BIN_FORMS = [
    ("ADD", 0x40, "A", "n"), ("ADD", 0x41, "M", "n"), ("ADD", 0x42, "A", "N"), ("ADD", 0x43, "M", "A"), ("ADD", 0x46, "A", "IL"),
    ("SUB", 0x48, "A", "n"), ("SUB", 0x49, "M", "n"), ("SUB", 0x4A, "A", "N"), ("SUB", 0x4B, "M", "A"), ("SUB", 0x4E, "A", "IL"),
    ("ADC", 0x50, "A", "n"), ("ADC", 0x51, "M", "n"), ("ADC", 0x52, "A", "N"), ("ADC", 0x53, "M", "A"),
    ("SBC", 0x58, "A", "n"), ("SBC", 0x59, "M", "n"), ("SBC", 0x5A, "A", "N"), ("SBC", 0x5B, "M", "A"),
    ("AND", 0x70, "A", "n"), ("AND", 0x71, "M", "n"), ("AND", 0x72, "E", "n"), ("AND", 0x73, "M", "A"), ("AND", 0x76, "M", "N"), ("AND", 0x77, "A", "N"),
    ("OR", 0x78, "A", "n"), ("OR", 0x79, "M", "n"), ("OR", 0x7A, "E", "n"), ("OR", 0x7B, "M", "A"), ("OR", 0x7E, "M", "N"), ("OR", 0x7F, "A", "N"),
    ("XOR", 0x68, "A", "n"), ("XOR", 0x69, "M", "n"), ("XOR", 0x6A, "E", "n"), ("XOR", 0x6B, "M", "A"), ("XOR", 0x6E, "M", "N"), ("XOR", 0x6F, "A", "N"),
    ("CMP", 0x60, "A", "n"), ("CMP", 0x61, "M", "n"), ("CMP", 0x62, "E", "n"), ("CMP", 0x63, "M", "A"), ("CMP", 0xB7, "M", "N"),
    ("TEST", 0x64, "A", "n"), ("TEST", 0x65, "M", "n"), ("TEST", 0x66, "E", "n"), ("TEST", 0x67, "M", "A"),
    ("ADCL", 0x54, "M", "N"), ("ADCL", 0x55, "M", "A"), ("SBCL", 0x5C, "M", "N"), ("SBCL", 0x5D, "M", "A"),
    ("DADL", 0xC4, "M", "N"), ("DADL", 0xC5, "M", "A"), ("DSBL", 0xD4, "M", "N"), ("DSBL", 0xD5, "M", "A"),
    ("PMDF", 0x47, "M", "n"), ("PMDF", 0x57, "M", "A"),
]
UN_FORMS = [
    ("INC", 0x6C, "A"), ("INC", 0x6D, "M"), ("DEC", 0x7C, "A"), ("DEC", 0x7D, "M"),
    ("ROR", 0xE4, "A"), ("ROR", 0xE5, "M"), ("ROL", 0xE6, "A"), ("ROL", 0xE7, "M"),
    ("SHR", 0xF4, "A"), ("SHR", 0xF5, "M"), ("SHL", 0xF6, "A"), ("SHL", 0xF7, "M"),
    ("SWAP", 0xEE, "A"), ("DSLL", 0xEC, "M"), ("DSRL", 0xFC, "M"),
]
BCD = {"DADL", "DSBL"}
MOFF, NOFF, EADDR, CODE = 0x10, 0x20, 0x20000, 0x4000


def _encode(op: int, dk: str, sk: Optional[str], b: int) -> bytes:
    if sk is None:
        if dk == "A":
            return bytes([op, 0x00]) if op in (0x6C, 0x7C) else bytes([op])
        return bytes([0x32, op, MOFF])
    body = [op]
    if dk == "M":
        body.append(MOFF)
    elif dk == "E":
        body += [EADDR & 0xFF, (EADDR >> 8) & 0xFF, EADDR >> 16]
    if sk == "n":
        body.append(b)
    elif sk == "N":
        body.append(NOFF)
    elif sk == "IL":
        body.append(0x01)          # r1,r1 selector: A, IL
    pre = [0x32] if (dk == "M" or sk == "N") else []
    return bytes(pre + body)


class TableRunner:
    def __init__(self, eh):
        from sc62015.pysc62015.emulator import RegisterName
        self.RN = RegisterName
        self.sm = eh.SparseMem({}, 0, False)
        self.emu = eh.new_emulator(self.sm)

    def run(self, mn: str, op: int, dk: str, sk: Optional[str], a: int, b: int, c: int, z: int) -> Tuple[int, int, int]:
        sm, emu, RN = self.sm, self.emu, self.RN
        sm.mem.clear()
        code = _encode(op, dk, sk, b)
        for i, x in enumerate(code):
            sm.mem[CODE + i] = x
        ba, il = 0, 1
        if dk == "A":
            ba = a
        elif dk == "M":
            sm.mem[IMEM + MOFF] = a
        else:
            sm.mem[EADDR] = a
        if sk == "A":
            ba = b
        elif sk == "IL":
            il = b
        elif sk == "N":
            sm.mem[IMEM + NOFF] = b
        emu.regs.set(RN.BA, ba | 0x5A00)
        emu.regs.set(RN.I, il if sk == "IL" else 1)
        emu.regs.set(RN.F, c | (z << 1))
        emu.regs.set(RN.PC, CODE)
        emu.execute_instruction(CODE)
        if dk == "A":
            res = emu.regs.get(RN.BA) & 0xFF
        elif dk == "M":
            res = sm.mem[IMEM + MOFF]
        else:
            res = sm.mem[EADDR]
        f = emu.regs.get(RN.F)
        return res, f & 1, (f >> 1) & 1


def _job_b(arg):
    shard_id, work = arg          # work: list of (rid, mn, op, dk, sk, a, c, bs)
    eh, en = _imports()
    tr = TableRunner(eh)
    recs = []
    for (rid, mn, op, dk, sk, a, c, bs) in work:
        z = (rid * 7 + a) & 1                     # the zero flag going in varies too
        res, fc, fz = [], [], []
        for b in bs:
            r, c1, z1 = tr.run(mn, op, dk, sk, a, b, c, z)
            res.append(r); fc.append(c1); fz.append(z1)
        recs.append({"id": rid, "mn": mn, "a": a, "c": c, "z": z, "bs": bs, "res": res, "fc": fc, "fz": fz, "form": f"{op:02X}:{dk},{sk}"})
    v = judge(shard_id, [{k: x for k, x in r.items() if k != "form"} for r in recs], "JudgeAlu")
    byid = {r["id"]: r for r in recs}
    bad = []
    for x in v[2]:
        r = byid[int(x[0])]
        j = int(x[1]) - 1
        bad.append((str(x[2]), r["mn"], r["form"], r["a"], r["bs"][j], r["c"], r["res"][j], r["fc"][j], r["fz"][j], int(x[3])))
    return int(v[1]), bad[:500], len(bad)


def table_work(tier: str, seed: int) -> List[Tuple]:
    rnd = random.Random(seed + 4)
    work = []
    rid = 0
    forms = [(mn, op, dk, sk) for (mn, op, dk, sk) in BIN_FORMS] + [(mn, op, dk, None) for (mn, op, dk) in UN_FORMS]
    complete = set()
    if tier == "quick":
        complete = {(0x50, "A"), (0xD4, "M"), (0xF4, "A")}
    for (mn, op, dk, sk) in forms:
        full = tier != "quick" or (op, dk) in complete
        avals = [x for x in range(256) if not (mn in BCD and not _isbcd(x))]
        bvals = [0] if sk is None else [x for x in range(256) if not (mn in BCD and not _isbcd(x))]
        if not full:
            # stratified sample: boundary a values + seeded random, all b
            keep = {0, 1, 0x0F, 0x10, 0x7F, 0x80, 0x99, 0xFF, 0x09, 0x90} | {rnd.randrange(256) for _ in range(8)}
            avals = [x for x in avals if x in keep]
        for a in avals:
            for c in (0, 1):
                rid += 1
                work.append((rid, mn, op, dk, sk, a, c, bvals))
    return work


def _isbcd(x: int) -> bool:
    return (x & 15) <= 9 and (x >> 4) <= 9


# ------------------------------------------------------------------------------------------------ run
def overlap_encodings(seed: int) -> List[bytes]:
    rnd = random.Random(seed + 9)
    out = []
    for op in TWO_IMEM_COUNTED:
        for _ in range(12):
            m = rnd.randrange(0x08, 0xD0)
            n = (m + rnd.choice([-3, -2, -1, 1, 2, 3])) & 0xFF
            out.append(bytes([0x32, op, m, n]))
            out.append(bytes([op, m, n]))
    return out


def run(cr: CheckRun) -> None:
    eh, en = _imports()
    quick = cr.tier == "quick"
    # model-level sanity of the semantics itself: algebraic laws over a product palette of states (no implementation involved)
    res = run_tlc(SD, "MCSemLaws", "MCSemLaws.cfg" if quick else "MCSemLaws_thorough.cfg", workers=vlib.NCPU, tag="C04-laws", timeout=3000)
    if res.invariant_violated or "Error:" in res.out:
        raise MachineryError("SC62015Sem violates one of its own laws (MCSemLaws):\n" + res.out[-2500:])
    cr.add_tlc("MCSemLaws (17 algebraic laws of SC62015Sem)", res)
    cr.mark("laws")
    encs = en.valid_structures(cr.tier, cr.seed)
    rnd = random.Random(cr.seed)
    items = []
    rid = 0
    per = 3 if quick else 10
    for e in encs:
        for k in range(per):
            rid += 1
            variant = "" if k == 0 else ("wide" if k % 2 == 1 else "long")
            items.append((rid, e, rnd.getrandbits(30), variant))
    blk = [e for e in encs if en.opcode_of(e) in BLOCK_OPS]
    rnd2 = random.Random(cr.seed + 5)
    for e in (rnd2.sample(blk, min(len(blk), 48)) if quick else blk):
        rid += 1
        items.append((rid, e, rnd.getrandbits(30), "block"))
    # block lengths above 32768 (the counter's sign bit): a few unprefixed register-indirect / absolute block moves
    hug = [e for e in blk if e[0] not in PRE_SET and en.opcode_of(e) in (0xE3, 0xEB, 0xDB, 0xD3)]
    for e in rnd2.sample(hug, min(len(hug), 4 if quick else 24)):
        rid += 1
        items.append((rid, e, rnd.getrandbits(30), "huge"))
    for e in overlap_encodings(cr.seed):
        for k in range(4 if quick else 20):
            rid += 1
            items.append((rid, e, rnd.getrandbits(30), "long" if k % 2 else ""))
    nsh = vlib.NCPU * 2
    results = vlib.pmap(_job_a, [(i, items[i::nsh]) for i in range(nsh)])
    cr.mark("executions")
    nexec = sum(r[0] for r in results)
    skipped: Dict[str, int] = {}
    for r in results:
        for k, v in r[3].items():
            skipped[k] = skipped.get(k, 0) + v
        for clause, tg, detail, rep, post, err in r[1]:
            cr.violation(f"{clause}:{tg}", f"{clause} ({detail}): bytes {bytes(rep['bytes']).hex()} state seed {rep['seed']}/{rep['variant'] or 'base'}: "
                         f"implementation post-state {post} {err}", rep)
    # (B) operand tables
    work = table_work(cr.tier, cr.seed)
    nsh = vlib.NCPU
    tres = vlib.pmap(_job_b, [(i, work[i::nsh]) for i in range(nsh)])
    cr.mark("tables")
    ntab = sum(r[0] for r in tres)
    for r in tres:
        for (clause, mn, form, a, b, c, res, fc, fz, nbad) in r[1]:
            sub = "cin1" if (mn == "DADL" and c == 1) else "any"
            cr.violation(f"Table{clause}:{mn}:{form}:{sub}", f"{mn} form {form}: a=0x{a:02X} b=0x{b:02X} carry-in={c}: implementation gives result 0x{res:02X} C={fc} Z={fz}; "
                         f"{nbad} second operands disagree with the README function for this (a, carry)",
                         {"kind": "table", "mn": mn, "form": form, "a": a, "b": b, "c": c})
    cr.cov["programs"] = nexec + ntab
    cr.cov["traces_validated_against_impl"] = nexec          # one-step executions of the real code judged against the specification
    cr.cov["evaluations"] = nexec + ntab
    cr.cov["distinct_nontrivial"] = len(encs)
    cr.cov["table_entries"] = ntab
    cr.cov["skipped_unspecified"] = skipped.get("unspec", 0)
    cr.cov["skipped_format_reject"] = skipped.get("RefAccept", 0)
    cr.cov["rule"] = ("(A) distinct documented structural encodings (prefix x opcode x mode byte) x seeded states (base / boundary-wide / long block); "
                      "(B) (operation form, a, b, carry) table entries, complete for the forms listed in samples")
    cr.add_sample({"encoding": encs[len(encs) // 2].hex(), "states_per_encoding": per, "complete_tables": "all forms" if not quick else "ADC A,n; DSBL (m),(n); SHR A",
                   "forms": len(BIN_FORMS) + len(UN_FORMS)})
    cr.cov["trusted_base"] = ["harness/py/exec_harness.py (sparse recording memory)", "binja_test_mocks LLIL evaluator", "TLC", "README.md instruction tables as transcribed in SC62015Sem.tla"]
    cr.assumptions += [
        "states the README does not define are skipped and counted (skipped_unspecified): pointer arithmetic leaving 0..0xFFFFF, I = 0 for counted instructions, a register that is both destination and auto-modified pointer, stack pointers within 5 bytes of the ends",
        "rows of the README that are only descriptive (DSLL/DSRL digit flow, register source of DADL/DSBL, page used by RET) are transcribed from the implementation and marked (T) in SC62015Sem.tla",
        "BCD instructions are exercised on valid packed-BCD digits only",
        "memory is a sparse map with a deterministic hash default; internal memory at 0x100000+offset, wrapping modulo 256",
    ]


def replay(path: str) -> int:
    eh, en = _imports()
    rec = json.loads(Path(path).read_text())["replay"]
    if rec["kind"] == "exec":
        r = observe(eh, en, 1, bytes(rec["bytes"]), rec["seed"], rec.get("variant", ""))
        v = judge(999, [r])
        print(json.dumps({k: r[k] for k in ("regs", "post", "fin")}, indent=1))
        print("verdict", v[2], v[3])
        return 1 if v[2] else 0
    tr = TableRunner(eh)
    mn, form = rec["mn"], rec["form"]
    op = int(form[:2], 16)
    dk, sk = form[3:].split(",")
    sk = None if sk == "None" else sk
    res = tr.run(mn, op, dk, sk, rec["a"], rec["b"], rec["c"], 0)
    r = {"id": 1, "mn": mn, "a": rec["a"], "c": rec["c"], "z": 0, "bs": [rec["b"]], "res": [res[0]], "fc": [res[1]], "fz": [res[2]]}
    v = judge(998, [r], "JudgeAlu")
    print(r, v[2])
    return 1 if v[2] else 0


def selftest(seed: int) -> int:
    """Corrupt one recorded field and show that the judge rejects it."""
    eh, en = _imports()
    r = observe(eh, en, 1, bytes([0x40, 0x01]), 5, "")
    ok = not judge(997, [r])[2]
    r["post"]["regs"]["BA"] ^= 1
    bad = bool(judge(996, [r])[2])
    print("selftest", ok, bad)
    return 0 if ok and bad else 1
