"""C08 - register aliasing, widths, flag packing after any sequence of writes.

spec/regs/Registers.tla  : the register file as a state machine + declarative last-writer reference
spec/regs/TraceRegisters : validation of recorded executions of the real register files

Binding, both directions:
  spec->code : every behaviour TLC reaches in the exhaustive run (each dumped state carries its
               action history `acts`) and every `-simulate` behaviour is driven through the real
               Python and Rust register files; the values read back for *every* name after every
               action are logged ...
  code->spec : ... and the logs (plus seeded random 32-bit write sequences) are validated by TLC
               against TraceRegisters.  The specification coincides with the property here, so a
               step TLC cannot explain is a violation.
"""
from __future__ import annotations

import json
import random
import re
from pathlib import Path
from typing import Any, Dict, List

import vlib
from vlib import CheckRun, MachineryError, SPEC, run_tlc, tlc_expect_ok, parse_tla, Vh, limbs

LEVEL = "model_checking"
NAMES = ["A", "B", "BA", "IL", "IH", "I", "X", "Y", "U", "S", "PC", "F", "FC", "FZ"] + [f"TEMP{i}" for i in range(14)]
IMPLS = ["py", "py_blob", "rs", "rs_facade", "py2rs", "rs2py"]


# ---------------------------------------------------------------------------------------------
# implementation drivers (projection = value read back for every name)
# ---------------------------------------------------------------------------------------------

class PyRegs:
    def __init__(self, blob: bool):
        from sc62015.pysc62015.emulator import Registers
        self.Registers = Registers
        self.regs = Registers()
        self.blob_mode = blob
        self.snap = None

    def write(self, name: str, value: int) -> None:
        self.regs.set_by_name(name, value)

    def project(self) -> Dict[str, int]:
        return {n: int(self.regs.get_by_name(n)) for n in NAMES}

    def capture(self) -> Dict[str, Any]:
        from sc62015.pysc62015.stepper import CPURegistersSnapshot
        from pce500.emulator import _pack_register_bytes
        s = CPURegistersSnapshot.from_registers(self.regs)
        blob = list(_pack_register_bytes(s))
        # temps travel through JSON metadata exactly as save_snapshot writes them
        temps_json = json.loads(json.dumps({str(k): int(v) for k, v in s.temps.items()}))
        self.snap = (s, blob, temps_json)
        return {"blob": blob, "temps": {f"TEMP{k}": v for k, v in temps_json.items()}}

    def apply(self, blob=None, temps=None) -> None:
        from sc62015.pysc62015.stepper import CPURegistersSnapshot
        from pce500.emulator import _unpack_register_bytes
        fresh = self.Registers()
        if blob is None and not self.blob_mode:
            self.snap[0].apply_to(fresh)
        else:
            if blob is None:
                blob = self.snap[1]
                temps = {f"TEMP{k}": v for k, v in self.snap[2].items()}
            vals = _unpack_register_bytes(bytes(blob))
            t = {int(k[4:]): int(v) for k, v in (temps or {}).items()}
            s = CPURegistersSnapshot(pc=vals["pc"], ba=vals["ba"], i=vals["i"], x=vals["x"], y=vals["y"],
                                     u=vals["u"], s=vals["s"], f=vals["f"], temps=t)
            s.apply_to(fresh)
        self.regs = fresh


class RsRegs:
    def __init__(self, vh: Vh, facade: bool):
        self.vh = vh
        self.facade = facade
        self.vh.call("regs.new")
        self.last = None
        self.snap = None

    def write(self, name: str, value: int) -> None:
        self.last = self.vh.call("regs.write", name=name, value=value)

    def project(self) -> Dict[str, int]:
        if self.last is None:
            return self.vh.call("regs.read")
        return self.last["facade" if self.facade else "state"]

    def capture(self) -> Dict[str, Any]:
        r = self.vh.call("regs.capture")
        self.snap = r
        self.last = None
        return {"blob": r["blob"], "temps": r["temps"]}

    def apply(self, blob=None, temps=None) -> None:
        if blob is None:
            blob, temps = self.snap["blob"], self.snap["temps"]
        self.vh.call("regs.apply", blob=blob, temps=temps or {})
        self.last = None

    def project_after_apply(self):
        return self.vh.call("regs.read")


def drive(impl: str, acts: List[Dict[str, Any]], vh: Vh, tid: int) -> List[Dict[str, Any]]:
    """Run one action sequence on one implementation variant; return trace events."""
    if impl == "rs+facade":
        # one pass over the Rust objects yields two traces (LlamaState and CoreRuntime facade)
        cur2 = RsRegs(vh, facade=False)
        ev1 = [{"tid": tid, "ev": "Init", "impl": "rs"}]
        ev2 = [{"tid": tid + 1, "ev": "Init", "impl": "rs_facade"}]
        for a in acts:
            v = (a["v"][0] << 16) | a["v"][1]
            cur2.write(a["name"], v)
            ev1.append({"tid": tid, "ev": "Write", "name": a["name"], "v": list(a["v"]), "post": cur2.last["state"]})
            ev2.append({"tid": tid + 1, "ev": "Write", "name": a["name"], "v": list(a["v"]), "post": cur2.last["facade"]})
        return ev1 + ev2
    if impl in ("py", "py_blob", "py2rs"):
        cur: Any = PyRegs(blob=(impl != "py"))
    else:
        cur = RsRegs(vh, facade=(impl == "rs_facade"))
    ev: List[Dict[str, Any]] = [{"tid": tid, "ev": "Init", "impl": impl}]
    cap = None
    for a in acts:
        if a["ev"] == "Write":
            v = (a["v"][0] << 16) | a["v"][1]
            cur.write(a["name"], v)
            ev.append({"tid": tid, "ev": "Write", "name": a["name"], "v": list(a["v"]), "post": cur.project()})
        elif a["ev"] == "Capture":
            cap = cur.capture()
            e = {"tid": tid, "ev": "Capture", "post": cur.project()}
            if impl != "py":
                e["blob"] = cap["blob"]
            ev.append(e)
        elif a["ev"] == "Apply":
            if impl == "py2rs":
                nxt = RsRegs(vh, facade=False)
                nxt.apply(cap["blob"], cap["temps"])
                cur = nxt
            elif impl == "rs2py":
                nxt = PyRegs(blob=True)
                nxt.apply(cap["blob"], cap["temps"])
                cur = nxt
            else:
                cur.apply()
            ev.append({"tid": tid, "ev": "Apply", "post": cur.project()})
    return ev


# ---------------------------------------------------------------------------------------------

def _acts_from_tla(acts) -> List[Dict[str, Any]]:
    return [dict(a) for a in acts]


def tlc_behaviours_exhaustive(cr: CheckRun, cfg: str, dump: bool) -> List[List[Dict[str, Any]]]:
    d = vlib.scratch("C08")
    extra = ["-coverage", "1"] if dump else []
    dump_path = d / f"{cfg}.dump"
    if dump:
        extra += ["-dump", str(dump_path)]
    res = run_tlc(SPEC / "regs", "MCRegisters", cfg + ".cfg", workers=vlib.NCPU, extra=extra, tag=f"C08-{cfg}", timeout=3000)
    if res.invariant_violated:
        # the model itself breaks a property: the specification is wrong (machinery), not the code
        raise MachineryError(f"Registers model violates {res.invariant_violated} ({cfg})")
    tlc_expect_ok(res, cfg)
    cr.add_tlc(cfg, res)
    cov = res.coverage_actions()
    for act in ("Write", "Capture", "Apply"):
        if act in cov and cov[act][1] == 0:
            raise MachineryError(f"vacuity: action {act} never taken in {cfg}")
    behaviours: List[List[Dict[str, Any]]] = []
    if dump:
        text = dump_path.read_text()
        for m in re.finditer(r"/\\ acts = (.*?)(?=\n/\\ |\n\nState |\Z)", text, re.S):
            acts = parse_tla(m.group(1).strip())
            if acts:
                behaviours.append(_acts_from_tla(acts))
        dump_path.unlink()
    return behaviours


def tlc_behaviours_simulate(cr: CheckRun, n: int, depth: int) -> List[List[Dict[str, Any]]]:
    d = vlib.scratch("C08") / "sim"
    if d.exists():
        for f in d.iterdir():
            f.unlink()
    d.mkdir(parents=True, exist_ok=True)
    res = run_tlc(SPEC / "regs", "MCRegisters", "MCRegisters_sim.cfg", workers=1,
                  simulate=f"file={d}/tr,num={n}", extra=["-depth", str(depth), "-seed", str(cr.seed)], tag="C08-sim", timeout=900)
    if res.invariant_violated:
        raise MachineryError(f"Registers model violates {res.invariant_violated} (simulate)")
    out = []
    for f in sorted(d.iterdir()):
        steps = vlib.parse_sim_file(f)
        if steps:
            acts = steps[-1][1].get("acts")
            if acts:
                out.append(_acts_from_tla(acts))
        f.unlink()
    cr.cov["tlc_runs"].append({"name": "simulate", "behaviours": len(out), "depth": depth, "wall_s": round(res.wall, 2)})
    return out


def random_sequences(seed: int, n: int, length: int) -> List[List[Dict[str, Any]]]:
    rnd = random.Random(seed)
    out = []
    edge = [0, 1, 0xFF, 0x100, 0xFFFF, 0x10000, 0xFFFFF, 0x100000, 0xFFFFFF, 0x1000000, 0x7FFFFFFF, 0x80000000, 0xFFFFFFFF]
    for _ in range(n):
        acts: List[Dict[str, Any]] = []
        captured = False
        for k in range(length):
            r = rnd.random()
            if r < 0.08 and not captured:
                acts.append({"ev": "Capture"})
                captured = True
            elif r < 0.16 and captured:
                acts.append({"ev": "Apply"})
                captured = False
            else:
                v = rnd.choice(edge) if rnd.random() < 0.3 else rnd.getrandbits(32)
                acts.append({"ev": "Write", "name": rnd.choice(NAMES), "v": limbs(v)})
        out.append(acts)
    return out


def _tlc_validate(events: List[Dict[str, Any]], tag: str):
    d = vlib.scratch("C08")
    tf = d / f"trace-{tag}.ndjson"
    vlib.write_ndjson(tf, events)
    res = run_tlc(SPEC / "regs", "TraceRegisters", "TraceRegisters.cfg", workers=1, env={"TRACE_FILE": str(tf)}, tag=f"C08-trace-{tag}", timeout=3000, heap="2g")
    bad = None
    for v in res.printed():
        if isinstance(v, tuple) and len(v) == 3 and v[0] == "BAD":
            bad = v
    if bad is None or not res.ok:
        raise MachineryError(f"trace validation did not complete ({tag}):\n{res.out[-2000:]}")
    tf.unlink()
    return [dict(b) for b in bad[2]]


def validate(cr: CheckRun, events: List[Dict[str, Any]], tag: str, meta: Dict[int, Any]) -> int:
    """TLC-validate one ndjson batch; register violations. Returns number of bad steps."""
    bad = _tlc_validate(events, tag)
    _register(cr, bad, meta)
    return len(bad)


def _register(cr: CheckRun, bad, meta) -> None:
    for b in bad:
        tid = b["tid"]
        impl, acts = meta[tid]
        key = f"{b['clause']}:{impl}:{b['reg']}"
        cr.violation(key, f"{impl}: after {b['clause']} step (trace {tid}, line {b['line']}) register {b['reg']} reads {b['got']}, specification says {b['want']}",
                     {"impl": impl, "acts": acts, "clause": b["clause"], "reg": b["reg"], "want": b["want"], "got": b["got"]})


def _shard_job(arg):
    """Drive one shard of behaviours through the implementations and validate with TLC."""
    shard_id, behaviours, impls, tag = arg
    vh = Vh()
    try:
        events: List[Dict[str, Any]] = []
        meta: Dict[int, Any] = {}
        tid = shard_id * 10_000_000
        for acts in behaviours:
            has_snap = any(a["ev"] != "Write" for a in acts)
            todo = list(impls)
            if not has_snap:
                # without a snapshot action the blob/cross variants coincide with py / rs
                todo = [i for i in todo if i not in ("py_blob", "py2rs", "rs2py")]
                if "rs" in todo and "rs_facade" in todo:
                    todo = [i for i in todo if i not in ("rs", "rs_facade")] + ["rs+facade"]
            for impl in todo:
                tid += 1
                if impl == "rs+facade":
                    meta[tid] = ("rs", acts)
                    meta[tid + 1] = ("rs_facade", acts)
                    events.extend(drive(impl, acts, vh, tid))
                    tid += 1
                else:
                    meta[tid] = (impl, acts)
                    events.extend(drive(impl, acts, vh, tid))
    finally:
        vh.close()
    if not events:
        return (0, 0, [], {})
    bad = _tlc_validate(events, f"{tag}-{shard_id}")
    badmeta = {b["tid"]: meta[b["tid"]] for b in bad}
    return (len(meta), len(events), bad, badmeta)


def run_campaign(cr: CheckRun, behaviours: List[List[Dict[str, Any]]], impls: List[str], tag: str) -> None:
    if not behaviours:
        return
    shards = vlib.shard_list(behaviours, vlib.NCPU)
    results = vlib.pmap(_shard_job, [(i, sh, impls, tag) for i, sh in enumerate(shards)])
    ntr = sum(r[0] for r in results)
    nev = sum(r[1] for r in results)
    nbad = 0
    for r in results:
        _register(cr, r[2], r[3])
        nbad += len(r[2])
    cr.cov["traces_validated_against_impl"] += ntr
    cr.cov["evaluations"] += nev
    cr.cov.setdefault("campaigns", []).append({"name": tag, "traces": ntr, "events": nev, "rejected_steps": nbad})
    cr.add_sample({"campaign": tag, "acts": behaviours[len(behaviours) // 2][:6]})


def run(cr: CheckRun) -> None:
    vlib.setup_repo_imports()
    vlib.build_vh()
    if True:
        quick = cr.tier == "quick"
        # 1. exhaustive model checking of the specification itself
        beh2 = tlc_behaviours_exhaustive(cr, "MCRegisters_d2", dump=True)
        tlc_behaviours_exhaustive(cr, "MCRegisters_d3" if quick else "MCRegisters_d3mid", dump=False)
        # 2. spec -> code: every exhaustive behaviour, then simulated ones
        run_campaign(cr, beh2, ["py", "rs", "rs_facade", "py_blob", "py2rs", "rs2py"], "exhaustive-d2")
        sims = tlc_behaviours_simulate(cr, 300 if quick else 3000, 14)
        run_campaign(cr, sims, IMPLS, "simulate")
        # 3. code -> spec: seeded random 32-bit sequences
        rnd = random_sequences(cr.seed, 300 if quick else 5000, 50)
        run_campaign(cr, rnd, IMPLS, "random32")
        distinct = {json.dumps(b, sort_keys=True) for b in beh2 + sims + rnd}
        cr.cov["distinct_nontrivial"] = len(distinct)
        cr.cov["rule"] = "distinct action sequences (Write/Capture/Apply with arguments) replayed on every implementation variant"
        cr.cov["exhaustive"] = False
        cr.cov["trusted_base"] = ["vh harness (harness/rust/vh/src/regs.rs)", "TLC", "lib/vlib.py parsers"]
        cr.assumptions += [
            "exhaustive TLC bound: all write sequences of length <= 2 over 16 names x 12 values (with Capture/Apply), length <= 3 over a reduced palette; longer sequences by simulation and seeded random 32-bit values",
            "TEMP registers are reachable on the Rust CoreRuntime facade only through state.set_reg",
        ]


def replay(path: str) -> int:
    vlib.setup_repo_imports()
    vlib.build_vh()
    rec = json.loads(Path(path).read_text())["replay"]
    vh = Vh()
    try:
        ev = drive(rec["impl"], rec["acts"], vh, 1)
    finally:
        vh.close()
    for e in ev:
        print(json.dumps(e))
    cr = CheckRun("C08", "quick", 0, LEVEL)
    vh2 = Vh()
    try:
        nb = validate(cr, ev, "replay", {1: (rec["impl"], rec["acts"])})
    finally:
        vh2.close()
    print("replay: rejected steps =", nb)
    return 1 if nb else 0


def selftest(seed: int) -> int:
    """Show the binding binds: corrupt one logged field / drop one event -> TLC must reject."""
    vlib.setup_repo_imports()
    vlib.build_vh()
    vh = Vh()
    ok = True
    try:
        acts = [{"ev": "Write", "name": "I", "v": [0, 0xABCD]}, {"ev": "Write", "name": "IL", "v": [0, 0x34]},
                {"ev": "Capture"}, {"ev": "Write", "name": "X", "v": [0xFFFF, 0xFFFF]}, {"ev": "Apply"}]
        base = drive("py", acts, vh, 1)
        cr = CheckRun("C08", "quick", seed, LEVEL)
        if validate(cr, base, "self0", {1: ("py", acts)}) != 0:
            print("selftest: pristine trace rejected"); ok = False
        # (i) corrupt one field: IH not cleared by IL write
        bad = json.loads(json.dumps(base))
        bad[2]["post"]["IH"] = 0xAB
        bad[2]["post"]["I"] = 0xAB34
        cr = CheckRun("C08", "quick", seed, LEVEL)
        if validate(cr, bad, "self1", {1: ("py", acts)}) == 0:
            print("selftest: corrupted trace accepted"); ok = False
        # (ii) drop one event
        dropped = base[:2] + base[3:]
        cr = CheckRun("C08", "quick", seed, LEVEL)
        if validate(cr, dropped, "self2", {1: ("py", acts)}) == 0:
            print("selftest: trace with a dropped event accepted"); ok = False
    finally:
        vh.close()
    print("selftest C08:", "ok" if ok else "FAILED")
    return 0 if ok else 2
