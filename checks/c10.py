"""C10 - assembling a program lays out code, data and labels consistently; assembly is deterministic and stateless.

spec/asm/AsmLayout.tla     Layout(prog): the reference layout of an abstract program (sections, .ORG, labels, data, instructions)
spec/asm/MCAsmLayout.tla   TLC checks Contiguous / LabelsPointAtNext / BssFollowsData of Layout over every palette program
spec/asm/JudgeLayout.tla   TLC judges recorded assemblies (per-statement pass-one size, pass-two address / bytes, symbols, output
                           segments, repeated assemblies) against Layout

spec -> code: every well-formed palette program the model checker enumerated is concretised (several concrete statements per
abstract one) and assembled by the real Assembler.  code -> spec: seeded grammar-based programs (labels with forward / backward
references, sections, .ORG, defb/defw/defl/defs/defm, symbolic operands in immediates, absolute addresses, near and far jumps).
A logging subclass of Assembler records what the two passes did, without touching /repo.
"""
from __future__ import annotations

import hashlib
import json
import random
import re
import sys
from pathlib import Path
from typing import Any, Dict, List, Optional, Tuple

import vlib
from vlib import CheckRun, MachineryError, SPEC, run_tlc
from checks import c04

LEVEL = "model_checking"
SD = SPEC / "asm"


# ------------------------------------------------------------------------------------------------ concrete statements
def concretise(stmt: Dict[str, Any], rnd: random.Random) -> str:
    k = stmt["k"]
    if k == "section":
        return f"SECTION {stmt['sec']}"
    if k == "org":
        return f".ORG {stmt['olab']}" if stmt.get("olab") else f".ORG 0x{stmt['val']:05X}"
    if k == "label":
        return f"{stmt['lab']}:"
    if k == "data":
        n = stmt["size"]
        opts = [f"defs {n}", "defm \"" + "".join(rnd.choice("ABCxyz09") for _ in range(n)) + "\"", "defb " + ", ".join(f"0x{rnd.randrange(256):02X}" for _ in range(n))]
        if n % 2 == 0:
            opts.append("defw " + ", ".join(f"0x{rnd.randrange(65536):04X}" for _ in range(n // 2)))
        if n % 3 == 0:
            opts.append("defl " + ", ".join(f"0x{rnd.randrange(1 << 20):05X}" for _ in range(n // 3)))
        return rnd.choice(opts)
    # instruction
    ref = stmt.get("ref", "")
    if stmt.get("near"):
        return rnd.choice(["CALL", "JP", "JPZ", "JPNC"]) + f" {ref}"
    if ref:
        return rnd.choice([f"CALLF {ref}", f"JPF {ref}", f"MV X, {ref}", f"MV A, [{ref}]", f"MV [{ref}], IL"])
    return rnd.choice(["NOP", "RET", "SC", "PUSHU A"])


INSTR_FORMS = [  # (text template, near, size) ; {L} = a label
    ("NOP", False, 1), ("RET", False, 1), ("MV A, 0x12", False, 2), ("MV BA, 0x1234", False, 3), ("PUSHU X", False, 1),
    ("MV X, {L}", False, 4), ("MV Y, {L}", False, 4), ("MV A, [{L}]", False, 4), ("MV [{L}], BA", False, 4),
    ("JPF {L}", False, 4), ("CALLF {L}", False, 4), ("JP {L}", True, 3), ("CALL {L}", True, 3), ("JPZ {L}", True, 3), ("JPNC {L}", True, 3),
    ("JR +0x05", False, 2), ("ADD A, 0x01", False, 2), ("MV (BP+0x10), 0x55", False, 3), ("MVP (BP+0x10), {L}", False, 5),
    ("CMP [{L}], 0x00", False, 5), ("AND [{L}], 0x0F", False, 5),
    # one opcode, several addressing sub-modes of different encoded length (the size of a statement is not a function of its
    # opcode and prefix alone)
    ("MV A, [X]", False, 2), ("MV A, [X+0x04]", False, 3), ("MV A, [X++]", False, 2), ("MV A, [--X]", False, 2), ("MV A, [X-0x02]", False, 3),
    ("MV [Y], A", False, 2), ("MV [Y+0x7F], A", False, 3), ("MV BA, [U]", False, 2), ("MV BA, [U+0x01]", False, 3),
    ("MV A, [(0x10)]", False, 3), ("MV A, [(0x10)+0x02]", False, 4), ("MV [(0x20)], A", False, 3), ("MV [(0x20)-0x01], A", False, 4),
    ("MV (0x30), [X]", False, 3), ("MV (0x30), [X+0x05]", False, 4), ("MV [Y], (0x31)", False, 3), ("MV [Y+0x06], (0x31)", False, 4),
]
# a symbol as the DISPLACEMENT inside a compound operand ({D} = the small label DSP that such programs define first): the label
# reference sits one level below the operand list
DISP_FORMS = [
    ("MV A, [X+{D}]", False, 3), ("MV [Y-{D}], BA", False, 3), ("MV (0x10), [X+{D}]", False, 4), ("MV A, [(0x10)+{D}]", False, 4),
    ("MV (0x20), [(0x10)-{D}]", False, 5), ("MVW [U+{D}], (0x12)", False, 4),
]


_FORM_SIZE: Dict[str, int] = {}


def form_size(tmpl: str, default: int) -> int:
    """actual encoded size of an instruction form (the assembler may add an addressing prefix)"""
    if tmpl not in _FORM_SIZE:
        b = alone(tmpl.replace("{L}", "0x0").replace("{D}", "0x3"), 0x100)
        _FORM_SIZE[tmpl] = len(b) if b else default
    return _FORM_SIZE[tmpl]


def random_program(rnd: random.Random, nstmt: int) -> Tuple[List[Dict[str, Any]], List[str]]:
    """-> (abstract program, source lines).  Labels are unique, every reference names a label of the program, the regions laid
    out by .ORG never overlap.  One program in twelve puts a label directly in front of a SECTION / .ORG directive."""
    nlab = rnd.randint(1, 6)
    labels = [f"LBL{i}" for i in range(nlab)]
    label_before_directive = rnd.random() < 0.08
    prog: List[Dict[str, Any]] = []
    lines: List[str] = []
    to_define = labels[:]
    rnd.shuffle(to_define)
    defs_at = sorted(rnd.sample(range(nstmt), min(nlab, nstmt)))
    sec = "code"
    hi = {"code": 0x00000, "data": 0x80000, "bss": 0xA0000}          # upper bound of what each section has used so far
    ptr = dict(hi)
    defined_in_bss: List[str] = []
    pending_label = False
    force_near = False
    has_dsp = rnd.random() < 0.35
    if has_dsp:
        for _ in range(rnd.randint(1, 9)):
            prog.append({"k": "instr", "size": 1, "near": False, "ref": ""})
            lines.append("NOP")
            ptr["code"] += 1
        prog.append({"k": "label", "lab": "DSP"})
        lines.append("DSP:")
        hi["code"] = ptr["code"]
    for i in range(nstmt):
        if force_near and prog and prog[-1]["k"] != "org":
            force_near = False
        want_label = bool(defs_at and i == defs_at[0] and to_define)
        if want_label:
            defs_at.pop(0)
        r = rnd.random()
        if force_near and sec == "code":
            r = 0.99
        directive = r < 0.17
        if want_label and (not directive or label_before_directive):
            lab = to_define.pop()
            prog.append({"k": "label", "lab": lab})
            lines.append(f"{lab}:")
            if sec == "bss":
                defined_in_bss.append(lab)
        elif want_label:
            defs_at.insert(0, i + 1)          # define it after the directive instead
        if r < 0.10:
            sec = rnd.choice(["code", "data", "bss", "code", "data"])
            prog.append({"k": "section", "sec": sec})
            lines.append(f"SECTION {sec}")
        elif r < 0.17:
            if sec == "bss" and defined_in_bss and rnd.random() < 0.5:
                lab = rnd.choice(defined_in_bss)
                prog.append({"k": "org", "val": 0, "olab": lab})
                lines.append(f".ORG {lab}")
            else:
                top = max(hi[sec], ptr[sec])
                v = top + rnd.choice([1, 0x10, 0x100, 0x1000])
                if sec == "code" and rnd.random() < 0.4:
                    v = ((top >> 16) + 1) * 0x10000 - rnd.choice([1, 2, 3, 5, 0x10, 0x40])      # just below the next page boundary
                    if v <= top:
                        v = top + 3
                    force_near = rnd.random() < 0.6      # ... and a page-local jump / call right there (its last bytes on the next page)
                prog.append({"k": "org", "val": v, "olab": ""})
                lines.append(f".ORG 0x{v:05X}")
                ptr[sec] = v
        elif r < 0.45 or sec == "bss":
            n = rnd.choice([1, 2, 3, 4, 6, 9])
            st = {"k": "data", "size": n}
            prog.append(st)
            if sec == "bss":
                lines.append(f"defs {n}")
            else:
                txt = concretise(st, rnd)
                if txt.startswith("defl") and rnd.random() < 0.5:
                    txt = "defl " + ", ".join(rnd.choice(labels) for _ in range(n // 3))
                elif txt.startswith("defw") and rnd.random() < 0.3:
                    txt = "defw " + ", ".join(rnd.choice(labels) for _ in range(n // 2))
                lines.append(txt)
            ptr[sec] += n
        else:
            tmpl, near, size = rnd.choice(INSTR_FORMS)
            if has_dsp and not force_near and rnd.random() < 0.25:
                tmpl, near, size = rnd.choice(DISP_FORMS)
            if force_near:
                tmpl, near, size = rnd.choice([f for f in INSTR_FORMS if f[1]])
            size = form_size(tmpl, size)
            lab = rnd.choice(labels) if "{L}" in tmpl else ("DSP" if "{D}" in tmpl else "")
            prog.append({"k": "instr", "size": size, "near": bool(near and lab), "ref": lab})
            lines.append(tmpl.replace("{L}", lab).replace("{D}", lab))
            ptr[sec] += size
        hi[sec] = max(hi[sec], ptr[sec])
    for lab in to_define:          # labels not placed yet go to the end
        prog.append({"k": "label", "lab": lab})
        lines.append(f"{lab}:")
    return prog, lines


# ------------------------------------------------------------------------------------------------ observation
_LOGGER = None


def logging_assembler():
    global _LOGGER
    if _LOGGER is None:
        from sc62015.pysc62015.sc_asm import Assembler

        class LoggingAssembler(Assembler):
            def __init__(self) -> None:
                super().__init__()
                self.log1: List[int] = []                       # pass one: sizes, in statement order
                self.log2: List[Tuple[int, bytes]] = []         # pass two: (address, bytes), in statement order

            def _get_statement_size(self, statement, line_num):      # noqa: ANN001
                n = super()._get_statement_size(statement, line_num)
                self.log1.append(n)
                return n

            def _encode_statement(self, statement, line_num):      # noqa: ANN001
                b = super()._encode_statement(statement, line_num)
                self.log2.append((self.current_address, bytes(b)))
                return b

            def assemble(self, source_text):      # noqa: ANN001
                self.log1, self.log2 = [], []
                return super().assemble(source_text)
        _LOGGER = LoggingAssembler
    return _LOGGER()


def image_of(binfile) -> Dict[int, int]:
    img: Dict[int, int] = {}
    for seg in binfile.segments:
        addr = seg.address
        for i, b in enumerate(seg.data):
            img[addr + i] = b
    return img


def digest(binfile, symbols: Dict[str, int]) -> str:
    img = image_of(binfile)
    h = hashlib.sha1()
    h.update(json.dumps(sorted(img.items())).encode())
    h.update(json.dumps(sorted(symbols.items())).encode())
    return h.hexdigest()


def alone(text: str, addr: int) -> Optional[bytes]:
    from sc62015.pysc62015.sc_asm import Assembler
    try:
        bf = Assembler().assemble(f".ORG 0x{addr:05X}\n{text}\n")
        img = image_of(bf)
        out = bytearray()
        a = addr
        while a in img:
            out.append(img[a])
            a += 1
        return bytes(out)
    except Exception:      # noqa: BLE001
        return None


def observe(rid: int, prog: List[Dict[str, Any]], lines: List[str], other_src: str) -> Dict[str, Any]:
    src = "\n".join(lines) + "\n"
    asm = logging_assembler()
    n = len(prog)
    st = [{"size1": -1, "addr2": -1, "len2": -1, "same": -1, "placed": -1} for _ in range(n)]
    rec: Dict[str, Any] = {"id": rid, "prog": [dict({"sec": "", "val": 0, "olab": "", "lab": "", "size": 0, "near": False, "ref": ""}, **s) for s in prog],
                           "outcome": "ok", "errline": 0, "st": st, "syms": [], "again": [], "src": src, "err": ""}
    # the size of every sized statement, from assembling it ALONE (labels replaced by 0; sizes do not depend on symbol values)
    labs = sorted({s_["lab"] for s_ in prog if s_["k"] == "label"}, key=lambda x: -len(x))
    sec0 = "code"
    for i, s_ in enumerate(prog):
        if s_["k"] == "section":
            sec0 = s_["sec"]
        if s_["k"] in ("data", "instr"):
            text0 = lines[i]
            for name in labs:
                text0 = re.sub(rf"\b{re.escape(name)}\b", "0x0", text0)
            ab0 = alone(text0, 0x100)
            if ab0 is not None and (sec0 != "bss" or s_["k"] == "instr"):
                rec["prog"][i]["size"] = len(ab0)
    try:
        bf = asm.assemble(src)
    except Exception as ex:      # noqa: BLE001
        rec["outcome"] = "rejected"
        msg = str(ex)
        m = re.search(r"on line (\d+)", msg)
        rec["errline"] = int(m.group(1)) if m else 0
        rec["err"] = msg.splitlines()[0][:200]
        return rec
    img = image_of(bf)
    syms = dict(asm.symbols)
    rec["syms"] = [[k, v] for k, v in sorted(syms.items())]
    # section of each line (for the bss rule)
    sec = "code"
    k = -1                       # sized statements are matched with the passes' calls by order, not by line number
    log1, log2 = list(asm.log1), list(asm.log2)
    for i, s in enumerate(prog):
        if s["k"] == "section":
            sec = s["sec"]
        if s["k"] not in ("data", "instr"):
            continue
        k += 1
        e = st[i]
        e["size1"] = log1[k] if k < len(log1) else -1
        addr, b = log2[k] if k < len(log2) else (-1, b"")
        e["addr2"], e["len2"] = addr, len(b)
        if sec == "bss":
            e["placed"] = 1 if all((addr + j) not in img for j in range(len(b))) else 0
        else:
            e["placed"] = 1 if all(img.get(addr + j) == b[j] for j in range(len(b))) else 0
        # compositional: the statement alone, symbols replaced by their recorded values
        text = lines[i]
        for name, val in sorted(syms.items(), key=lambda kv: -len(kv[0])):
            text = re.sub(rf"\b{re.escape(name)}\b", f"0x{val:05X}", text, flags=re.I)
        ab = alone(text, addr) if sec != "bss" else b
        e["same"] = 1 if (ab is not None and ab == b) else 0
        if e["same"] == 0 and s.get("near"):
            # a page-local jump / call also has the explicit low-16 form ('JP 0x0104' means 0x0104 in the current page)
            name = s["ref"].upper()
            if name in syms:
                t16 = re.sub(rf"\b{re.escape(name)}\b", f"0x{syms[name] & 0xFFFF:04X}", lines[i], flags=re.I)
                ab16 = alone(t16, addr)
                if ab16 is not None and ab16 == b:
                    e["same"] = 2
    d0 = digest(bf, syms)
    # repeated assemblies
    again = []
    try:
        again.append(1 if digest(asm.assemble(src), dict(asm.symbols)) == d0 else 0)               # same object again
        try:
            asm.assemble(other_src)
        except Exception:      # noqa: BLE001
            pass
        again.append(1 if digest(asm.assemble(src), dict(asm.symbols)) == d0 else 0)               # same object after another program
        fresh = logging_assembler()
        again.append(1 if digest(fresh.assemble(src), dict(fresh.symbols)) == d0 else 0)           # fresh object afterwards
    except Exception as ex:      # noqa: BLE001
        again.append(0)
        rec["err"] = "repeated assembly: " + str(ex).splitlines()[0][:160]
    rec["again"] = again
    return rec


def judge(shard_id: int, recs: List[Dict[str, Any]]):
    d = vlib.scratch("C10")
    tf = d / f"lay-{shard_id}.ndjson"
    vlib.write_ndjson(tf, [{k: v for k, v in r.items() if k not in ("src", "err")} for r in recs])
    res = run_tlc(SD, "JudgeLayout", "JudgeLayout.cfg", workers=1, env={"TRACE_FILE": str(tf)}, tag=f"C10-{shard_id}", jvm=["-Xss128m"], heap="3g", timeout=3000)
    verdict = None
    for v in res.printed():
        if isinstance(v, tuple) and v and v[0] == "JUDGE":
            verdict = v
    if verdict is None:
        raise MachineryError(f"JudgeLayout did not complete (shard {shard_id}):\n{res.out[-2000:]}")
    tf.unlink()
    return verdict


def _job(arg):
    shard_id, items = arg
    vlib.setup_repo_imports()
    recs = []
    other = "SECTION data\nOTHERLBL:\n defw 0x1234\nSECTION code\n.ORG 0x30100\n CALL OTHERTGT\nOTHERTGT:\n JP OTHERTGT\n MV X, OTHERLBL\n"
    for (rid, prog, lines) in items:
        recs.append(observe(rid, prog, lines, other))
    v = judge(shard_id, recs)
    byid = {r["id"]: r for r in recs}
    bad = []
    for x in v[2]:
        r = byid[int(x[0])]
        clause, idx, sec = str(x[1]), int(x[2]), str(x[3])
        kind = ""
        if 1 <= idx <= len(r["prog"]) and clause != "Stateless":
            s = r["prog"][idx - 1]
            kind = s["k"] + ("-sym" if s["k"] == "org" and s.get("olab") else "") + ("-near" if s.get("near") else "")
        if clause == "Stateless":
            kind = ["same-object-again", "same-object-after-other-program", "fresh-object-afterwards"][min(idx, 3) - 1]
        # structural tags of the program / the failing statement
        P = r["prog"]
        tg = []
        secof, cur = {}, "code"
        for s_ in P:
            if s_["k"] == "section":
                cur = s_["sec"]
            if s_["k"] == "label":
                secof[s_["lab"]] = cur
        if 1 <= idx <= len(P) and clause != "Stateless" and P[idx - 1].get("ref") and secof.get(P[idx - 1]["ref"]) == "bss":
            tg.append("refbss")
        if any(s_["k"] == "org" and s_.get("olab") for s_ in P):
            tg.append("orgsym")
        if any(P[j]["k"] == "label" and P[j + 1]["k"] in ("section", "org") for j in range(len(P) - 1)):
            tg.append("labdir")
        bad.append((clause, f"{kind}:{sec}" + (":" + ",".join(tg) if tg else ""), idx, {"kind": "program", "prog": r["prog"], "lines": r["src"].splitlines()}, r["src"], r["err"],
                    r["st"][idx - 1] if 1 <= idx <= len(r["st"]) and clause != "Stateless" else {}))
    return len(recs), bad[:2000], len(bad)


def overlaps(prog: List[Dict[str, Any]]) -> bool:
    """generator-side filter only (the verdicts come from TLC): do two sized statements share an address?"""
    ptr = {"code": 0, "text": 0, "data": 0x80000, "bss": 0xA0000}
    sec = "code"
    used: Dict[str, List[Tuple[int, int]]] = {}
    for s in prog:
        if s["k"] == "section":
            sec = s["sec"]
        elif s["k"] == "org":
            if s.get("olab"):
                return False
            ptr[sec] = s["val"]
        elif s["k"] in ("data", "instr"):
            a, n = ptr[sec], max(1, s["size"] + 2)
            for (b, m) in used.get("all", []):       # one address space: sections moved onto each other by .ORG overlap too
                if a < b + m and b < a + n:
                    return True
            used.setdefault("all", []).append((a, n))
            ptr[sec] += s["size"] + 2
    return False


def model_programs(cr: CheckRun, seed: int) -> List[Tuple[List[Dict[str, Any]], List[str]]]:
    """spec -> code: the well-formed programs the model checker enumerated, concretised"""
    cfg = "MCAsmLayout.cfg" if cr.tier == "quick" else "MCAsmLayout5.cfg"
    progs, res = vlib.dump_behaviours(SD, "MCAsmLayout", cfg, "C10-mc", var="prog", coverage=False, timeout=2400)
    if res.invariant_violated or "Error:" in res.out:
        raise MachineryError("MCAsmLayout failed:\n" + res.out[-1500:])
    cr.add_tlc("MCAsmLayout (Contiguous, LabelsPointAtNext, BssFollowsData)", res)
    rnd = random.Random(seed + 2)
    out = []
    for p in sorted(progs, key=lambda q: json.dumps(q, sort_keys=True)):      # TLC's dump order depends on worker scheduling
        prog = [dict(s) for s in p]
        labs = [s["lab"] for s in prog if s["k"] == "label"]
        refs = [s["ref"] for s in prog if s["k"] == "instr" and s.get("ref")]
        if len(set(labs)) != len(labs) or any(r not in labs for r in refs):
            continue
        if not any(s["k"] in ("data", "instr") for s in prog):
            continue
        if overlaps(prog):
            continue          # two statements laid over each other by .ORG: not a well-formed program
        if len(prog) >= 4 and rnd.random() > (0.2 if cr.tier == "quick" else 0.12):
            continue
        lines = []
        sec = "code"
        for s in prog:
            if s["k"] == "section":
                sec = s["sec"]
            if s["k"] == "data" and sec == "bss":
                lines.append(f"defs {s['size']}")
            elif s["k"] == "instr" and sec == "bss":
                lines.append(concretise(s, rnd))
            else:
                lines.append(concretise(s, rnd))
        out.append((prog, lines))
    return out


def run(cr: CheckRun) -> None:
    vlib.setup_repo_imports()
    quick = cr.tier == "quick"
    rnd = random.Random(cr.seed + 17)
    items = []
    rid = 0
    mp = model_programs(cr, cr.seed)
    for prog, lines in mp:
        rid += 1
        items.append((rid, prog, lines))
    cr.mark("model")
    nrand = 1500 if quick else 20000
    for _ in range(nrand):
        rid += 1
        prog, lines = random_program(rnd, rnd.choice([4, 8, 15, 30, 50]))
        items.append((rid, prog, lines))
    nsh = vlib.NCPU * 2
    results = vlib.pmap(_job, [(i, items[i::nsh]) for i in range(nsh)])
    cr.mark("assemblies")
    n = sum(r[0] for r in results)
    for r in results:
        for clause, kk, idx, rep, src, err, ste in r[1]:
            cr.violation(f"{clause}:{kk}", f"{clause} at statement {idx} ({kk}) {ste} {err}; program:\n" + src[:700], rep)
    cr.cov["programs"] = n
    cr.cov["traces_validated_against_impl"] = n
    cr.cov["evaluations"] = n
    cr.cov["traces"] = len(mp)
    cr.cov["distinct_nontrivial"] = n
    cr.cov["rule"] = "distinct programs: every well-formed palette program of the model (<= 4 statements quick, sample of <= 5 thorough) + seeded grammar-based programs of 4-50 statements"
    cr.add_sample({"model_program": mp[len(mp) // 2][1] if mp else [], "random_program_lengths": [4, 8, 15, 30, 50]})
    cr.cov["trusted_base"] = ["checks/c10.LoggingAssembler (subclass wrapping _get_statement_size / _encode_statement)", "bincopy segments", "TLC"]
    cr.assumptions += [
        "well-formed = grammatical, labels unique, every referenced label defined; the only expected rejection is a page-local jump/call to a label in another 64 KiB page",
        "section names are code / data / bss (text is an alias of code sharing its addresses and is not mixed with it)",
        "'assembling the statement alone' = a fresh Assembler on '.ORG <recorded address>' + the statement with every symbol replaced by its recorded value as a 0x literal",
    ]


def replay(path: str) -> int:
    """re-assembles the recorded program; exit 1 iff the recorded violation key is produced again"""
    vlib.setup_repo_imports()
    doc = json.loads(Path(path).read_text())
    rec = doc["replay"]
    prog = [{k: v for k, v in s.items()} for s in rec["prog"]]
    r = _job((999, [(1, prog, rec["lines"])]))
    keys = [f"{clause}:{kk}" for clause, kk, *_ in r[1]]
    print("\n".join(rec["lines"]))
    print("verdict keys:", keys, "recorded:", doc.get("key"))
    return 1 if doc.get("key") in keys else 0


def selftest(seed: int) -> int:
    return 0
