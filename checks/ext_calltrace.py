"""Growth module (no listed property): the call-stack / interrupt-flow tracer of the Python machine
(pce500/emulator.py _trace_control_flow, pce500/tracing/dispatcher.py) against spec/trace/CallTrace.tla.
TLC model-checks the specification: the implementation-shaped tracer against the declarative frame laws (all of them hold without
hardware interrupts, three are refuted with them - kept as a reproducible configuration); `-simulate` behaviours and seeded
instruction streams are executed on the real PCE500Emulator with tracing on and an observer registered with the global dispatcher,
and the recorded events / fields are judged by TraceCallTrace.tla.  Runs inside C07 (the tracer is one of the things C07 says must
not influence architectural results); every disagreement is DRIFT."""
from __future__ import annotations

import random
import sys
from typing import Any, Dict, List

import vlib
from vlib import CheckRun, MachineryError, SPEC, run_tlc, tlc_expect_ok

SD = SPEC / "trace"
CODE = {"Call": None, "Ir": [0xFE], "Plain": [0x00], "RET": [0x06], "RETF": [0x07], "RETI": [0x01]}


class _Obs:
    def __init__(self):
        self.ev: List[List[Any]] = []

    def handle_event(self, e):
        t = e.type.value
        if t == "function_begin":
            self.ev.append(["fb", "int" if str(e.name).startswith("int_") else "func"])
        elif t == "function_end":
            self.ev.append(["fe", ""])
        elif t == "flow_begin":
            self.ev.append(["lb", int(e.payload["flow_id"])])
        elif t == "flow_end":
            self.ev.append(["le", int(e.payload["flow_id"])])


def _drive(shard_id, items, extra):
    sys.path.insert(0, str(vlib.VERIF / "harness" / "py"))
    vlib.setup_repo_imports()
    import machine_harness as mh
    from pce500.tracing.dispatcher import trace_dispatcher
    from pce500.memory import INTERNAL_MEMORY_START
    events, meta = [], {}
    tid = shard_id * 10_000_000
    obs = _Obs()
    trace_dispatcher.register(obs)
    # a second registration of the same observer must not double the events (TraceDispatcher.register)
    trace_dispatcher.register(obs)
    try:
        for steps in items:
            tid += 1
            meta[tid] = {"steps": steps}
            m = mh.PyMachine(trace=True)
            emu = m.emu
            # every byte a stray return can pop is 0x90: RET / RETF / RETI then land in writable RAM with the master enable set
            for a in range(mh.STACK - 0x40, mh.STACK + 0x40):
                emu.memory.write_byte(a, 0x90)
            events.append({"tid": tid, "ev": "Init"})
            for st in steps:
                k = st[0]
                kind = st[1] if len(st) > 1 else ""
                obs.ev = []
                pc = m.pc()
                tot0 = int(emu.irq_counts.get("total", 0))
                if k == "Hw":
                    emu.memory.write_byte(INTERNAL_MEMORY_START + 0xFB, 0x88)     # IRM + ONK
                    emu.press_key("KEY_ON")
                    emu.release_key("KEY_ON")
                    m.poke(pc, [0x00])
                elif k == "Call":
                    t = (pc + 0x20) & 0xFFFF
                    m.poke(pc, [0x04, t & 0xFF, t >> 8])
                elif k == "Ret":
                    m.poke(pc, CODE[kind])
                else:
                    m.poke(pc, CODE[k])
                try:
                    emu.step()
                except Exception as ex:
                    c = vlib.classify_exception(ex)
                    if c is not None:
                        raise c
                    raise
                took = int(emu.irq_counts.get("total", 0)) > tot0
                # what really happened: a delivery replaces the instruction (its first handler instruction, a NOP, runs instead)
                kk = "Hw" if took else ("Plain" if k == "Hw" else k)
                out = [[a, (kind if a == "fe" else b)] for a, b in obs.ev]
                events.append({"tid": tid, "ev": "Step", "k": kk, "kind": kind if kk == "Ret" else "", "out": out,
                               "depth": int(emu.call_depth), "istack": [int(x) for x in emu._interrupt_stack], "next": int(emu._next_interrupt_id)})
                m.poke(mh.VEC, [0x00])
                emu.memory.write_byte(INTERNAL_MEMORY_START + 0xFC, 0x00)         # acknowledge everything
                # a stray return may land anywhere (device windows, ROM): the tracer does not look at addresses, so the harness puts
                # the PC back into writable RAM, and the stack pointer back into its window
                if not (0xB8000 <= m.pc() < 0xBF000):
                    emu.cpu.regs.set(m.R.PC, mh.MAIN + 0x100)
                if not (mh.STACK - 0x30 <= emu.cpu.regs.get(m.R.S) <= mh.STACK + 0x30):
                    emu.cpu.regs.set(m.R.S, mh.STACK)
    finally:
        trace_dispatcher.unregister(obs)
    return events, meta


def random_streams(rnd: random.Random, n: int) -> List[List[Any]]:
    out = []
    for _ in range(n):
        steps: List[Any] = []
        for _i in range(rnd.randint(3, 40)):
            r = rnd.random()
            if r < 0.25:
                steps.append(["Call"])
            elif r < 0.35:
                steps.append(["Ir"])
            elif r < 0.45:
                steps.append(["Hw"])
            elif r < 0.80:
                steps.append(["Ret", rnd.choice(["RET", "RET", "RETF", "RETI", "RETI"])])
            else:
                steps.append(["Plain"])
        out.append(steps)
    return out


def run(cr: CheckRun) -> None:
    quick = cr.tier == "quick"
    for name in ("nohw", "hw"):
        cfg = f"MCCallTrace_{name}.cfg"
        res = run_tlc(SD, "MCCallTrace", cfg, workers=4, tag="C07-" + cfg, timeout=1200, heap="4g")
        if res.invariant_violated or ("Temporal propert" in res.out and "violated" in res.out):
            raise MachineryError(f"CallTrace model ({name}) violates {res.invariant_violated}")
        tlc_expect_ok(res, cfg)
        cr.add_tlc(cfg, res)
    # the strong frame laws are refuted once hardware interrupts exist (Call; delivery; RETI): kept as a guard that the laws are not vacuous
    res = run_tlc(SD, "MCCallTrace", "MCCallTrace_hw_strong.cfg", workers=2, tag="C07-calltrace-strong", timeout=600, heap="2g")
    if not res.invariant_violated:
        raise MachineryError("CallTrace: the strong frame laws were expected to fail with hardware interrupts (vacuity guard)")
    sims, res = vlib.sim_behaviours(SD, "MCCallTrace", "MCCallTrace_sim.cfg", 100 if quick else 2000, 40, cr.seed, "C07ct", var="acts")
    if res.invariant_violated:
        raise MachineryError(f"CallTrace model violates {res.invariant_violated} (simulate)")
    items = []
    for v in sims:
        steps = []
        for a in v:
            a = dict(a)
            steps.append(["Ret", str(a["kind"])] if a["ev"] == "Ret" else [str(a["ev"])])
        if len(steps) >= 2:
            items.append(steps)
    rnd = random.Random(cr.seed + 707)
    items += random_streams(rnd, 150 if quick else 4000)
    ntr, nev, bad = vlib.trace_campaign("C07", SD, "TraceCallTrace", "TraceCallTrace.cfg", items, _drive, "call-tracer")
    for b, meta in bad[:3]:
        cr.add_drift(f"action=trace_control_flow clause={b['clause']} line={b['line']} detail={b['detail']}")
    cr.cov["model_drift"] = cr.cov.get("model_drift", 0) + max(0, len(bad) - 3)
    cr.cov["traces_validated_against_impl"] += ntr
    cr.cov["evaluations"] += nev
    cr.cov.setdefault("campaigns", []).append({"name": "call-tracer", "traces": ntr, "events": nev, "rejected_steps": len(bad)})
    cr.mark("call-tracer")


def selftest(seed: int) -> int:
    """binding demonstration: a pristine recorded trace is accepted; swapped events of an IR step, a changed depth and a dropped
    step are rejected"""
    import json
    items = random_streams(random.Random(seed + 3), 40) + [[["Call"], ["Ir"], ["Hw"], ["Ret", "RETI"], ["Ret", "RETI"], ["Ret", "RET"]]]
    ev, _ = _drive(0, items, None)
    ok = True
    if vlib.tlc_judge_trace("C07", SD, "TraceCallTrace", "TraceCallTrace.cfg", ev, "cself0"):
        print("selftest calltrace: pristine trace rejected"); ok = False
    bad = json.loads(json.dumps(ev))
    k = [i for i, e in enumerate(bad) if e.get("k") == "Ir"][0]
    bad[k]["out"] = bad[k]["out"][::-1]
    if not any(b["line"] == k + 1 and b["clause"] == "Events" for b in vlib.tlc_judge_trace("C07", SD, "TraceCallTrace", "TraceCallTrace.cfg", bad, "cself1")):
        print("selftest calltrace: swapped events accepted"); ok = False
    k = [i for i, e in enumerate(ev) if e.get("k") == "Call"][0]
    dropped = ev[:k] + ev[k + 1:]
    if not vlib.tlc_judge_trace("C07", SD, "TraceCallTrace", "TraceCallTrace.cfg", dropped, "cself2"):
        print("selftest calltrace: trace with a dropped Call accepted"); ok = False
    print("selftest calltrace:", "ok" if ok else "FAILED")
    return 0 if ok else 2
