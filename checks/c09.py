"""C09 - disassembled text reassembles to an equivalent instruction.

spec/isa/JudgeAsm.tla   CanonEnc (canonical reading of an encoding under SC62015Format + the README's prefix rules) and the
                        round-trip clauses; TLC judges one record per accepted byte string

code -> spec: every accepted structural encoding (prefix x opcode x mode byte, seeded operand values, boundary displacement /
immediate palettes) is rendered, the token stream is turned into source text (numbers as 0x literals, named internal registers by
name), assembled, disassembled again, assembled again.
"""
from __future__ import annotations

import json
import re
import random
import sys
from pathlib import Path
from typing import Any, Dict, List

import vlib
from vlib import CheckRun, MachineryError, SPEC, run_tlc
from checks import c04

LEVEL = "model_checking"
SD = SPEC / "isa"
ADDR = 0x1000


def text_of(tokens) -> str:
    out = []
    for t in tokens:
        n = type(t).__name__
        s = str(t)
        if n in ("TInt", "TAddr"):
            out.append((s[0] + "0x" + s[1:]) if s[0] in "+-" else "0x" + s)
        else:
            out.append(s)
    return "".join(out)


SECOND = 1 << 28      # record ids of the second (reverse-order) pass
LISTING = 1 << 29     # record ids of instructions observed inside a multi-line listing


def observe(dh, rid: int, enc: bytes, forced_b2: bytes = None) -> Dict[str, Any]:
    from sc62015.pysc62015.instr import decode, OPCODES
    from sc62015.pysc62015.sc_asm import Assembler
    rec: Dict[str, Any] = {"id": rid, "b": list(enc) + [0] * (8 - len(enc)), "n": len(enc), "ok": 0, "b2": [0] * 8, "n2": 0, "same_text": 0,
                           "same_il": 0, "ok3": 0, "b3": [0] * 8, "n3": 0, "text": "", "err": ""}
    ins = decode(enc + bytes(6), ADDR, OPCODES)
    text = text_of(ins.render())
    rec["text"] = text
    try:
        b2 = forced_b2 if forced_b2 is not None else bytes(Assembler().assemble(text).as_binary())
    except Exception as ex:      # noqa: BLE001
        rec["err"] = f"{type(ex).__name__}: {str(ex).splitlines()[0][:160]}"
        return rec
    if not (0 < len(b2) <= 8):
        rec["err"] = f"assembler produced {len(b2)} bytes"
        return rec
    rec.update({"ok": 1, "b2": list(b2) + [0] * (8 - len(b2)), "n2": len(b2)})
    try:
        ins2 = decode(b2 + bytes(6), ADDR, OPCODES)
        text2 = text_of(ins2.render())
    except Exception as ex:      # noqa: BLE001
        text2 = f"<{type(ex).__name__}>"
    rec["same_text"] = 1 if text2 == text else 0
    rec["text2"] = text2
    rec["same_il"] = 1 if dh.il_digest(enc + bytes(6), ADDR) == dh.il_digest(b2 + bytes(6), ADDR) else 0
    try:
        b3 = bytes(Assembler().assemble(text2).as_binary())
        if 0 < len(b3) <= 8:
            rec.update({"ok3": 1, "b3": list(b3) + [0] * (8 - len(b3)), "n3": len(b3)})
    except Exception as ex:      # noqa: BLE001
        rec["err"] = f"second round: {type(ex).__name__}: {str(ex).splitlines()[0][:120]}"
    return rec


def judge(shard_id: int, recs: List[Dict[str, Any]]):
    d = vlib.scratch("C09")
    tf = d / f"asm-{shard_id}.ndjson"
    vlib.write_ndjson(tf, [{k: v for k, v in r.items() if k not in ("text", "text2", "err")} for r in recs])
    res = run_tlc(SD, "JudgeAsm", "JudgeAsm.cfg", workers=1, env={"TRACE_FILE": str(tf)}, tag=f"C09-{shard_id}", jvm=["-Xss128m"], heap="3g", timeout=3000)
    verdict = None
    for v in res.printed():
        if isinstance(v, tuple) and v and v[0] == "JUDGE":
            verdict = v
    if verdict is None:
        raise MachineryError(f"JudgeAsm did not complete (shard {shard_id}):\n{res.out[-2000:]}")
    tf.unlink()
    return verdict


def _job(arg):
    shard_id, items = arg
    eh, en = c04._imports()
    import decode_harness as dh
    dh._setup()
    recs = [observe(dh, rid, enc) for rid, enc in items]
    # second pass in reverse order: what the assembler makes of a text must not depend on what it (or another Assembler object in
    # the process) assembled before.  Texts whose bytes changed are observed again - in the state the process is in now - and go
    # to the judge like any other record (id + SECOND).
    from sc62015.pysc62015.sc_asm import Assembler
    first = {r["id"]: r for r in recs}
    again = []
    for rid, enc in reversed(items):
        r = first[rid]
        if not r["text"]:
            continue
        try:
            b2 = bytes(Assembler().assemble(r["text"]).as_binary())
        except Exception:      # noqa: BLE001
            b2 = None
        was = bytes(r["b2"][: r["n2"]]) if r["ok"] else None
        if b2 != was:
            again.append(observe(dh, rid + SECOND, enc))
    recs += again
    # listings: several rendered instructions assembled by ONE assemble() call must come out as the concatenation of what each
    # line assembles to alone (state shared between the lines of a program - operands, selectors - shows only here)
    rndl = random.Random(shard_id * 7919 + len(items))
    okrecs = [r for r in recs if r["id"] < SECOND and r["ok"] and r["text"] and not r["text"].startswith("???")]
    for _ in range(min(len(okrecs) // 2, 400)):
        grp = rndl.sample(okrecs, rndl.choice([2, 2, 3, 4])) if len(okrecs) >= 4 else []
        if not grp:
            break
        try:
            whole = bytes(Assembler().assemble("\n".join(g["text"] for g in grp)).as_binary())
        except Exception as ex:      # noqa: BLE001
            r0 = dict(grp[0]); r0.update({"id": grp[0]["id"] + LISTING, "ok": 0, "err": f"listing: {type(ex).__name__}: {str(ex).splitlines()[0][:120]}"})
            recs.append(r0)
            continue
        want = [bytes(g["b2"][: g["n2"]]) for g in grp]
        if whole == b"".join(want):
            continue
        if len(whole) != sum(len(w) for w in want):
            r0 = dict(grp[0]); r0.update({"id": grp[0]["id"] + LISTING, "ok": 0, "err": f"listing of {len(grp)} lines assembles to {len(whole)} bytes, the lines alone to {sum(len(w) for w in want)}"})
            recs.append(r0)
            continue
        pos = 0
        for g, w in zip(grp, want):
            piece = whole[pos: pos + len(w)]
            pos += len(w)
            if piece != w:
                recs.append(observe(dh, g["id"] + LISTING, bytes(g["b"][: g["n"]]), forced_b2=piece))
    v = judge(shard_id, recs)
    byid = {r["id"]: r for r in recs}
    bad = []
    for x in v[2]:
        r = byid[int(x[0])]
        b = r["b"]
        pre = b[0] in c04.PRE_SET
        op = b[1] if pre else b[0]
        enc = bytes(b[: r["n"]])
        b2 = bytes(r["b2"][: r["n2"]])
        tg = ["p" if pre else "n"]
        # the shape of the internal-memory operands in the ORIGINAL text (n = direct, also by register name; bpn / pxn / pyn =
        # indexed; bppx / bppy): the recorded findings are about particular text shapes, so the shape is part of the key
        shp = []
        for grp_ in re.findall(r"\(([^()]*)\)", r["text"]):
            g_ = grp_.replace(" ", "")
            shp.append("bppx" if g_ == "BP+PX" else "bppy" if g_ == "BP+PY" else "bpn" if g_.startswith("BP+") else "pxn" if g_.startswith("PX+")
                       else "pyn" if g_.startswith("PY+") else "n")
        if shp:
            tg.append("t=" + "-".join(shp))
        if r["text"].startswith("???"):
            tg.append("unk")
        elif not en.documented(b[0] if pre else None, op, enc):
            tg.append("undoc")
        if pre and "(" not in r["text"]:
            tg.append("noimem-prefix")
        if "Invalid addressing mode combination" in r["err"]:
            tg.append("combo")
        elif "Value not set" in r["err"]:
            tg.append("novalue")
        elif r["err"]:
            tg.append("err")
        if r["ok"] and pre and b2[0] not in c04.PRE_SET:
            tg.append("prefix-dropped")
        if r["ok"] and b2[1:] == enc and len(b2) == len(enc) + 1:
            tg.append("prefix-added")
        if r["ok"] and len(b2) - (1 if b2[0] in c04.PRE_SET else 0) < len(enc) - (1 if pre else 0):      # the instruction body lost a byte
            tg.append("shorter")
        if r["id"] >= LISTING:
            tg.append("in-listing")
        elif r["id"] >= SECOND:
            tg.append("second-pass")
        bad.append((str(x[1]), f"op{op:02X}:" + ",".join(tg), {"kind": "asm", "bytes": b[: r["n"]]}, r["text"], b2.hex(), r.get("text2", ""), r["err"]))
    return len(recs), bad[:6000], len(bad), len(v[3])


def encodings(en, tier: str, seed: int) -> List[bytes]:
    """accepted structural encodings (documented or not - the disassembler accepts them) + displacement / immediate palettes"""
    from sc62015.pysc62015.instr import decode, OPCODES
    rnd = random.Random(seed + 11)
    out = list(en.valid_structures(tier, seed))
    # the two unassigned opcodes and undocumented register selectors are accepted by the disassembler as well
    pres = [None, 0x30, 0x25] if tier == "quick" else [None] + en.PRE_BYTES
    for pre in pres:
        for op in range(256):
            if op in en.PRE_BYTES:
                continue
            for b2 in en.MODE_BYTES[:: 3 if tier == "quick" else 1]:
                for pal in ([0x00, 0x00, 0x00, 0x00], [0xFF, 0xFF, 0xFF, 0xFF], [0x7F, 0x80, 0x01, 0x0F]):
                    s = (bytes([pre]) if pre is not None else b"") + bytes([op, b2] + pal)
                    try:
                        ins = decode(s + bytes(4), ADDR, OPCODES)
                        if ins is None or type(ins).__name__ == "PRE":
                            continue
                        out.append(s[: ins.length()])
                    except Exception:      # noqa: BLE001
                        continue
    # internal-memory operands that address a NAMED register directly are rendered by name ((BP), (PX), (PY), (KOL), (IMR), ...):
    # every opcode behind the prefixes that give a slot direct addressing, with operand bytes that are register offsets
    import text_ast
    from binja_test_mocks.tokens import asm_str
    names = tuple(f"({n})" for n in text_ast.IMEM_NAMES)
    for pre in ([0x30, 0x32, 0x22, 0x36, 0x33] if tier == "quick" else [0x30, 0x31, 0x32, 0x33, 0x22, 0x26, 0x36, 0x34]):
        for op in range(256):
            if op in en.PRE_BYTES:
                continue
            for b2 in (0xED, 0xEE, 0xEC, 0xFB, 0x04):
                for pal in ([0xEE, 0xED, 0xEC, 0xF0], [0xED, 0xEE, 0xFC, 0xFB], [0x10, 0xED, 0xEE, 0x00]):
                    s = bytes([pre, op, b2] + pal)
                    try:
                        ins = decode(s + bytes(4), ADDR, OPCODES)
                        if ins is None or type(ins).__name__ == "PRE":
                            continue
                        if any(n in asm_str(ins.render()) for n in names):
                            out.append(s[: ins.length()])
                    except Exception:      # noqa: BLE001
                        continue
    seen = set()
    uniq = []
    for e in out:
        if e not in seen:
            seen.add(e)
            uniq.append(e)
    return uniq


def run(cr: CheckRun) -> None:
    eh, en = c04._imports()
    # on the model: the canonical reading of every structural encoding is total and depends on the instruction's own bytes only
    res = run_tlc(SD, "MCSemSpace", "MCSemSpace_quick.cfg" if cr.tier == "quick" else "MCSemSpace.cfg", workers=vlib.NCPU, tag="C09-semspace", timeout=3400, heap="8g")
    if res.invariant_violated or "Error:" in res.out:
        raise MachineryError("MCSemSpace (CanonOfTruncation / ResolveTotal) failed on the specification itself:\n" + res.out[-2500:])
    cr.add_tlc("MCSemSpace (ResolveTotal, CanonOfTruncation)", res)
    cr.mark("model")
    encs = encodings(en, cr.tier, cr.seed)
    items = [(i + 1, e) for i, e in enumerate(encs)]
    # shards hold encodings that share their operand bytes (same register / register-pair / mode selector under different
    # opcodes): state shared between instructions with the same operands is exercised inside one process, in both orders
    nsh = vlib.NCPU * 2
    def sel(e):
        k = 1 if e[0] in c04.PRE_SET else 0
        return e[k + 1] if len(e) > k + 1 else 0
    buckets: Dict[int, List[Any]] = {}
    for it in items:
        buckets.setdefault(sel(it[1]) % nsh, []).append(it)
    results = vlib.pmap(_job, [(i, buckets.get(i, [])) for i in range(nsh) if buckets.get(i)])
    cr.mark("roundtrips")
    n = sum(r[0] for r in results)
    for r in results:
        for clause, opk, rep, text, b2, text2, err in r[1]:
            cr.violation(f"{clause}:{opk}", f"{clause}: bytes {bytes(rep['bytes']).hex()} disassemble to '{text}'; assembler -> {b2 or 'rejected'} "
                         f"{('= ' + repr(text2)) if text2 else ''} {err}", rep)
    cr.cov["programs"] = n
    cr.cov["traces_validated_against_impl"] = n
    cr.cov["evaluations"] = n
    cr.cov["distinct_nontrivial"] = len(encs)
    cr.cov["rule"] = "distinct accepted encodings (prefix x opcode x mode byte x operand palette); each rendered, assembled, disassembled and assembled again"
    cr.add_sample({"encoding": encs[len(encs) // 2].hex()})
    cr.cov["trusted_base"] = ["text convention of checks/c09.text_of (TInt/TAddr tokens -> 0x literals)", "decode_harness.il_digest", "TLC"]
    cr.assumptions += ["equivalence of encodings = equality of CanonEnc (class, mnemonic, condition, resolved operands with ignored bits dropped)",
                       "instructions are assembled at the default origin; relative jumps carry their displacement in the text, so the address does not matter"]


def replay(path: str) -> int:
    eh, en = c04._imports()
    import decode_harness as dh
    dh._setup()
    rec = json.loads(Path(path).read_text())["replay"]
    r = observe(dh, 1, bytes(rec["bytes"]))
    v = judge(999, [r])
    print(json.dumps(r), v[2])
    return 1 if v[2] else 0


def selftest(seed: int) -> int:
    return 0
