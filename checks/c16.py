"""C16 - saving and restoring a snapshot does not change the future.

spec/machine/Snapshot.tla        save + load into a fresh machine is a stuttering step of the abstract machine of C12
                                 (RoundTrip over every reachable state; a smaller field set makes TLC name the states that break)
spec/machine/JudgeSnapshot.tla   TLC compares original and restored futures, component by component

code -> spec, per implementation (Python PCE500Emulator, Rust CoreRuntime): scripted runs (TLC behaviours of the interrupt model
and seeded random scripts: timers, ON key, matrix keys, IMR/ISR writes, HALT, OFF, WAIT, RETI); at EVERY step index the live
machine is saved, a FRESH machine loads the bundle, and both receive the next K script items; the full projection (registers, IMEM,
RAM, LCD, keyboard, timers, interrupt bookkeeping, power state, counters) is recorded after the load and after every step.
Cross-loading: each implementation loads the other's bundle and the immediately visible state is compared; the bundle member
lists and snapshot.json key sets are compared.
"""
from __future__ import annotations

import json
import os
import random
import sys
import zipfile
import zlib
from pathlib import Path
from typing import Any, Dict, List, Optional, Tuple

import vlib
from vlib import CheckRun, MachineryError, SPEC, run_tlc, Vh
from checks import c12

LEVEL = "model_checking"
SD = SPEC / "machine"
K = 6
RANGES = [[0xB8000, 0x8000]]


def _imports():
    sys.path.insert(0, str(vlib.VERIF / "harness" / "py"))
    vlib.setup_repo_imports()
    import machine_harness as mh
    return mh


def _h(b: bytes) -> int:
    return zlib.crc32(b) & 0x7FFFFFFF


# ------------------------------------------------------------------------------------------------ machines
class PyM:
    impl = "py"

    origin = 0

    def __init__(self, mh, low=False):
        self.mh = mh
        self.low = low
        self.m = mh.PyMachine(active_low=low)

    def new(self):
        return PyM(self.mh, self.low)

    def event(self, ev):
        if ev["ev"] == "Key":
            (self.m.emu.press_key if ev["press"] else self.m.emu.release_key)(ev["name"])
        elif ev["ev"] == "Origin":
            # a machine that has been running for a long time: the cycle counter (and with it every absolute timer target) is
            # moved close to 2^31; counters and targets are projected relative to this origin
            e = self.m.emu
            e.cycle_count = int(ev["c"])
            e._scheduler.reset(cycle_base=e.cycle_count)
        else:
            self.m.event(ev)

    def step(self, ins) -> Optional[str]:
        bs = self.mh.encode(ins)
        pc = self.m.pc()
        self.m.poke(pc, bs)
        err = None
        try:
            self.m.emu.step()
        except Exception as ex:      # noqa: BLE001
            err = f"{type(ex).__name__}: {ex}"
        self.m.poke(self.mh.VEC, [0x00])
        return err

    def save(self, path: str) -> Optional[str]:
        try:
            self.m.emu.save_snapshot(path)
            return None
        except Exception as ex:      # noqa: BLE001
            return f"{type(ex).__name__}: {ex}"

    def load(self, path: str) -> Optional[str]:
        try:
            self.m.emu.load_snapshot(path)
            return None
        except Exception as ex:      # noqa: BLE001
            return f"{type(ex).__name__}: {ex}"

    def proj(self, err: Optional[str] = None) -> Dict[str, Any]:
        e = self.m.emu
        R = self.m.R
        r = e.cpu.regs
        sch = e._scheduler
        lcd_meta, lcd_payload = e._capture_lcd_snapshot()
        # the keyboard is projected from its attributes, not through snapshot_state() (which is part of what is being checked)
        km = getattr(e, "keyboard", None)
        km = getattr(km, "_matrix", km)
        kb = None
        if km is not None:
            kb = {"kol": km.kol, "koh": km.koh, "kil": km._kil_latch, "pressed": sorted(km._pressed_keys), "head": km._head, "tail": km._tail,
                  "fifo": list(km._fifo), "keys": sorted((str(k), bool(v.pressed), bool(v.debounced), int(v.press_ticks), int(v.release_ticks), int(v.repeat_ticks))
                                                         for k, v in km._key_states.items() if (v.pressed or v.debounced or v.press_ticks or v.release_ticks))}
        return {
            "err": 1 if err else 0,
            "pw": "halt" if getattr(e.cpu.state, "halted", False) else "run",
            "regs": {k: int(r.get(getattr(R, k))) for k in ("PC", "BA", "I", "X", "Y", "U", "S", "F")},
            "imem": _h(bytes(e.memory.get_internal_memory_bytes())),
            "ram": _h(bytes(e.memory.external_memory[0xB8000:0xC0000])),
            "lcd": _h(bytes(lcd_payload) + json.dumps(lcd_meta, sort_keys=True, default=str).encode()),
            "kbd": {"kil": kb["kil"], "ko": kb["kol"] * 256 + kb["koh"], "pressed": _h(json.dumps(kb["pressed"]).encode()),
                    "fifo": _h(json.dumps([kb["fifo"], kb["head"], kb["tail"]]).encode()), "keys": _h(json.dumps(kb["keys"]).encode())} if kb else {"kil": 0},
            "timers": {"en": int(bool(sch.enabled)), "pm": int(sch.mti_period), "ps": int(sch.sti_period),
                       "nm": (int(sch.next_mti) - self._org()) if sch.mti_period else 0, "ns": (int(sch.next_sti) - self._org()) if sch.sti_period else 0},
            "irq": {"pend": int(bool(e._irq_pending)), "inint": int(bool(e._in_interrupt)), "src": e._irq_source.name if e._irq_source else "",
                    "stack": len(e._interrupt_stack), "tot": int(e.irq_counts.get("total", 0)), "latched": int(bool(getattr(e, "_key_irq_latched", False)))},
            "cnt": {"cyc": int(e.cycle_count) - self._org(), "instr": int(e.instruction_count)},
        }

    def _org(self) -> int:
        # the origin travels with the machine: a restored machine (new object) takes it from the cycle counter it was given
        return ((1 << 31) - (1 << 16)) if int(self.m.emu.cycle_count) >= (1 << 30) else 0

    def common(self) -> Dict[str, Any]:
        o = self.m.obs()
        return {k: o[k] for k in ("pc", "s", "f", "ba", "i", "imr", "isr", "pw", "inint", "pend", "cyc", "instr", "nm", "ns")}

    def close(self):
        pass


class RsM:
    impl = "rs"
    _n = 0

    def __init__(self, mh, vh):
        self.mh, self.vh = mh, vh
        RsM._n += 1
        self.name = f"m{RsM._n}"
        self.m = mh.RustMachine(vh, self.name)

    def new(self):
        return RsM(self.mh, self.vh)

    def event(self, ev):
        if ev["ev"] == "Key":
            self.vh.call("rt.key", name=self.name, code=ev["code"], press=bool(ev["press"]))
        elif ev["ev"] == "Origin":
            pass          # the Rust runtime offers no way to move its cycle counter: the script runs from cycle 0 there
        else:
            self.m.event(ev)

    def step(self, ins) -> Optional[str]:
        bs = self.mh.encode(ins)
        pc = self.m.pc()
        self.m.poke(pc, bs)
        r = self.vh.call("rt.step", name=self.name, n=1)
        self.m.poke(self.mh.VEC, [0x00])
        return r.get("err")

    def save(self, path: str) -> Optional[str]:
        return self.vh.call("rt.save", name=self.name, path=path).get("err")

    def load(self, path: str) -> Optional[str]:
        return self.vh.call("rt.load_snapshot", name=self.name, path=path).get("err")

    def proj(self, err: Optional[str] = None) -> Dict[str, Any]:
        d = self.vh.call("rt.dump", name=self.name, ranges=RANGES)
        t = d["timer"]
        regs = {k: int(d["regs"].get(k, 0)) for k in ("PC", "BA", "I", "X", "Y", "U", "S", "F")}
        ram = bytes(next(iter(d["mem"].values()))) if d["mem"] else b""
        return {
            "err": 1 if err else 0,
            "pw": "off" if d["off"] else ("halt" if d["halted"] else "run"),
            "regs": regs,
            "imem": _h(bytes(d["imem"])),
            "ram": _h(ram),
            "lcd": int(d["lcd_hash"][:7], 16) if d.get("lcd_hash") else 0,
            "kbd": {"fifo": int(d["kb_fifo"] or 0)},
            "timers": {"en": int(bool(t["enabled"])), "pm": int(t["pm"]), "ps": int(t["ps"]), "nm": int(t["next_mti"]) if t["pm"] else 0,
                       "ns": int(t["next_sti"]) if t["ps"] else 0, "kbirq": int(bool(t["kb_irq_enabled"]))},
            "irq": {"pend": int(bool(t["irq_pending"])), "inint": int(bool(t["in_interrupt"])), "src": str(t["irq_source"]),
                    "stack": len(t["interrupt_stack"]), "tot": int(t["irq_total"]), "latched": int(bool(t["key_irq_latched"])),
                    "masks": len(t["delivered_masks"]), "depth": int(d["call_depth"])},
            "cnt": {"cyc": int(d["cycles"]), "instr": int(d["instr"])},
        }

    def common(self) -> Dict[str, Any]:
        o = self.vh.call("rt.obs", name=self.name)
        return {k: o[k] for k in ("pc", "s", "f", "ba", "i", "imr", "isr", "pw", "inint", "pend", "cyc", "instr", "nm", "ns")}

    def close(self):
        self.vh.call("rt.drop", name=self.name)


# ------------------------------------------------------------------------------------------------ scripts
def scripts_for(tier: str, seed: int) -> List[List[Dict[str, Any]]]:
    rnd = random.Random(seed + 16)
    out = []
    n = 64 if tier == "quick" else 600
    for i in range(n):
        s = c12.random_script(rnd, rnd.choice([8, 12, 18]))
        # matrix keys pressed, held and released across snapshot points, with the columns strobed and KIL read (debounce windows)
        if rnd.random() < 0.7:
            code = rnd.choice([0x01, 0x03, 0x21, 0x0A])
            k = rnd.randrange(0, max(1, len(s) - 4))
            s.insert(k, {"ev": "Step", "ins": {"k": "STROBE", "v": 0xFF}})
            s.insert(k + 1, {"ev": "Key", "press": True, "code": code, "name": None})
            hold = rnd.randint(2, 9)
            rel = min(len(s), k + 2 + hold)
            s.insert(rel, {"ev": "Key", "press": False, "code": code, "name": None})
            for _ in range(rnd.randint(0, 3)):
                s.insert(rnd.randrange(k + 2, len(s) + 1), {"ev": "Step", "ins": {"k": "READKIL"}})
        out.append(s)
    # keys held on strobed columns while a long interrupt handler runs (nothing reads KIL in there): press and auto-repeat events
    # pile up until the 8-slot event ring wraps - snapshot points with a non-zero ring head
    for i in range(2 if tier == "quick" else 12):
        codes = rnd.sample([0x01, 0x03, 0x09, 0x0A, 0x11], 2)
        s = [{"ev": "Step", "ins": {"k": "STROBE", "v": 0xFF}}]
        s += [{"ev": "Key", "press": True, "code": c, "name": None} for c in codes]
        s += [{"ev": "Step", "ins": {"k": "SETIMR", "v": 0x81}}, {"ev": "Timer", "s": 0}]
        s += [{"ev": "Step", "ins": {"k": rnd.choice(["NOP", "NOP", "ALU"])}} for _ in range(rnd.choice([84, 96]))]
        s += [{"ev": "Key", "press": False, "code": codes[0], "name": None}]
        s += [{"ev": "Step", "ins": {"k": "NOP"}} for _ in range(8)]
        out.append(s)
    # the same pile-up with interrupts disabled and no handler running (the Rust core scans the matrix only on main-timer ticks
    # OUTSIDE handlers): a fast main timer, three keys held on strobed columns, nothing reads the queue - the ring runs exactly
    # full and then overflows, and every step in between is a snapshot point
    for i in range(2 if tier == "quick" else 10):
        codes = rnd.sample([0x01, 0x03, 0x09, 0x0A, 0x11, 0x21], 3 if i % 2 == 0 else 1)
        s = [{"ev": "TimerCfg", "pm": rnd.choice([1, 2]), "ps": 0}, {"ev": "Step", "ins": {"k": "SETIMR", "v": 0x00}},
             {"ev": "Step", "ins": {"k": "STROBE", "v": 0xFF}}]
        s += [{"ev": "Key", "press": True, "code": c, "name": None} for c in codes]
        for _ in range(rnd.choice([26, 34])):
            if rnd.random() < 0.5:
                s += [{"ev": "Step", "ins": {"k": "SETI", "v": rnd.choice([2, 4, 7])}}, {"ev": "Step", "ins": {"k": "WAIT"}}]
            else:
                s.append({"ev": "Step", "ins": {"k": "NOP"}})
        s += [{"ev": "Key", "press": False, "code": codes[0], "name": None}]
        s += [{"ev": "Step", "ins": {"k": "NOP"}} for _ in range(6)]
        out.append(s)
    # a machine whose cycle counter crosses 2^31 while both timers run (absolute targets no longer fit 31 bits)
    for i in range(2 if tier == "quick" else 10):
        s = [{"ev": "Origin", "c": (1 << 31) - rnd.choice([30, 60, 90])}, {"ev": "TimerCfg", "pm": rnd.choice([16, 24]), "ps": rnd.choice([40, 56])},
             {"ev": "Step", "ins": {"k": "SETIMR", "v": 0x83}}]
        for _ in range(rnd.choice([30, 44])):
            r = rnd.random()
            if r < 0.2:
                s += [{"ev": "Step", "ins": {"k": "SETI", "v": rnd.choice([3, 6])}}, {"ev": "Step", "ins": {"k": "WAIT"}}]
            elif r < 0.35:
                s.append({"ev": "Step", "ins": {"k": "RETI"}})
            elif r < 0.45:
                s.append({"ev": "Step", "ins": {"k": "CLRISR", "m": [rnd.choice([0, 1])]}})
            else:
                s.append({"ev": "Step", "ins": {"k": rnd.choice(["NOP", "ALU"])}})
        out.append(s)
    return out


def classify(p: Dict[str, Any]) -> str:
    t = []
    t.append(p["pw"])
    if p["irq"]["inint"]:
        t.append("inint")
    if p["irq"]["pend"]:
        t.append("pend")
    if p["timers"]["en"] and (p["timers"]["pm"] or p["timers"]["ps"]):
        t.append("timers")
    return "+".join(t)


def campaign(machine, scripts, tmp: Path, shard: int) -> Tuple[List[Dict[str, Any]], List[Tuple[str, Dict[str, Any]]]]:
    """-> (judge records, bundles for cross loading)"""
    recs: List[Dict[str, Any]] = []
    bundles: List[Tuple[str, Dict[str, Any]]] = []
    rid = 0
    names = None
    for si, script in enumerate(scripts):
        # expand matrix-key events into something both machines understand
        if names is None and machine.impl == "py":
            from pce500.keyboard_matrix import KEY_LOCATIONS
            names = {(loc.column << 3) | loc.row: name for name, loc in KEY_LOCATIONS.items()}
        orig = machine.new()
        items = []
        for a in script:
            if a["ev"] == "Key" and machine.impl == "py":
                a = dict(a)
                a["name"] = names.get(a["code"], "KEY_A")
            items.append(a)
        # projection of the original after every item position
        projs: List[Dict[str, Any]] = []
        points: List[Tuple[int, str]] = []
        for i, a in enumerate(items):
            # snapshot point BEFORE item i
            path = str(tmp / f"{machine.impl}-{shard}-{si}-{i}.pcsnap")
            e = orig.save(path)
            points.append((i, path if not e else ""))
            if a["ev"] == "Step":
                err = orig.step(a["ins"])
            else:
                orig.event(a)
                err = None
            projs.append(orig.proj(err))
        pre0 = None
        # now restore at every point and continue
        o2 = machine.new()          # replay the original once more to get the projection AT each snapshot point (position 1)
        at: List[Dict[str, Any]] = []
        for i, a in enumerate(items):
            at.append(o2.proj(None))
            if a["ev"] == "Step":
                o2.step(a["ins"])
            else:
                o2.event(a)
        o2.close()
        for (i, path) in points:
            if not path:
                continue
            rest = machine.new()
            lerr = rest.load(path)
            rseq = [rest.proj(None)] if not lerr else []
            oseq = [at[i]]
            if not lerr:
                for j in range(i, min(len(items), i + K)):
                    a = items[j]
                    if a["ev"] == "Step":
                        err = rest.step(a["ins"])
                    else:
                        rest.event(a)
                        err = None
                    rseq.append(rest.proj(err))
                    oseq.append(projs[j])
            rid += 1
            on_held = False
            for a0 in items[:i]:
                if a0["ev"] == "OnKey":
                    on_held = True
                elif a0["ev"] == "OnKeyUp":
                    on_held = False
            recs.append({"id": shard * 1_000_000 + (0 if machine.impl == "py" else 250_000) + rid, "impl": machine.impl, "kind": "future",
                         "cls": classify(at[i]) + ("+onheld" if on_held else ""), "loaderr": 1 if lerr else 0,
                         "orig": oseq, "rest": rseq if not lerr else oseq, "lerr": lerr or "", "replay": {"impl": machine.impl, "script": script, "point": i}})
            if len(bundles) < 40 and (i % 3 == 0):
                bundles.append((path, {"common": None, "point": i, "script": script}))
            else:
                try:
                    os.unlink(path)
                except OSError:
                    pass
            rest.close()
        orig.close()
    return recs, bundles


def judge(shard_id: int, recs: List[Dict[str, Any]]):
    d = vlib.scratch("C16")
    tf = d / f"snap-{shard_id}.ndjson"
    vlib.write_ndjson(tf, [{k: v for k, v in r.items() if k not in ("replay", "lerr")} for r in recs])
    res = run_tlc(SD, "JudgeSnapshot", "JudgeSnapshot.cfg", workers=1, env={"TRACE_FILE": str(tf)}, tag=f"C16-{shard_id}", jvm=["-Xss128m"], heap="3g", timeout=3000)
    verdict = None
    for v in res.printed():
        if isinstance(v, tuple) and v and v[0] == "JUDGE":
            verdict = v
    if verdict is None:
        raise MachineryError(f"JudgeSnapshot did not complete (shard {shard_id}):\n{res.out[-2000:]}")
    tf.unlink()
    return verdict


def polarity_scripts():
    """strobe values 0x00 / 0xFF / one column, a key held across the snapshot points, the key-input register read afterwards"""
    def S(k, **kw):
        return {"ev": "Step", "ins": dict({"k": k}, **kw)}
    out = []
    for v in (0x00, 0xFF, 0xFE, 0x01):
        for code in (0x01, 0x09):
            sc = [S("SETIMR", v=0), {"ev": "Key", "press": True, "code": code, "name": None}, S("STROBE", v=v)]
            sc += [S("NOP")] * 3 + [S("READKIL"), S("NOP"), S("READKIL"), S("NOP"), S("NOP"), S("READKIL"), S("NOP")]
            sc += [{"ev": "Key", "press": False, "code": code, "name": None}] + [S("NOP")] * 3 + [S("READKIL")] * 2 + [S("NOP")] * 4
            out.append(sc)
    return out


def power_state_scripts():
    """scripts that END in each low-power state (cross loading happens at the end of a script): the bundle's power-state member
    as written by one implementation and read by the other, with and without idle steps after the HALT / OFF"""
    def S(k, **kw):
        return {"ev": "Step", "ins": dict({"k": k}, **kw)}
    out = []
    for low in ("HALT", "OFF"):
        for idle in (0, 2):
            out.append([S("NOP"), S("SETIMR", v=0), S(low)] + [S("NOP")] * idle)
            out.append([{"ev": "TimerCfg", "pm": 50, "ps": 70}, S("NOP"), S("ALU"), S(low)] + [S("NOP")] * idle)
    return out


def cross_records(mh, vh, shard: int, tmp: Path, scripts) -> List[Dict[str, Any]]:
    """each implementation's bundle loaded by the other; the immediately visible common state must be the saver's"""
    recs = []
    rid = 0
    for si, script in enumerate(scripts):
        for saver_impl in ("py", "rs"):
            saver = PyM(mh) if saver_impl == "py" else RsM(mh, vh)
            loader = RsM(mh, vh) if saver_impl == "py" else PyM(mh)
            for a in script:
                if a["ev"] == "Step":
                    saver.step(a["ins"])
                elif a["ev"] != "Key":
                    saver.event(a)
            path = str(tmp / f"x-{shard}-{si}-{saver_impl}.pcsnap")
            e = saver.save(path)
            want = saver.common()
            lerr = loader.load(path) if not e else e
            got = loader.common() if not lerr else want
            # bundle layout
            try:
                with zipfile.ZipFile(path) as z:
                    members = sorted(z.namelist())
                    keys = sorted(json.loads(z.read("snapshot.json")).keys())
                    regs_len = len(z.read("registers.bin"))
            except Exception:      # noqa: BLE001
                members, keys, regs_len = [], [], -1
            rid += 1

            def wrap(c):
                return {"err": 0, "pw": c["pw"], "regs": {k: c[k] for k in ("pc", "s", "f", "ba", "i")}, "imem": c["imr"] * 256 + c["isr"], "ram": 0, "lcd": 0, "kbd": {"fifo": 0},
                        "timers": {"nm": c["nm"], "ns": c["ns"]}, "irq": {"inint": c["inint"], "pend": c["pend"]}, "cnt": {"cyc": c["cyc"], "instr": c["instr"]}}
            recs.append({"id": shard * 1_000_000 + 500_000 + rid, "impl": f"{saver_impl}->{loader.impl}", "kind": "cross", "cls": want["pw"] + ("+inint" if want["inint"] else ""),
                         "loaderr": 1 if lerr else 0, "orig": [wrap(want)], "rest": [wrap(got)], "lerr": lerr or "",
                         "replay": {"impl": f"{saver_impl}->{loader.impl}", "script": script, "point": len(script)},
                         "layout": {"members": members, "keys": keys, "regs_len": regs_len}})
            saver.close()
            loader.close()
            try:
                os.unlink(path)
            except OSError:
                pass
    return recs


def _job(arg):
    shard_id, scripts, do_cross = arg
    mh = _imports()
    tmp = vlib.scratch("C16") / f"b{shard_id}"
    tmp.mkdir(parents=True, exist_ok=True)
    vh = Vh()
    recs: List[Dict[str, Any]] = []
    layouts: Dict[str, Any] = {}
    try:
        # third machine: a Python emulator constructed with the keyboard columns active LOW (a fresh matrix of that polarity idles at
        # KOL = 0xFF / KOH = 0x0F, so a saved strobe value of 0x00 differs from what the loading machine starts with); it runs the
        # scripts that touch the keyboard plus dedicated strobe scripts
        low_scripts = [sc for sc in scripts if any(a.get("ev") == "Key" or (a.get("ev") == "Step" and a["ins"]["k"] in ("STROBE", "READKIL")) for a in sc)][:6] + (polarity_scripts() if shard_id % 4 == 0 else [])
        for machine, scs in ((PyM(mh), scripts), (RsM(mh, vh), scripts), (PyM(mh, low=True), low_scripts)):
            if not scs:
                continue
            r, bundles = campaign(machine, scs, tmp, shard_id + (500 if getattr(machine, "low", False) else 0))
            if getattr(machine, "low", False):
                for x in r:
                    x["replay"] = dict(x["replay"], low=1)
            recs += r
            for path, _ in bundles:
                try:
                    os.unlink(path)
                except OSError:
                    pass
        if do_cross:
            xr = cross_records(mh, vh, shard_id, tmp, scripts[:6] + power_state_scripts())
            for r in xr:
                layouts.setdefault(r["impl"].split("->")[0], r.pop("layout"))
            recs += xr
    finally:
        vh.close()
        for f in tmp.glob("*"):
            try:
                f.unlink()
            except OSError:
                pass
    v = judge(shard_id, [{k: x for k, x in r.items() if k != "layout"} for r in recs])
    byid = {r["id"]: r for r in recs}
    bad = []
    for x in v[2]:
        r = byid[int(x[0])]
        k = int(x[2])
        detail = ""
        subs = sorted(str(f) for f in x[4]) if len(x) > 4 else []
        x = list(x)
        x[3] = str(x[3]) + ("." + "+".join(subs) if subs else "")
        comp0 = str(x[3]).split(".")[0]
        if str(x[1]) in ("SameFuture", "CrossLoad") and 1 <= k <= len(r["orig"]) and comp0 in r["orig"][k - 1]:
            detail = f"original {r['orig'][k - 1][comp0]} restored {r['rest'][k - 1][comp0]}"
            if comp0 == "pw":      # which power state became which: "off loaded as halted" is recorded, "off loaded as running" is not
                x[3] = f"pw={r['orig'][k - 1]['pw']}>{r['rest'][k - 1]['pw']}"
        bad.append((str(x[1]), r["impl"], str(x[3]), r["cls"], k, detail, r["lerr"], r["replay"]))
    return len(recs), bad[:3000], len(bad), layouts


def run(cr: CheckRun) -> None:
    mh = _imports()
    vlib.build_vh()
    # design level: the round trip is the identity over the whole reachable abstract state space
    res = run_tlc(SD, "MCSnapshot", "MCSnapshot_all.cfg", workers=vlib.NCPU, tag="C16-mc", timeout=1200)
    if res.invariant_violated or "Error:" in res.out:
        raise MachineryError("MCSnapshot_all failed:\n" + res.out[-1500:])
    cr.add_tlc("MCSnapshot_all (RoundTrip)", res)
    cr.mark("model")
    scripts = scripts_for(cr.tier, cr.seed)
    nsh = vlib.NCPU
    results = vlib.pmap(_job, [(i, scripts[i::nsh], i < 4) for i in range(nsh)])
    cr.mark("snapshots")
    n = sum(r[0] for r in results)
    layouts: Dict[str, Any] = {}
    for r in results:
        layouts.update(r[3])
        for clause, impl, comp, cls, k, detail, lerr, rep in r[1]:
            when = "load" if k <= 1 else "later"
            if clause == "Loads" and "expected i32" in str(lerr):
                comp = "value-beyond-i32"          # structural tag: a cycle-derived metadata value no longer fits the reader's integer type
            cr.violation(f"{clause}:{impl}:{comp or 'load'}:{cls}:{when}", f"{impl}: snapshot taken in state [{cls}] at script position {rep['point']}: component '{comp}' differs at continuation "
                         f"position {k} (1 = immediately after the load): {detail} {lerr}", rep)
    # bundle layout: the property's second sentence
    if "py" in layouts and "rs" in layouts:
        a, b = layouts["py"], layouts["rs"]
        if a["members"] != b["members"]:
            cr.violation("BundleMembers", f"bundle members differ: python {a['members']} rust {b['members']}", {"kind": "layout"})
        if a["regs_len"] != b["regs_len"]:
            cr.violation("RegisterBlob", f"registers.bin length differs: python {a['regs_len']} rust {b['regs_len']}", {"kind": "layout"})
        only_py = sorted(set(a["keys"]) - set(b["keys"]))
        only_rs = sorted(set(b["keys"]) - set(a["keys"]))
        for kname in only_py:
            cr.violation(f"MetadataFields:only-py:{kname}", f"snapshot.json field '{kname}' is written by Python only", {"kind": "layout"})
        for kname in only_rs:
            cr.violation(f"MetadataFields:only-rs:{kname}", f"snapshot.json field '{kname}' is written by Rust only", {"kind": "layout"})
    cr.cov["programs"] = n
    cr.cov["traces_validated_against_impl"] = n
    cr.cov["evaluations"] = n
    cr.cov["traces"] = n
    cr.cov["distinct_nontrivial"] = n
    cr.cov["rule"] = "(implementation, script, snapshot point) triples: every step index of every script is a snapshot point; K = 6 continuation items each"
    cr.add_sample({"script_items": len(scripts[0]), "continuation": K, "projection": ["pw", "regs", "imem", "ram", "lcd", "kbd", "timers", "irq", "cnt"]})
    cr.cov["trusted_base"] = ["harness/py/machine_harness.py", "vh rt module (rt.save / rt.load_snapshot / rt.dump)", "harness/rust/zip-shim (PKZIP subset standing in for the zip crate)", "TLC"]
    cr.assumptions += [
        "a fresh emulator = a new PCE500Emulator / CoreRuntime with the same ROM image and handler stub loaded, as a user would create before loading a snapshot",
        "projections are implementation-specific supersets of the property's list; original and restored runs of the SAME implementation are compared",
        "cross loading compares only the state visible immediately after the load (the two cores' futures differ for reasons recorded under C06/C12)",
    ]


def replay(path: str) -> int:
    mh = _imports()
    vlib.build_vh()
    rec = json.loads(Path(path).read_text())["replay"]
    if rec.get("kind") == "layout":
        return 1
    r = _job((99, [rec["script"]], "->" in rec["impl"]))
    hit = [b for b in r[1] if b[7]["point"] == rec["point"] and b[1] == rec["impl"] and int(b[7].get("low", 0)) == int(rec.get("low", 0))]
    for b in hit:
        print(b[:7])
    return 1 if hit else 0


def selftest(seed: int) -> int:
    return 0
