"""C18 - the virtual-time task scheduler wakes tasks exactly on time and in order.

spec/sched/Scheduler.tla       AsyncDriver::run_for step by step, scripted tasks, reference log
spec/sched/TraceScheduler.tla  validation of recorded runs of the real AsyncDriver
+ CPU equivalence: AsyncRuntimeRunner (any slice) vs CoreRuntime::step on generated programs.
"""
from __future__ import annotations

import json
import random
from pathlib import Path
from typing import Any, Dict, List, Tuple

import vlib
from vlib import CheckRun, MachineryError, SPEC, run_tlc, tlc_expect_ok, Vh

LEVEL = "model_checking"
SD = SPEC / "sched"
PROPERTY_CLAUSES = {"WakeExact", "TimeMonotone", "Accounting", "PartitionIndependent", "EventsOnceInOrder"}


def drive_one(vh: Vh, beh: Dict[str, Any], tid: int, hoist: bool = False) -> List[Dict[str, Any]]:
    scripts = beh["scripts"]
    c0 = int(beh.get("clock0", 0))
    vh.call("driver.new", scripts=scripts, hoist=hoist, clock=c0)
    ev = [{"tid": tid, "ev": "Init", "scripts": scripts, "clock0": c0}]
    if beh.get("policy") == "grow":
        # the caller's loop of AsyncRuntimeRunner::run_instructions: the same slice again, one cycle more after a run that returned
        # MaxCycles without executing a cycle; stop when every resumption and every event the scripts can produce has been seen
        slice_ = int(beh["slice0"])
        need_res = sum(1 + sum(1 for it in sc if it[0] == "S") for sc in scripts)
        need_ev = 0
        for sc in scripts:
            seg = False
            for it in sc + [["S", 0]]:
                if it[0] == "E":
                    seg = True
                else:
                    need_ev += int(seg)
                    seg = False
        maxsleep = max([it[1] for sc in scripts for it in sc if it[0] == "S"] or [0])
        fence = max(0, maxsleep + 1 - slice_) + need_res + need_ev + 2
        got_res = got_ev = runs = 0
        budgets = []
        while (got_res < need_res or got_ev < need_ev) and runs < fence + 5:
            r = vh.call("driver.run_for", b=slice_)
            runs += 1
            budgets.append(slice_)
            ev.append({"tid": tid, "ev": "RunFor", "b": slice_, "ret": {"ev": r["ev"], "cycles": r["cycles"]}, "clock": r["clock"], "newlog": r["newlog"]})
            got_res += len(r["newlog"])
            got_ev += int(r["ev"] != 0)
            if r["ev"] == 0 and r["cycles"] == 0:
                slice_ += 1
        beh["budgets"] = budgets
        beh["caller"] = {"runs": runs, "fence": fence, "done": got_res >= need_res and got_ev >= need_ev, "final_slice": slice_, "maxsleep": maxsleep}
        return ev
    for b in beh["budgets"]:
        r = vh.call("driver.run_for", b=b)
        ev.append({"tid": tid, "ev": "RunFor", "b": b, "ret": {"ev": r["ev"], "cycles": r["cycles"]}, "clock": r["clock"], "newlog": r["newlog"]})
    return ev


def drive_shard(shard_id: int, items: List[Dict[str, Any]], extra: Any):
    vh = Vh()
    events: List[Dict[str, Any]] = []
    meta: Dict[int, Any] = {}
    tid = shard_id * 10_000_000
    try:
        for k, beh in enumerate(items):
            tid += 1
            # every other behaviour runs with its sleep futures created at task start and awaited later (same meaning)
            hoist = (k % 2 == 1)
            beh = dict(beh)
            events.extend(drive_one(vh, beh, tid, hoist))
            meta[tid] = dict(beh, hoist=hoist)
    finally:
        vh.close()
    return events, meta


def _beh(acts) -> Dict[str, Any]:
    scripts = [[list(it) for it in sc] for sc in acts[0]["scripts"]]
    return {"scripts": scripts, "budgets": [a["b"] for a in acts[1:]]}


def campaign(cr: CheckRun, items: List[Dict[str, Any]], tag: str) -> None:
    if not items:
        return
    ntr, nev, bad = vlib.trace_campaign("C18", SD, "TraceScheduler", "TraceScheduler.cfg", items, drive_shard, tag)
    for b, beh in bad:
        rec = {"behaviour": beh, "clause": b["clause"], "line": b["line"], "detail": b["detail"]}
        if b["clause"] in PROPERTY_CLAUSES:
            cr.violation(b["clause"], f"AsyncDriver: {b['clause']} fails for scripts={beh['scripts']} budgets={beh['budgets']}"
                         f"{' (sleep futures created at task start)' if beh.get('hoist') else ''} detail={b['detail']}", rec)
        else:
            cr.add_drift(f"action=RunFor clause={b['clause']} scripts={beh['scripts']} budgets={beh['budgets'][:8]} detail={b['detail']}")
    cr.cov["traces_validated_against_impl"] += ntr
    cr.cov["evaluations"] += nev
    cr.cov.setdefault("campaigns", []).append({"name": tag, "traces": ntr, "events": nev, "rejected_steps": len(bad)})
    cr.add_sample({"campaign": tag, "behaviour": items[len(items) // 2]})


def random_behaviours(seed: int, n: int) -> List[Dict[str, Any]]:
    rnd = random.Random(seed)
    out = []
    for _ in range(n):
        nt = rnd.randint(1, 4)
        scripts = []
        for _t in range(nt):
            sc = []
            for _i in range(rnd.randint(0, 6)):
                if rnd.random() < 0.3:
                    sc.append(["E"])
                else:
                    sc.append(["S", rnd.choice([0, 0, 1, 1, 2, 3, 5, 9])])
            scripts.append(sc)
        budgets = [rnd.choice([1, 2, 3, 5, 8, 100]) for _ in range(rnd.randint(1, 25))]
        out.append({"scripts": scripts, "budgets": budgets})
        if len(out) % 3 == 0:     # a driver constructed on a clock that is already running (AsyncDriver::with_clock, as AsyncRuntimeRunner does)
            out[-1]["clock0"] = rnd.choice([1, 2, 7, 1000, 65535, 1_000_000])
    return out


def caller_behaviours(seed: int, n: int) -> List[Dict[str, Any]]:
    """scripts for the caller-policy campaign (SchedulerLive.tla, Policy = "grow"): sleeps well beyond the first slice"""
    rnd = random.Random(seed)
    out = []
    for k in range(n):
        scripts = []
        for _t in range(rnd.randint(1, 4)):
            sc = []
            for _i in range(rnd.randint(0, 7)):
                sc.append(["E"] if rnd.random() < 0.25 else ["S", rnd.choice([0, 1, 2, 3, 5, 9, 17, 40])])
            scripts.append(sc)
        beh = {"scripts": scripts, "budgets": [], "policy": "grow", "slice0": rnd.choice([1, 1, 2, 3, 10])}
        if k % 2:
            beh["clock0"] = rnd.choice([1, 7, 1000, 99999])
        out.append(beh)
    return out


def long_behaviours(seed: int, n: int) -> List[Dict[str, Any]]:
    """long horizons: hundreds of resumptions inside ONE budget (the pce500 binary calls run_for(u64::MAX)), many zero-cycle sleeps,
    the same scripts also cut into small budgets - anything that accumulates per call of run_for or per resumption shows here"""
    rnd = random.Random(seed)
    out = []
    for k in range(n):
        rounds = rnd.choice([70, 100, 140, 200])
        a, b = rnd.choice([(0, 3), (0, 1), (0, 0), (1, 0), (0, 5), (2, 0)])
        main = []
        for i in range(rounds):
            main += [["S", a], ["S", b]]
            if rnd.random() < 0.05:
                main.append(["E"])
        scripts = [main]
        if rnd.random() < 0.7:
            scripts.append([["S", rnd.choice([1, 2, 3])] for _ in range(rnd.choice([50, 150, 300]))])
        if rnd.random() < 0.3:
            scripts.append([["S", 0] for _ in range(rnd.choice([30, 90]))] + [["E"]])
        total = 4 * rounds + 50
        shape = k % 3
        if shape == 0:
            budgets = [1_000_000]
        elif shape == 1:
            budgets = [rnd.choice([7, 5, 11])] * (total // 5 + 2)
        else:
            budgets = [rnd.choice([1, 3, 50, 400]) for _ in range(40)] + [1_000_000]
        out.append({"scripts": scripts, "budgets": budgets})
    return out


# ------------------------------------------------------------------ CPU equivalence

def gen_program(rnd: random.Random) -> Dict[str, Any]:
    """A small program of safe instructions with a backward loop, placed at 0x1000."""
    # building blocks: (bytes) - register moves, ALU, IMEM stores, inc/dec, WAIT-free
    blocks = [
        [0x00],                      # NOP
        [0x08, rnd.randrange(256)],  # MV A, n
        [0x09, rnd.randrange(256)],  # MV IL, n
        [0x40, rnd.randrange(256)],  # ADD A, n
        [0x48, rnd.randrange(256)],  # SUB A, n
        [0x64, rnd.randrange(256)],  # CMP? / logic with imm
        [0x70, rnd.randrange(256)],  # AND A, n
        [0x78, rnd.randrange(256)],  # OR A, n
        [0x6C, 0x00],                # INC A (r3 code 0)
        [0x7C, 0x00],                # DEC A
        [0xA0, rnd.randrange(0x10, 0xE0)],  # MV (n), A
        [0x80, rnd.randrange(0x10, 0xE0)],  # MV A, (n)
        [0x97],                      # SC
        [0x9F],                      # RC
        [0xEE],                      # SWAP A
        [0xE4], [0xE5], [0xF4], [0xF5],  # ROR/ROL/SHR/SHL A
    ]
    body: List[int] = []
    for _ in range(rnd.randint(3, 12)):
        body += rnd.choice(blocks)
    prog = list(body)
    # occasionally a WAIT with small I, and a backward JR to loop
    if rnd.random() < 0.5:
        prog += [0x09, rnd.randrange(0, 6), 0xEF]      # MV IL,n ; WAIT
    back = len(prog) + 2
    if back < 0x80:
        prog += [0x13, back]                           # JR -back (loop forever)
    return {"loads": [[0x1000, prog]], "regs": {"PC": 0x1000, "S": 0xBFF00, "U": 0xBFE00},
            "timer": {"enabled": rnd.random() < 0.8, "pm": rnd.choice([0, 1, 2, 3, 7]), "ps": rnd.choice([0, 2, 5, 11])},
            "imem": [[0xFB, rnd.choice([0x00, 0x83, 0x81])]],
            "rom_overlays": [[0xFFFFA, [0x00, 0x20, 0x00]]]}


def gen_power_program(rnd: random.Random) -> Dict[str, Any]:
    """Programs that use the low-power states and the interrupt registers: firmware writes to ISR / IMR (requests latched by
    the program itself, masks opened and closed), HALT, OFF, IR, WAIT, a handler that acknowledges and returns - and host
    events (ON key, matrix keys, register pokes) between the budgets.  The synchronous loop's treatment of a halted or
    powered-off machine (waking, scrubbing of latched requests, idle cycles) is exactly what the scheduler-driven CPU must
    reproduce."""
    def fw():
        r = rnd.random()
        if r < 0.30:
            return [0xCC, 0xFC, rnd.choice([0x01, 0x02, 0x04, 0x08, 0x09, 0x03, 0x0F, 0x00])]      # MV (ISR), n
        if r < 0.55:
            return [0xCC, 0xFB, rnd.choice([0x00, 0x80, 0x81, 0x83, 0x88, 0x8F, 0x0F, 0x8B])]      # MV (IMR), n
        if r < 0.62:
            return [0xCC, 0xF0, rnd.choice([0x00, 0xFF, 0x01])]                                    # MV (KOL), n
        if r < 0.70:
            return [0x09, rnd.randrange(0, 5), 0xEF]                                               # MV IL,n ; WAIT
        if r < 0.76:
            return [0xFE]                                                                          # IR
        if r < 0.84:
            return [0x08, rnd.randrange(256)]
        if r < 0.90:
            return [0x40, rnd.randrange(256)]
        return [0x00]
    prog: List[int] = []
    for _ in range(rnd.randint(1, 5)):
        prog += fw()
    prog += [rnd.choice([0xDE, 0xDF, 0xDF])]                  # HALT / OFF
    for _ in range(rnd.randint(1, 5)):
        prog += fw()
    if rnd.random() < 0.5:
        prog += [rnd.choice([0xDE, 0xDF])]
        prog += fw()
    back = len(prog) + 2
    prog += [0x13, back] if back < 0x80 else [0x00]
    handler: List[int] = []
    for _ in range(rnd.randint(0, 3)):
        handler += rnd.choice([[0x00], [0xCC, 0xFC, 0x00], [0xCC, 0xFC, rnd.choice([0x0E, 0x07, 0x0B, 0x0D])], [0xCC, 0xFB, 0x8F], [0x08, 0x55]])
    handler += [0x01]                                          # RETI
    return {"loads": [[0x1000, prog], [0x2000, handler]], "regs": {"PC": 0x1000, "S": 0xBFF00, "U": 0xBFE00},
            "timer": {"enabled": rnd.random() < 0.8, "pm": rnd.choice([0, 1, 2, 3, 7, 30]), "ps": rnd.choice([0, 2, 5, 11, 50])},
            "imem": [[0xFB, rnd.choice([0x00, 0x83, 0x81, 0x8F, 0x88])], [0xFC, rnd.choice([0x00, 0x00, 0x01, 0x08, 0x04, 0x0A])]],
            "rom_overlays": [[0xFFFFA, [0x00, 0x20, 0x00]]]}


def _host_events(rnd: random.Random, nchunks: int) -> List[List[Any]]:
    out: List[List[Any]] = []
    for _ in range(nchunks):
        evs: List[Any] = []
        r = rnd.random()
        if r < 0.25:
            evs.append(["press_on"])
        elif r < 0.35:
            evs.append(["release_on"])
        elif r < 0.50:
            evs.append(["key", rnd.choice([0x00, 0x01, 0x0A, 0x21]), rnd.random() < 0.7])
        elif r < 0.60:
            evs.append(["imem", 0xFC, rnd.choice([0x01, 0x02, 0x08, 0x04])])
        out.append(evs)
    return out


def cpu_equivalence(cr: CheckRun, n: int) -> None:
    rnd = random.Random(cr.seed + 18)
    vh = Vh()
    done = 0
    try:
        for k in range(n):
            power = k % 2 == 1
            if power:
                cfg = gen_power_program(rnd)
            else:
                cfg = gen_program(rnd)
                cfg["loads"].append([0x2000, [0x01]])  # handler at 0x2000: RETI
            total = rnd.randint(1, 60)
            a = rnd.randint(0, total)
            b = rnd.randint(a, total)
            for chunks in ([total], [a, total - a], [a, b - a, total - b]):
                events = _host_events(rnd, len(chunks)) if power else []
                for slice_ in (1, 2, 3, 7, 10000):
                    r = vh.call("driver.cpu_equiv", cfg=cfg, chunks=chunks, slice=slice_, events=events, ranges=[[0xBFE00, 0x200]])
                    done += 1
                    if r["sync"] != r["async"] or r["sync_err"] != r["async_err"]:
                        diff = [k2 for k2 in r["sync"] if r["sync"][k2] != r["async"].get(k2)]
                        cr.violation("CpuEquivalence" + (":power" if power else ""),
                                     f"AsyncRuntimeRunner(slice={slice_}, chunks={chunks}) differs from CoreRuntime::step in {diff}",
                                     {"cfg": cfg, "chunks": chunks, "slice": slice_, "events": events, "diff_keys": diff,
                                      "sync": {k2: r["sync"][k2] for k2 in diff}, "async": {k2: r["async"][k2] for k2 in diff}})
            if k < 2:
                cr.add_sample({"campaign": "cpu-equivalence", "cfg": cfg, "instructions": total})
    finally:
        vh.close()
    cr.cov["cpu_equivalence_runs"] = done
    cr.cov["evaluations"] += done


def device_tasks(cr: CheckRun, n: int) -> None:
    """The device tasks of async_devices.rs are clients of the scheduler like any scripted task: the display task (an event every
    `period` cycles, `frames` times) and the timer/keyboard task (one tick per cycle) must be indistinguishable, under every
    partition into budgets, from the scripts [S period; E] x frames and [S 1] x ticks - whose behaviour Scheduler.tla fixes and
    the scripted campaign validates - and the machine ticked through the scheduler must equal the machine ticked by a plain loop."""
    rnd = random.Random(cr.seed + 181)
    vh = Vh()
    done = 0
    try:
        for k in range(n):
            period = rnd.choice([0, 1, 2, 3, 5, 8])
            frames = rnd.choice([0, 1, 2, 3, 4])
            clock0 = rnd.choice([0, 0, 7, 1000])
            budgets = [rnd.choice([1, 2, 3, 5, 9, 40]) for _ in range(rnd.randint(1, 8))]
            total = sum(budgets)
            endless = rnd.random() < 0.4
            ticks = 0 if endless else rnd.choice([1, 2, 5, total, total + 3, max(1, total - 2)])
            off = endless and rnd.random() < 0.3
            cfg = {"timer": {"enabled": rnd.random() < 0.9, "pm": rnd.choice([0, 1, 2, 3, 7]), "ps": rnd.choice([0, 2, 5, 11])},
                   "imem": [[0xFB, rnd.choice([0x00, 0x83])]]}
            r = vh.call("driver.devices", cfg=cfg, ticks=ticks, period=period, frames=frames, clock=clock0, budgets=budgets, off=off)
            scripts = [[["S", 1]] * (ticks if ticks else total + 5)]
            if frames:
                scripts.append(sum(([["S", max(1, period)], ["E"]] for _ in range(frames)), []))
            vh.call("driver.new", scripts=scripts, clock=clock0)
            want = []
            for b in budgets:
                q = vh.call("driver.run_for", b=b)
                want.append([1 if q["ev"] else 0, q["clock"], q["cycles"]])
            got = [[1 if x[0] else 0, x[1], x[2]] for x in r["runs"]]
            done += 1
            rep = {"kind": "devices", "cfg": cfg, "ticks": ticks, "period": period, "frames": frames, "clock": clock0, "budgets": budgets, "off": off}
            if got != want:
                cr.violation("DeviceTaskAsScript", f"display task (period {period}, {frames} frames) + timer task ({ticks or 'endless'} ticks) under budgets {budgets}: "
                             f"run_for returned (event, clock, cycles) {got}, the equivalent scripted tasks {want}", rep)
            elif r["async"]["timer"] != r["sync"]["timer"] or r["async"]["imem"] != r["sync"]["imem"]:
                dk = [k2 for k2 in r["sync"]["timer"] if r["sync"]["timer"][k2] != r["async"]["timer"].get(k2)]
                cr.violation("DeviceTickEquivalence", f"timer/keyboard task ({ticks or 'endless'} ticks, off={off}) under budgets {budgets} from clock {clock0}: the machine differs from one "
                             f"ticked by a plain loop in timer fields {dk} / ISR {r['async']['imem'][0xFC]:#x} vs {r['sync']['imem'][0xFC]:#x}", rep)
            if k == 0:
                cr.add_sample({"campaign": "device-tasks", **rep})
    finally:
        vh.close()
    cr.cov["device_task_runs"] = done
    cr.cov["evaluations"] += done


def live_model(cr: CheckRun, quick: bool) -> None:
    """SchedulerLive.tla: liveness under weak fairness, no state constraint.  Progress / EveryWake hold for the two callers the
    repository has (growing slice, one huge budget) and FAIL for a caller that repeats a small budget - the contrast is run every
    time as the vacuity guard of the two properties."""
    from concurrent.futures import ThreadPoolExecutor
    t = "quick" if quick else "thorough"
    jobs = [(f"MCSchedulerLive_grow_{t}.cfg", True), (f"MCSchedulerLive_max_{t}.cfg", True), ("MCSchedulerLive_fixed_quick.cfg", False)]
    def one(j):
        cfg, _ = j
        return j, run_tlc(SD, "MCSchedulerLive", cfg, workers=max(2, vlib.NCPU // 3), tag="C18-" + cfg, timeout=3400, heap="6g")
    with ThreadPoolExecutor(3) as ex:
        for (cfg, expect_ok), res in ex.map(one, jobs):
            violated = "Temporal propert" in res.out and "violated" in res.out
            if expect_ok:
                if violated or res.invariant_violated:
                    raise MachineryError(f"SchedulerLive ({cfg}) violates a property:\n" + res.out[-1500:])
                tlc_expect_ok(res, cfg)
                cr.add_tlc(cfg, res)
            elif not violated:
                raise MachineryError(f"vacuity: the fixed-budget caller of {cfg} was expected to stall (Progress violated) and did not")
    cr.mark("liveness")


def _caller_job(arg):
    shard_id, items = arg
    vh = Vh()
    out = []
    try:
        for beh in items:
            beh = dict(beh)
            drive_one(vh, beh, 1)
            c = beh["caller"]
            if not c["done"] or c["runs"] > c["fence"] or max(beh["budgets"] or [0]) > max(int(beh["slice0"]), c["maxsleep"] + 1):
                out.append(beh)
    finally:
        vh.close()
    return len(items), out


def caller_progress(cr: CheckRun, items: List[Dict[str, Any]]) -> None:
    # progress and the bound on the number of runs / on the slice (the liveness side; not a sentence of C18 -> drift)
    res = vlib.pmap(_caller_job, [(i, sh) for i, sh in enumerate(vlib.shard_list(items, vlib.NCPU))])
    stuck = [b for r in res for b in r[1]]
    for beh in stuck[:10]:
        cr.add_drift(f"action=Caller clause=CallerProgress scripts={beh['scripts']} slice0={beh['slice0']} clock0={beh.get('clock0', 0)} caller={beh['caller']}")
    cr.cov["caller_policy_runs"] = sum(r[0] for r in res)
    cr.cov["caller_policy_stuck"] = len(stuck)
    ntr, nev, bad = vlib.trace_campaign("C18", SD, "TraceScheduler", "TraceScheduler.cfg", items, drive_shard, "caller-policy")
    for b, beh in bad:
        rec = {"behaviour": beh, "clause": b["clause"], "line": b["line"], "detail": b["detail"]}
        if b["clause"] in PROPERTY_CLAUSES:
            cr.violation(b["clause"], f"AsyncDriver under the growing-slice caller: {b['clause']} fails for scripts={beh['scripts']} budgets={beh['budgets'][:12]} clock0={beh.get('clock0', 0)} detail={b['detail']}", rec)
        else:
            cr.add_drift(f"action=RunFor clause={b['clause']} (caller policy) scripts={beh['scripts']} detail={b['detail']}")
    cr.cov["traces_validated_against_impl"] += ntr
    cr.cov["evaluations"] += nev
    cr.cov.setdefault("campaigns", []).append({"name": "caller-policy", "traces": ntr, "events": nev, "rejected_steps": len(bad)})
    cr.mark("caller-policy")


def run(cr: CheckRun) -> None:
    vlib.build_vh()
    quick = cr.tier == "quick"
    cfg = "MCScheduler_quick.cfg" if quick else "MCScheduler_thorough.cfg"
    res = run_tlc(SD, "MCScheduler", cfg, workers=vlib.NCPU, extra=["-coverage", "1"], tag="C18-" + cfg, timeout=3400, heap="12g")
    if res.invariant_violated:
        raise MachineryError(f"Scheduler model violates {res.invariant_violated}")
    tlc_expect_ok(res, cfg)
    cov = res.coverage_actions()
    for act in ("RunForBegin", "PopEarliest", "ReturnMax", "Poll", "EndOfCycle"):
        if act in cov and cov[act][1] == 0:
            raise MachineryError(f"vacuity: {act} never taken")
    cr.add_tlc(cfg, res)
    vals, res = vlib.dump_behaviours(SD, "MCScheduler", "MCScheduler_replay.cfg", "C18", var="acts", coverage=False)
    if res.invariant_violated:
        raise MachineryError(f"Scheduler replay model violates {res.invariant_violated}")
    tlc_expect_ok(res, "replay")
    cr.add_tlc("replay-model", res)
    items = [_beh(v) for v in vals if len(v) > 1]
    campaign(cr, items, "exhaustive-replay")
    sims, res = vlib.sim_behaviours(SD, "MCScheduler", "MCScheduler_sim.cfg", 300 if quick else 3000, 200, cr.seed, "C18", var="acts")
    if res.invariant_violated:
        raise MachineryError(f"Scheduler model violates {res.invariant_violated} (simulate)")
    sitems = [_beh(v) for v in sims if len(v) > 1]
    campaign(cr, sitems, "simulate-4tasks")
    rnd = random_behaviours(cr.seed, 1500 if quick else 20000)
    campaign(cr, rnd, "random")
    campaign(cr, long_behaviours(cr.seed + 18, 32 if quick else 600), "long-horizon")
    live_model(cr, quick)
    caller_progress(cr, caller_behaviours(cr.seed + 29, 300 if quick else 5000))
    cpu_equivalence(cr, 120 if quick else 1500)
    device_tasks(cr, 400 if quick else 6000)
    cr.cov["distinct_nontrivial"] = len({json.dumps(b, sort_keys=True) for b in items + sitems + rnd})
    cr.cov["rule"] = "distinct (task scripts, budget sequence) behaviours executed on the real AsyncDriver"
    cr.cov["trusted_base"] = ["vh harness (driver.rs, rt.rs)", "TLC", "lib/vlib.py"]
    cr.assumptions += [
        "all tasks are spawned before the first run_for (as AsyncRuntimeRunner and the pce500 binary do), in script order",
        "run_for does not advance the clock to the target when the next wake lies beyond the budget (stall); the property constrains when and in which order tasks resume, so a stalled run is not a violation (prefix formulation)",
        "CPU equivalence compares registers, IMEM, stack RAM window, external-memory hash, LCD hash, timers/interrupt bookkeeping, instruction and cycle counters",
    ]


def replay(path: str) -> int:
    vlib.build_vh()
    rec = json.loads(Path(path).read_text())["replay"]
    vh = Vh()
    try:
        if "behaviour" in rec:
            ev = drive_one(vh, rec["behaviour"], 1, bool(rec["behaviour"].get("hoist")))
            for e in ev:
                print(json.dumps(e))
            bad = vlib.tlc_judge_trace("C18", SD, "TraceScheduler", "TraceScheduler.cfg", ev, "replay")
            for b in bad:
                print("REJECTED", b)
            return 1 if any(b["clause"] in PROPERTY_CLAUSES for b in bad) else 0
        if rec.get("kind") == "devices":
            r = vh.call("driver.devices", cfg=rec["cfg"], ticks=rec["ticks"], period=rec["period"], frames=rec["frames"], clock=rec["clock"], budgets=rec["budgets"], off=rec["off"])
            print("runs:", r["runs"], "timer equal:", r["async"]["timer"] == r["sync"]["timer"])
            return 1 if r["async"]["timer"] != r["sync"]["timer"] or r["async"]["imem"] != r["sync"]["imem"] else 0
        r = vh.call("driver.cpu_equiv", cfg=rec["cfg"], chunks=rec["chunks"], slice=rec["slice"], events=rec.get("events", []), ranges=[[0xBFE00, 0x200]])
        diff = [k for k in r["sync"] if r["sync"][k] != r["async"].get(k)]
        print("diff keys:", diff)
        return 1 if diff else 0
    finally:
        vh.close()


def selftest(seed: int) -> int:
    vlib.build_vh()
    vh = Vh()
    try:
        beh = {"scripts": [[["S", 3], ["E"], ["S", 2]], [["S", 0], ["S", 3], ["E"]]], "budgets": [2, 100, 100, 100]}
        ev = drive_one(vh, beh, 1)
    finally:
        vh.close()
    ok = True
    if vlib.tlc_judge_trace("C18", SD, "TraceScheduler", "TraceScheduler.cfg", ev, "self0"):
        print("selftest: pristine trace rejected"); ok = False
    bad = json.loads(json.dumps(ev))
    bad[2]["newlog"][0][2] = 4  # task resumed one cycle late
    if not vlib.tlc_judge_trace("C18", SD, "TraceScheduler", "TraceScheduler.cfg", bad, "self1"):
        print("selftest: corrupted trace accepted"); ok = False
    sw = json.loads(json.dumps(ev))
    sw[2]["newlog"] = sw[2]["newlog"][::-1]  # same-cycle order swapped
    if not vlib.tlc_judge_trace("C18", SD, "TraceScheduler", "TraceScheduler.cfg", sw, "self2"):
        print("selftest: reordered trace accepted"); ok = False
    dropped = ev[:3] + ev[4:]
    if not vlib.tlc_judge_trace("C18", SD, "TraceScheduler", "TraceScheduler.cfg", dropped, "self3"):
        print("selftest: trace with dropped event accepted"); ok = False
    print("selftest C18:", "ok" if ok else "FAILED")
    return 0 if ok else 2
