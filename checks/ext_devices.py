"""ext_devices - the memory / device part of the specification beyond C11.

(1) RomLoad   spec/mem/RomLoad.tla (+ MCRomLoad, JudgeRomLoad): how ROM / system images of any length are placed by the device
              loaders (Rust pce500.rs / iq7000.rs / device.rs / CoreRuntime::load_rom, Python PCE500Memory.load_rom / add_rom,
              PCE500Emulator.load_rom / reset / bootstrap_from_rom_image), which ranges become read-only, what reset reads.
              TLC model-checks the placement at a reduced geometry; real loader runs over a palette of lengths (0 .. > 1 MiB,
              position-dependent bytes) are probed and batch-judged by TLC against the same operators at the real geometry,
              both implementations against the model and against each other.
(2) ImemRegs  spec/mem/ImemRegs.tla (+ MCImemRegs, TraceImemRegs): the 256-byte internal memory as a state machine: plain RAM
              plus the offsets intercepted by devices (keyboard KOL/KOH/KIL, UART UCR/USR/RXD/TXD, SSR / ON key), per machine.
              TLC behaviours are replayed on the Rust MemoryImage / SioStub / CoreRuntime (through vh) and on the Python
              PCE500Memory / PCE500Emulator; seeded random sequences are validated by TLC (TraceImemRegs).

Verdicts: RomLoad:RomImmutable / RomLoad:AliasCanonical / ImemRegs:PlainRAW are sentences of property C11 and are reported as
violations; every other disagreement is model drift.  Differences between the Python and the Rust machine that the model
already describes are listed as drift lines "py/rs differ (modelled)".

Try it:  VERIF_BUILD=$PWD/build /venv/bin/python checks/ext_devices.py [quick|thorough|selftest]
"""
from __future__ import annotations

import json
import os
import random
import sys
import time
from pathlib import Path
from typing import Any, Dict, List, Optional, Tuple

sys.path.insert(0, str(Path(__file__).resolve().parent.parent / "lib"))
import vlib  # noqa: E402
from vlib import CheckRun, MachineryError, SPEC, run_tlc, tlc_expect_ok, Vh  # noqa: E402

LEVEL = "model_checking"
PID = "EXT"
SD = SPEC / "mem"
WORKERS = 8            # upper bound on parallel jobs / TLC workers of this module

# ============================================================================================================ RomLoad
SYS, WIN0, WINLEN, RAM0, RAMLEN = 0x100000, 0xC0000, 0x40000, 0xB8000, 0x8000
WRAP = 1 << 24
# the palette the task names: 0, 1, shorter than the window, window-1, window, window+1, between, 1 MiB - 1, 1 MiB, +1, longer
LENGTHS = [0, 1, 0x1234, 0x3FFFF, 0x40000, 0x40001, 0x9ABCD, 0xFFFFF, 0x100000, 0x100001, 0x154321]
FIXED_PROBES = [0x00000, 0x00001, 0x10000, 0x3FFFF, 0x50000, 0x7FFFF, 0x80000, 0x87FFF, 0x88000, 0xB7FFF, 0xB8000, 0xBFFFE, 0xBFFFF,
                0xC0000, 0xC0001, 0xC1233, 0xDFFFF, 0xE0000, 0xFFEFF, 0xFFF00, 0xFFFF9, 0xFFFFA, 0xFFFFB, 0xFFFFC, 0xFFFFD, 0xFFFFE, 0xFFFFF]
CARD_PROBES = [0x40000, 0x41FFF, 0x4FFFF]        # Rust-only runs (the Python card slot is a device of its own, left to C11)
# reduced geometry of MCRomLoad -> real geometry (monotone, keeps every boundary relation)
RED_LEN = {0: 0, 1: 1, 5: 0x14005, 15: 0x3FFFF, 16: 0x40000, 17: 0x40001, 40: 0xA0028, 63: 0xFFFFF, 64: 0x100000, 65: 0x100001, 85: 0x154055}
RED_START = {0: 0, 20: 0x50000, 40: 0xA0000, 60: 0xF0000}
RED_ADDR = {0: 0, 15: 0x3FFFF, 16: 0x50000, 33: 0x84001, 46: 0xB8000, 47: 0xBFFFF, 48: 0xC0000, 52: 0xD0000, 63: 0xFFFFF, 63 + 1024: 0xFFFFF + WRAP}
RS_IMPLS = ("rs_rt", "rs_mem")


def img(g: int, src0: int, n: int) -> bytes:
    """bytes src0 .. src0+n-1 of image generation g (same formula as RomLoad!ImgByte and romload.rs)"""
    import numpy as np
    i = np.arange(src0, src0 + n, dtype=np.int64)
    return ((i * 7 + (i >> 8) * 13 + (i >> 16) * 29 + g * 101 + 3) & 0xFF).astype(np.uint8).tobytes()


def op(name: str, g: int = 0, n: int = 0, src0: int = 0, start: int = 0) -> Dict[str, Any]:
    return {"op": name, "g": g, "n": n, "src0": src0, "start": start}


def probes_for(ops: List[Dict[str, Any]], rnd: random.Random, card: bool) -> List[List[int]]:
    """[address, alias] pairs: the fixed palette plus both sides of every boundary the operations create"""
    addrs = set(FIXED_PROBES)
    if card:
        addrs.update(CARD_PROBES)
    for o in ops:
        n, s = o["n"], o["start"]
        if o["op"] in ("window", "iq", "window_mem", "iq_mem", "system", "system_mem", "configure_pce500", "configure_jp", "configure_iq", "py_load_rom"):
            e = WIN0 + min(n, WINLEN)
            addrs.update({e - 1, e, e + 1})
        if o["op"] in ("load_rom_at", "py_add_rom"):
            addrs.update({s - 1, s, s + 1, s + n - 1, s + n, s + n + 1})
    out = []
    for a in sorted(addrs):
        if not (0 <= a < SYS) or 0x2000 <= a <= 0x200F or 0xA000 <= a <= 0xAFFF or (not card and 0x40000 <= a <= 0x4FFFF):
            continue
        alias = a + rnd.randrange(1, 256) * WRAP
        out.append([a, alias, alias if rnd.random() < 0.4 else a])     # [address, alias that is loaded, address the stores go through]
    return out


def rs_rom_run(vh: Vh, impl: str, ops, probes) -> Dict[str, Any]:
    r = vh.call("rom.run", target="rt" if impl == "rs_rt" else "mem", ops=ops, probes=probes)
    return {"impl": impl, "ops": ops, "errs": [0 if e is None else 1 for e in r["errs"]], "pc": r["pc"], "imr": r["imr"], "isr": r["isr"],
            "ro": r["ro"], "vec": r["vec"], "probes": [p + [(p[2] ^ 0xA5) & 0xFF, q[2]] for p, q in zip(r["probes"], probes)]}


def py_rom_run(impl: str, ops, probes) -> Dict[str, Any]:
    from pce500.memory import PCE500Memory
    emu = None
    if impl == "py_emu":
        from pce500.emulator import PCE500Emulator
        emu = PCE500Emulator(trace_enabled=False, perfetto_trace=False, save_lcd_on_exit=False)
        m = emu.memory
    else:
        m = PCE500Memory()
    errs = []
    for o in ops:
        k, e = o["op"], 0
        blob = img(o["g"], o["src0"], o["n"]) if k in ("py_load_rom", "py_add_rom", "py_bootstrap") else b""
        if k == "py_load_rom":
            (emu.load_rom(blob) if emu is not None else m.load_rom(blob))
        elif k == "py_add_rom":
            (emu.load_rom(blob, o["start"]) if emu is not None else m.add_rom(o["start"], blob, "Loaded ROM"))
        elif k == "py_reset":
            emu.reset()
        elif k == "py_bootstrap":
            try:
                emu.bootstrap_from_rom_image(blob)
            except ValueError:
                e = 1
        elif k == "store":
            m.write_byte(o["start"], o["n"])
        else:
            raise MachineryError(f"operation {k} has no Python counterpart")
        errs.append(e)
    pc = 0
    if emu is not None:
        from sc62015.pysc62015.emulator import RegisterName
        pc = int(emu.cpu.regs.get(RegisterName.PC))
    out = []
    for a, alias, via in probes:
        before = m.read_byte(a)
        marker = (before ^ 0xA5) & 0xFF
        m.write_byte(via, marker)
        after = m.read_byte(a)
        alias_after = m.read_byte(alias)
        m.write_byte(via, before)
        out.append([a, alias, before, after, alias_after, m.read_byte(a), marker, via])
    ro = [[o.start, o.end] for o in m.overlays if o.read_only]
    return {"impl": impl, "ops": ops, "errs": errs, "pc": pc, "imr": int(m.external_memory[-256 + 0xFB]), "isr": int(m.external_memory[-256 + 0xFC]),
            "ro": ro, "vec": [m.read_byte(SYS - 3 + i) for i in range(3)], "probes": out}


def rom_scenarios(seed: int, quick: bool, tlc_acts: List[Any]) -> List[List[Tuple[str, List[Dict[str, Any]]]]]:
    """a scenario = list of (impl, ops) run on the same probe list; two entries = a Rust/Python pair"""
    sc: List[List[Tuple[str, List[Dict[str, Any]]]]] = []
    g = 1
    for n in LENGTHS:
        sc.append([("rs_rt", [op("window", g, n), op("reset")]), ("py_emu", [op("py_load_rom", g, n), op("py_reset")])])
        sc.append([("rs_mem", [op("window_mem", g + 1, n)]), ("py_mem", [op("py_load_rom", g + 1, n)])])
        if n == SYS:
            # the command-line idiom of pce500/run_pce500.py: ROM part into the overlay, then bootstrap from the full image
            sc.append([("rs_rt", [op("system", g + 2, n), op("reset")]),
                       ("py_emu", [op("py_load_rom", g + 2, WINLEN, WIN0), op("py_bootstrap", g + 2, n)])])
        else:
            sc.append([("rs_rt", [op("system", g + 2, n), op("reset")])])
            sc.append([("py_emu", [op("py_load_rom", g + 2, min(n, WINLEN), max(0, n - WINLEN)), op("py_bootstrap", g + 3, n)])])
        sc.append([("rs_rt", [op("iq", g + 4, n), op("reset")])])
        sc.append([("rs_mem", [op("system_mem", g + 5, n)])])
        sc.append([("rs_mem", [op("iq_mem", g + 6, n), op("map"), op("seed")])])
        sc.append([("rs_rt", [op("configure_pce500", g + 7, n), op("reset")])])
        sc.append([("rs_rt", [op("configure_jp", g + 8, n), op("reset")])])
        sc.append([("rs_rt", [op("configure_iq", g + 9, n), op("reset")])])
        for start in ((0xB8000,) if quick else (0, 0xB8000, 0xFFFF0)):
            sc.append([("rs_rt", [op("load_rom_at", g + 10, n, 0, start)])])
        if n <= 0x1234:
            sc.append([("py_mem", [op("py_add_rom", g + 11, n, 0, 0x20000)])])
            sc.append([("py_emu", [op("py_load_rom", g + 12, WINLEN), op("py_add_rom", g + 11, n, 0, 0x50000), op("py_reset")])])
        g += 13
    # histories: a second image over the first (the Rust loaders keep the stale tail of a longer first image, Python replaces)
    pairs = [(0x40000, 0x1234), (0x154321, 1), (0x1234, 0x40001), (0x100000, 0)] if quick else [(a, b) for a in LENGTHS for b in LENGTHS if a != b]
    for a, b in pairs:
        sc.append([("rs_rt", [op("window", g, a), op("window", g + 1, b), op("reset")]), ("py_emu", [op("py_load_rom", g, a), op("py_load_rom", g + 1, b), op("py_reset")])])
        sc.append([("rs_rt", [op("system", g + 2, a), op("window", g + 3, b), op("reset")])])
        g += 4
    # TLC behaviours of MCRomLoad (history variable `acts`, reduced geometry) mapped to the real geometry
    for acts in tlc_acts:
        ops_ = []
        for a in acts:
            k = a["op"]
            if k == "store":
                ops_.append(op("store", 0, a["n"], 0, RED_ADDR[a["start"]]))
            elif k in ("load_rom_at", "py_add_rom"):
                ops_.append(op(k, a["g"] + 1000, RED_LEN[a["n"]], 0, RED_START[a["start"]]))
            elif k in ("reset", "map", "seed", "py_reset"):
                ops_.append(op(k))
            else:
                ops_.append(op(k, a["g"] + 1000, RED_LEN[a["n"]]))
        kinds = {o["op"] for o in ops_}
        if kinds & {"py_load_rom", "py_add_rom", "py_reset", "py_bootstrap"}:
            impls = ["py_emu"] if kinds & {"py_reset", "py_bootstrap"} else ["py_mem", "py_emu"]
        elif kinds & {"window", "system", "iq", "load_rom_at", "reset"}:
            impls = ["rs_rt"]
        elif kinds & {"window_mem", "system_mem", "iq_mem", "map", "seed"}:
            impls = ["rs_mem"]
        else:
            impls = ["rs_rt", "rs_mem", "py_mem", "py_emu"]       # stores only
        for im in impls:
            sc.append([(im, ops_)])
    return sc


def _rom_job(arg) -> Dict[str, Any]:
    """drive one shard of scenarios on the real loaders, let TLC judge the records"""
    shard, scenarios, seed = arg
    vlib.setup_repo_imports()
    vh = Vh()
    recs, meta = [], {}
    try:
        for sid, runs in scenarios:
            rnd = random.Random(seed * 1000003 + sid)
            card = all(im in RS_IMPLS for im, _ in runs)
            allops = [o for _, ops_ in runs for o in ops_]
            probes = probes_for(allops, rnd, card)
            out = []
            for im, ops_ in runs:
                if im in RS_IMPLS:
                    out.append(rs_rom_run(vh, im, ops_, probes))
                else:
                    out.append(py_rom_run(im, ops_, probes))
            recs.append({"sid": sid, "runs": out})
            meta[sid] = [(im, ops_) for im, ops_ in runs]
    finally:
        vh.close()
    bad, cross, res = judge_rom(recs, f"shard{shard}")
    return {"n": len(recs), "runs": sum(len(r["runs"]) for r in recs), "probes": sum(len(x["probes"]) for r in recs for x in r["runs"]),
            "bad": bad, "cross": cross, "meta": {b[0]: meta[b[0]] for b in bad}, "cmeta": {c[0]: meta[c[0]] for c in cross},
            "sample": recs[0] if recs else None}


def judge_rom(recs: List[Dict[str, Any]], tag: str):
    d = vlib.scratch(PID)
    tf = d / f"romload-{tag}.ndjson"
    vlib.write_ndjson(tf, recs)
    res = run_tlc(SD, "JudgeRomLoad", "JudgeRomLoad.cfg", workers=1, env={"TRACE_FILE": str(tf)}, tag=f"{PID}-judge-rom-{tag}", timeout=1500, heap="3g")
    verdict = None
    for v in res.printed():
        if isinstance(v, tuple) and len(v) == 4 and v[0] == "JUDGE":
            verdict = v
    if verdict is None or verdict[1] != len(recs):
        raise MachineryError(f"JudgeRomLoad did not complete ({tag}):\n{res.out[-2500:]}")
    tf.unlink()
    return [list(b) for b in verdict[2]], [list(c) for c in verdict[3]], res


def region(a: int) -> str:
    a &= WRAP - 1
    if a <= 0x3FFFF:
        return "low 0x00000-0x3FFFF"
    if a <= 0x4FFFF:
        return "card slot"
    if a < 0x80000:
        return "0x50000-0x7FFFF"
    if a < RAM0:
        return "mirror window 0x80000-0xB7FFF"
    if a < WIN0:
        return "internal RAM 0xB8000-0xBFFFF"
    return "ROM window"


def shape(ops) -> str:
    def cls(o):
        n = o["n"]
        if o["op"] in ("reset", "py_reset", "map", "seed", "store"):
            return o["op"]
        c = "0" if n == 0 else "<win" if n < WINLEN else "=win" if n == WINLEN else "<sys" if n < SYS else "=sys" if n == SYS else ">sys"
        return f"{o['op']}({c})"
    return ";".join(cls(o) for o in ops)


ROM_VIOLATION_CLAUSES = {"RomImmutable": "writes to ROM or read-only windows never change what is read",
                         "AliasCanonical": "every address is first reduced to its canonical form (24-bit wrap), so all aliases of a location read the same value"}


def rom_campaign(cr: CheckRun, quick: bool, results: List[Dict[str, Any]]) -> None:
    nrec = nruns = nprobes = 0
    seen_drift, seen_cross = set(), set()
    for r in results:
        nrec += r["n"]; nruns += r["runs"]; nprobes += r["probes"]
        if r["sample"] is not None:
            s = r["sample"]
            cr.add_sample({"romload_scenario": s["sid"], "runs": [{"impl": x["impl"], "ops": x["ops"], "pc": x["pc"], "probes": x["probes"][:3]} for x in s["runs"]]}, cap=3)
        for b in r["bad"]:
            sid, j, clause, detail = b
            im, ops_ = r["meta"][sid][j - 1]
            if clause in ROM_VIOLATION_CLAUSES:
                a = detail
                key = ("V", clause, im, region(a), shape(ops_))
                if key in seen_drift:          # one violation per (clause, implementation, region, shape of the operations)
                    continue
                seen_drift.add(key)
                cr.violation(f"RomLoad:{clause}:{im}:{region(a)}",
                             f"{im} after {shape(ops_)}: {clause} fails at {a:#x} - C11: '{ROM_VIOLATION_CLAUSES[clause]}'",
                             {"part": "RomLoad", "impl": im, "ops": ops_, "addr": a, "clause": clause})
            else:
                key = (clause, im, shape(ops_), region(detail) if isinstance(detail, int) else "")
                if key not in seen_drift:
                    seen_drift.add(key)
                    cr.add_drift(f"action=RomLoad clause={clause} impl={im} ops={shape(ops_)} detail={detail if not isinstance(detail, int) else hex(detail)}")
        for c in r["cross"]:
            sid, dB, mB, dW, mW, dP, mP = c
            (ia, oa), (ib, ob) = r["cmeta"][sid]
            for what, diff, mod in (("content", dB, mB), ("writable", dW, mW)):
                for a in sorted(diff):
                    key = (what, shape(oa), region(a), a in mod)
                    if key not in seen_cross:
                        seen_cross.add(key)
                        cr.cov.setdefault("py_rs_differences", []).append(
                            {"part": "RomLoad", "what": what, "rs": shape(oa), "py": shape(ob), "region": region(a), "example": hex(a), "modelled": a in mod})
            if dP:
                key = ("pc", shape(oa), "", bool(mP))
                if key not in seen_cross:
                    seen_cross.add(key)
                    cr.cov.setdefault("py_rs_differences", []).append({"part": "RomLoad", "what": "pc after reset", "rs": shape(oa), "py": shape(ob),
                                                                        "example": [hex(x) for x in list(dP)[0]], "modelled": bool(mP)})
    # one drift line per class of difference between the machines
    classes: Dict[Tuple[str, str, bool], List[Any]] = {}
    for dct in cr.cov.get("py_rs_differences", []):
        if dct["part"] == "RomLoad":
            classes.setdefault((dct["what"], dct.get("region", ""), dct["modelled"]), []).append(dct)
    for (what, reg, modelled), lst in sorted(classes.items(), key=str):
        cr.add_drift(f"action=RomLoad py/rs differ ({'modelled' if modelled else 'NOT modelled'}): {what} {reg} in {len(lst)} scenario shape(s), e.g. rs {lst[0]['rs']} / py {lst[0]['py']} at {lst[0]['example']}")
    cr.cov["evaluations"] += nprobes
    cr.cov["traces_validated_against_impl"] += nruns
    cr.cov["romload"] = {"scenarios": nrec, "loader_runs": nruns, "probes_judged": nprobes, "lengths": [hex(n) for n in LENGTHS]}




# ============================================================================================================ ImemRegs
MACHINES = ("rsmem", "pymem", "rsstub", "rsrt", "rssio", "pyemu")
RS_MACHINES = ("rsmem", "rsstub", "rsrt", "rssio")
HAS_ONKEY = ("rsrt", "rssio", "pyemu")
RUNTIME = ("rsrt", "rssio")                # accesses are executed instructions: IMR is never written with its master bit (C12's subject)
KBD = (0xF0, 0xF1, 0xF2)
IMEM0 = 0x100000
# the machines that stand for the same thing on both sides
PAIRS = (("rsmem", "pymem"), ("rssio", "pyemu"))


class PyImem:
    def __init__(self, machine: str):
        from pce500.memory import PCE500Memory
        self.emu = None
        if machine == "pyemu":
            from pce500.emulator import PCE500Emulator
            self.emu = PCE500Emulator(trace_enabled=False, perfetto_trace=False, save_lcd_on_exit=False)
            self.m = self.emu.memory
        else:
            self.m = PCE500Memory()
        self.prev = bytes(self.m.external_memory[-256:])

    def init(self) -> List[int]:
        return list(self.prev)

    def run(self, ops) -> List[Dict[str, Any]]:
        out = []
        for o in ops:
            k, ret = o[0], -1
            if k == "W":
                self.m.write_byte(IMEM0 + o[1], o[2])
            elif k == "R":
                ret = int(self.m.read_byte(IMEM0 + o[1]))
            elif k == "OnKey":
                (self.emu.press_key if o[1] else self.emu.release_key)("KEY_ON")
            elif k == "SioRx":
                self.emu.peripherals.serial.queue_receive(o[1])
            elif k == "SioConsume":
                self.emu.peripherals.serial.consume_received()
            elif k == "SioTxDone":
                self.emu.peripherals.serial.complete_transmit()
            else:
                raise MachineryError(f"unknown op {k}")
            now = bytes(self.m.external_memory[-256:])
            out.append({"ret": ret, "delta": [[i, now[i]] for i in range(256) if now[i] != self.prev[i]]})
            self.prev = now
        return out


class RsImem:
    def __init__(self, vh: Vh, machine: str):
        self.vh = vh
        self._init = vh.call("imem.new", machine=machine)["init"]

    def init(self) -> List[int]:
        return list(self._init)

    def run(self, ops) -> List[Dict[str, Any]]:
        return self.vh.call("imem.run", ops=ops)["r"]


def applicable(machine: str, ops) -> bool:
    for o in ops:
        if o[0] == "OnKey" and machine not in HAS_ONKEY:
            return False
        if o[0].startswith("Sio") and machine != "pyemu":
            return False
        if o[0] == "W" and o[1] == 0xFB and (o[2] & 0x80) and machine in RUNTIME:
            return False
    return True


def imem_events(machine: str, ops, vh: Vh, tid: int, logged_ops=None) -> List[Dict[str, Any]]:
    """drive `ops` on a fresh machine; the events record `logged_ops` (default: the same) - selftest perturbs one of the two"""
    impl = RsImem(vh, machine) if machine in RS_MACHINES else PyImem(machine)
    ev = [{"tid": tid, "ev": "Init", "m": machine, "init": impl.init(), "off": 0, "v": 0, "ret": -1, "delta": []}]
    res = impl.run(ops)
    for o, r in zip(logged_ops or ops, res):
        k = o[0]
        off = o[1] if k in ("W", "R") else 0
        v = o[2] if k == "W" else (o[1] if k in ("OnKey", "SioRx") else 0)
        ev.append({"tid": tid, "ev": k, "off": off, "v": v, "ret": r["ret"], "delta": [d for d in r["delta"] if not (d[0] in KBD and machine in HAS_ONKEY)]})
    return ev


def random_ops(rnd: random.Random, machine_class: str, length: int):
    """machine_class: 'bare' (W/R only), 'run' (W/R/OnKey: common to rsrt, rssio, pyemu), 'py' (plus the serial adapter calls)"""
    ops = []
    hot = list(range(0xD0, 0x100))
    for _ in range(length):
        r = rnd.random()
        off = rnd.choice(hot) if rnd.random() < 0.6 else rnd.randrange(256)
        if r < 0.45:
            v = rnd.choice([0, 0xFF, 0x5A, 0x80, 0x18, 0x20, 0x07, 0x08, rnd.randrange(256), rnd.randrange(256)])
            if off == 0xFB and machine_class != "bare":
                v &= 0x7F
            ops.append(["W", off, v])
        elif r < 0.85 or machine_class == "bare":
            ops.append(["R", off])
        elif r < 0.91 or machine_class == "run":
            ops.append(["OnKey", rnd.randrange(2)])
        else:
            ops.append(rnd.choice([["SioRx", rnd.randrange(256)], ["SioConsume"], ["SioTxDone"], ["W", 0xFA, rnd.randrange(256)], ["R", 0xF9], ["R", 0xF8]]))
    return ops


def _imem_job(arg) -> Dict[str, Any]:
    shard, items, tag = arg           # item = (machines, ops, label)
    vlib.setup_repo_imports()
    vh = Vh()
    events, meta = [], {}
    tid = shard * 10_000_000
    try:
        for gi, (machines, ops, label) in enumerate(items):
            for mch in machines:
                if not applicable(mch, ops):
                    continue
                tid += 1
                ev = imem_events(mch, ops, vh, tid)
                meta[tid] = {"m": mch, "ops": ops, "label": label, "group": (shard, gi), "rets": [e["ret"] for e in ev[1:]]}
                events.extend(ev)
    finally:
        vh.close()
    bad = vlib.tlc_judge_trace(PID, SD, "TraceImemRegs", "TraceImemRegs.cfg", events, f"imem-{tag}-{shard}") if events else []
    badt = {b["tid"] for b in bad}
    # Python/Rust pairs on the same operations: which offsets read differently (only traces the model explains completely)
    diffs: Dict[Tuple[str, str, int], Any] = {}
    groups: Dict[Any, Dict[str, Any]] = {}
    for t, mt in meta.items():
        groups.setdefault(mt["group"], {})[mt["m"]] = (t, mt)
    for g in groups.values():
        for a, b in PAIRS:
            if a in g and b in g and g[a][0] not in badt and g[b][0] not in badt:
                for k, (ra, rb) in enumerate(zip(g[a][1]["rets"], g[b][1]["rets"])):
                    if ra != rb:
                        o = g[a][1]["ops"][k]
                        diffs.setdefault((a, b, o[1]), {"rs": ra, "py": rb, "ops": g[a][1]["ops"][: k + 1][-6:]})
    return {"traces": len(meta), "events": len(events), "bad": [(b, meta[b["tid"]]) for b in bad], "diffs": [(k, v) for k, v in diffs.items()],
            "sample": {"machine": meta[tid]["m"], "ops": meta[tid]["ops"][:8]} if meta else None}


IMEM_VIOLATION = "a byte written to a RAM location is what is next read from it"


def imem_campaign(cr: CheckRun, results: List[Dict[str, Any]], counts: Dict[str, int]) -> None:
    ntr = nev = 0
    seen = set()
    diffs: Dict[Tuple[str, str, int], Any] = {}
    for r in results:
        ntr += r["traces"]; nev += r["events"]
        if r["sample"]:
            cr.add_sample({"imemregs_trace": r["sample"]}, cap=6)
        for b, mt in r["bad"]:
            d = b["detail"]
            if b["clause"] == "PlainRAW":
                if ("V", mt["m"], d[0], d[1]) in seen:
                    continue
                seen.add(("V", mt["m"], d[0], d[1]))
                cr.violation(f"ImemRegs:PlainRAW:{mt['m']}:{d[0]}", f"{mt['m']}: internal RAM offset {d[1]:#04x} does not behave as RAM at step {b['line']} "
                             f"({d[0]} v={d[2]:#x} ret={d[3]}) - C11: '{IMEM_VIOLATION}'", {"part": "ImemRegs", "machine": mt["m"], "ops": mt["ops"], "clause": b["clause"], "detail": list(d)})
            else:
                key = (b["clause"], mt["m"], d[0], d[1] if d[0] in ("W", "R") else 0)
                if key not in seen:
                    seen.add(key)
                    cr.add_drift(f"action=ImemRegs clause={b['clause']} machine={mt['m']} event={d[0]} off={d[1]:#04x} v={d[2]:#x} ret={d[3]} model_ret={d[4]} "
                                 f"logged-not-predicted={sorted(d[5])[:4]} predicted-not-logged={sorted(d[6])[:4]} ({mt['label']})")
        for k, v in r["diffs"]:
            diffs.setdefault(tuple(k), v)
    names = {0xF1: "KOH", 0xF8: "USR", 0xF9: "RXD", 0xFA: "TXD", 0xFC: "ISR", 0xFF: "SSR", 0xD5: "BH"}
    for (a, b, off), v in sorted(diffs.items()):
        cr.cov.setdefault("py_rs_differences", []).append({"part": "ImemRegs", "machines": [a, b], "offset": hex(off), "rs_reads": v["rs"], "py_reads": v["py"], "after": v["ops"], "modelled": True})
        cr.add_drift(f"action=ImemRegs py/rs differ (modelled): {a} reads {v['rs']:#x}, {b} reads {v['py']:#x} at offset {off:#04x} {names.get(off, '')} after {v['ops']}")
    cr.cov["traces_validated_against_impl"] += ntr
    cr.cov["evaluations"] += nev
    cr.cov["imemregs"] = {"traces": ntr, "events": nev, **counts}


# ============================================================================================================ driver plumbing
def _tlc_job(arg) -> Dict[str, Any]:
    d, mod, cfg, tag, workers, dump_var = arg
    import re
    vals: List[Any] = []
    extra = ["-coverage", "1"]
    dump_path = vlib.BUILD / "work" / tag / f"{cfg}.dump"
    if dump_var:
        dump_path.parent.mkdir(parents=True, exist_ok=True)
        extra = ["-dump", str(dump_path)] + extra
    res = run_tlc(SPEC / d, mod, cfg, workers=workers, extra=extra, tag=tag, timeout=3000)
    if dump_var and dump_path.exists():
        # every reachable state carries its own history in `dump_var`: one replayable behaviour per state
        text = dump_path.read_text()
        machs = re.findall(r"(?:/\\ |^)Machine = \"(\w+)\"", text, re.M)
        hist = re.findall(r"(?:/\\ |^)" + dump_var + r" = (.*?)(?=\n/\\ |\n\nState |\Z)", text, re.S | re.M)
        for i, h in enumerate(hist):
            v = vlib.parse_tla(h.strip())
            if v:
                vals.append((machs[i], v) if len(machs) == len(hist) else v)
        dump_path.unlink()
    return {"name": cfg, "ok": res.ok, "inv": res.invariant_violated, "distinct": res.distinct, "generated": res.states_generated, "depth": res.depth,
            "wall": res.wall, "cov": res.coverage_actions(), "tail": res.out[-2500:] if not res.ok else "", "vals": vals}


def _sim_job(arg) -> Dict[str, Any]:
    n, depth, seed = arg
    import re, shutil
    d = vlib.BUILD / "work" / f"{PID}-imem-sim"
    shutil.rmtree(d, ignore_errors=True)
    d.mkdir(parents=True, exist_ok=True)
    res = run_tlc(SD, "MCImemRegs", "MCImemRegs_sim.cfg", workers=1, simulate=f"file={d}/tr,num={n}", extra=["-depth", str(depth), "-seed", str(seed)], tag=f"{PID}-imem-sim", timeout=1800)
    vals = []
    for f in sorted(d.iterdir()):
        text = f.read_text()
        k = text.rfind("/\\ acts = ")
        m = re.compile(r"/\\ acts = (.*?)(?=\n/\\ |\n\n|\n=+|\Z)", re.S).match(text, k) if k >= 0 else None
        mm = re.findall(r"/\\ Machine = \"(\w+)\"", text)
        if m and mm:
            v = vlib.parse_tla(m.group(1).strip())
            if v:
                vals.append((mm[-1], v))
    shutil.rmtree(d, ignore_errors=True)
    return {"name": "MCImemRegs_sim.cfg", "ok": res.ok or bool(vals), "vals": vals, "tail": res.out[-1500:]}


class _Res:
    def __init__(self, d):
        self.distinct, self.states_generated, self.depth, self.wall = d["distinct"], d["generated"], d["depth"], d["wall"]


def _check_mc(cr: CheckRun, d: Dict[str, Any], actions: List[str]) -> None:
    if d["inv"]:
        raise MachineryError(f"model {d['name']} violates {d['inv']}:\n{d['tail']}")
    if not d["ok"]:
        raise MachineryError(f"TLC failed on {d['name']}:\n{d['tail']}")
    missing = [a for a in actions if d["cov"].get(a, (0, 0))[1] == 0]
    if missing:
        raise MachineryError(f"{d['name']}: actions never taken: {missing}")
    cr.add_tlc(d["name"], _Res(d))
    cr.cov.setdefault("action_coverage", {})[d["name"]] = {k: v[1] for k, v in d["cov"].items()}


def _job(arg):
    kind, a = arg
    return {"tlc": _tlc_job, "sim": _sim_job, "rom": _rom_job, "imem": _imem_job}[kind](a)


ROM_ACTIONS = ["RomWindow", "SystemImage", "LoadRomAt", "MapOrSeed", "Reset", "PyLoadRom", "PyAddRom", "PyBootstrap", "Store"]
IMEM_ACTIONS = ["WriteImem", "ReadImem", "OnKey", "SioRx", "SioConsume", "SioTxDone"]


def acts_to_ops(acts) -> List[List[Any]]:
    out = []
    for a in acts:
        k = a["ev"]
        out.append(["W", a["off"], a["v"]] if k == "W" else ["R", a["off"]] if k == "R" else [k, a["v"]] if k in ("OnKey", "SioRx") else [k])
    return out


def check_constants(cr: CheckRun) -> None:
    """the constants the model names, as the Rust crate and the Python classes export them (a changed constant is drift)"""
    vh = Vh()
    try:
        sp = vh.call("rom.spec")
    finally:
        vh.close()
    from pce500.emulator import PCE500Emulator
    want = {"SYSTEM_IMAGE_LEN": SYS, "ROM_WINDOW_START": WIN0, "ROM_WINDOW_LEN": WINLEN, "ROM_RESET_VECTOR_ADDR": SYS - 3, "NO_RAM_WINDOW_START": 0, "NO_RAM_WINDOW_END": 0x3FFFF,
            "BOOTSTRAP_IMR_VALUE": 0x43, "BOOTSTRAP_ISR_VALUE": 0}
    got = dict(sp["pce500"])
    for k, v in want.items():
        if got.get(k) != v:
            cr.add_drift(f"action=RomLoad constant pce500::{k} = {got.get(k)} (model: {v})")
    for label, m in sp["models"].items():
        if (m["rom_window_start"], m["rom_window_len"]) != (WIN0, WINLEN):
            cr.add_drift(f"action=RomLoad DeviceModel {label} spec window = {m} (model: {WIN0:#x}+{WINLEN:#x})")
    iq = sp["iq7000"]
    if (iq["ROM_WINDOW_START"], iq["ROM_WINDOW_LEN"], iq["ROM_READONLY_START"], iq["ROM_READONLY_END"]) != (WIN0, WINLEN, WIN0, SYS - 1):
        cr.add_drift(f"action=RomLoad iq7000 constants = {iq}")
    mem = sp["memory"]
    if (mem["INTERNAL_RAM_START"], mem["INTERNAL_RAM_SIZE"], mem["EXTERNAL_SPACE"], mem["ADDRESS_MASK"]) != (RAM0, RAMLEN, SYS, WRAP - 1):
        cr.add_drift(f"action=RomLoad memory constants = {mem}")
    if (PCE500Emulator.INTERNAL_ROM_START, PCE500Emulator.INTERNAL_ROM_SIZE, PCE500Emulator.INTERNAL_RAM_START, PCE500Emulator.INTERNAL_RAM_SIZE) != (WIN0, WINLEN, RAM0, RAMLEN):
        cr.add_drift("action=RomLoad PCE500Emulator INTERNAL_ROM/RAM constants differ from the model")
    from sc62015.pysc62015.instr.opcodes import IMEMRegisters as R
    names = {"KOL": 0xF0, "KOH": 0xF1, "KIL": 0xF2, "EOL": 0xF3, "EOH": 0xF4, "EIL": 0xF5, "EIH": 0xF6, "UCR": 0xF7, "USR": 0xF8, "RXD": 0xF9, "TXD": 0xFA,
             "IMR": 0xFB, "ISR": 0xFC, "SCR": 0xFD, "LCC": 0xFE, "SSR": 0xFF, "BH": 0xD5, "BP": 0xEC}
    for k, v in names.items():
        if int(getattr(R, k)) != v:
            cr.add_drift(f"action=ImemRegs IMEMRegisters.{k} = {int(getattr(R, k)):#x} (model: {v:#x})")
    cr.cov["constants_checked"] = len(want) + len(names) + 3 * 2 + 4 + 4 + 4


def campaign(cr: CheckRun, quick: bool) -> None:
    vlib.setup_repo_imports()
    vlib.build_vh()
    cr.mark("build")
    check_constants(cr)
    # ---- phase 1: model checking.  RomLoad at the reduced geometry and ImemRegs over the offset palette; the behaviours of the
    # quick configurations (history variable `acts` in every reachable state) are the ones replayed on the real code
    jobs: List[Tuple[str, Any]] = [("tlc", ("mem", "MCRomLoad", "MCRomLoad_quick.cfg", f"{PID}-MCRomLoad-quick", 4, "acts")),
                                   ("tlc", ("mem", "MCImemRegs", "MCImemRegs_quick.cfg", f"{PID}-MCImemRegs-quick", 4, "acts"))]
    if not quick:
        jobs += [("tlc", ("mem", "MCRomLoad", "MCRomLoad_thorough.cfg", f"{PID}-MCRomLoad-thorough", 3, None)),
                 ("tlc", ("mem", "MCRomLoad", "MCRomLoad_full.cfg", f"{PID}-MCRomLoad-full", 2, None)),
                 ("tlc", ("mem", "MCImemRegs", "MCImemRegs_thorough.cfg", f"{PID}-MCImemRegs-thorough", 3, None)),
                 ("sim", (600, 14, cr.seed))]
    mc = vlib.pmap(_job, jobs, procs=min(WORKERS, len(jobs)))
    sims: List[Any] = []
    for (kind, _), d in zip(jobs, mc):
        if kind == "sim":
            if not d["ok"]:
                raise MachineryError("simulation of MCImemRegs failed:\n" + d["tail"])
            sims = d["vals"]
        else:
            _check_mc(cr, d, ROM_ACTIONS if d["name"].startswith("MCRomLoad") else IMEM_ACTIONS)
    cr.mark("model-checking")
    # ---- phase 2: binding, everything in one pool: RomLoad scenario shards and ImemRegs trace shards
    rnd = random.Random(cr.seed)
    # (TLC's workers write the dump in no particular order: sort before the seeded choice)
    rom_acts = sorted(([dict(a) for a in v] for v in mc[0]["vals"]), key=lambda x: json.dumps(x, sort_keys=True))
    rnd.shuffle(rom_acts)
    if quick:
        rom_acts = rom_acts[:400]
    scen = list(enumerate(rom_scenarios(cr.seed, quick, rom_acts)))
    nrom = 4 if quick else WORKERS
    work: List[Tuple[str, Any]] = [("rom", (i, scen[i::nrom], cr.seed)) for i in range(nrom) if scen[i::nrom]]
    # spec -> code: TLC behaviours (exhaustive depth 2; simulated depth 14 in the thorough tier), each on its own machine
    beh = sorted(((m, acts_to_ops([dict(a) for a in v])) for m, v in mc[1]["vals"]), key=lambda x: json.dumps(x))
    rnd.shuffle(beh)
    if quick:
        per: Dict[str, int] = {}
        keep = []
        for m, ops_ in beh:
            if per.get(m, 0) < 250 and len(ops_) == 2:
                per[m] = per.get(m, 0) + 1
                keep.append((m, ops_))
        beh = keep
    items = [((m,), ops_, "tlc-behaviour") for m, ops_ in beh]
    items += [((m,), acts_to_ops([dict(a) for a in v]), "tlc-simulation") for m, v in sims]
    # code -> spec: seeded random sequences over all 256 offsets; the same operations on the machines that correspond
    nrand, length = (10, 120) if quick else (150, 300)
    for k in range(nrand):
        items.append((("rsmem", "pymem", "rsstub"), random_ops(rnd, "bare", length), "random-bare"))
        items.append((("rsrt", "rssio", "pyemu", "rsstub"), random_ops(rnd, "run", length), "random-runtime"))
        items.append((("pyemu",), random_ops(rnd, "py", length), "random-python-serial"))
    # directed: every named register written with all ones / zero and read back, on every machine, with and without the ON key
    sweep = [x for off in list(range(0xEF, 0x100)) + [0xD5, 0xEC] for x in (["W", off, 0xFF if off != 0xFB else 0x7F], ["R", off], ["W", off, 0], ["R", off])]
    items.append((MACHINES, sweep, "register-sweep"))
    items.append((HAS_ONKEY, [["OnKey", 1]] + sweep + [["OnKey", 0]] + sweep[-8:] + [["R", 0xFC], ["R", 0xFF]], "register-sweep-on-key"))
    items.append((MACHINES, [["W", 0xFA, 1], ["W", 0xFA, 2], ["R", 0xF8], ["R", 0xF9], ["R", 0xF8], ["R", 0xF9], ["R", 0xF9], ["R", 0xF8], ["R", 0xD5]], "transmit-then-receive"))
    nim = 4 if quick else WORKERS
    work += [("imem", (i, items[i::nim], "c")) for i in range(nim) if items[i::nim]]
    res = vlib.pmap(_job, work, procs=WORKERS)
    rom_campaign(cr, quick, [r for (k, _), r in zip(work, res) if k == "rom"])
    imem_campaign(cr, [r for (k, _), r in zip(work, res) if k == "imem"],
                  {"tlc_behaviours_replayed": len(beh), "tlc_simulations_replayed": len(sims), "random_sequences": 3 * nrand, "random_length": length})
    cr.mark("binding")
    cr.cov["distinct_nontrivial"] = cr.cov["romload"]["loader_runs"] + cr.cov["imemregs"]["traces"]
    cr.cov["rule"] = "loader runs (implementation x operation sequence x image length) probed and judged + internal-memory traces (machine x operation sequence) validated"
    cr.cov["exhaustive"] = False
    cr.cov["trusted_base"] = ["vh harness (romload.rs, imemregs.rs)", "Python drivers in checks/ext_devices.py", "image byte formula (three copies)", "TLC"]
    cr.assumptions += [
        "RomLoad: byte accesses only; LCD windows and (on Python) the memory-card slot are not probed; Python addresses 0xFFF00-0xFFFFF outside ROM data are skipped (recorded C11 finding: internal memory lives there)",
        "ImemRegs: no matrix key is pressed (KIL = 0); on the runtime machines IMR is never written with bit 7 set (no interrupt delivery inside the access instruction); byte accesses only",
        "the Python machines are driven at the bus (PCE500Memory.read_byte / write_byte), the Rust runtime machines by executing PRE 0x32 + MV (n),A / MV A,(n)",
    ]


def replay(rec: Dict[str, Any]) -> int:
    """re-run one violation record (the `replay` field written by CheckRun.finish)"""
    vlib.setup_repo_imports()
    vlib.build_vh()
    vh = Vh()
    try:
        if rec["part"] == "ImemRegs":
            ev = imem_events(rec["machine"], rec["ops"], vh, 1)
            bad = vlib.tlc_judge_trace(PID, SD, "TraceImemRegs", "TraceImemRegs.cfg", ev, "replay")
        else:
            rnd = random.Random(0)
            probes = [[rec["addr"], rec["addr"] + WRAP, rec["addr"]], [rec["addr"], rec["addr"] + WRAP, rec["addr"] + WRAP]] + probes_for(rec["ops"], rnd, rec["impl"] in RS_IMPLS)
            run = rs_rom_run(vh, rec["impl"], rec["ops"], probes) if rec["impl"] in RS_IMPLS else py_rom_run(rec["impl"], rec["ops"], probes)
            bad, _, _ = judge_rom([{"sid": 0, "runs": [run]}], "replay")
    finally:
        vh.close()
    for b in bad:
        print("REJECTED", b)
    return 1 if bad else 0


def selftest() -> bool:
    """the binding binds: pristine records are accepted, a corrupted field / a dropped event / a perturbed replay is rejected"""
    vlib.setup_repo_imports()
    vlib.build_vh()
    ok = True
    vh = Vh()
    try:
        # ---- RomLoad
        ops_ = [op("window", 7, 0x154321), op("reset")]
        probes = [[p[0], p[1], p[0]] for p in probes_for(ops_, random.Random(3), True)]       # here every store goes through the address itself
        run = rs_rom_run(vh, "rs_rt", ops_, probes)
        pyrun = py_rom_run("py_emu", [op("py_load_rom", 7, 0x40000), op("py_reset")], probes_for(ops_, random.Random(3), False))
        bad, _, _ = judge_rom([{"sid": 1, "runs": [run]}, {"sid": 2, "runs": [pyrun]}], "self0")
        if bad:
            print("selftest: pristine RomLoad records rejected", bad[:3]); ok = False

        def clauses(mut) -> set:
            r = json.loads(json.dumps(run))
            mut(r)
            b, _, _ = judge_rom([{"sid": 1, "runs": [r]}], "self1")
            return {x[2] for x in b}
        irom = next(i for i, p in enumerate(run["probes"]) if p[0] == 0xC0001)
        iram = next(i for i, p in enumerate(run["probes"]) if p[0] == 0xBFFFF)

        def shifted(r):          # the image one byte too low: every window byte is its neighbour's
            for p in r["probes"]:
                if p[0] >= WIN0:
                    p[2] = p[3] = p[4] = p[5] = (p[2] + 7) & 0xFF
        want = [("a shifted copy", shifted, "Content"),
                ("a store that changes ROM", lambda r: r["probes"][irom].__setitem__(3, r["probes"][irom][6]), "RomImmutable"),
                ("an alias that reads something else", lambda r: r["probes"][iram].__setitem__(4, r["probes"][iram][2]), "AliasCanonical"),
                ("RAM that does not take the store", lambda r: r["probes"][iram].__setitem__(3, r["probes"][iram][2]), "RamWorks"),
                ("a reset vector from elsewhere", lambda r: r.__setitem__("pc", r["pc"] ^ 0x100), "ResetVector"),
                ("a missing read-only range", lambda r: r["ro"].pop(), "ReadOnlyMap")]
        for what, mut, clause in want:
            got = clauses(mut)
            if clause not in got:
                print(f"selftest: RomLoad judge accepted {what} (clauses {got})"); ok = False
        # a perturbed replay: the record claims the tail-aligned loader ran, the machine got the image at the window start
        lie = rs_rom_run(vh, "rs_rt", [op("load_rom_at", 7, 0x40000, 0, WIN0), op("reset")], probes)
        lie["ops"] = ops_
        b, _, _ = judge_rom([{"sid": 1, "runs": [lie]}], "self2")
        if not {"Content", "ResetVector"} <= {x[2] for x in b}:
            print("selftest: head-placed long image accepted as tail-placed"); ok = False
        # ---- ImemRegs
        ops2 = [["W", 0x10, 0x5A], ["W", 0xFA, 0x33], ["R", 0xF8], ["R", 0x10], ["R", 0xF9], ["W", 0xF1, 0xFF], ["R", 0xF1], ["OnKey", 1], ["R", 0xFF], ["R", 0xFC]]
        for mch in ("rssio", "pyemu"):
            ev = imem_events(mch, ops2, vh, 1)
            if vlib.tlc_judge_trace(PID, SD, "TraceImemRegs", "TraceImemRegs.cfg", ev, "self0"):
                print(f"selftest: pristine ImemRegs trace rejected ({mch})"); ok = False
            c = json.loads(json.dumps(ev))
            c[4]["ret"] ^= 0x01                       # the plain read returns something else
            b = vlib.tlc_judge_trace(PID, SD, "TraceImemRegs", "TraceImemRegs.cfg", c, "self1")
            if not any(x["clause"] == "PlainRAW" and x["line"] == 5 for x in b):
                print(f"selftest: corrupted plain read accepted ({mch})"); ok = False
            c = json.loads(json.dumps(ev))
            c[3]["ret"] ^= 0x20                       # a device register value
            b = vlib.tlc_judge_trace(PID, SD, "TraceImemRegs", "TraceImemRegs.cfg", c, "self2")
            if not any(x["clause"] == "DeviceRet" for x in b):
                print(f"selftest: corrupted USR read accepted ({mch})"); ok = False
            dropped = ev[:2] + ev[3:]                 # the TXD write is missing from the log
            if not vlib.tlc_judge_trace(PID, SD, "TraceImemRegs", "TraceImemRegs.cfg", dropped, "self3"):
                print(f"selftest: dropped event accepted ({mch})"); ok = False
            pert = [list(o) for o in ops2]
            pert[0] = ["W", 0x10, 0x5B]               # the machine is driven with another value than the behaviour says
            b = vlib.tlc_judge_trace(PID, SD, "TraceImemRegs", "TraceImemRegs.cfg", imem_events(mch, pert, vh, 1, logged_ops=ops2), "self4")
            if not any(x["clause"] == "PlainRAW" for x in b):
                print(f"selftest: perturbed replay accepted ({mch})"); ok = False
    finally:
        vh.close()
    return ok


def main(argv: List[str]) -> int:
    tier = argv[1] if len(argv) > 1 else "quick"
    if tier == "selftest":
        ok = selftest()
        print("selftest ext_devices:", "ok" if ok else "FAILED")
        return 0 if ok else 2
    if tier == "replay":
        return replay(json.loads(Path(argv[2]).read_text())["replay"])
    t0 = time.time()
    cr = CheckRun(PID, tier, 1, LEVEL)
    try:
        campaign(cr, tier == "quick")
    except MachineryError as e:
        print("MACHINERY-ERROR:", e)
        return 2
    rc = cr.finish()          # VIOLATION lines (replay files under $VERIF_BUILD/replay/EXT), evidence file, RESULT line
    print(f"violations={len(cr.violations)} drift={len(cr.drift)} states={cr.cov['states']} traces={cr.cov['traces_validated_against_impl']} "
          f"evaluations={cr.cov['evaluations']} wall={time.time() - t0:.1f}s")
    print("tlc runs:", json.dumps(cr.cov["tlc_runs"]))
    print("phases:", json.dumps(cr.cov.get("phases")))
    for k in ("romload", "imemregs"):
        if k in cr.cov:
            print(k + ":", json.dumps(cr.cov[k]))
    return rc


if __name__ == "__main__":
    sys.exit(main(sys.argv))
