"""EXT lcdtext - the LCD part of the specification beyond the HD61202 pair (C15).

Part 1  spec/lcd/LcdText.tla (+ MCLcdText, JudgeLcdText): the PC-E500 display TEXT decoder as a refinement layer on top of
        Lcd.tla / PixelMap.tla.  Bound to pce500/display/text_decoder.py + font.py (Python) and sc62015-core lcd_text.rs +
        pce500.rs (Rust, through harness/rust/vh/src/lcdtext.rs):
          spec -> code   TLC behaviours (put glyph / clear cell / scroll / on-off / poke) replayed through the real write
                         protocol into HD61202Controller and LcdController; the decoded text is compared with the model's
                         after every action
          code -> spec   seeded random VRAM images + synthetic font ROMs, both decoders run, records judged by TLC
                         (JudgeLcdText: TextOfImage, ImageOfVram, ColumnsPerWrite)
Part 2  spec/lcd/Iq7000Lcd.tla (+ MCIq7000Lcd, TraceIq7000Lcd): Iq7000LcdController / UnknownLcdController behind the LcdHal
        trait (Rust only; harness/rust/vh/src/iqlcd.rs): model check, replay of TLC behaviours, trace validation of
        seeded random call sequences.

Verdicts: nothing here is a sentence of one of the 18 properties except C15's "a single data write changes at most the
eight pixels of one display column" (clause ColumnsPerWrite, judged on every replayed put / clear / poke action); every
other disagreement is DRIFT.

Run:  VERIF_BUILD=$PWD/build /venv/bin/python checks/ext_lcdtext.py [quick|thorough|selftest]
"""
from __future__ import annotations

import json
import os
import random
import re
import sys
import threading
import time
from pathlib import Path
from typing import Any, Dict, List, Optional, Tuple

if __name__ == "__main__":
    sys.path.insert(0, str(Path(__file__).resolve().parent.parent / "lib"))
import vlib
from vlib import CheckRun, MachineryError, SPEC, Vh, run_tlc, tlc_expect_ok

SD = SPEC / "lcd"
PID = "EXT"
WORKERS = 8                      # TLC workers / worker processes used by this campaign (other jobs share the machine)

ATLAS = 0xF21A5                  # ROM_JP_FONT_ATLAS_BASE_ADDR / font.JP_FONT_ATLAS_BASE
ENGLISH = 0xF2215                # ROM_ENGLISH_FONT_BASE_ADDR / font.FONT_BASE
ROM_LEN = 256 * 6                # the slice of the ROM image the judge sees (starts at ATLAS)
SENT_A = (0x7C, 0x12, 0x11, 0x12, 0x7C)
SENT_WO = (0x0A, 0x4A, 0x4A, 0x2A, 0x1E)
ALIAS_PATS = [(0, 40, 108, 108, 40), (0, 40, 108, 108, 0), (0, 127, 127, 65, 0), (0, 65, 127, 127, 0)]


# ============================================================================================ geometry helpers (input generation only)
def seg(x: int) -> Tuple[int, int, bool]:
    if x < 64:
        return 1, x, False
    if x < 120:
        return 0, x - 64, False
    if x < 176:
        return 0, 55 - (x - 120), True
    return 1, 63 - (x - 176), True


def paint(vram: List[List[List[int]]], t: int, k: int, cols6: List[int]) -> None:
    for j, b in enumerate(cols6):
        chip, col, lower = seg(6 * k + j)
        vram[chip][t + (4 if lower else 0)][col] = b


def flat(vram) -> List[int]:
    return [b for chip in vram for page in chip for b in page]


# ============================================================================================ synthetic font ROMs
def gen_rom(rnd: random.Random, kind: str) -> List[int]:
    """1536 bytes starting at ATLAS.  kind: english | jp | nearjp | noise"""
    rom = [rnd.randrange(256) if kind == "noise" else 0 for _ in range(ROM_LEN)]

    def put(addr: int, pat, spacer=None) -> None:
        o = addr - ATLAS
        for j, b in enumerate(pat):
            rom[o + j] = (b & 0x7F) | (0x80 if rnd.random() < 0.2 else 0)
        if spacer is not None and o + 5 < ROM_LEN:
            rom[o + 5] = spacer

    def rpat():
        while True:
            p = tuple(rnd.randrange(128) for _ in range(5))
            if any(p):
                return p

    def table(base: int, codes: List[int]) -> None:
        pats: List[Tuple[int, ...]] = []
        for n, code in enumerate(codes):
            r = rnd.random()
            if n == 0:
                p = (0, 0, 0, 0, 0) if rnd.random() < 0.85 else rpat()
            elif r < 0.06 and pats:
                p = rnd.choice(pats)                                      # duplicate of an earlier glyph
            elif r < 0.12 and pats:
                p = tuple(127 - b for b in rnd.choice(pats))              # inverse of an earlier glyph
            elif r < 0.16:
                p = (0, 0, 0, 0, 0)                                       # blank, not the space
            elif r < 0.19:
                p = rnd.choice(ALIAS_PATS)
            elif r < 0.20:
                p = (127,) * 5
            else:
                p = rpat()
            pats.append(p)
            put(base + 6 * code, p, rnd.randrange(256))

    if kind in ("english", "nearjp", "noise"):
        table(ENGLISH, list(range(96)))
        if kind == "nearjp":
            put(0xF232B, SENT_A)                                          # one sentinel only: still the English layout
    else:
        codes = list(range(0x20, 0x7F)) + list(range(0xA1, 0xE0)) + [0xE8, 0xEC, 0xEF]
        table(ATLAS, codes)
        if rnd.random() < 0.3:
            put(ATLAS + 6 * 0xEF, (0, 0, 0, 0, 0))                        # the second '/' glyph absent
        # exact sentinels (bit 7 clear: font.py compares the raw bytes, lcd_text.rs the masked ones)
        for addr, pat in ((0xF232B, SENT_A), (0xF2589, SENT_WO)):
            for j, b in enumerate(pat):
                rom[addr - ATLAS + j] = b
    return rom


def rom_patterns(rom: List[int], jp: bool) -> List[Tuple[int, ...]]:
    if jp:
        codes = list(range(0x20, 0x7F)) + list(range(0xA1, 0xE0)) + [0xE8, 0xEC, 0xEF]
        return [tuple(rom[6 * c + j] & 0x7F for j in range(5)) for c in codes]
    o = ENGLISH - ATLAS
    return [tuple(rom[o + 6 * i + j] & 0x7F for j in range(5)) for i in range(96)]


class RomMem:
    """What font.py needs of a memory: read_byte(address)."""

    def __init__(self, rom: List[int]):
        self.rom = list(rom)

    def read_byte(self, address: int) -> int:
        i = address - ATLAS
        return self.rom[i] if 0 <= i < len(self.rom) else 0


# ============================================================================================ the two implementations
class PyText:
    def __init__(self) -> None:
        from pce500.display.controller_wrapper import HD61202Controller
        from pce500.display.text_decoder import decode_display_text
        import numpy as np
        self.np = np
        self.ctor = HD61202Controller
        self.decode = decode_display_text
        self.c = None
        self.mem = None
        self.keep: List[Any] = []          # font.py caches by id(memory): every memory object stays alive for the whole process

    def font(self, rom: List[int]) -> None:
        self.mem = RomMem(rom)
        self.keep.append(self.mem)

    def new(self) -> None:
        self.c = self.ctor()

    def step(self, writes=(), load=None, want_vram=True) -> Dict[str, Any]:
        c = self.c
        if load is not None:
            meta = {"chips": [{"on": bool(s["on"]), "start_line": s["start"], "page": s["page"], "y_address": s["y"]} for s in load["st"]], "pages": 8, "width": 64}
            c.load_snapshot(meta, bytes(load["vram"]))
        for a, v in writes:
            c.write(a, v, cpu_pc=0)
        lines = [[ord(ch) for ch in ln] for ln in self.decode(c, self.mem)]
        np = self.np
        ink = (c.get_display_buffer() == 0).astype(np.int64).reshape(4, 8, 240)
        image = (ink * (1 << np.arange(8))[None, :, None]).sum(axis=1).tolist()
        out = {"lines": lines, "image": image, "st": [{"on": int(ch.state.on), "start": ch.state.start_line, "page": ch.state.page, "y": ch.state.y_address} for ch in c.chips]}
        if want_vram:
            out["vram"] = [b for ch in c.chips for page in ch.vram for b in page]
        return out


class RsText:
    def __init__(self, vh: Vh, entry: str = "from_rom") -> None:
        self.vh = vh
        self.entry = entry
        self.n = 0

    def font(self, rom: List[int]) -> None:
        self.n += 1
        self.vh.call("lcdtext.font", patches=[[ATLAS, rom]], layout="window" if self.n % 2 else "full", entry=self.entry)

    def new(self) -> None:
        self.vh.call("lcdtext.new")

    def step(self, writes=(), load=None, want_vram=True) -> Dict[str, Any]:
        return self.vh.call("lcdtext.step", writes=[[a, v] for a, v in writes], load=load, image=True, vram=want_vram)


# ============================================================================================ TLC judge of observation records
def judge(records: List[Dict[str, Any]], tag: str) -> Tuple[int, List[Tuple[Any, ...]]]:
    """Returns (observations judged, [(record id, case index (1-based), impl, clause, tag)])."""
    if not records:
        return 0, []
    d = vlib.scratch(PID)
    tf = d / f"text-{tag}.ndjson"
    vlib.write_ndjson(tf, records)
    res = run_tlc(SD, "JudgeLcdText", "JudgeLcdText.cfg", workers=1, env={"TEXT_FILE": str(tf)}, tag=f"{PID}-judge-{tag}", jvm=["-Xss256m"], heap="3g", timeout=1500)
    verdict = None
    for v in res.printed():
        if isinstance(v, tuple) and len(v) == 4 and v[0] == "JUDGE":
            verdict = v
    if verdict is None or verdict[1] != len(records):
        raise MachineryError(f"JudgeLcdText did not complete ({tag}):\n{res.out[-2500:]}")
    tf.unlink()
    return verdict[2], [tuple(b) for b in verdict[3]]


# ============================================================================================ code -> spec: random VRAM + synthetic fonts
def gen_case(rnd: random.Random, pats: List[Tuple[int, ...]]) -> Dict[str, Any]:
    fill = rnd.random() < 0.15
    vram = [[[rnd.randrange(256) if fill else 0 for _ in range(64)] for _ in range(8)] for _ in range(2)]
    for _ in range(rnd.randint(4, 70)):
        t, k = rnd.randrange(4), rnd.choice([rnd.randrange(40), rnd.choice([0, 9, 10, 11, 19, 20, 28, 29, 30, 39])])
        r = rnd.random()
        if r < 0.72:
            p = rnd.choice(pats)
            m = rnd.random()
            if m < 0.25:
                p = tuple(127 - b for b in p)
            cols = [b | (0x80 if rnd.random() < 0.1 else 0) for b in p]
        elif r < 0.80:
            cols = list(rnd.choice(ALIAS_PATS))
        else:
            cols = [rnd.randrange(256) for _ in range(5)]
        cols.append(0 if rnd.random() < 0.8 else rnd.randrange(256))
        # text rows of the lower (mirrored) half live on pages 4..7: paint() takes care of it
        paint(vram, t, k, cols)
    if rnd.random() < 0.5:
        for p in range(8):
            for col in range(56, 64):
                vram[0][p][col] = rnd.randrange(256)
    st = []
    r = rnd.random()
    starts = (0, 0) if r < 0.55 else ((8 * rnd.randrange(8),) * 2 if r < 0.7 else (8 * rnd.randrange(8), 8 * rnd.randrange(8)) if r < 0.8 else (rnd.randrange(64), rnd.randrange(64)))
    for c in range(2):
        st.append({"on": 1 if rnd.random() < 0.85 else 0, "start": starts[c], "page": rnd.randrange(8), "y": rnd.randrange(64)})
    return {"st": st, "vram": flat(vram)}


def twin_of(rnd: random.Random, case: Dict[str, Any]) -> Dict[str, Any]:
    """The same picture from another VRAM: only the eight left-chip columns that no segment shows differ."""
    v = list(case["vram"])
    for p in range(8):
        for col in range(56, 64):
            v[0 * 512 + p * 64 + col] = rnd.randrange(256)
    return {"st": [dict(s) for s in case["st"]], "vram": v, "twin": True}


def _random_job(arg) -> Dict[str, Any]:
    shard, seed, nfonts, ncases = arg
    vlib.setup_repo_imports()
    rnd = random.Random(seed * 1000003 + shard)
    vh = Vh()
    py, rs, rsp = PyText(), RsText(vh, "from_rom"), RsText(vh, "product")
    records = []
    twins_bad: List[Dict[str, Any]] = []
    ntwins = 0
    cross = {"py_rs_equal": 0, "py_rs_differ": 0}
    try:
        for f in range(nfonts):
            kind = ["english", "english", "jp", "nearjp", "noise", "english"][(shard + f) % 6]
            rom = gen_rom(rnd, kind)
            pats = rom_patterns(rom, kind == "jp")
            rec = {"id": shard * 1000 + f, "kind": kind, "rom": rom, "cases": []}
            py.font(rom)
            py.new()
            prev = None
            for ci in range(ncases):
                case = twin_of(rnd, prev) if (prev is not None and ci % 3 == 2) else gen_case(rnd, pats)
                obs = []
                for name, impl in (("py", py), ("rs", rs), ("rsp", rsp)):
                    if name != "py":
                        impl.font(rom)
                        impl.new()
                    o = impl.step(load={"st": case["st"], "vram": case["vram"]}, want_vram=False)
                    obs.append({"impl": name, "lines": o["lines"], "image": o["image"]})
                if case.get("twin"):
                    ntwins += 1
                    for a, b in zip(prev["obs"], obs):
                        if a["lines"] != b["lines"]:
                            twins_bad.append({"impl": a["impl"], "rec": rec["id"], "case": ci})
                case["obs"] = obs
                k = "py_rs_equal" if obs[0]["lines"] == obs[2]["lines"] else "py_rs_differ"
                cross[k] += 1
                rec["cases"].append(case)
                prev = case
            records.append(rec)
    finally:
        vh.close()
    nobs, bad = judge(records, f"random-{shard}")
    by_id = {r["id"]: r for r in records}
    out_bad = []
    for (rid, ci, impl, clause, tag) in bad:
        r = by_id.get(rid)
        cs = r["cases"][ci - 1] if r and ci >= 1 else None
        out_bad.append({"impl": impl, "clause": clause, "tag": tag, "font": r["kind"] if r else "?",
                        "replay": {"rom": r["rom"], "st": cs["st"], "vram": cs["vram"], "impl": impl} if cs else None})
    sample = {"font": records[0]["kind"], "st": records[0]["cases"][0]["st"], "py": ["".join(map(chr, l)) for l in records[0]["cases"][0]["obs"][0]["lines"]]} if records else None
    return {"records": len(records), "cases": sum(len(r["cases"]) for r in records), "obs": nobs, "bad": out_bad, "twins": ntwins, "twins_bad": twins_bad, "cross": cross, "sample": sample}


# ============================================================================================ spec -> code: replay of TLC behaviours
def _tuples_to_lists(x):
    if isinstance(x, (tuple, list)):
        return [_tuples_to_lists(y) for y in x]
    return x


def font_rom_from_glyphs(glyphs) -> List[int]:
    """ROM slice holding the model's font (TLC prints it: <<"FONT", FontGlyphs>>) as the English table."""
    rom = [0] * ROM_LEN
    o = ENGLISH - ATLAS
    for i, g in enumerate(glyphs):
        assert g[0] == 32 + i
        for j, b in enumerate(g[1]):
            rom[o + 6 * i + j] = b
    return rom


def _replay_job(arg) -> Dict[str, Any]:
    shard, behaviours, rom, judge_every, perturb = arg
    vlib.setup_repo_imports()
    vh = Vh()
    py, rs = PyText(), RsText(vh, "from_rom")
    py.font(rom)
    rs.font(rom)
    mism: List[Dict[str, Any]] = []
    rec = {"id": shard, "rom": rom, "cases": []}
    case_meta: List[Dict[str, Any]] = []
    nsteps = 0
    try:
        for bi, acts in enumerate(behaviours):
            judged = judge_every and bi % judge_every == 0
            for name, impl in (("py", py), ("rs", rs)):
                impl.new()
                prev_img = None
                for ai, a in enumerate(acts):
                    ws = [(w[0], w[1]) for w in a["ws"]]
                    if perturb and ai == len(acts) - 1 and a["ev"] in ("Put", "Clear"):
                        ws = ws[:-2] + ws[-1:]                      # selftest: one data write of the glyph dropped
                    o = impl.step(writes=ws, want_vram=judged)
                    nsteps += 1
                    exp = _tuples_to_lists(a["texts"])
                    if o["lines"] != exp[0]:
                        tag = "nostart" if o["lines"] == exp[1] else ("noonoff" if o["lines"] == exp[2] else "none")
                        mism.append({"impl": name, "clause": "TextAfterAction", "tag": tag, "ev": a["ev"], "step": ai,
                                     "got": ["".join(map(chr, l)) for l in o["lines"]], "want": ["".join(map(chr, l)) for l in exp[0]],
                                     "acts": [{"ev": x["ev"], "ws": _tuples_to_lists(x["ws"])} for x in acts[: ai + 1]]})
                    for c in range(2):
                        if bool(o["st"][c]["on"]) != bool(a["chipon"][c]) or o["st"][c]["start"] != a["chipstart"][c]:
                            mism.append({"impl": name, "clause": "ChipRegisters", "tag": "none", "ev": a["ev"], "step": ai,
                                         "acts": [{"ev": x["ev"], "ws": _tuples_to_lists(x["ws"])} for x in acts[: ai + 1]]})
                            break
                    if judged:
                        ob = {"impl": name, "lines": o["lines"], "image": o["image"]}
                        if prev_img is not None and a["ev"] in ("Put", "Clear", "Poke"):
                            ob["prev"] = prev_img
                            ob["ndata"] = sum(1 for (ad, _v) in ws if ad & 2)
                        rec["cases"].append({"st": [{"on": s["on"], "start": s["start"]} for s in o["st"]], "vram": o["vram"], "obs": [ob]})
                        case_meta.append({"impl": name, "acts": [{"ev": x["ev"], "ws": _tuples_to_lists(x["ws"])} for x in acts[: ai + 1]]})
                    prev_img = o["image"]
    finally:
        vh.close()
    nobs, bad = judge([rec] if rec["cases"] else [], f"replay-{shard}")
    out_bad = []
    for (_rid, ci, impl, clause, tag) in bad:
        out_bad.append({"impl": impl, "clause": clause, "tag": tag, "replay": case_meta[ci - 1] if ci >= 1 else None})
    return {"behaviours": len(behaviours), "steps": nsteps, "mism": mism, "obs": nobs, "bad": out_bad}


def _tlc_emit(module: str, cfg: str, tag: str, workers: int, simulate: Optional[int], depth: int, seed: int, timeout: int):
    extra: List[str] = []
    sim = None
    if simulate is not None:
        sim = f"num={simulate}"
        extra = ["-depth", str(depth), "-seed", str(seed)]
        workers = 1
    return run_tlc(SD, module, cfg, workers=workers, extra=extra, simulate=sim, tag=f"{tag}-{cfg}", timeout=timeout, jvm=["-Xss64m"], heap="4g")


def emit_acts(module: str, cfg: str, tag: str, workers: int = WORKERS, simulate: Optional[int] = None, depth: int = 0, seed: int = 0, timeout: int = 1800):
    """TLC run (exhaustive, or -simulate with `simulate` behaviours) of a RecordActs configuration whose invariant Emit prints every
    complete behaviour as <<"BEH", ToString(acts)>>; returns the list of histories.  (A state dump would pretty-print the whole VRAM
    of every state, and TLC's pretty printer is slow on nested values - hence ToString.)"""
    res = _tlc_emit(module, cfg, tag, workers, simulate, depth, seed, timeout)
    out = [vlib.parse_tla(v[1]) for v in res.printed() if isinstance(v, tuple) and len(v) == 2 and v[0] == "BEH"]
    out = [b for b in out if b]
    n = len(re.findall(r'^<< ?"BEH"', res.out, re.M))
    if n != len(out):
        raise MachineryError(f"{cfg}: {n} behaviours printed, {len(out)} parsed (interleaved output?)")
    return out, res


def emit_steps(module: str, cfg: str, tag: str, workers: int = WORKERS, simulate: Optional[int] = None, depth: int = 0, seed: int = 0, timeout: int = 1800):
    """The same for LcdText, whose Emit prints one line per STATE: <<"STEP", ToString(history), ToString(texts), on, start>>.  The
    complete behaviours (histories that are not a proper prefix of another) are reassembled, each action annotated with what the
    model says the glass reads after it (texts under the three readings, chip on / start line)."""
    res = _tlc_emit(module, cfg, tag, workers, simulate, depth, seed, timeout)
    ann: Dict[str, Any] = {}
    hist: Dict[str, Any] = {}
    n = 0
    for v in res.printed():
        if isinstance(v, tuple) and len(v) == 5 and v[0] == "STEP":
            n += 1
            ann[v[1]] = (vlib.parse_tla(v[2]), v[3], v[4])
            hist[v[1]] = None
    if n != len(re.findall(r'^<< ?"STEP"', res.out, re.M)):
        raise MachineryError(f"{cfg}: not every emitted step could be parsed (interleaved output?)")
    # prefix structure from the printed strings themselves: ToString(<<a, b>>) = "<<" + a + ", " + b + ">>"
    keys = sorted(ann)
    parsed = {k: vlib.parse_tla(k) for k in keys}
    sig = {k: tuple(json.dumps(_tuples_to_lists([a["ev"], a["ws"]])) for a in parsed[k]) for k in keys}
    by_sig = {sig[k]: k for k in keys}
    prefixes = {s[:i] for s in by_sig for i in range(1, len(s))}
    out = []
    for s_, k in by_sig.items():
        if s_ in prefixes:
            continue
        acts = [dict(a) for a in parsed[k]]
        ok = True
        for i in range(len(acts)):
            kk = by_sig.get(s_[: i + 1])
            if kk is None:
                ok = False
                break
            texts, on, start = ann[kk]
            acts[i]["texts"], acts[i]["chipon"], acts[i]["chipstart"] = texts, on, start
        if not ok:
            raise MachineryError(f"{cfg}: a prefix of an emitted behaviour was not emitted")
        out.append(acts)
    return out, res


def printed_font(res) -> Any:
    for v in res.printed():
        if isinstance(v, tuple) and len(v) == 2 and v[0] == "FONT":
            return v[1]
    raise MachineryError("the model did not print its font:\n" + res.out[-1500:])


# ============================================================================================ drift bookkeeping
class Drift:
    """Disagreements that contradict no listed property, grouped by (implementation, clause, reading that explains it)."""

    EXPLAIN = {
        "nostart": "the display buffer ignores the start line (HD61202Controller.get_display_buffer has no start_line term; LcdController::display_buffer rotates by it)",
        "noonoff": "the display buffer ignores display on/off (LcdController::display_buffer copies an off chip's VRAM; HD61202Controller.get_display_buffer leaves an off chip's area at 0)",
        "dictlabels": "font.py keeps labelled glyphs in a dict keyed by the label: in the Japanese layout the glyph at 0xEF ('/') replaces the pattern of the ASCII '/' at 0x2F, which then decodes as '?'; lcd_text.rs keeps both patterns",
        "cache": "font.py _FONT_REVERSE_LOOKUP_CACHE is keyed by id(memory) and 15 ROM bytes, not by the font table (the ROM is constant in the product)",
        "none": "no alternative reading of the model explains it",
    }

    def __init__(self) -> None:
        self.by: Dict[Tuple[str, ...], Dict[str, Any]] = {}

    def add(self, where: str, impl: str, clause: str, tag: str, example: Any) -> None:
        e = self.by.setdefault((impl, clause, tag), {"n": 0, "where": {}, "example": example})
        e["n"] += 1
        e["where"][where] = e["where"].get(where, 0) + 1

    def flush(self, cr: CheckRun) -> None:
        for (impl, clause, tag), e in sorted(self.by.items()):
            ex = json.dumps(e["example"], default=str)
            cr.add_drift(f"impl={impl} clause={clause} reading={tag} cases={e['n']} in {e['where']} :: {self.EXPLAIN.get(tag, '')} :: e.g. {ex[:400]}")
            cr.cov.setdefault("drift_classes", []).append({"impl": impl, "clause": clause, "reading": tag, "cases": e["n"], "where": e["where"]})


def report_bad(cr: CheckRun, drift: Drift, where: str, bad: List[Dict[str, Any]]) -> None:
    for b in bad:
        if b["clause"] == "ColumnsPerWrite":
            cr.violation(f"ColumnsPerWrite:{b['impl']}", f"{b['impl']} display: an action with n chip data writes changed more than n display columns or more than 8n pixels - C15: "
                         "'a single data write changes at most the eight pixels of one display column'", b.get("replay"))
        elif b["clause"] == "FontLaw":
            raise MachineryError(f"LcdText!FontLaw fails on a generated font: {b}")
        else:
            drift.add(where, b["impl"], b["clause"], b["tag"], {k: v for k, v in (b.get("replay") or {}).items() if k in ("st", "acts", "impl")})


# ============================================================================================ Python font cache probe (not modelled)
def font_cache_probe(cr: CheckRun, drift: Drift) -> None:
    """font.py caches the lookup tables under (id(memory), 15 ROM bytes).  The model says the text is a function of picture and
    font; rewrite a glyph the key does not cover in the SAME memory object and decode again."""
    vlib.setup_repo_imports()
    py = PyText()
    rom = [0] * ROM_LEN
    o = ENGLISH - ATLAS
    A, B = [1, 2, 4, 8, 16], [31, 17, 17, 17, 31]
    rom[o + 6 * 1: o + 6 * 1 + 5] = A            # '!'
    py.font(rom)
    py.new()
    ws = [(0x2000, 0x3F), (0x2004, 0xB8), (0x2004, 0x40)] + [(0x2006, b) for b in B]
    first = py.step(writes=ws)["lines"]
    py.mem.rom[o + 6 * 1: o + 6 * 1 + 5] = B      # the ROM now draws '!' as B
    second = py.step()["lines"]
    fresh = PyText()
    fresh.font(py.mem.rom)
    fresh.c = py.c
    third = fresh.step()["lines"]
    cr.cov["font_cache_probe"] = {"before": first, "same_memory_after_rewrite": second, "fresh_memory_after_rewrite": third}
    if second != third:
        drift.add("FontCache", "py", "TextOfImage", "cache", {"note": "same memory object, glyph '!' rewritten: decode still uses the old table; a fresh memory object with the same bytes decodes '!'",
                                                            "stale": second, "fresh": third})


# ============================================================================================ collecting
TEXT_ACTIONS = ("PutGlyph", "ClearCell", "Scroll", "OnOff", "Poke", "RawWrite")


def _collect_replay(cr: CheckRun, drift: Drift, where: str, out: List[Dict[str, Any]], items: List[Any]) -> None:
    nb = sum(r["behaviours"] for r in out)
    ns = sum(r["steps"] for r in out)
    nobs = sum(r["obs"] for r in out)
    for r in out:
        for m in r["mism"]:
            drift.add(where, m["impl"], m["clause"], m["tag"], {"ev": m["ev"], "acts": m["acts"][-3:], "got": m.get("got"), "want": m.get("want")})
        report_bad(cr, drift, where, r["bad"])
    cr.cov["traces_validated_against_impl"] += 2 * nb
    cr.cov["evaluations"] += ns + nobs
    cr.cov.setdefault("campaigns", []).append({"name": where, "behaviours": nb, "implementations": 2, "steps_compared": ns, "observations_judged_by_tlc": nobs,
                                                "steps_differing_from_model": sum(len(r["mism"]) for r in out)})
    if items:
        b = items[len(items) // 2]
        cr.add_sample({"campaign": where, "acts": [{k: _tuples_to_lists(v) for k, v in a.items() if k in ("ev", "t", "k", "pat", "cs", "line", "on")} for a in b[:4]],
                       "model_text_after_last": ["".join(map(chr, l)) for l in _tuples_to_lists(b[min(3, len(b) - 1)]["texts"])[0]]})


# ============================================================================================ part 2: Iq7000 / unknown display
IQ, UNK = "iq7000-vram", "unknown"
PAYLEN = {IQ: 768, UNK: 0}


def rows_of(payload_or_nz, sparse: bool) -> List[Any]:
    """Non-zero 96-byte pages of a VRAM / payload, as [[page, [96 bytes]], ...] (what TraceIq7000Lcd reads)."""
    pages: Dict[int, List[int]] = {}
    it = payload_or_nz if sparse else [(i, b) for i, b in enumerate(payload_or_nz) if b]
    for i, b in it:
        if 0 <= i < 768:
            pages.setdefault(i // 96, [0] * 96)[i % 96] = b
    return [[p, row] for p, row in sorted(pages.items())]


class IqDriver:
    """Drives the real Box<dyn LcdHal> and logs TraceIq7000Lcd events."""

    def __init__(self, vh: Vh, kind: str, tid: int) -> None:
        self.vh, self.kind, self.tid = vh, kind, tid
        r = vh.call("iqlcd.new", kind=kind)
        self.events: List[Dict[str, Any]] = [{"tid": tid, "ev": "Init", "kind": r["kind"]}]
        self.export: Optional[Dict[str, Any]] = None

    def _log(self, ev: Dict[str, Any]) -> Dict[str, Any]:
        ev["tid"] = self.tid
        if "nz" in ev:
            ev["rows"] = rows_of(ev["nz"], True)
        self.events.append(ev)
        return ev

    def write(self, addr: int, v: int):
        r = self.vh.call("iqlcd.write", addr=addr, v=v)
        return self._log({"ev": "W", "addr": addr, "v": v, "handles": int(r["handles"]), "nz": r["nz"], "ret": -1, "ok": 1})

    def read(self, addr: int):
        r = self.vh.call("iqlcd.read", addr=addr)
        return self._log({"ev": "R", "addr": addr, "ret": r["ret"], "handles": int(r["handles"]), "placeholder": r["placeholder"], "nz": r["nz"], "ok": 1})

    def reset(self):
        r = self.vh.call("iqlcd.reset")
        return self._log({"ev": "Reset", "nz": r["nz"], "ret": -1, "ok": 1})

    def do_export(self):
        r = self.vh.call("iqlcd.export")
        self.export = {"meta": r["meta"], "payload": r["payload"]}
        m = r["meta"]
        return self._log({"ev": "Export", "kind": m.get("kind", ""), "len": len(r["payload"]), "cols": m.get("cols", -1), "ppb": m.get("pages_per_buffer", -1),
                          "buffers": m.get("buffers", -1), "prows": rows_of(r["payload"], False), "nz": r["nz"], "ret": -1, "ok": 1})

    def load(self, meta: Dict[str, Any], payload: List[int]):
        r = self.vh.call("iqlcd.load", meta=meta, payload=payload)
        ks = meta.get("kind")
        return self._log({"ev": "Load", "haskind": int(isinstance(ks, str)), "kindstr": ks.strip() if isinstance(ks, str) else "", "len": len(payload),
                          "prows": rows_of(payload, False), "ok": int(r["ok"]), "nz": r["nz"], "ret": -1})

    def load_variant(self, kindsel: str, payload: str):
        assert self.export is not None
        meta = dict(self.export["meta"])
        if kindsel == "none":
            meta.pop("kind", None)
        elif kindsel != "own":
            meta["kind"] = kindsel
        p = list(self.export["payload"])
        if payload == "short":
            p = p[:-1]
        elif payload == "long":
            p = p + [0]
        elif payload == "fill":
            p = [165] * len(p)
        return self.load(meta, p)

    def obs(self):
        r = self.vh.call("iqlcd.obs")
        return self._log({"ev": "Obs", "image": r["image"], "vbytes": r["vbytes"]})


def _iq_replay_job(arg) -> Dict[str, Any]:
    shard, kind, behaviours, perturb = arg
    vh = Vh()
    events: List[Dict[str, Any]] = []
    meta: Dict[int, Any] = {}
    mism: List[Dict[str, Any]] = []
    tid = shard * 1_000_000
    nsteps = 0
    try:
        for acts in behaviours:
            tid += 1
            d = IqDriver(vh, kind, tid)
            meta[tid] = {"kind": kind, "acts": [{k: _tuples_to_lists(v) for k, v in a.items() if k not in ("nz",)} for a in acts]}
            for ai, a in enumerate(acts):
                ev = a["ev"]
                if ev == "W":
                    v = a["v"] ^ (0x10 if perturb and ai == len(acts) - 1 else 0)
                    e = d.write(a["addr"], v)
                elif ev == "R":
                    e = d.read(a["addr"])
                elif ev == "Reset":
                    e = d.reset()
                elif ev == "Export":
                    e = d.do_export()
                else:
                    e = d.load_variant(a["kindsel"], a["payload"])
                nsteps += 1
                want_nz = {tuple(x) for x in a["nz"]}
                got_nz = {tuple(x) for x in e["nz"]}
                diffs = []
                if got_nz != want_nz:
                    diffs.append("VramContents")
                if e["ret"] != a["ret"]:
                    diffs.append("ReturnValue")
                if bool(e["ok"]) != bool(a["ok"]):
                    diffs.append("LoadAccepted")
                if "handles" in a and bool(e["handles"]) != bool(a["handles"]):
                    diffs.append("Handles")
                if "placeholder" in a and e["placeholder"] != a["placeholder"]:
                    diffs.append("Placeholder")
                if ev == "Export" and (e["kind"] != a["kind"] or e["len"] != a["len"]):
                    diffs.append("ExportMeta")
                for cl in diffs:
                    mism.append({"kind": kind, "clause": cl, "step": ai, "acts": meta[tid]["acts"][: ai + 1]})
            d.obs()
            events.extend(d.events)
    finally:
        vh.close()
    bad = vlib.tlc_judge_trace(PID, SD, "TraceIq7000Lcd", "TraceIq7000Lcd.cfg", events, f"iqreplay-{kind}-{shard}") if events else []
    return {"behaviours": len(behaviours), "steps": nsteps, "events": len(events), "mism": mism, "bad": [(b, meta.get(b["tid"])) for b in bad]}


KIND_STRINGS = ["hd61202", "iq7000-vram", "unknown", " iq7000-vram ", "\tunknown\n", "HD61202", "iq7000", "", "weird", "iq7000-vram "]


def _iq_random_job(arg) -> Dict[str, Any]:
    shard, seed, ntraces, length = arg
    rnd = random.Random(seed * 7919 + shard)
    vh = Vh()
    events: List[Dict[str, Any]] = []
    meta: Dict[int, Any] = {}
    tid = 50_000_000 + shard * 1_000_000
    try:
        for n in range(ntraces):
            tid += 1
            kind = UNK if n % 5 == 4 else IQ
            d = IqDriver(vh, kind, tid)
            log: List[Any] = []
            for _ in range(length):
                r = rnd.random()
                base = rnd.choice([0x4000, 0x4000, 0x6000, 0x6000, 0x2000, 0xA000, 0x3F80, 0x5F80, 0x4180, 0x6180])
                addr = (base + rnd.randrange(0x280)) | (rnd.choice([0, 0, 0, 1, 2, 0x7F]) << 24)
                if r < 0.55:
                    v = rnd.randrange(256)
                    d.write(addr, v)
                    log.append(["W", addr, v])
                elif r < 0.70:
                    d.read(addr)
                    log.append(["R", addr])
                elif r < 0.74:
                    d.reset()
                    log.append(["Reset"])
                elif r < 0.84 or d.export is None:
                    d.do_export()
                    log.append(["Export"])
                else:
                    meta_in = dict(d.export["meta"])
                    k = rnd.random()
                    if k < 0.2:
                        meta_in.pop("kind", None)
                    elif k < 0.6:
                        meta_in["kind"] = rnd.choice(KIND_STRINGS)
                    p = list(d.export["payload"])
                    k = rnd.random()
                    if k < 0.15:
                        p = p[: rnd.randrange(len(p) + 1)]
                    elif k < 0.25:
                        p = p + [rnd.randrange(256)] * rnd.randint(1, 3)
                    elif k < 0.6:
                        p = [rnd.randrange(256) if rnd.random() < 0.1 else b for b in p]
                    d.load(meta_in, p)
                    log.append(["Load", meta_in, len(p)])
                if rnd.random() < 0.04:
                    d.obs()
            d.obs()
            meta[tid] = {"kind": kind, "log": log}
            events.extend(d.events)
        # the pure helpers, once per shard
        tid += 1
        events.append({"tid": tid, "ev": "Init", "kind": IQ})
        metas = [{"meta": ({"kind": s} if s is not None else {}), "default": dflt} for s in KIND_STRINGS + [None] for dflt in ("hd61202", "iq7000-vram", "unknown")]
        offs = [0, 1, 0xF, 0x10, 0xFFF, 0x1000, 0x1005, 0xFFFF, 0x12345]
        r = vh.call("iqlcd.kinds", raw=KIND_STRINGS, metas=metas, offsets=offs)
        for s, (got, made, ser) in zip(KIND_STRINGS, r["parsed"]):
            events.append({"tid": tid, "ev": "Parse", "s": s.strip(), "got": got if got == ser else "serde:" + str(ser), "made": made})
        for m, got in zip(metas, r["metas"]):
            ks = m["meta"].get("kind")
            events.append({"tid": tid, "ev": "MetaKind", "haskind": int(ks is not None), "s": (ks or "").strip(), "default": m["default"], "got": got})
        for o, got in zip(offs, r["overlay"]):
            events.append({"tid": tid, "ev": "Overlay", "off": o, "got": got})
        meta[tid] = {"kind": "helpers"}
    finally:
        vh.close()
    bad = vlib.tlc_judge_trace(PID, SD, "TraceIq7000Lcd", "TraceIq7000Lcd.cfg", events, f"iqrandom-{shard}")
    return {"traces": ntraces, "events": len(events), "bad": [(b, meta.get(b["tid"])) for b in bad]}


IQ_ACTIONS = ("Write", "Read", "Reset", "Export", "Load")


# ============================================================================================ the campaign: phase 1 = every TLC-only run, side by side
def _phase1(quick: bool, seed: int) -> Dict[str, Any]:
    """name -> (kind, result): 'tlc' TlcResult | 'emit' (behaviours, TlcResult).  Threads only wait for their TLC subprocess."""
    tier = "quick" if quick else "thorough"
    jobs: Dict[str, Any] = {
        # LcdText: refinement laws + action coverage; the model check proper; the behaviours for the replay
        "text-laws+coverage": ("tlc", lambda: run_tlc(SD, "LcdTextLaws", "MCLcdText_cov.cfg", workers=1, extra=["-coverage", "1"], tag=f"{PID}-LcdTextLaws", timeout=1500, jvm=["-Xss64m"], heap="3g")),
        "text-mc": ("tlc", lambda: run_tlc(SD, "MCLcdText", f"MCLcdText_{tier}.cfg", workers=3 if quick else WORKERS, tag=f"{PID}-MCLcdText_{tier}", timeout=3000, jvm=["-Xss64m"], heap="6g")),
        "text-emit": ("emit", lambda: emit_steps("MCLcdText", "MCLcdText_replay.cfg" if quick else "MCLcdText_replay_thorough.cfg", PID, workers=3 if quick else WORKERS)),
        "text-sim": ("emit", lambda: emit_steps("MCLcdText", "MCLcdText_sim.cfg", PID, simulate=24 if quick else 300, depth=45, seed=seed)),
    }
    for k in ("iq", "unk"):
        jobs[f"iq-mc-{k}"] = ("tlc", lambda k=k: run_tlc(SD, "MCIq7000Lcd", f"MCIq7000Lcd_{k}_{tier}.cfg", workers=1 if quick else 4, extra=["-coverage", "1"], tag=f"{PID}-MCIq7000Lcd_{k}_{tier}", timeout=3000, heap="4g"))
        jobs[f"iq-emit-{k}"] = ("emit", lambda k=k: emit_acts("MCIq7000Lcd", f"MCIq7000Lcd_{k}_replay.cfg", PID, workers=1))
        jobs[f"iq-sim-{k}"] = ("emit", lambda k=k: emit_acts("MCIq7000Lcd", f"MCIq7000Lcd_{k}_sim.cfg", PID, simulate=((30 if quick else 600) if k == "iq" else (8 if quick else 60)), depth=20, seed=seed))
    results: Dict[str, Any] = {}
    weight = {"text-mc": 3 if quick else WORKERS, "text-emit": 3 if quick else WORKERS, "iq-mc-iq": 1 if quick else 4, "iq-mc-unk": 1 if quick else 4}
    free = [WORKERS]                      # never more than WORKERS TLC worker threads of this campaign at a time
    cv = threading.Condition()

    def run(name: str) -> None:
        w = weight.get(name, 1)
        with cv:
            cv.wait_for(lambda: free[0] >= w)
            free[0] -= w
        try:
            results[name] = (jobs[name][0], jobs[name][1]())
        except Exception as e:      # noqa: BLE001
            results[name] = ("error", e)
        finally:
            with cv:
                free[0] += w
                cv.notify_all()
    order = sorted(jobs, key=lambda n: -weight.get(n, 1))
    th = [threading.Thread(target=run, args=(n,)) for n in order]
    for t in th:
        t.start()
    for t in th:
        t.join()
    for name, (kind, r) in results.items():
        if kind == "error":
            raise r
    return results


def _phase2_job(arg):
    kind, a = arg
    return kind, {"text-replay": _replay_job, "text-sim": _replay_job, "text-random": _random_job, "iq-replay": _iq_replay_job, "iq-random": _iq_random_job}[kind](a)


def campaign(cr: CheckRun, quick: bool) -> None:
    vlib.setup_repo_imports()
    vlib.build_vh()
    cr.mark("build")
    drift = Drift()
    r1 = _phase1(quick, cr.seed)
    # ---- phase 1 verdicts: the models hold their own properties, every action is taken
    for name, (kind, r) in sorted(r1.items()):
        res = r if kind == "tlc" else r[1]
        if res.invariant_violated:
            raise MachineryError(f"{name}: the model violates {res.invariant_violated}:\n{res.out[-2000:]}")
        tlc_expect_ok(res, name)
        cr.add_tlc(name, res)
    laws = r1["text-laws+coverage"][1]
    if not any(isinstance(v, tuple) and v[:1] == ("LAWS",) for v in laws.printed()):
        raise MachineryError("LcdTextLaws did not evaluate its assumptions:\n" + laws.out[-1500:])
    for name, acts_wanted in (("text-laws+coverage", TEXT_ACTIONS), ("iq-mc-iq", IQ_ACTIONS), ("iq-mc-unk", IQ_ACTIONS)):
        ca = r1[name][1].coverage_actions()
        missing = [a for a in acts_wanted if ca.get(a, (0, 0))[1] == 0]
        if missing:
            raise MachineryError(f"{name}: actions never taken: {missing}")
        cr.cov.setdefault("action_coverage", {})[name] = {a: ca[a][1] for a in acts_wanted}
    cr.mark("tlc (model checks, laws, behaviours)")
    # ---- phase 2: drive the implementations, judge with TLC; one pool for everything
    behs, res = r1["text-emit"][1]
    rom = font_rom_from_glyphs(printed_font(res))
    items = [[dict(a) for a in b] for b in behs]
    sims, sres = r1["text-sim"][1]
    srom = font_rom_from_glyphs(printed_font(sres))
    sitems = [[dict(a) for a in b] for b in sims]
    jobs: List[Any] = []
    n = 4 if quick else WORKERS
    jobs += [("text-replay", (100 + i, items[i::n], rom, 10 if quick else 3, False)) for i in range(n) if items[i::n]]
    n = 2 if quick else WORKERS
    jobs += [("text-sim", (200 + i, sitems[i::n], srom, 8 if quick else 2, False)) for i in range(n) if sitems[i::n]]
    n = 4 if quick else WORKERS
    jobs += [("text-random", (i, cr.seed, 3 if quick else 12, 6 if quick else 12)) for i in range(n)]
    iq_items: Dict[str, List[Any]] = {}
    for k, kind in (("iq", IQ), ("unk", UNK)):
        its = [[dict(a) for a in b] for b in r1[f"iq-emit-{k}"][1][0]] + [[dict(a) for a in b] for b in r1[f"iq-sim-{k}"][1][0]]
        iq_items[kind] = its
        n = (2 if k == "iq" else 1) if quick else 4
        jobs += [("iq-replay", (i + (0 if k == "iq" else 20), kind, its[i::n], False)) for i in range(n) if its[i::n]]
    n = 2 if quick else WORKERS
    jobs += [("iq-random", (i, cr.seed, 40 if quick else 150, 60)) for i in range(n)]
    out = vlib.pmap(_phase2_job, jobs, procs=WORKERS)
    by: Dict[str, List[Any]] = {}
    for kind, r in out:
        by.setdefault(kind, []).append(r)
    _collect_replay(cr, drift, "replay-exhaustive", by.get("text-replay", []), items)
    _collect_replay(cr, drift, "replay-simulate", by.get("text-sim", []), sitems)
    agg = {"records": 0, "cases": 0, "obs": 0, "twins": 0, "py_rs_equal": 0, "py_rs_differ": 0}
    for r in by.get("text-random", []):
        for k in ("records", "cases", "obs", "twins"):
            agg[k] += r[k]
        agg["py_rs_equal"] += r["cross"]["py_rs_equal"]
        agg["py_rs_differ"] += r["cross"]["py_rs_differ"]
        report_bad(cr, drift, "random-vram", r["bad"])
        for tb in r["twins_bad"]:
            drift.add("random-vram", tb["impl"], "VisibleOnly", "none", tb)
        if r["sample"]:
            cr.add_sample({"campaign": "random-vram", **r["sample"]})
    cr.cov["random_vram"] = agg
    cr.cov["evaluations"] += agg["obs"]
    cr.cov["traces_validated_against_impl"] += agg["cases"]
    rr = by.get("iq-replay", [])
    for r in rr:
        for m in r["mism"]:
            drift.add("iq-replay", m["kind"], m["clause"], "none", {"acts": m["acts"][-3:]})
        for b, meta_b in r["bad"]:
            drift.add("iq-replay-trace", (meta_b or {}).get("kind", "?"), b["clause"], "none", {"detail": b["detail"], "acts": (meta_b or {}).get("acts", [])[-3:]})
    cr.cov["traces_validated_against_impl"] += sum(r["behaviours"] for r in rr)
    cr.cov["evaluations"] += sum(r["steps"] + r["events"] for r in rr)
    cr.cov.setdefault("campaigns", []).append({"name": "iq-replay", "behaviours": {k: len(v) for k, v in iq_items.items()}, "steps_compared": sum(r["steps"] for r in rr),
                                                "events_validated_by_tlc": sum(r["events"] for r in rr), "steps_differing_from_model": sum(len(r["mism"]) for r in rr)})
    for kind, its in iq_items.items():
        if its:
            cr.add_sample({"campaign": f"iq-replay:{kind}", "acts": [{kk: _tuples_to_lists(v) for kk, v in a.items() if kk in ("ev", "addr", "v", "kindsel", "payload", "ret", "ok")} for a in its[len(its) // 2][:5]]})
    rr = by.get("iq-random", [])
    for r in rr:
        for b, meta_b in r["bad"]:
            drift.add("iq-random", (meta_b or {}).get("kind", "?"), b["clause"], "none", {"detail": b["detail"], "log": (meta_b or {}).get("log", [])[:6]})
    cr.cov["traces_validated_against_impl"] += sum(r["traces"] for r in rr)
    cr.cov["evaluations"] += sum(r["events"] for r in rr)
    cr.cov.setdefault("campaigns", []).append({"name": "iq-random", "traces": sum(r["traces"] for r in rr), "events_validated_by_tlc": sum(r["events"] for r in rr),
                                                "rejected_steps": sum(len(r["bad"]) for r in rr)})
    cr.mark("drive + judge")
    font_cache_probe(cr, drift)
    drift.flush(cr)
    cr.cov["distinct_nontrivial"] = len(items) + len(sitems) + agg["cases"] + sum(len(v) for v in iq_items.values())
    cr.cov["rule"] = ("distinct action sequences replayed on both display implementations with the decoded text compared after every action; (font ROM, VRAM image) cases "
                      "judged by TLC for three decoder entry points; Iq7000 / unknown LcdHal call sequences replayed and validated by TLC")
    cr.cov["exhaustive"] = False
    cr.cov["trusted_base"] = ["vh harness (lcdtext.rs, iqlcd.rs)", "TLC", "lib/vlib.py", "input generators seg()/paint()/gen_rom() of this module (inputs only)"]
    cr.assumptions += [
        "the reference reading HW applies the start line and honours display on/off; the Python buffer ignores the start line, the Rust buffer ignores on/off (reported as drift, readings nostart / noonoff)",
        "font ROMs are synthetic: 256 x 6 bytes at the Japanese atlas base (the English table lies inside); sentinel bytes are exact or clearly different (font.py compares them unmasked, lcd_text.rs masked)",
        "kind strings are trimmed by the driver before TLC sees them (TLA+ has no string operations); the untrimmed string is what the Rust code receives",
        "Iq7000LcdController / UnknownLcdController exist in Rust only; no listed property speaks about them, so every disagreement there is drift",
    ]


def selftest() -> bool:
    """The binding binds: (1) a corrupted decoded line and a corrupted picture byte are rejected by JudgeLcdText, (2) a replay with one
    data write of a glyph dropped is reported, (3) a corrupted / dropped event of an Iq7000 trace is rejected, (4) a perturbed Iq7000 replay
    is reported."""
    vlib.setup_repo_imports()
    vlib.build_vh()
    ok = True
    r = _random_job((0, 1, 1, 2))
    if r["bad"] and any(b["tag"] == "none" for b in r["bad"]):
        print("selftest: pristine random records rejected", r["bad"][:2]); ok = False
    # (1) corrupt one recorded field
    rnd = random.Random(5)
    rom = gen_rom(rnd, "english")
    pats = rom_patterns(rom, False)
    py = PyText(); py.font(rom); py.new()
    case = gen_case(rnd, pats)
    case["st"] = [{"on": 1, "start": 0, "page": 0, "y": 0}] * 2
    o = py.step(load={"st": case["st"], "vram": case["vram"]}, want_vram=False)
    good = {"id": 1, "rom": rom, "cases": [{"st": case["st"], "vram": case["vram"], "obs": [{"impl": "py", "lines": o["lines"], "image": o["image"]}]}]}
    if judge([good], "self0")[1]:
        print("selftest: pristine record rejected"); ok = False
    b1 = json.loads(json.dumps(good))
    ln = next(l for l in b1["cases"][0]["obs"][0]["lines"] if l)
    ln[0] = 64 if ln[0] != 64 else 65
    if ("TextOfImage" not in {b[3] for b in judge([b1], "self1")[1]}):
        print("selftest: corrupted decoded line accepted"); ok = False
    b2 = json.loads(json.dumps(good))
    b2["cases"][0]["obs"][0]["image"][2][130] ^= 0x08
    cl = {b[3] for b in judge([b2], "self2")[1]}
    if "ImageOfVram" not in cl:
        print("selftest: corrupted picture byte accepted", cl); ok = False
    b3 = json.loads(json.dumps(good))
    prev = json.loads(json.dumps(o["image"]))
    prev[0][10] ^= 1; prev[1][11] ^= 1
    b3["cases"][0]["obs"][0].update({"prev": prev, "ndata": 1})
    if "ColumnsPerWrite" not in {b[3] for b in judge([b3], "self3")[1]}:
        print("selftest: two columns changed by one data write accepted"); ok = False
    # (2) perturbed replay
    behs, res = emit_steps("MCLcdText", "MCLcdText_replay.cfg", PID + "-self", workers=4)
    rom2 = font_rom_from_glyphs(printed_font(res))
    items = [b for b in [[dict(a) for a in b] for b in behs] if b[-1]["ev"] == "Put" and all(b[-1]["chipon"].values()) and any(b[-1]["pat"])][:20]
    clean = _replay_job((900, items, rom2, 0, False))
    pert = _replay_job((901, items, rom2, 0, True))
    print(f"selftest: text replay of {len(items)} behaviours: {len(clean['mism'])} steps differ unperturbed, {len(pert['mism'])} with one glyph column write dropped")
    if not items or not len(pert["mism"]) > len(clean["mism"]) or any(m["tag"] == "none" for m in clean["mism"]):
        print("selftest: perturbed text replay not reported"); ok = False
    # (3) Iq7000 trace corruption
    vh = Vh()
    try:
        d = IqDriver(vh, IQ, 1)
        d.write(0x4005, 0x5A); d.write(0x6085, 0xA5); d.read(0x4005); d.do_export(); d.reset(); d.load_variant("own", "snap"); d.obs()
        ev = d.events
    finally:
        vh.close()
    if vlib.tlc_judge_trace(PID, SD, "TraceIq7000Lcd", "TraceIq7000Lcd.cfg", ev, "self-iq0"):
        print("selftest: pristine Iq7000 trace rejected"); ok = False
    c1 = json.loads(json.dumps(ev)); c1[2]["rows"][0][1][5] = 0x5B
    if not vlib.tlc_judge_trace(PID, SD, "TraceIq7000Lcd", "TraceIq7000Lcd.cfg", c1, "self-iq1"):
        print("selftest: corrupted Iq7000 VRAM byte accepted"); ok = False
    c2 = ev[:2] + ev[3:]
    if not vlib.tlc_judge_trace(PID, SD, "TraceIq7000Lcd", "TraceIq7000Lcd.cfg", c2, "self-iq2"):
        print("selftest: dropped Iq7000 write accepted"); ok = False
    c3 = json.loads(json.dumps(ev)); c3[-1]["image"][0][90] ^= 0x80
    if not vlib.tlc_judge_trace(PID, SD, "TraceIq7000Lcd", "TraceIq7000Lcd.cfg", c3, "self-iq3"):
        print("selftest: corrupted Iq7000 picture accepted"); ok = False
    # (4) perturbed Iq7000 replay
    behs, res = emit_acts("MCIq7000Lcd", "MCIq7000Lcd_iq_replay.cfg", PID + "-self", workers=2)
    its = [[dict(a) for a in b] for b in behs if len(b) == 2 and b[-1]["ev"] == "W" and b[-1]["handles"] and b[-1]["nz"]][:20]
    clean = _iq_replay_job((90, IQ, its, False))
    pert = _iq_replay_job((91, IQ, its, True))
    print(f"selftest: Iq7000 replay of {len(its)} behaviours: {len(clean['mism'])} steps differ unperturbed, {len(pert['mism'])} with the written value perturbed, "
          f"{len(pert['bad'])} rejected by TraceIq7000Lcd (none expected: the trace records what was really written)")
    if not its or clean["mism"] or clean["bad"] or not pert["mism"]:
        print("selftest: perturbed Iq7000 replay not reported"); ok = False
    print("selftest EXT lcdtext:", "ok" if ok else "FAILED")
    return ok


if __name__ == "__main__":
    mode = sys.argv[1] if len(sys.argv) > 1 else "quick"
    if mode == "selftest":
        sys.exit(0 if selftest() else 2)
    t0 = time.time()
    cr = CheckRun("EXT", mode, 1, "model_checking")
    try:
        campaign(cr, mode == "quick")
    except Exception as e:      # noqa: BLE001  (what ./check does: a crash of the code under test is a verdict, not a machinery failure)
        crash = vlib.classify_exception(e)
        if crash is None:
            raise
        print(f"IMPL-CRASH property=EXT {crash}\n{crash.tb[-1500:]}", flush=True)
        cr.violation(f"NoCrash:{crash.impl}:{crash.where}", f"the code under test failed with an unexpected error ({crash.where}: {crash.msg})", {"crash": True, "vh_requests": crash.requests})
    print(json.dumps({"phases": cr.cov.get("phases"), "tlc_runs": cr.cov["tlc_runs"], "campaigns": cr.cov.get("campaigns"), "random_vram": cr.cov.get("random_vram"),
                      "drift_classes": cr.cov.get("drift_classes")}, indent=1))
    print(f"violations={len(cr.violations)} drift={len(cr.drift)} states={cr.cov['states']} transitions={cr.cov['transitions']} traces={cr.cov['traces_validated_against_impl']} "
          f"evaluations={cr.cov['evaluations']} wall={time.time() - t0:.1f}s")
    for v in cr.violations[:10]:
        print("VIOLATION", v.key, v.desc)
    sys.exit(1 if cr.violations else 0)
