"""C05 - branch metadata given to Binary Ninja matches where execution actually goes; call/return pairing laws.

spec/isa/JudgeMeta.tla   MetaAgrees: TLC judges, per (instruction, address, state), the InstructionInfo reported by
                         SC62015.get_instruction_info against the PC / stack the Python emulator reaches
spec/isa/CallRet.tla     the pairing laws (CALL..RET, CALLF..RETF, IR..RETI with stack-neutral bodies) as an abstract machine
                         over (pc, s, f, imr, frames); TLC checks StackShape / ReturnLaw on it and its behaviours are replayed,
                         one instruction per action, on the Python emulator and the Rust core (spec -> code)
"""
from __future__ import annotations

import json
import random
import sys
from pathlib import Path
from typing import Any, Dict, List, Tuple

import vlib
from vlib import CheckRun, MachineryError, SPEC, run_tlc, Vh
from checks import c04

LEVEL = "model_checking"
SD = SPEC / "isa"
IMEM = 0x100000
BRANCH_OPS = [0x01, 0x02, 0x03, 0x04, 0x05, 0x06, 0x07, 0x10, 0x11] + list(range(0x12, 0x20)) + [0xFE, 0xFF]
ADDRS = [0x00000, 0x00001, 0x04000, 0x0FFFB, 0x0FFFC, 0x0FFFD, 0x0FFFE, 0x0FFFF, 0x10000, 0x10001, 0x1FFFD, 0x2FFFE, 0x7FFFF, 0x80000,
         0xEFFFE, 0xF0000, 0xFFF00, 0xFFFE0]
DISP = [0x00, 0x01, 0x02, 0x03, 0x7F, 0x80, 0xFD, 0xFE, 0xFF]
T16 = [0x0000, 0x0001, 0x00FF, 0x7FFF, 0x8000, 0xFFFE, 0xFFFF]
T20 = [(0x00, 0x00, 0x00), (0xFF, 0xFF, 0x0F), (0x00, 0x00, 0x01), (0xFE, 0xFF, 0x02), (0x34, 0x12, 0xFF), (0x00, 0x80, 0xF7)]


def branch_encodings(tier: str, seed: int) -> List[bytes]:
    rnd = random.Random(seed + 5)
    out: List[bytes] = []
    extra = 2 if tier == "quick" else 12
    for op in BRANCH_OPS:
        if op in (0x02, 0x04, 0x14, 0x15, 0x16, 0x17):
            vals = T16 + [rnd.getrandbits(16) for _ in range(extra)]
            out += [bytes([op, v & 0xFF, v >> 8]) for v in vals]
        elif op in (0x03, 0x05):
            vals = T20 + [(rnd.getrandbits(8), rnd.getrandbits(8), rnd.getrandbits(8)) for _ in range(extra)]
            out += [bytes([op, a, b, c]) for a, b, c in vals]
        elif op == 0x10:
            out += [bytes([op, n]) for n in (0x00, 0x10, 0xE0, 0xFD, 0xFF, rnd.randrange(256))]
            out += [bytes([pre, op, n]) for pre in (0x30, 0x25, 0x36) for n in (0x10, 0xE1)]
        elif op == 0x11:
            out += [bytes([op, r]) for r in (0x04, 0x05, 0x06, 0x07)]
        elif 0x12 <= op <= 0x1F:
            out += [bytes([op, d]) for d in DISP + [rnd.randrange(256) for _ in range(extra)]]
        else:
            out.append(bytes([op]))
            out.append(bytes([0x30, op]))
    # the decoder also accepts an addressing prefix in front of every control transfer (length + 1): metadata, return
    # addresses and targets must account for it
    base = list(out)
    for k, e in enumerate(base):
        if e[0] not in c04.PRE_SET and (tier != "quick" or k % 3 == 0):
            out.append(bytes([rnd.choice([0x30, 0x25, 0x22, 0x36])]) + e)
    return out


def observe(eh, en, arch, rid: int, enc: bytes, addr: int, seed: int, vh=None) -> List[Dict[str, Any]]:
    rnd = random.Random(seed)
    st = en.random_state(rnd, code_at=addr)
    st["regs"]["F"] = rnd.randrange(4)
    st["regs"]["S"] = rnd.choice([0xBFF00, 0x28000, 0x3FFF0, 0x0FFE0])      # away from every code address used
    for r in ("X", "Y", "U"):
        st["regs"][r] = rnd.choice([0x00000, 0x0FFFF, 0x10000, 0xFFFFF, 0x2FFFE, rnd.getrandbits(20)])
    regs, mem = en.build_case(enc, st)
    # a return address / interrupt frame on the stack, a jump pointer in internal memory, the vectors
    s = regs["S"]
    for i in range(6):
        mem.append([(s + i) & 0xFFFFF, rnd.choice([0x00, 0xFF, 0xFE, rnd.randrange(256)])])
    for a in range(0xFFFFA, 0x100000):
        mem.append([a, rnd.randrange(256)])
    try:
        info = arch.get_instruction_info(bytes(enc) + bytes(6), addr)
        ilen = int(info.length)
        br = [{"t": str(b.type).split(".")[-1], "tgt": -1 if b.target is None else int(b.target)} for b in info.branches]
        ierr = ""
    except Exception as ex:      # noqa: BLE001
        ilen, br, ierr = -1, [], f"{type(ex).__name__}: {ex}"
    p = eh.run(regs, mem, 1, hashed=True)
    st1 = p["steps"][0]
    pm = p["_mem"]
    fin = sorted({a: pm.mem[a] for a, _ in st1["writes"]}.items())
    out = [{"id": rid, "impl": "py", "b": list(enc) + [0] * (8 - len(enc)), "n": len(enc), "regs": regs, "mem": mem, "ilen": ilen, "br": br,
            "post": st1["regs"], "fin": [[a, v] for a, v in fin], "err": 1 if (st1["err"] or ierr) else 0, "seed": seed, "addr": addr,
            "errtext": (st1["err"] or "") + ierr}]
    if not ierr and not st1["err"]:
        # the same metadata against a LONG-LIVED Python emulator that has just executed, at this very address, a sibling of the
        # instruction (same opcode and prefix, other operand bytes) - code that was patched or reloaded between two executions
        pre = 1 if enc[0] in c04.PRE_SET else 0
        if len(enc) > pre + 1:
            sib = bytes(enc[:-1]) + bytes([enc[-1] ^ 0x5A])
            regs_s, mem_s = en.build_case(sib, st)
            eh.run_longlived(regs_s, mem_s + mem[len(mem_s):], hashed=True)
        q = eh.run_longlived(regs, mem, hashed=True)
        sq = q["steps"][0]
        finq = sorted({a: q["_mem"].mem[a] for a, _ in sq["writes"]}.items())
        out.append({"id": rid + 100_000_000, "impl": "pyl", "b": out[0]["b"], "n": len(enc), "regs": regs, "mem": mem, "ilen": ilen, "br": br,
                    "post": sq["regs"], "fin": [[a, v] for a, v in finq], "err": 1 if sq["err"] else 0, "seed": seed, "addr": addr,
                    "errtext": str(sq["err"] or "")})
    if vh is not None and not ierr:
        # the same metadata against where the Rust core goes
        r = vh.call("exec.run", regs=regs, mem=mem, n=1, hashed=True)
        s2 = r["steps"][0]
        touched = sorted({w[0] for w in s2["writes"]})
        fin2 = vh.call("exec.mem", addrs=touched)["mem"] if touched else []
        out.append({"id": rid + 50_000_000, "impl": "rs", "b": out[0]["b"], "n": len(enc), "regs": regs, "mem": mem, "ilen": ilen, "br": br,
                    "post": {k: int(v) for k, v in s2["regs"].items()}, "fin": [[a, v] for a, v in fin2], "err": 1 if s2["err"] else 0, "seed": seed, "addr": addr,
                    "errtext": str(s2["err"] or "")})
    return out


def judge(shard_id: int, recs: List[Dict[str, Any]]):
    d = vlib.scratch("C05")
    tf = d / f"meta-{shard_id}.ndjson"
    vlib.write_ndjson(tf, [{k: v for k, v in r.items() if k not in ("errtext", "seed", "addr", "impl")} for r in recs])
    res = run_tlc(SD, "JudgeMeta", "JudgeMeta.cfg", workers=1, env={"TRACE_FILE": str(tf)}, tag=f"C05-meta-{shard_id}", jvm=["-Xss128m"], heap="3g", timeout=3000)
    verdict = None
    for v in res.printed():
        if isinstance(v, tuple) and v and v[0] == "JUDGE":
            verdict = v
    if verdict is None:
        raise MachineryError(f"JudgeMeta did not complete (shard {shard_id}):\n{res.out[-2000:]}")
    tf.unlink()
    return verdict


def _job_meta(arg):
    shard_id, items = arg
    eh, en = c04._imports()
    import decode_harness as dh
    arch, _ = dh._setup()
    vh = Vh()
    recs = []
    try:
        for (rid, enc, addr, seed) in items:
            recs += observe(eh, en, arch, rid, enc, addr, seed, vh)
    finally:
        vh.close()
    v = judge(shard_id, recs)
    byid = {r["id"]: r for r in recs}
    bad = []
    for x in v[2]:
        r = byid[int(x[0])]
        b = r["b"]
        op = b[1] if b[0] in c04.PRE_SET else b[0]
        pre_end = b[0] in c04.PRE_SET and (r["addr"] & 0xFFFF) == 0xFFFF       # the prefix byte is the last byte of a 64 KiB page
        bad.append((str(x[1]), f"{r['impl']}:op{op:02X}" + (":pre-at-page-end" if pre_end else ""), c04._fmt(x[2]), {"kind": "meta", "impl": r["impl"], "bytes": b[: r["n"]], "addr": r["addr"], "seed": r["seed"]},
                    {"branches": r["br"], "len": r["ilen"], "pc_after": r["post"]["PC"], "F": r["regs"]["F"]}, r["errtext"]))
    return len(recs), bad[:3000], len(bad), len(v[3])


# ------------------------------------------------------------------------------------------------ pairing replay
CODE = {"NOP": [0x00], "SC": [0x97], "RC": [0x9F], "SETIMR": [0x32, 0xCC, 0xFB, 0xAA], "PUSHF": [0x4F], "POPF": [0x5F],
        "Ret": [0x06], "RetF": [0x07], "RetI": [0x01], "Ir": [0xFE]}


def action_bytes(act: Dict[str, Any]) -> Tuple[List[int], List[List[int]]]:
    a = act["a"]
    extra: List[List[int]] = []
    if a == "Call":
        return [0x04, act["arg"] & 0xFF, act["arg"] >> 8], extra
    if a == "CallF":
        t = act["arg"]
        return [0x05, t & 0xFF, (t >> 8) & 0xFF, t >> 16], extra
    if a == "Dispatch":
        t = act["arg"]
        return [0x0A, t & 0xFF, t >> 8, 0xB2, 0x37, 0x06], extra          # MV BA,t ; MV [--S],BA ; RET
    if a == "Ir":
        h = act["arg"]
        extra = [[0xFFFFA, h & 0xFF], [0xFFFFB, (h >> 8) & 0xFF], [0xFFFFC, h >> 16]]
    return CODE[a], extra


class PyReplayer:
    name = "py"

    def __init__(self, eh):
        self.eh = eh

    def start(self, st: Dict[str, Any]) -> None:
        from sc62015.pysc62015.emulator import RegisterName as RN
        self.RN = RN
        self.sm = self.eh.SparseMem({IMEM + 0xFB: st["imr"]}, 0, True)
        self.emu = self.eh.new_emulator(self.sm)
        for k, v in (("PC", st["pc"]), ("S", st["s"]), ("F", st["f"]), ("U", 0x90000), ("BA", 0x1234), ("I", 3), ("X", 0x20000), ("Y", 0x30000)):
            self.emu.regs.set(RN[k], v)

    def step(self, code: List[int], extra: List[List[int]]) -> Dict[str, int]:
        pc = self.emu.regs.get(self.RN.PC)
        for i, b in enumerate(code):
            self.sm.mem[(pc + i) & 0xFFFFF] = b
        for a, v in extra:
            self.sm.mem[a] = v
        try:
            for _ in range(3 if code[:1] == [0x0A] and len(code) == 6 else 1):          # the dispatch idiom is three instructions
                self.emu.execute_instruction(self.emu.regs.get(self.RN.PC))
        except Exception as ex:      # noqa: BLE001
            return {"err": f"{type(ex).__name__}: {ex}"}
        return {"pc": int(self.emu.regs.get(self.RN.PC)), "s": int(self.emu.regs.get(self.RN.S)), "f": int(self.emu.regs.get(self.RN.F)) & 3,
                "imr": self.sm.mem.get(IMEM + 0xFB, 0)}

    def close(self) -> None:
        pass


class RsReplayer:
    name = "rs"

    def __init__(self):
        self.vh = Vh()

    def start(self, st: Dict[str, Any]) -> None:
        self.pc = st["pc"]
        self.vh.call("exec.run", regs={"PC": st["pc"], "S": st["s"], "F": st["f"], "U": 0x90000, "BA": 0x1234, "I": 3, "X": 0x20000, "Y": 0x30000},
                     mem=[[IMEM + 0xFB, st["imr"]]], n=0, hashed=True)

    def step(self, code: List[int], extra: List[List[int]]) -> Dict[str, int]:
        mem = [[(self.pc + i) & 0xFFFFF, b] for i, b in enumerate(code)] + extra
        r = self.vh.call("exec.more", mem=mem, n=3 if code[:1] == [0x0A] and len(code) == 6 else 1)
        s = r["steps"][-1]
        if s["err"]:
            return {"err": str(s["err"])}
        self.pc = s["regs"]["PC"]
        imr = self.vh.call("exec.mem", addrs=[IMEM + 0xFB])["mem"][0][1]
        return {"pc": s["regs"]["PC"], "s": s["regs"]["S"], "f": s["regs"]["F"] & 3, "imr": imr}

    def close(self) -> None:
        self.vh.close()


def replay_behaviour(rp, beh) -> Any:
    """-> None when the core follows the behaviour, else (index, action, expected, got)"""
    rp.start(beh[0])
    for k, act in enumerate(beh[1:], start=1):
        code, extra = action_bytes(act)
        got = rp.step(code, extra)
        exp = {"pc": act["pc"], "s": act["s"], "f": act["f"], "imr": act["imr"]}
        if got != exp:
            return (k, act["a"], exp, got)
    return None


def _job_pair(arg):
    shard_id, behs = arg
    eh, en = c04._imports()
    out = []
    n = 0
    for rp in (PyReplayer(eh), RsReplayer()):
        try:
            for beh in behs:
                n += 1
                r = replay_behaviour(rp, beh)
                if r is not None:
                    out.append((rp.name, r, beh))
        finally:
            rp.close()
    return n, out[:500], len(out)


def maximal(behs: List[Any]) -> List[Any]:
    """drop behaviours that are a strict prefix of another one"""
    keys = {json.dumps(b, sort_keys=True) for b in behs}
    prefixes = set()
    for b in behs:
        if len(b) > 1:
            prefixes.add(json.dumps(b[:-1], sort_keys=True))
    return [b for b in behs if json.dumps(b, sort_keys=True) not in prefixes]


def run(cr: CheckRun) -> None:
    eh, en = c04._imports()
    vlib.build_vh()
    quick = cr.tier == "quick"
    rnd = random.Random(cr.seed + 1)
    # ---- (1) metadata against execution
    items = []
    rid = 0
    addrs = ADDRS + [rnd.randrange(0x100, 0xFFF00) for _ in range(6 if quick else 60)]
    for enc in branch_encodings(cr.tier, cr.seed):
        for addr in addrs:
            a = min(addr, 0x100000 - len(enc))
            for _ in range(2 if quick else 4):
                rid += 1
                items.append((rid, enc, a, rnd.getrandbits(30)))
    # every other instruction: "reports no branch => continues at address + length"
    for enc in en.valid_structures(cr.tier, cr.seed):
        if en.opcode_of(enc) in BRANCH_OPS:
            continue
        rid += 1
        a = rnd.choice(ADDRS + [rnd.randrange(0x100, 0xFFF00)])
        items.append((rid, enc, min(a, 0x100000 - len(enc)), rnd.getrandbits(30)))
    nsh = vlib.NCPU * 2
    results = vlib.pmap(_job_meta, [(i, items[i::nsh]) for i in range(nsh)])
    cr.mark("metadata")
    nmeta = sum(r[0] for r in results)
    for r in results:
        for clause, opk, detail, rep, what, err in r[1]:
            cr.violation(f"{clause}:{opk}", f"{clause} ({detail}): bytes {bytes(rep['bytes']).hex()} at 0x{rep['addr']:05X}: reported {what['branches']} length {what['len']}, "
                         f"flags F={what['F']}, execution reaches PC=0x{what['pc_after']:05X} {err}", rep)
    # ---- (2) pairing laws: model check, then replay the model's behaviours on both cores
    behs, dres = vlib.dump_behaviours(SD, "CallRet", "CallRet.cfg", "C05-callret", coverage=False, timeout=1200)
    if dres.invariant_violated or not behs or "Error:" in dres.out:
        raise MachineryError("CallRet model check failed:\n" + dres.out[-1500:])
    cr.add_tlc("CallRet (StackShape, ReturnLaw)", dres)
    behs = maximal([list(b) for b in behs])
    if not quick:
        sims, _ = vlib.sim_behaviours(SD, "CallRet", "CallRetSim.cfg", 30000, 14, cr.seed, "C05-callret")
        behs += [list(b) for b in sims]
    cr.mark("model")
    nsh = vlib.NCPU
    pres = vlib.pmap(_job_pair, [(i, behs[i::nsh]) for i in range(nsh)])
    cr.mark("replay")
    nrep = sum(r[0] for r in pres)
    for r in pres:
        for impl, (k, act, exp, got), beh in r[1]:
            cr.violation(f"Pairing:{impl}:{act}", f"{impl} core leaves the pairing model at action {k} ({act}): model {exp}, core {got}; behaviour {[a['a'] for a in beh]} from {beh[0]}",
                         {"kind": "pair", "impl": impl, "beh": beh})
    cr.cov["programs"] = nmeta + nrep
    cr.cov["traces_validated_against_impl"] = nrep + nmeta     # model behaviours replayed on the cores + judged metadata/execution records
    cr.cov["evaluations"] = nmeta
    cr.cov["traces"] = nrep
    cr.cov["distinct_nontrivial"] = len(behs)
    cr.cov["rule"] = "(1) (branch encoding x address x state) records judged by MetaAgrees; (2) distinct maximal behaviours of the CallRet model, each replayed on the Python and Rust cores"
    cr.add_sample({"metadata_record": {"bytes": "1a06", "addr": "0x0FFFE"}, "behaviour": [a["a"] for a in behs[len(behs) // 2]]})
    cr.cov["trusted_base"] = ["harness/py/exec_harness.py", "vh exec module", "binja_test_mocks (InstructionInfo, LLIL evaluator)", "TLC"]
    cr.assumptions += [
        "targets are compared modulo 2^20 (the property's 'modulo the 20-bit program counter')",
        "near calls whose next instruction lies in the following 64 KiB page, and near returns executed in a page other than the caller's, are outside the pairing model (the README's RET restores only 16 bits)",
        "bodies are stack-neutral sequences of NOP / SC / RC / MV (IMR),n / PUSHS F / POPS F; nesting depth 2 (quick: exhaustive to 4 actions; thorough: + 30000 simulated behaviours of 13 actions)",
    ]


def replay(path: str) -> int:
    eh, en = c04._imports()
    vlib.build_vh()
    rec = json.loads(Path(path).read_text())["replay"]
    if rec["kind"] == "meta":
        import decode_harness as dh
        arch, _ = dh._setup()
        vh = Vh()
        try:
            rs = observe(eh, en, arch, 1, bytes(rec["bytes"]), rec["addr"], rec["seed"], vh)
        finally:
            vh.close()
        v = judge(999, rs)
        for r in rs:
            print(r["impl"], json.dumps({k: r[k] for k in ("br", "ilen", "post")}))
        print(v[2])
        return 1 if v[2] else 0
    rp = PyReplayer(eh) if rec["impl"] == "py" else RsReplayer()
    try:
        r = replay_behaviour(rp, rec["beh"])
    finally:
        rp.close()
    print(r)
    return 1 if r else 0


def selftest(seed: int) -> int:
    eh, en = c04._imports()
    beh = [{"a": "Start", "arg": 0, "pc": 0x4000, "s": 0xBFF00, "f": 0, "imr": 0x55},
           {"a": "Call", "arg": 0x100, "pc": 0x0100, "s": 0xBFEFE, "f": 0, "imr": 0x55},
           {"a": "Ret", "arg": 0, "pc": 0x4003, "s": 0xBFF00, "f": 0, "imr": 0x55}]
    ok = replay_behaviour(PyReplayer(eh), beh) is None
    beh[2]["pc"] = 0x4004
    bad = replay_behaviour(PyReplayer(eh), beh) is not None
    print("selftest", ok, bad)
    return 0 if ok and bad else 1
