"""Growth module (no listed property): the serial adapter of the Python machine (pce500/peripherals/serial.py SerialAdapter) against
spec/mem/Uart.tla.  TLC model-checks the adapter's laws (receive-ready <=> a byte waits, RXD and the error bits are those of the head,
transmit status coherent once the transmit side was used, FIFO order in both directions, restore(snapshot()) is the identity on a
coherent adapter) and shows the one that does NOT hold (a pristine adapter reports its transmitter neither ready nor empty);
`-simulate` behaviours and seeded call sequences are executed on the real adapter over a bare PCE500Memory and judged by
TraceUart.tla.  Runs inside C11; every disagreement is DRIFT."""
from __future__ import annotations

import random
from typing import Any, Dict, List

import vlib
from vlib import CheckRun, MachineryError, SPEC, run_tlc, tlc_expect_ok

SD = SPEC / "mem"


def _drive(shard_id, items, extra):
    vlib.setup_repo_imports()
    from pce500.memory import PCE500Memory, INTERNAL_MEMORY_START
    from pce500.scheduler import TimerScheduler
    from pce500.peripherals.serial import SerialAdapter
    from sc62015.pysc62015.instr.opcodes import IMEMRegisters
    events, meta = [], {}
    tid = shard_id * 10_000_000
    USR = INTERNAL_MEMORY_START + IMEMRegisters.USR.value
    RXD = INTERNAL_MEMORY_START + IMEMRegisters.RXD.value
    for steps in items:
        tid += 1
        meta[tid] = {"steps": steps}
        mem = PCE500Memory()
        ad = SerialAdapter(mem, TimerScheduler(mti_period=0, sti_period=0))
        snap = None

        def post():
            return {"usr": mem.read_byte(USR) & 0x3F, "rxd": mem.read_byte(RXD) & 0xFF,
                    "rxq": [[int(e.value), int(e.parity_error), int(e.overrun_error), int(e.framing_error)] for e in ad.pending_receive()],
                    "txq": [int(x) for x in ad.pending_transmit()]}
        events.append(dict({"tid": tid, "ev": "Init"}, **post()))
        for st in steps:
            k = st[0]
            ret: List[Any] = []
            ev: Dict[str, Any] = {"tid": tid, "ev": "Step", "k": k}
            try:
                if k == "QueueRx":
                    v, pe, oe, fe = st[1]
                    ad.queue_receive(v, parity_error=bool(pe), overrun_error=bool(oe), framing_error=bool(fe))
                    ev["e"] = [v, pe, oe, fe]
                elif k == "ConsumeRx":
                    r = ad.consume_received()
                    if r is not None:
                        ret = [[int(r.value), int(r.parity_error), int(r.overrun_error), int(r.framing_error)]]
                elif k == "TxWrite":
                    ad.handle_imem_access(0, "TXD", "write", int(st[1]))
                    ev["v"] = int(st[1]) & 0xFF
                elif k == "TxDone":
                    r = ad.complete_transmit()
                    if r is not None:
                        ret = [int(r)]
                elif k == "Save":
                    snap = ad.snapshot()
                else:
                    if snap is None:
                        continue
                    ad.restore(snap)
            except Exception as ex:      # noqa: BLE001
                c = vlib.classify_exception(ex)
                if c is not None:
                    raise c
                raise
            ev.update(post())
            ev["ret"] = ret
            events.append(ev)
    return events, meta


def random_sequences(rnd: random.Random, n: int) -> List[List[Any]]:
    out = []
    for _ in range(n):
        steps: List[Any] = []
        for _i in range(rnd.randint(2, 30)):
            r = rnd.random()
            if r < 0.28:
                steps.append(["QueueRx", [rnd.choice([0, 1, 0x41, 0xFF, rnd.randrange(256)]), int(rnd.random() < 0.2), int(rnd.random() < 0.2), int(rnd.random() < 0.2)]])
            elif r < 0.50:
                steps.append(["ConsumeRx"])
            elif r < 0.68:
                steps.append(["TxWrite", rnd.choice([0, 0x0D, 0xFF, rnd.randrange(256)])])
            elif r < 0.84:
                steps.append(["TxDone"])
            elif r < 0.93:
                steps.append(["Save"])
            else:
                steps.append(["Restore"])
        out.append(steps)
    return out


def run(cr: CheckRun) -> None:
    quick = cr.tier == "quick"
    cfg = "MCUart_quick.cfg" if quick else "MCUart_thorough.cfg"
    res = run_tlc(SD, "MCUart", cfg, workers=max(4, vlib.NCPU // 2), tag="C11-" + cfg, timeout=2400, heap="8g")
    if res.invariant_violated or ("roperty" in res.out and "violated" in res.out):
        raise MachineryError(f"Uart model violates {res.invariant_violated or 'an action property'}")
    tlc_expect_ok(res, cfg)
    cr.add_tlc(cfg, res)
    res = run_tlc(SD, "MCUart", "MCUart_pristine.cfg", workers=1, tag="C11-uart-pristine", timeout=300, heap="1g")
    if not res.invariant_violated:
        raise MachineryError("Uart: PristineReady was expected to fail in the initial state (a pristine adapter shows USR = 0)")
    sims, res = vlib.sim_behaviours(SD, "MCUart", "MCUart_sim.cfg", 120 if quick else 2500, 30, cr.seed, "C11uart", var="acts")
    if res.invariant_violated:
        raise MachineryError(f"Uart model violates {res.invariant_violated} (simulate)")
    items = []
    for v in sims:
        steps = []
        for a in v:
            a = dict(a)
            if a["ev"] == "QueueRx":
                e = dict(a["e"])
                steps.append(["QueueRx", [int(e["v"]), int(bool(e["pe"])), int(bool(e["oe"])), int(bool(e["fe"]))]])
            elif a["ev"] == "TxWrite":
                steps.append(["TxWrite", int(a["v"])])
            else:
                steps.append([str(a["ev"])])
        if len(steps) >= 2:
            items.append(steps)
    items += random_sequences(random.Random(cr.seed + 1111), 300 if quick else 6000)
    ntr, nev, bad = vlib.trace_campaign("C11", SD, "TraceUart", "TraceUart.cfg", items, _drive, "uart")
    for b, meta in bad[:3]:
        cr.add_drift(f"action=SerialAdapter clause={b['clause']} line={b['line']} detail={b['detail']}")
    cr.cov["model_drift"] = cr.cov.get("model_drift", 0) + max(0, len(bad) - 3)
    cr.cov["traces_validated_against_impl"] += ntr
    cr.cov["evaluations"] += nev
    cr.cov.setdefault("campaigns", []).append({"name": "uart", "traces": ntr, "events": nev, "rejected_steps": len(bad)})
    cr.mark("uart")


def selftest(seed: int) -> int:
    """binding demonstration: a pristine recorded trace is accepted; one flipped status bit, one dropped event are rejected"""
    import json
    ev, _ = _drive(0, random_sequences(random.Random(seed + 5), 40), None)
    ok = True
    if vlib.tlc_judge_trace("C11", SD, "TraceUart", "TraceUart.cfg", ev, "uself0"):
        print("selftest uart: pristine trace rejected"); ok = False
    bad = json.loads(json.dumps(ev))
    k = [i for i, e in enumerate(bad) if e.get("k") == "TxDone" and e["ret"]][0]
    bad[k]["usr"] ^= 0x10
    if not any(b["line"] == k + 1 for b in vlib.tlc_judge_trace("C11", SD, "TraceUart", "TraceUart.cfg", bad, "uself1")):
        print("selftest uart: corrupted status accepted"); ok = False
    k = [i for i, e in enumerate(ev) if e.get("k") == "QueueRx"][0]
    dropped = ev[:k] + ev[k + 1:]
    if not vlib.tlc_judge_trace("C11", SD, "TraceUart", "TraceUart.cfg", dropped, "uself2"):
        print("selftest uart: trace with a dropped event accepted"); ok = False
    print("selftest uart:", "ok" if ok else "FAILED")
    return 0 if ok else 2
