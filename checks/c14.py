"""C14 - keyboard reads show exactly the held keys on strobed columns; events ordered.

spec/kbd/Keyboard.tla       per-key debounce/repeat automaton + input-driven monitors + property clauses
spec/kbd/TraceKeyboard.tla  validation of recorded runs of the Python and Rust keyboard matrices
"""
from __future__ import annotations

import json
import random
import sys
from pathlib import Path
from typing import Any, Dict, List, Tuple

import vlib
from vlib import CheckRun, MachineryError, SPEC, run_tlc, tlc_expect_ok, Vh

LEVEL = "model_checking"
SD = SPEC / "kbd"
PROPERTY_CLAUSES = {"KilSound", "KilComplete", "EventOrder", "Cadence", "ReleaseFollows", "ReleaseJustified", "FifoBounded", "DropsOldestOnly", "KeyiGated"}
PALETTE = [0, 1, 8, 9, 27, 80]   # matrix codes (column * 8 + row)
PALETTE12 = [0, 1, 8, 9, 18, 27, 35, 44, 52, 61, 70, 80]      # burst configurations (spec/kbd/TKeys12.tla)


def palette_of(cfgname: str):
    return PALETTE12 if cfgname.endswith("-burst") else PALETTE

CONFIGS = {
    # name: impl, press, release, delay, interval, cap, active_high
    "py-small-high": ("py", 2, 2, 3, 2, 7, True),
    "py-small-low": ("py", 2, 2, 3, 2, 7, False),
    "py-default-high": ("py", 6, 6, 24, 6, 7, True),
    "rs-press2-high": ("rs", 2, 6, 24, 6, 8, True),
    "rs-default-low": ("rs", 6, 6, 24, 6, 8, False),
    # key repeat switched off (what the pce500 CLI does for scripted key sequences): interval 0 = no repeats in the model
    "rs-norepeat-high": ("rs", 2, 6, 24, 0, 8, True),
    "py-norepeat-high": ("py", 2, 4, 3, 0, 7, True),
    "py-norepeat-low": ("py", 3, 4, 3, 0, 7, False),
    # twelve keys: bursts of more events in one scan tick than the queue holds (Python only: the Rust harness sees the events of a
    # tick through the queue, so a burst beyond its capacity is not observable there)
    "py-small-high-burst": ("py", 2, 2, 3, 2, 7, True),
    "py-small-low-burst": ("py", 2, 2, 3, 2, 7, False),
}


def _names() -> Dict[int, str]:
    from pce500.keyboard_matrix import KEY_LOCATIONS
    return {(loc.column << 3) | loc.row: name for name, loc in KEY_LOCATIONS.items()}


class PyKbd:
    def __init__(self, cfg, palette=None):
        self.palette = palette or PALETTE
        from pce500.keyboard_matrix import KeyboardMatrix
        from pce500.keyboard_handler import PCE500KeyboardHandler
        _, p, r, d, i, _cap, high = cfg
        self.h = PCE500KeyboardHandler(None, columns_active_high=high)
        self.m = KeyboardMatrix(columns_active_high=high, press_threshold=p, release_threshold=r, repeat_delay=d, repeat_interval=i)
        self.h._matrix = self.m
        self.h._last_kol = self.m.kol
        self.h._last_koh = self.m.koh
        # another keyboard in the same process, of the OPPOSITE column polarity and with other thresholds: it sees every strobe
        # value first and holds other keys - whatever it leaves behind (module- or class-level state) must not reach self.m
        self.decoy = KeyboardMatrix(columns_active_high=not high, press_threshold=1, release_threshold=1, repeat_delay=2, repeat_interval=1)
        self.names = _names()
        for nm in list(self.names.values())[:3]:
            self.decoy.press_key(nm)
        self.captured: List[Any] = []
        orig = self.m.scan_tick

        def wrapped():
            ev = orig()
            self.captured.extend(ev)
            return ev

        self.m.scan_tick = wrapped  # observe the events a scan reports (public return value), also when the handler scans

    def _proj(self, ret=-1):
        evs = [[e.code, 1 if e.release else 0] for e in self.captured]
        self.captured.clear()
        st = []
        for code in self.palette:
            s = self.m._key_states[self.names[code]]
            st.append([code, int(s.pressed), int(s.debounced), s.press_ticks, s.release_ticks, s.repeat_ticks])
        # the event queue as the handler reports it (what the emulator, the snapshot code and the tools read) on alternate steps,
        # as the matrix reports it otherwise: one queue, two views
        self.nproj = getattr(self, "nproj", 0) + 1
        fifo = list(self.h.fifo_snapshot()) if self.nproj % 2 == 0 else list(self.m.fifo_snapshot())
        return {"ret": ret, "events": evs, "fifo": fifo, "states": st, "isr": -1, "kbirq": -1}

    def do(self, a):
        ev = a["ev"]
        if ev == "Press":
            self.h.press_key(self.names[a["k"]])
        elif ev == "Release":
            self.h.release_key(self.names[a["k"]])
        elif ev == "WriteKOL":
            self.decoy.write_kol(a["v"]); self.decoy.read_kil(); self.decoy.scan_tick()
            self.h.handle_register_write(0xF0, a["v"])
        elif ev == "WriteKOH":
            self.decoy.write_koh(a["v"] & 0x0F); self.decoy.read_kil(); self.decoy.scan_tick()
            self.h.handle_register_write(0xF1, a["v"])
        elif ev == "Tick":
            self.h.scan_tick()
        elif ev == "ReadKIL":
            return self._proj(self.h.handle_register_read(0xF2))
        elif ev == "Inject":
            before = len(self.m.fifo_snapshot())
            self.m.inject_event(self.names[a["k"]], release=bool(a["rel"]))
            p = self._proj()
            p["events"] = [[a["k"], 1 if a["rel"] else 0]]
            return p
        elif ev == "Consume":
            self.h.consume_pending_events()
        return self._proj()


class RsKbd:
    def __init__(self, vh: Vh, cfg, kb_irq: bool, palette=None):
        PALETTE = palette or globals()["PALETTE"]
        self.vh = vh
        _, p, _r, _d, _i, _cap, high = cfg
        names = _names()
        self.keys = [[c, names[c]] for c in PALETTE]
        self.kb_irq = kb_irq
        vh.call("kbd.new", press_th=p, active_high=high, kb_irq=kb_irq, repeat=(_i != 0), keys=self.keys)
        self.pf: List[int] = []

    def _proj(self, r, events):
        st = [[s[0], int(bool(s[1])), int(bool(s[2])), s[3], s[4], s[5]] for s in r["states"]]
        self.pf = list(r["fifo"])
        return {"ret": r["ret"], "events": events, "fifo": list(r["fifo"]), "states": st, "isr": r["isr"], "kbirq": int(self.kb_irq)}

    def do(self, a):
        ev = a["ev"]
        if ev == "Press":
            return self._proj(self.vh.call("kbd.press", code=a["k"], keys=self.keys), [])
        if ev == "Release":
            return self._proj(self.vh.call("kbd.release", code=a["k"], keys=self.keys), [])
        if ev == "WriteKOL":
            return self._proj(self.vh.call("kbd.write", off=0xF0, v=a["v"], keys=self.keys), [])
        if ev == "WriteKOH":
            return self._proj(self.vh.call("kbd.write", off=0xF1, v=a["v"], keys=self.keys), [])
        if ev == "Tick":
            r = self.vh.call("kbd.tick", keys=self.keys)
            n = r["count"]
            evs = [[b & 0x7F, 1 if b & 0x80 else 0] for b in (r["fifo"][-n:] if n else [])]
            return self._proj(r, evs)
        if ev == "ReadKIL":
            return self._proj(self.vh.call("kbd.read_kil", keys=self.keys), [])
        if ev == "Inject":
            return self._proj(self.vh.call("kbd.inject", code=a["k"], rel=bool(a["rel"]), keys=self.keys), [[a["k"], 1 if a["rel"] else 0]])
        if ev == "Consume":
            return self._proj(self.vh.call("kbd.consume", keys=self.keys), [])
        raise ValueError(ev)


def drive_one(cfgname: str, acts, vh: Vh, tid: int, kb_irq: bool = True):
    cfg = CONFIGS[cfgname]
    impl = cfg[0]
    kb = PyKbd(cfg, palette_of(cfgname)) if impl == "py" else RsKbd(vh, cfg, kb_irq, palette_of(cfgname))
    # event clauses need the enqueued events of every scanning step to be observable; the Rust KIL read scans and
    # then consumes the queue, so traces that read KIL on Rust only carry the KIL / queue / KEYI clauses
    evc = 0 if (impl == "rs" and any(a["ev"] == "ReadKIL" for a in acts)) else 1
    out = [{"tid": tid, "ev": "Init", "evc": evc, "k": 0, "v": 0, "rel": 0, "ret": -1, "events": [], "fifo": [], "states": [], "isr": -1, "kbirq": -1}]
    inactive = 0 if cfg[6] else 0xFF
    # establish a known strobe state: both column registers inactive (the implementations' power-on values differ)
    for a in [{"ev": "WriteKOL", "v": inactive}, {"ev": "WriteKOH", "v": inactive & (0x0F if impl == "py" else 0xFF)}] + list(acts):
        p = kb.do(a)
        out.append({"tid": tid, "ev": a["ev"], "k": a.get("k", 0), "v": a.get("v", 0), "rel": int(bool(a.get("rel", 0))), **p})
    return out


def drive_shard(shard_id, items, extra):
    cfgname = extra
    vlib.setup_repo_imports()
    vh = Vh()
    events, meta = [], {}
    tid = shard_id * 10_000_000
    try:
        for k, acts in enumerate(items):
            tid += 1
            irq = (k % 5 != 0)
            meta[tid] = {"cfg": cfgname, "acts": acts, "kb_irq": irq}
            events.extend(drive_one(cfgname, acts, vh, tid, irq))
    finally:
        vh.close()
    return events, meta


def write_cfg(cfgname: str) -> str:
    impl, p, r, d, i, cap, high = CONFIGS[cfgname]
    path = SD / f"Trace_{cfgname}.cfg"
    want = f"""SPECIFICATION TSpec
CONSTANTS
  Keys <- TK
  KeyCol <- TCol
  KeyRow <- TRow
  PressTh = {p}
  ReleaseTh = {r}
  RepDelay = {d}
  RepInterval = {i}
  Cap = {cap}
  ActiveHigh = {"TRUE" if high else "FALSE"}
  StrobeVals = {{}}
  MaxDepth = 0
  RecordActs = FALSE
INVARIANT Report
CHECK_DEADLOCK FALSE
"""
    if not path.exists() or path.read_text() != want:
        path.write_text(want)
    return path.name


def campaign(cr: CheckRun, cfgname: str, items, tag: str) -> None:
    if not items:
        return
    cfg = write_cfg(cfgname)
    ntr, nev, bad = vlib.trace_campaign("C14", SD, "TKeys12" if cfgname.endswith("-burst") else "TKeys", cfg, items, drive_shard, f"{tag}-{cfgname}", extra=cfgname)
    impl = CONFIGS[cfgname][0]
    for b, meta in bad:
        rec = {"cfg": cfgname, "acts": meta["acts"], "kb_irq": meta["kb_irq"], "clause": b["clause"], "line": b["line"], "detail": b["detail"]}
        if b["clause"] in PROPERTY_CLAUSES:
            shape = _shape(b["clause"], meta["acts"], b["line"])
            cr.violation(f"{b['clause']}:{impl}:{shape}", f"{impl} keyboard ({cfgname}): {b['clause']} fails at step {b['line']} ({shape}); detail {b['detail']}", rec)
        else:
            cr.add_drift(f"action={b['detail'][0]} clause={b['clause']} cfg={cfgname} detail={b['detail']}")
    cr.cov["traces_validated_against_impl"] += ntr
    cr.cov["evaluations"] += nev
    cr.cov.setdefault("campaigns", []).append({"name": f"{tag}-{cfgname}", "traces": ntr, "events": nev, "rejected_steps": len(bad)})
    cr.add_sample({"campaign": f"{tag}-{cfgname}", "acts": items[len(items) // 2][:10]})


def _shape(clause: str, acts, line: int) -> str:
    """Structural class of a violation for known-finding matching: event-clause failures that occur after a
    physical Release in the same trace are one class (the Rust matrix emits no release event)."""
    tags = []
    if clause in ("ReleaseFollows", "Cadence", "EventOrder", "ReleaseJustified") and any(a["ev"] == "Release" for a in acts[: max(0, line - 3)]):
        tags.append("after-physical-release")
    # a key that is already held was reported pressed once more somewhere in this history (the Rust matrix restarts its debounce)
    down = set()
    for a in acts:
        if a["ev"] == "Press":
            if a["k"] in down:
                tags.append("redundant-press")
                break
            down.add(a["k"])
        elif a["ev"] == "Release":
            down.discard(a["k"])
        elif a["ev"] == "Inject":
            (down.discard if a.get("rel") else down.add)(a["k"])
    return "+".join(tags) or "general"


def _acts(v) -> List[Dict[str, Any]]:
    out = []
    for a in v:
        a = dict(a)
        if a["ev"] == "Inject":
            a["rel"] = int(bool(a["rel"]))
        out.append(a)
    return out


def random_acts(seed: int, n: int, length: int, high: bool, slow: bool) -> List[List[Dict[str, Any]]]:
    rnd = random.Random(seed)
    out = []
    inactive = 0 if high else 0xFF
    for t in range(n):
        acts = []
        kol = inactive
        with_read = (t % 3 == 0)
        no_release = (t % 2 == 1)      # half of the histories never let a key go (pure debounce / repeat / queue behaviour)
        down = set()
        for _ in range(length):
            r = rnd.random()
            if r < 0.12:
                up = [k for k in PALETTE if k not in down]
                if up:
                    k = rnd.choice(up)
                    down.add(k)
                    acts.append({"ev": "Press", "k": k})
            elif r < 0.145 and down and t % 4 == 2:
                # the host reports a key that is already held once more (host auto-repeat, a front end re-applying its key set
                # every step): not an input change - the key stays where it is in its debounce / repeat cycle
                acts.append({"ev": "Press", "k": rnd.choice(sorted(down))})
            elif r < 0.20:
                if down and not no_release:
                    k = rnd.choice(sorted(down))
                    down.discard(k)
                    acts.append({"ev": "Release", "k": k})
            elif r < 0.30:
                cols = rnd.choice([0x00, 0x01, 0x02, 0x03, 0x08, 0x0B, 0xFF])
                v = cols if high else (~cols & 0xFF)
                acts.append({"ev": "WriteKOL", "v": v})
            elif r < 0.34:
                cols = rnd.choice([0x00, 0x04, 0x0F])
                acts.append({"ev": "WriteKOH", "v": cols if high else (~cols & 0x0F)})
            elif r < 0.37:
                k = rnd.choice(PALETTE)
                rel = (rnd.random() < 0.4) and not no_release
                (down.discard if rel else down.add)(k)
                acts.append({"ev": "Inject", "k": k, "rel": rel})
            elif r < 0.40:
                acts.append({"ev": "Consume"})
            elif r < 0.46 and with_read:
                acts.append({"ev": "ReadKIL"})
            else:
                # bursts of ticks so that debounce / repeat delays are actually reached
                for _ in range(rnd.choice([1, 1, 2, 3, 7, 25] if slow else [1, 1, 2, 3, 4])):
                    acts.append({"ev": "Tick"})
        out.append(acts[: length * 3])
    return out


def burst_acts(seed: int, n: int, high: bool) -> List[List[Dict[str, Any]]]:
    """all columns strobed, nine to twelve keys go down between two scan ticks (and later up again together): one tick debounces
    them all and produces more events than the queue holds"""
    rnd = random.Random(seed)
    out = []
    for _ in range(n):
        keys = rnd.sample(PALETTE12, rnd.randint(9, 12))
        acts = [{"ev": "WriteKOL", "v": 0xFF if high else 0x00}, {"ev": "WriteKOH", "v": 0x0F if high else 0x00}]
        acts += [{"ev": "Press", "k": k} for k in keys]
        acts += [{"ev": "Tick"}] * rnd.randint(3, 9)
        if rnd.random() < 0.5:
            acts.append({"ev": "Consume"})
        acts += [{"ev": "Release", "k": k} for k in keys]
        acts += [{"ev": "Tick"}] * rnd.randint(3, 9)
        out.append(acts)
    return out


def flicker_acts(seed: int, n: int, high: bool) -> List[List[Dict[str, Any]]]:
    """a key stays physically held while its column is de-strobed in short, separate gaps (firmware scanning other columns)"""
    rnd = random.Random(seed)
    out = []
    for _ in range(n):
        k = rnd.choice(PALETTE)
        c = k >> 3
        reg = "WriteKOL" if c < 8 else "WriteKOH"
        col = 1 << (c if c < 8 else c - 8)
        full = 0xFF if c < 8 else 0x0F
        on = col if high else (~col & full)
        off = 0 if high else full
        acts = [{"ev": reg, "v": on}, {"ev": "Press", "k": k}] + [{"ev": "Tick"}] * rnd.randint(3, 8)
        for _g in range(rnd.randint(3, 9)):
            acts.append({"ev": reg, "v": off})
            acts += [{"ev": "Tick"}] * rnd.randint(1, 3)
            acts.append({"ev": reg, "v": on})
            acts += [{"ev": "Tick"}] * rnd.randint(1, 4)
        if rnd.random() < 0.5:
            acts.append({"ev": "Release", "k": k})
            acts += [{"ev": "Tick"}] * 8
        out.append(acts)
    return out


# ------------------------------------------------------------------ the matrix inside the machine: MachineKbd.tla

MK_CLAUSES = {"FifoBounded", "DropsOldestOnly", "KeyiGated", "EventOrder"}      # sentences of C14; PressHasCause is a composition clause


def _script_from_mk_acts(acts, code: int) -> List[Dict[str, Any]]:
    """a behaviour of MachineKbd.tla as a script for the real machines (machine_harness.run_script); the model's one key is `code`"""
    col = code >> 3
    out: List[Dict[str, Any]] = []
    for a in acts:
        a = dict(a)
        if a["ev"] == "TimerCfg":
            out.append({"ev": "TimerCfg", "pm": int(a["pm"]), "ps": int(a.get("ps", 0))})
        elif a["ev"] == "Key":
            out.append({"ev": "Key", "code": code, "press": bool(int(a["press"]))})
        elif a["ev"] == "Step":
            ins = dict(a["ins"])
            k = ins["k"]
            if k == "STROBE":
                out.append({"ev": "Step", "ins": {"k": "STROBE", "v": (1 << col) if int(ins["v"]) else 0}})
            elif k == "CLRISR":
                out.append({"ev": "Step", "ins": {"k": "CLRISR", "m": sorted(ins["m"])}})
            elif k == "SETIMR":
                out.append({"ev": "Step", "ins": {"k": "SETIMR", "v": int(ins["v"])}})
            elif k == "IDLE":
                out.append({"ev": "Step", "ins": {"k": "NOP"}})
            else:
                out.append({"ev": "Step", "ins": {"k": k}})
    return out


def random_mk_script(rnd: random.Random, length: int) -> List[Dict[str, Any]]:
    """keys of the first column pair going down and up under programs that strobe, mask, acknowledge, halt and return, with a fast main
    timer - long enough for debounce, repeats (24 + 6 scans), releases and a queue that fills up"""
    pm = rnd.choice([1, 1, 2, 3, 5])
    keys = rnd.choice([[0], [8], [0, 1], [0, 8, 9], [0, 1, 8, 9, 16]])
    out: List[Dict[str, Any]] = [{"ev": "TimerCfg", "pm": pm, "ps": rnd.choice([0, 0, 7])}]
    style = rnd.choice(["masked", "handlers", "fill", "sleepy"])
    out.append({"ev": "Step", "ins": {"k": "STROBE", "v": rnd.choice([0xFF, 0x01, 0x03])}})
    if style in ("handlers", "sleepy"):
        out.append({"ev": "Step", "ins": {"k": "SETIMR", "v": rnd.choice([0x84, 0x85, 0x8D])}})
    heldk: set = set()
    for _ in range(length):
        r = rnd.random()
        if r < 0.10:
            c = rnd.choice(keys)
            press = c not in heldk if rnd.random() < 0.9 else c in heldk       # mostly real changes, sometimes a redundant report
            (heldk.add if press else heldk.discard)(c)
            out.append({"ev": "Key", "code": c, "press": press})
            out.append({"ev": "Step", "ins": {"k": "NOP"}})
        elif r < 0.16:
            out.append({"ev": "Step", "ins": {"k": "STROBE", "v": rnd.choice([0x00, 0xFF, 0x01, 0x02, 0x03])}})
        elif r < 0.24 and style != "fill":
            out.append({"ev": "Step", "ins": {"k": "CLRISR", "m": [rnd.choice([2, 2, 0])]}})
        elif r < 0.30 and style in ("handlers", "sleepy"):
            out.append({"ev": "Step", "ins": {"k": "RETI"}})
        elif r < 0.34 and style in ("handlers", "sleepy", "masked"):
            out.append({"ev": "Step", "ins": {"k": "SETIMR", "v": rnd.choice([0x84, 0x85, 0x04, 0x00, 0x81, 0x8D])}})
        elif r < 0.38 and style == "sleepy":
            out.append({"ev": "Step", "ins": {"k": "HALT"}})
        else:
            out += [{"ev": "Step", "ins": {"k": "NOP"}}] * rnd.choice([1, 1, 2, 4, 9])
    return out


def _mk_drive(shard_id, items, extra):
    sys.path.insert(0, str(vlib.VERIF / "harness" / "py"))
    vlib.setup_repo_imports()
    import machine_harness as mh
    vh = Vh()
    events, meta = [], {}
    tid = shard_id * 10_000_000
    try:
        for k, script in enumerate(items):
            irq = (k % 4 != 3)            # every fourth script with keyboard interrupts switched off
            for impl in ("rs", "py"):
                tid += 1
                m = mh.RustMachine(vh, kb_irq=irq, press_th=2) if impl == "rs" else mh.PyMachine(kb_irq=irq, press_th=2)
                meta[tid] = {"impl": impl, "script": script, "kb_irq": irq}
                events.extend(mh.run_script(m, script, tid))
    finally:
        vh.close()
    return events, meta


def _mk_shape(b, meta) -> str:
    d = b["detail"]
    return f"Machine{b['clause']}:{meta['impl']}:{str(d[1]).lower()}"


def machine_keyboard(cr: CheckRun) -> None:
    """MachineKbd.tla: the matrix scanned by the machine itself (Python: after every instruction; Rust: on main-timer firings), the
    queue and the key-interrupt latch.  TLC checks the machine-level sentences of C14 under both disciplines; the model's behaviours
    and seeded scripts run on both whole machines and the recorded steps are judged by the same clauses (TraceMachineKbd.tla)."""
    quick = cr.tier == "quick"
    for name in ("instr", "mti", "instr_noirq", "mti_noirq") if quick else ("instr_t", "mti_t", "instr_noirq", "mti_noirq"):
        cfg = f"MCMachineKbd_{name}.cfg"
        res = run_tlc(SD, "MCMachineKbd", cfg, workers=vlib.NCPU, extra=["-coverage", "1"], tag="C14-" + cfg, timeout=3000, heap="8g")
        if res.invariant_violated:
            raise MachineryError(f"MachineKbd model ({name}) violates {res.invariant_violated}")
        tlc_expect_ok(res, cfg)
        cov = res.coverage_actions()
        for act in ("StepRun", "StepHalt", "Press", "Release"):
            if act in cov and cov[act][1] == 0:
                raise MachineryError(f"vacuity: {act} never taken (MachineKbd, {name})")
        cr.add_tlc(cfg, res)
    # (no exhaustive dump: with the recorded history every path is a state of its own - 12 GB at depth 7; behaviours come from -simulate)
    items: List[List[Dict[str, Any]]] = []
    sims, res = vlib.sim_behaviours(SD, "MCMachineKbd", "MCMachineKbd_sim.cfg", 300 if quick else 5000, 60, cr.seed, "C14mk", var="acts")
    if res.invariant_violated:
        raise MachineryError(f"MachineKbd model violates {res.invariant_violated} (simulate)")
    items += [_script_from_mk_acts(v, 8 if k % 2 else 0) for k, v in enumerate(sims) if len(v) >= 4]
    rnd = random.Random(cr.seed + 1414)
    items += [random_mk_script(rnd, 70) for _ in range(200 if quick else 4000)]
    ntr, nev, bad = vlib.trace_campaign("C14", SD, "TraceMachineKbd", "TraceMachineKbd.cfg", items, _mk_drive, "machine-keyboard")
    drift = 0
    for b, meta in bad:
        d = b["detail"]
        text = f"{meta['impl']} machine (kb_irq={meta['kb_irq']}): {b['clause']} fails at step {b['line']}: instr={d[1]} queue {list(d[0][0])} -> {list(d[0][1])} pre={dict(d[2])} post={dict(d[3])}"
        if b["clause"] in MK_CLAUSES:
            cr.violation(_mk_shape(b, meta), text, {"kind": "machine-keyboard", "impl": meta["impl"], "script": meta["script"], "kb_irq": meta["kb_irq"],
                                                   "clause": b["clause"], "line": b["line"]})
        else:
            drift += 1
            if drift <= 3:
                print(f"DRIFT property=C14 action=machine-keyboard {text[:300]}")
    cr.cov["model_drift"] = cr.cov.get("model_drift", 0) + drift
    cr.cov["traces_validated_against_impl"] += ntr
    cr.cov["evaluations"] += nev
    cr.cov.setdefault("campaigns", []).append({"name": "machine-keyboard", "traces": ntr, "events": nev, "rejected_steps": len(bad), "drift": drift})
    cr.add_sample({"campaign": "machine-keyboard", "script": items[len(items) // 2][:14]})
    cr.mark("machine-keyboard")


def run(cr: CheckRun) -> None:
    vlib.setup_repo_imports()
    vlib.build_vh()
    quick = cr.tier == "quick"
    cfg = "MCKeyboard_quick.cfg" if quick else "MCKeyboard_thorough.cfg"
    res = run_tlc(SD, "MCKeyboard", cfg, workers=vlib.NCPU, extra=["-coverage", "1"], tag="C14-" + cfg, timeout=3400, heap="12g")
    if res.invariant_violated:
        raise MachineryError(f"Keyboard model violates {res.invariant_violated}")
    tlc_expect_ok(res, cfg)
    cov = res.coverage_actions()
    for act in ("Press", "Release", "WriteKOL", "ScanTick", "ReadKIL", "Inject", "Consume"):
        if act in cov and cov[act][1] == 0:
            raise MachineryError(f"vacuity: {act} never taken")
    cr.add_tlc(cfg, res)
    res2 = run_tlc(SD, "MCKeyboard", "MCKeyboard_low.cfg", workers=vlib.NCPU, tag="C14-low", timeout=3400, heap="12g")
    if res2.invariant_violated:
        raise MachineryError(f"Keyboard model (active-low) violates {res2.invariant_violated}")
    tlc_expect_ok(res2, "active-low")
    cr.add_tlc("MCKeyboard_low.cfg", res2)
    cr.mark("tlc")
    # spec -> code: exhaustive behaviours of the small recorded model on Python (same constants), both polarities
    vals, res = vlib.dump_behaviours(SD, "MCKeyboard", "MCKeyboard_replay.cfg", "C14", var="acts", coverage=False)
    tlc_expect_ok(res, "replay")
    cr.add_tlc("replay-model", res)
    items = [_acts(v) for v in vals if len(v) >= 2]
    if quick:
        items = items[:: max(1, len(items) // 8000)]
    campaign(cr, "py-small-high", items, "exhaustive-replay")
    cr.mark("exhaustive-replay")
    sims, res = vlib.sim_behaviours(SD, "MCKeyboard", "MCKeyboard_sim.cfg", 200 if quick else 2000, 60, cr.seed, "C14", var="acts")
    sitems = [_acts(v) for v in sims if len(v) >= 2]
    campaign(cr, "py-small-high", sitems, "simulate")
    simsr, res = vlib.sim_behaviours(SD, "MCKeyboard", "MCKeyboard_simrs.cfg", 150 if quick else 1500, 120, cr.seed + 1, "C14", var="acts")
    ritems = [_acts(v) for v in simsr if len(v) >= 2]
    campaign(cr, "rs-press2-high", ritems, "simulate")
    cr.mark("simulate")
    # code -> spec: seeded random histories on every configuration
    n = 150 if quick else 2500
    for cfgname, (impl, p, r, d, i, cap, high) in CONFIGS.items():
        if cfgname.endswith("-burst"):
            campaign(cr, cfgname, burst_acts(cr.seed + 5, 24 if quick else 400, high), "burst")
            continue
        slow = d >= 24
        campaign(cr, cfgname, random_acts(cr.seed + len(cfgname), n, 40 if not slow else 60, high, slow), "random")
    for cfgname in ("rs-norepeat-high", "rs-press2-high", "py-small-high", "py-norepeat-high", "py-norepeat-low"):
        campaign(cr, cfgname, flicker_acts(cr.seed + 77, 60 if quick else 800, CONFIGS[cfgname][6]), "flicker")
    cr.mark("random")
    machine_keyboard(cr)
    cr.cov["distinct_nontrivial"] = len({json.dumps(b, sort_keys=True) for b in items + sitems + ritems}) + n * len(CONFIGS)
    cr.cov["rule"] = "distinct input histories (press/release/strobe/tick/read/inject/consume) executed on the real keyboard objects"
    cr.cov["trusted_base"] = ["vh harness (kbd.rs)", "Python driver wraps KeyboardMatrix.scan_tick to observe its returned events", "TLC"]
    cr.assumptions += [
        "thresholds: Python constructor arguments; Rust only the press threshold is settable (release 6, delay 24, interval 6 are its constants)",
        "capacity = events the queue can hold: 7 in Python (one slot of the 8-entry ring is kept free), 8 in Rust - both legal",
        "a KIL read scans first (both implementations); on Rust it also consumes the queue, so Rust traces containing KIL reads carry only the KIL, queue-bound and KEYI clauses",
        "a physical re-press restarts the repeat cadence; draining the queue (Consume) is the firmware's doing, not a drop",
    ]


def replay(path: str) -> int:
    vlib.setup_repo_imports()
    vlib.build_vh()
    rec = json.loads(Path(path).read_text())["replay"]
    vh = Vh()
    try:
        ev = drive_one(rec["cfg"], rec["acts"], vh, 1, rec.get("kb_irq", True))
    finally:
        vh.close()
    bad = vlib.tlc_judge_trace("C14", SD, "TKeys12" if rec["cfg"].endswith("-burst") else "TKeys", write_cfg(rec["cfg"]), ev, "replay")
    for b in bad:
        print("REJECTED", b)
    return 1 if any(b["clause"] in PROPERTY_CLAUSES for b in bad) else 0


def selftest(seed: int) -> int:
    vlib.setup_repo_imports()
    vlib.build_vh()
    acts = [{"ev": "WriteKOL", "v": 1}, {"ev": "Press", "k": 0}, {"ev": "Tick"}, {"ev": "Tick"}, {"ev": "ReadKIL"}, {"ev": "Tick"}, {"ev": "Tick"}, {"ev": "Tick"},
            {"ev": "Release", "k": 0}, {"ev": "Tick"}, {"ev": "Tick"}, {"ev": "Tick"}]
    vh = Vh()
    try:
        ev = drive_one("py-small-high", acts, vh, 1)
    finally:
        vh.close()
    cfg = write_cfg("py-small-high")
    ok = True
    if vlib.tlc_judge_trace("C14", SD, "TKeys", cfg, ev, "self0"):
        print("selftest: pristine trace rejected", vlib.tlc_judge_trace("C14", SD, "TKeys", cfg, ev, "self0")); ok = False
    bad = json.loads(json.dumps(ev))
    [e for e in bad if e["ev"] == "ReadKIL"][0]["ret"] = 3  # KIL shows a row nobody holds (the position of the read depends on the driver's preamble)
    if not any(b["clause"] == "KilSound" for b in vlib.tlc_judge_trace("C14", SD, "TKeys", cfg, bad, "self1")):
        print("selftest: phantom KIL row accepted"); ok = False
    dropped = [e for e in ev if not (e["ev"] == "Tick" and e["events"] and e["events"][0][1] == 1)]
    if len(dropped) == len(ev) or not vlib.tlc_judge_trace("C14", SD, "TKeys", cfg, dropped, "self2"):
        print("selftest: missing release event accepted"); ok = False
    # the matrix inside the machine: a recorded run of each whole machine is accepted; three corruptions of it are rejected at the
    # clause they contradict
    sys.path.insert(0, str(vlib.VERIF / "harness" / "py"))
    import machine_harness as mh
    script = ([{"ev": "TimerCfg", "pm": 1, "ps": 0}, {"ev": "Step", "ins": {"k": "STROBE", "v": 0xFF}}, {"ev": "Key", "code": 0, "press": True}]
              + [{"ev": "Step", "ins": {"k": "NOP"}}] * 8 + [{"ev": "Key", "code": 0, "press": False}] + [{"ev": "Step", "ins": {"k": "NOP"}}] * 10)
    vh = Vh()
    try:
        for impl in ("rs", "py"):
            m = mh.RustMachine(vh, kb_irq=False, press_th=2) if impl == "rs" else mh.PyMachine(kb_irq=False, press_th=2)
            mev = mh.run_script(m, script, 1)
            if vlib.tlc_judge_trace("C14", SD, "TraceMachineKbd", "TraceMachineKbd.cfg", mev, f"selfm0{impl}"):
                print(f"selftest: pristine {impl} machine trace rejected"); ok = False
            grew = [i for i, e in enumerate(mev) if e["ev"] == "Step" and len(e["post"]["kf"]) > len(e["pre"]["kf"])]
            if not grew:
                print(f"selftest: no key event reached the {impl} machine's queue"); ok = False
                continue
            i = grew[0]
            b1 = json.loads(json.dumps(mev))
            b1[i]["post"]["isr"] |= 4             # the key request raised although keyboard interrupts are off
            if not any(b["clause"] == "KeyiGated" for b in vlib.tlc_judge_trace("C14", SD, "TraceMachineKbd", "TraceMachineKbd.cfg", b1, f"selfm1{impl}")):
                print(f"selftest: KEYI with keyboard interrupts off accepted ({impl})"); ok = False
            b2 = json.loads(json.dumps(mev))
            b2[i]["post"]["kf"] = [0x80 | 5] + list(b2[i]["post"]["kf"])      # a release event of a key that never went down, ahead of the queue
            if impl == "py":
                b2[i]["kev"] = [0x80 | 5] + list(b2[i]["kev"])
            if not any(b["clause"] in ("EventOrder", "DropsOldestOnly") for b in vlib.tlc_judge_trace("C14", SD, "TraceMachineKbd", "TraceMachineKbd.cfg", b2, f"selfm2{impl}")):
                print(f"selftest: release without press accepted ({impl})"); ok = False
            b3 = json.loads(json.dumps(mev))
            b3[i]["post"]["kf"] = list(b3[i]["post"]["kf"]) + list(range(16, 26))      # more entries than the queue holds
            if impl == "py":
                b3[i]["kev"] = list(b3[i]["kev"]) + list(range(16, 26))
            if not any(b["clause"] == "FifoBounded" for b in vlib.tlc_judge_trace("C14", SD, "TraceMachineKbd", "TraceMachineKbd.cfg", b3, f"selfm3{impl}")):
                print(f"selftest: over-full queue accepted ({impl})"); ok = False
    finally:
        vh.close()
    print("selftest C14:", "ok" if ok else "FAILED")
    return 0 if ok else 2
