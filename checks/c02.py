"""C02 - encoding is the exact inverse of decoding on every accepted instruction.

spec/isa/SC62015Format.tla  reference format (Decode: fields incl. ignored bits)
spec/isa/JudgeEncode.tla    TLC judges every recorded decode -> encode -> decode round trip
"""
from __future__ import annotations

import json
import random
import sys
from pathlib import Path
from typing import Any, Dict, List

import vlib
from vlib import CheckRun, MachineryError, SPEC, run_tlc, tlc_expect_ok
from checks.c01 import PRE_BYTES, B2_CLASSES

LEVEL = "model_checking"
SD = SPEC / "isa"
OPERAND_PALETTE = [0x00, 0x07, 0x0F, 0x10, 0x7F, 0x80, 0xF0, 0xFF]


def base_strings(tier: str, seed: int) -> List[bytes]:
    """Structural part x operand bytes: every don't-care pattern of the mode byte comes with the full second-byte
    enumeration; bytes after it cycle through the palette (high nibble of 20-bit immediates, offsets) and seeded random."""
    rnd = random.Random(seed)
    out: List[bytes] = []

    def fills(n):
        fs = []
        for _ in range(n):
            m = rnd.random()
            if m < 0.5:
                fs.append(bytes(rnd.choice(OPERAND_PALETTE) for _ in range(5)))
            else:
                fs.append(bytes(rnd.randrange(256) for _ in range(5)))
        return fs

    # operand extremes (all ones, top of the address space with and without the ignored upper bits, all zeros) for every opcode
    extremes = [bytes([0xFF] * 6), bytes([0xFE, 0xFF, 0x0F, 0xFF, 0xFF, 0xFF]), bytes([0xFF, 0xFF, 0x0F, 0x00, 0x00, 0x00]), bytes(6),
                bytes([0xFF, 0xFF, 0xFF, 0x0F, 0xFF, 0xFF]), bytes([0x04, 0xFF, 0xFF, 0xFF, 0xFF, 0xFF]), bytes([0x00, 0xFF, 0xFF, 0xFF, 0x00, 0x00]),
                bytes([0x00, 0x00, 0xF0, 0x00, 0x00, 0xF0]), bytes([0x84, 0xFF, 0xFF, 0xFF, 0xFF, 0x0F])]
    for pre in (None, 0x32, 0x25):
        for op in range(256):
            for x in extremes:
                out.append(((bytes([op]) if pre is None else bytes([pre, op])) + x)[:7])
    pres = [None] + PRE_BYTES
    if tier == "quick":
        for op in range(256):
            for b2 in range(256):
                for f in fills(1):
                    out.append(bytes([op, b2]) + f)
        for pre in PRE_BYTES:
            for op in range(256):
                for b2 in B2_CLASSES:
                    out.append((bytes([pre, op, b2]) + fills(1)[0])[:7])
    else:
        for pre in pres:
            for op in range(256):
                for b2 in range(256):
                    for f in fills(2):
                        s = (bytes([op, b2]) if pre is None else bytes([pre, op, b2])) + f
                        out.append(s[:7])
    return out


def _job(arg):
    shard_id, items = arg
    sys.path.insert(0, str(vlib.VERIF / "harness" / "py"))
    vlib.setup_repo_imports()
    import decode_harness as dh
    recs = []
    for (rid, b) in items:
        r = dh.roundtrip(b, rid, 0x1000 if rid % 2 else 0xF0FFE)
        if r is not None:
            recs.append(r)
    if not recs:
        return 0, [], [], 0, []
    d = vlib.scratch("C02")
    tf = d / f"obs-{shard_id}.ndjson"
    vlib.write_ndjson(tf, [{k: v for k, v in r.items() if k not in ("text", "exc_name")} for r in recs])
    res = run_tlc(SD, "JudgeEncode", "JudgeEncode.cfg", workers=1, env={"TRACE_FILE": str(tf)}, tag=f"C02-judge-{shard_id}", jvm=["-Xss128m"], heap="3g", timeout=3000)
    verdict = None
    for v in res.printed():
        if isinstance(v, tuple) and v and v[0] == "JUDGE":
            verdict = v
    if verdict is None:
        raise MachineryError(f"JudgeEncode did not complete (shard {shard_id}):\n{res.out[-2000:]}")
    tf.unlink()
    byid = {r["id"]: r for r in recs}
    bad = [(str(x[1]), byid[int(x[0])]) for x in verdict[2]]
    drift = [(str(x[1]), byid[int(x[0])]["b"]) for x in list(verdict[3])[:50]]
    texts = {r["text"].split()[0] if r["text"] else "" for r in recs}
    return len(recs), bad[:2000], drift, len(verdict[3]), sorted(texts)


def _shape(rec) -> str:
    b = rec["b"]
    pre = b[0] in PRE_BYTES
    op = b[1] if pre else b[0]
    return f"op{op:02X}" + ("+pre" if pre else "")


def run(cr: CheckRun) -> None:
    vlib.setup_repo_imports()
    quick = cr.tier == "quick"
    res = run_tlc(SD, "MCFormat", "MCFormat_quick.cfg", workers=vlib.NCPU, tag="C02-MCFormat", timeout=3400, heap="8g")
    if res.invariant_violated:
        raise MachineryError(f"format specification violates {res.invariant_violated}")
    tlc_expect_ok(res, "MCFormat")
    cr.add_tlc("MCFormat(PrefixClosed,FusionAdds)", res)
    bases = base_strings(cr.tier, cr.seed)
    items = list(enumerate(bases, start=1))
    nsh = vlib.NCPU * (2 if quick else 8)
    results = vlib.pmap(_job, [(i, items[i::nsh]) for i in range(nsh)])
    n = 0
    mns = set()
    for r in results:
        n += r[0]
        mns |= set(r[4])
        for clause, rec in r[1]:
            cr.violation(f"{clause}:{_shape(rec)}", f"{clause}: bytes {bytes(rec['b']).hex()} len={rec['len']} re-encode={bytes(rec.get('reenc', [])).hex()} text={rec.get('text')!r} "
                         f"(len2={rec.get('len2')}, text_same={rec.get('text_same')}, il_same={rec.get('il_same')}, text_none={rec.get('text_none')}, exc={rec.get('exc_name')})",
                         {"bytes": rec["b"], "clause": clause, "record": rec})
        for clause, b in r[2][:3]:
            cr.add_drift(f"action=Decode clause={clause} bytes={bytes(b).hex()}")
    cr.cov["evaluations"] += len(bases)
    cr.cov["traces_validated_against_impl"] += n
    cr.cov["distinct_nontrivial"] = n
    cr.cov["rule"] = "distinct accepted byte strings (prefix x opcode x second byte x palette/random operand bytes) taken through decode -> encode -> decode, text and lifted IL compared"
    cr.cov["mnemonics_seen"] = len(mns)
    cr.cov["exhaustive"] = False
    cr.add_sample({"bytes": "326c0c", "meaning": "PRE32 + INC X with the ignored selector bit 3 set: must re-encode to the same three bytes"})
    cr.cov["trusted_base"] = ["harness/py/decode_harness.py", "TLC", "binja_test_mocks (mock LLIL used for the IL digest)"]
    cr.assumptions += ["operand bytes beyond the structural part are sampled (palette + seeded random), not enumerated"]


def replay(path: str) -> int:
    sys.path.insert(0, str(vlib.VERIF / "harness" / "py"))
    vlib.setup_repo_imports()
    import decode_harness as dh
    rec = json.loads(Path(path).read_text())["replay"]
    r = dh.roundtrip(bytes(rec["bytes"]), 1, 0x1000)
    print(r)
    if r is None:
        return 0
    bad = r["exc"] == 1 or r["reenc"] != r["b"][: r["len"]] or r["len2"] != r["len"] or not (r["text_same"] and r["il_same"] and r["reenc2_same"]) or r["text_none"] == 1
    return 1 if bad else 0


def selftest(seed: int) -> int:
    return 0
